import ChythonModel.Py.Wire
import ChythonModel.Py.IntSet
/-!
Line-protocol driver for C19: a request line is a whole program over set registers, ops separated by `;`.

  new r | add r k | discard r k | remove r k | pop r | clear r | has r k | iter r | state r
  updl r k…   (update from an iterable / set display / comprehension)      updd r k…  (update from a dict: one big resize first)
  upds r q    (update from the set in register q: set_merge)                copy r q   (r := q.copy() / set(q))
  dupl r k…   (difference_update with these keys)                          dups r q   (difference_update with register q; r = q clears)
  inter d a b | interTL d a k… (a & literal set) | interLT d b k… (literal set & b) | interIt d a k… (a.intersection(iterable))
  diff d a b  | diffTL d a k… (a − literal set/dict) | diffIt d a k… (a.difference(iterable))       union d a b
  dset r k | ddel r k | dpopitem r | dkeys r        (insertion-ordered dict registers, separate namespace)
Observations (`remove`, `pop`, `has`, `iter`, `state`, `ddel`, `dpopitem`, `dkeys`) are joined by ` | `.
`fail <n>` = the model could not run op number n (fuel / index out of range / unknown register); `bad <n>` = malformed op.
-/
open ChythonModel.Py ChythonModel.Py.IntSet

structure St where
  regs : List (Nat × IntSet) := []
  dicts : List (Nat × IntDict) := []
  out : Array String := #[]

def St.get (st : St) (r : Nat) : Option IntSet := (st.regs.find? (·.1 == r)).map (·.2)
def St.put (st : St) (r : Nat) (s : IntSet) : St :=
  { st with regs := (r, s) :: st.regs.filter (·.1 != r) }
def St.getD (st : St) (r : Nat) : IntDict := ((st.dicts.find? (·.1 == r)).map (·.2)).getD IntDict.empty
def St.putD (st : St) (r : Nat) (d : IntDict) : St :=
  { st with dicts := (r, d) :: st.dicts.filter (·.1 != r) }
def St.obs (st : St) (s : String) : St := { st with out := st.out.push s }

inductive Step where
  | ok (st : St)
  | fail
  | bad

def reg (i : Int) : Option Nat := if i < 0 then none else some i.toNat

def upd (st : St) (r : Int) (f : IntSet → Option IntSet) : Step :=
  match reg r with
  | none => .bad
  | some r => match st.get r with
    | none => .fail
    | some s => match f s with
      | none => .fail
      | some s' => .ok (st.put r s')

def mk (st : St) (d : Int) (v : Option IntSet) : Step :=
  match reg d, v with
  | some d, some s => .ok (st.put d s)
  | none, _ => .bad
  | _, none => .fail

def getI (st : St) (r : Int) : Option IntSet := (reg r).bind st.get

/-- single-register ops go through `IntSet.stepOp` — the function the refinement theorem of Props/C19 is about -/
def viaStep (st : St) (r : Int) (op : SetOp) : Step :=
  match reg r with
  | none => .bad
  | some r => match st.get r with
    | none => .fail
    | some s => match s.stepOp op with
      | none => .fail
      | some (s', .none) => .ok (st.put r s')
      | some (s', .popped k) => .ok ((st.put r s').obs (toString k))
      | some (s', .keyError) => .ok ((st.put r s').obs "KeyError")

def step (st : St) (op : String) (xs : List Int) : Step :=
  match op, xs with
  | "new", [r] => mk st r (some empty)
  | "add", [r, k] => viaStep st r (.add k)
  | "discard", [r, k] => viaStep st r (.discard k)
  | "remove", [r, k] =>
    match getI st r with
    | none => .fail
    | some s => match s.discard k with
      | none => .fail
      | some (s', found) => .ok ((st.put r.toNat s').obs (if found then "ok" else "KeyError"))
  | "pop", [r] => viaStep st r .pop
  | "clear", [r] => viaStep st r .clear
  | "has", [r, k] =>
    match getI st r with
    | none => .fail
    | some s => match s.contains k with
      | none => .fail
      | some b => .ok (st.obs (if b then "1" else "0"))
  | "iter", [r] =>
    match getI st r with
    | none => .fail
    | some s => .ok (st.obs ("[" ++ showInts s.toList ++ "]"))
  | "state", [r] =>
    match getI st r with
    | none => .fail
    | some s => .ok (st.obs s!"mask={s.mask} used={s.used}")
  | "updl", r :: ks => viaStep st r (.updateIter ks)
  | "updd", r :: ks => viaStep st r (.updateDict ks)
  | "upds", [r, q] =>
    match getI st q with
    | none => .fail
    | some o => if r = q then .ok st else upd st r (·.merge o)
  | "copy", [r, q] => mk st r ((getI st q).bind (·.copy))
  | "dupl", r :: ks => viaStep st r (.differenceUpdate ks)
  | "dups", [r, q] =>
    match getI st q with
    | none => .fail
    | some o => if r = q then upd st r (fun s => some s.clear) else upd st r (·.differenceUpdate o.toList)
  | "inter", [d, a, b] =>
    if a = b then mk st d ((getI st a).bind (·.copy))
    else match getI st a, getI st b with
      | some a, some b => mk st d (interSet a.view b.view)
      | _, _ => .fail
  | "interTL", d :: a :: ks => mk st d ((getI st a).bind fun a => interSet a.view (View.ofList ks))
  | "interLT", d :: b :: ks => mk st d ((getI st b).bind fun b => interSet (View.ofList ks) b.view)
  | "interIt", d :: a :: ks => mk st d ((getI st a).bind fun a => interIter a.view ks)
  | "diff", [d, a, b] =>
    match getI st a, getI st b with
    | some a, some b => mk st d (a.difference b.view true)
    | _, _ => .fail
  | "diffTL", d :: a :: ks => mk st d ((getI st a).bind fun a => a.difference (View.ofList ks) true)
  | "diffIt", d :: a :: ks => mk st d ((getI st a).bind fun a => a.difference (View.ofList ks) false)
  | "union", [d, a, b] =>
    if a = b then mk st d ((getI st a).bind (·.copy))     -- `set_or`: `if (so == other) return copy`
    else match getI st a, getI st b with
    | some a, some b => mk st d (a.union b)
    | _, _ => .fail
  | "dset", [r, k] => match reg r with
    | none => .bad
    | some r => .ok (st.putD r ((st.getD r).set k))
  | "ddel", [r, k] => match reg r with
    | none => .bad
    | some r => match (st.getD r).del k with
      | none => .ok (st.obs "KeyError")
      | some d => .ok ((st.putD r d).obs "ok")
  | "dpopitem", [r] => match reg r with
    | none => .bad
    | some r => match (st.getD r).popitem with
      | none => .ok (st.obs "KeyError")
      | some (k, d) => .ok ((st.putD r d).obs (toString k))
  | "dkeys", [r] => match reg r with
    | none => .bad
    | some r => .ok (st.obs ("[" ++ showInts (st.getD r).keys ++ "]"))
  | _, _ => .bad

def runOps : St → Nat → List String → String
  | st, _, [] => " | ".intercalate st.out.toList
  | st, n, o :: os =>
    match words o with
    | [] => runOps st n os
    | op :: ws =>
      match parseInts? ws with
      | none => s!"bad {n}"
      | some xs =>
        match step st op xs with
        | .ok st' => runOps st' (n + 1) os
        | .fail => s!"fail {n}"
        | .bad => s!"bad {n}"

def handle (line : String) : String := runOps {} 0 (line.splitOn ";")

def main : IO Unit := ChythonModel.Py.runDriver handle
