import ChythonModel.Py.Wire
import ChythonModel.Py.IntSetRegs
/-!
Line-protocol driver for C19: a request line is a whole program over set registers, ops separated by `;`.

  new r | add r k | discard r k | remove r k | pop r | clear r | has r k | iter r | state r
  updl r k…   (update from an iterable / set display / comprehension)      updd r k…  (update from a dict: one big resize first)
  upds r q    (update from the set in register q: set_merge)                copy r q   (r := q.copy() / set(q))
  dupl r k…   (difference_update with these keys)                          dups r q   (difference_update with register q; r = q clears)
  inter d a b | interTL d a k… (a & literal set) | interLT d b k… (literal set & b) | interIt d a k… (a.intersection(iterable))
  diff d a b  | diffTL d a k… (a − literal set/dict) | diffIt d a k… (a.difference(iterable))       union d a b
  dset r k | ddel r k | dpopitem r | dkeys r        (insertion-ordered dict registers, separate namespace)
Observations (`remove`, `pop`, `has`, `iter`, `state`, `ddel`, `dpopitem`, `dkeys`) are joined by ` | `.
`fail <n>` = the model could not run op number n (fuel / index out of range / unknown register); `bad <n>` = malformed op.
-/
open ChythonModel.Py ChythonModel.Py.IntSet

structure St where
  regs : Regs := []
  dicts : List (Nat × IntDict) := []
  out : Array String := #[]

def St.get (st : St) (r : Nat) : Option IntSet := st.regs.get r
def St.put (st : St) (r : Nat) (s : IntSet) : St := { st with regs := st.regs.put r s }
def St.getD (st : St) (r : Nat) : IntDict := ((st.dicts.find? (·.1 == r)).map (·.2)).getD IntDict.empty
def St.putD (st : St) (r : Nat) (d : IntDict) : St :=
  { st with dicts := (r, d) :: st.dicts.filter (·.1 != r) }
def St.obs (st : St) (s : String) : St := { st with out := st.out.push s }

inductive Step where
  | ok (st : St)
  | fail
  | bad

def reg (i : Int) : Option Nat := if i < 0 then none else some i.toNat

def getI (st : St) (r : Int) : Option IntSet := (reg r).bind st.get

/-- every op that writes a register goes through `ROp.run` — the function `set_program_step_refines` (Props/C19) is about;
single-register ops inside it through `IntSet.stepOp` -/
def viaROp (st : St) (op : ROp) : Step :=
  match op.run st.regs with
  | none => .fail
  | some (rs, .none) => .ok { st with regs := rs }
  | some (rs, .popped k) => .ok ({ st with regs := rs }.obs (toString k))
  | some (rs, .keyError) => .ok ({ st with regs := rs }.obs "KeyError")

def step (st : St) (op : String) (xs : List Int) : Step :=
  let r1 (xs : List Int) (f : Nat → ROp) : Step :=
    match xs with
    | [r] => match reg r with
      | some r => viaROp st (f r)
      | none => .bad
    | _ => .bad
  let r2 (a b : Int) (f : Nat → Nat → ROp) : Step :=
    match reg a, reg b with
    | some a, some b => viaROp st (f a b)
    | _, _ => .bad
  let r3 (a b c : Int) (f : Nat → Nat → Nat → ROp) : Step :=
    match reg a, reg b, reg c with
    | some a, some b, some c => viaROp st (f a b c)
    | _, _, _ => .bad
  match op, xs with
  | "new", [r] => r1 [r] .new
  | "add", [r, k] => r1 [r] (.step · (.add k))
  | "discard", [r, k] => r1 [r] (.step · (.discard k))
  | "remove", [r, k] =>
    match getI st r with
    | none => .fail
    | some s => match s.discard k with
      | none => .fail
      | some (s', found) => .ok ((st.put r.toNat s').obs (if found then "ok" else "KeyError"))
  | "pop", [r] => r1 [r] (.step · .pop)
  | "clear", [r] => r1 [r] (.step · .clear)
  | "has", [r, k] =>
    match getI st r with
    | none => .fail
    | some s => match s.contains k with
      | none => .fail
      | some b => .ok (st.obs (if b then "1" else "0"))
  | "iter", [r] =>
    match getI st r with
    | none => .fail
    | some s => .ok (st.obs ("[" ++ showInts s.toList ++ "]"))
  | "state", [r] =>
    match getI st r with
    | none => .fail
    | some s => .ok (st.obs s!"mask={s.mask} used={s.used}")
  | "updl", r :: ks => r1 [r] (.step · (.updateIter ks))
  | "updd", r :: ks => r1 [r] (.step · (.updateDict ks))
  | "upds", [r, q] => r2 r q .updateSet
  | "copy", [r, q] => r2 r q .copy
  | "dupl", r :: ks => r1 [r] (.step · (.differenceUpdate ks))
  | "dups", [r, q] => r2 r q .diffUpdateSet
  | "inter", [d, a, b] => r3 d a b .inter
  | "interTL", d :: a :: ks => r2 d a (.interTL · · ks)
  | "interLT", d :: b :: ks => r2 d b (.interLT · · ks)
  | "interIt", d :: a :: ks => r2 d a (.interIt · · ks)
  | "diff", [d, a, b] => r3 d a b .diff
  | "diffTL", d :: a :: ks => r2 d a (.diffTL · · ks)
  | "diffIt", d :: a :: ks => r2 d a (.diffIt · · ks)
  | "union", [d, a, b] => r3 d a b .union
  | "dset", [r, k] => match reg r with
    | none => .bad
    | some r => .ok (st.putD r ((st.getD r).set k))
  | "ddel", [r, k] => match reg r with
    | none => .bad
    | some r => match (st.getD r).del k with
      | none => .ok (st.obs "KeyError")
      | some d => .ok ((st.putD r d).obs "ok")
  | "dpopitem", [r] => match reg r with
    | none => .bad
    | some r => match (st.getD r).popitem with
      | none => .ok (st.obs "KeyError")
      | some (k, d) => .ok ((st.putD r d).obs (toString k))
  | "dkeys", [r] => match reg r with
    | none => .bad
    | some r => .ok (st.obs ("[" ++ showInts (st.getD r).keys ++ "]"))
  | _, _ => .bad

def runOps : St → Nat → List String → String
  | st, _, [] => " | ".intercalate st.out.toList
  | st, n, o :: os =>
    match words o with
    | [] => runOps st n os
    | op :: ws =>
      match parseInts? ws with
      | none => s!"bad {n}"
      | some xs =>
        match step st op xs with
        | .ok st' => runOps st' (n + 1) os
        | .fail => s!"fail {n}"
        | .bad => s!"bad {n}"

def handle (line : String) : String := runOps {} 0 (line.splitOn ";")

def main : IO Unit := ChythonModel.Py.runDriver handle
