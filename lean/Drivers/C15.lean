import ChythonModel.Model.C15Compose
import ChythonModel.Model.C15Read
import ChythonModel.Model.C15CgrTokens
import ChythonModel.Model.C15Hash
import ChythonModel.Model.C15Radicals
import ChythonModel.Model.C15Mapping
/-!
Line-protocol driver for C15. One request per line (ints only), one response line.

  compose      <mol r> <mol p>                         canonical CGR (atoms / bonds / centre sorted)
  composeWith  nl l.. nf f.. nc c.. <mol r> <mol p>    CGR in exact dict order for the given set iteration orders
  rxn          nR nA nP <mol>*                         canonical CGR of `ReactionContainer.compose` (+ centre)
  fmt          keep noCx nR nA nP (len cp.. ncomp nrad flag..)*   code points of `format(reaction, spec)`
  read         cp..                                    role strings of `smiles(text)` (reaction branch)
  atok         z iso charge pcharge rad prad           `CGRSmiles._format_atom`
  btok         order porder (0 = None)                 `CGRSmiles._format_bond`
  readrad      ignore ntext cp.. ntbl (len cp.. count)* role strings + `is_radical` flags after the CXSMILES radical stage of
                                                       `smiles(text)`; table = atom count of every `.`-piece (real parser)
  mapfix       remap ignore nR nP nA (len m..)*        `postprocess_parsed_reaction`: final atom numbers per role / molecule
  union        k <mol>*                                `reduce(or_, mols)` (`Graph.union(remap=True)`), exact dict order
-/
open ChythonModel.Py ChythonModel.Model ChythonModel.Model.C15

def optOrd : Option Nat → String
  | none => "0"
  | some o => toString o

def atomStr (na : Nat × DynAtom) : String :=
  s!"{na.1} {na.2.z} {na.2.isotope.getD 0} {na.2.charge} {na.2.pCharge} {if na.2.radical then 1 else 0} {if na.2.pRadical then 1 else 0}"

def sortNat (l : List Nat) : List Nat := l.mergeSort (fun a b => decide (a ≤ b))

/-- canonical: atoms by id, each bond once with n < m sorted, centre sorted -/
def canon (h : CGR) : String :=
  let atoms := h.atoms.mergeSort (fun a b => decide (a.1 ≤ b.1))
  let bonds := (h.adj.flatMap fun nl => nl.2.filterMap fun mb =>
      if nl.1 < mb.1 then some (nl.1, mb.1, mb.2) else none).mergeSort
      (fun a b => decide (a.1 < b.1 ∨ (a.1 = b.1 ∧ a.2.1 ≤ b.2.1)))
  let back := h.adj.all fun nl => nl.2.all fun mb => h.bond? mb.1 nl.1 == some mb.2
  "ok A " ++ toString atoms.length ++ " " ++ " ".intercalate (atoms.map atomStr) ++
  " B " ++ toString bonds.length ++ " " ++
    " ".intercalate (bonds.map fun t => s!"{t.1} {t.2.1} {optOrd t.2.2.order} {optOrd t.2.2.pOrder}") ++
  " C " ++ showNats (sortNat h.centerAtoms) ++ (if back then " sym" else " ASYM")

def exact (h : CGR) : String :=
  "ok A " ++ toString h.atoms.length ++ " " ++ " ".intercalate (h.atoms.map atomStr) ++
  " R " ++ " ".intercalate (h.adj.map fun nl => s!"{nl.1} {nl.2.length}" ++
      String.join (nl.2.map fun mb => s!" {mb.1} {optOrd mb.2.order} {optOrd mb.2.pOrder}"))

def takeNats (xs : List Int) : Option (List Nat × List Int) :=
  match xs with
  | k :: rest => if k < 0 ∨ rest.length < k.toNat then none
                 else some ((rest.take k.toNat).map Int.toNat, rest.drop k.toNat)
  | [] => none

def takeMols : Nat → List Int → Option (List Mol × List Int)
  | 0, xs => some ([], xs)
  | k+1, xs => do
      let (m, rest) ← Mol.parse xs
      let (ms, rest') ← takeMols k rest
      some (m :: ms, rest')

def showRes (f : CGR → String) : Except String CGR → String
  | .ok h => f h
  | .error e => "err " ++ e

def takeSigs : Nat → List Int → Option (List MolSig × List Int)
  | 0, xs => some ([], xs)
  | k+1, xs => do
      let (s, x1) ← takeNats xs
      match x1 with
      | nc :: x2 =>
        let (fl, x3) ← takeNats x2
        let (ms, x4) ← takeSigs k x3
        some (⟨s, nc.toNat, fl.map (· != 0)⟩ :: ms, x4)
      | [] => none

def showStrs (l : List Str) : String :=
  toString l.length ++ String.join (l.map fun s => " " ++ toString s.length ++ String.join (s.map fun c => " " ++ toString c))

def takeTbl : Nat → List Int → Option (List (Str × Nat) × List Int)
  | 0, xs => some ([], xs)
  | k+1, xs => do
      let (s, x1) ← takeNats xs
      match x1 with
      | n :: x2 =>
        let (t, x3) ← takeTbl k x2
        some ((s, n.toNat) :: t, x3)
      | [] => none

def takeLists : Nat → List Int → Option (List (List Nat) × List Int)
  | 0, xs => some ([], xs)
  | k+1, xs => do
      let (l, x1) ← takeNats xs
      let (ls, x2) ← takeLists k x1
      some (l :: ls, x2)

def showFlags (l : List (List Bool)) : String :=
  toString l.length ++ String.join (l.map fun fl => " " ++ toString fl.length ++
    String.join ((fl.zipIdx.filter (·.1)).map fun bi => " " ++ toString bi.2) ++ " ;")

def showLists (l : List (List Nat)) : String :=
  toString l.length ++ String.join (l.map fun m => " " ++ toString m.length ++ String.join (m.map fun x => " " ++ toString x))

def handle (line : String) : String :=
  match words line with
  | "readrad" :: rest =>
    match parseInts? rest with
    | some (ig :: xs) =>
      match (do let (t, x1) ← takeNats xs
                match x1 with
                | k :: x2 => if k < 0 then none else
                  let (tbl, x3) ← takeTbl k.toNat x2
                  some (t, tbl, x3)
                | [] => none) with
      | some (t, tbl, []) =>
        match readRxnRadOpt (ig != 0) (natomsOf tbl) t with
        | .molecule => "mol"
        | .error e => "err " ++ e
        | .roles r a p fr fa fp =>
          "ok R " ++ showStrs r ++ " A " ++ showStrs a ++ " P " ++ showStrs p ++
          " FR " ++ showFlags fr ++ " FA " ++ showFlags fa ++ " FP " ++ showFlags fp
      | _ => "bad readrad"
    | _ => "bad ints"
  | "union" :: rest =>
    match parseInts? rest with
    | some (k :: xs) =>
      if k < 0 then "bad counts" else
      match takeMols k.toNat xs with
      | some (ms, []) => if ms.all (·.WF) then "ok " ++ (unionAll ms).render else "bad wf"
      | _ => "bad mols"
    | _ => "bad ints"
  | "mapfix" :: rest =>
    match parseInts? rest with
    | some (rm :: ig :: nR :: nP :: nA :: xs) =>
      if nR < 0 ∨ nP < 0 ∨ nA < 0 then "bad counts" else
      match (do let (r, x1) ← takeLists nR.toNat xs; let (p, x2) ← takeLists nP.toNat x1
                let (a, x3) ← takeLists nA.toNat x2; some (r, p, a, x3)) with
      | some (r, p, a, []) =>
        match postprocessRxn (rm != 0) (ig != 0) r p a with
        | .ok o => "ok R " ++ showLists o.reactants ++ " P " ++ showLists o.products ++ " A " ++ showLists o.reagents
        | .error e => "err " ++ e
      | _ => "bad lists"
    | _ => "bad ints"
  | "compose" :: rest =>
    match parseInts? rest with
    | none => "bad ints"
    | some xs =>
      match takeMols 2 xs with
      | some ([r, p], []) => if r.WF && p.WF then showRes canon (compose r p) else "bad wf"
      | _ => "bad mols"
  | "composeWith" :: rest =>
    match parseInts? rest with
    | none => "bad ints"
    | some xs =>
      match (do let (ls, x1) ← takeNats xs; let (fs, x2) ← takeNats x1; let (cs, x3) ← takeNats x2
                let (ms, x4) ← takeMols 2 x3; some (ls, fs, cs, ms, x4)) with
      | some (ls, fs, cs, [r, p], []) =>
        if r.WF && p.WF then showRes exact (composeWith ls fs cs r p) else "bad wf"
      | _ => "bad mols"
  | "rxn" :: rest =>
    match parseInts? rest with
    | some (nR :: nA :: nP :: xs) =>
      if nR < 0 ∨ nA < 0 ∨ nP < 0 then "bad counts" else
      match (do let (rs, x1) ← takeMols nR.toNat xs; let (as, x2) ← takeMols nA.toNat x1
                let (ps, x3) ← takeMols nP.toNat x2; some (rs, as, ps, x3)) with
      | some (rs, as, ps, []) =>
        if (rs ++ as ++ ps).all (·.WF) then showRes canon (rxnCompose rs as ps) else "bad wf"
      | _ => "bad mols"
    | _ => "bad ints"
  | "fmt" :: rest =>
    match parseInts? rest with
    | some (keep :: nox :: nR :: nA :: nP :: xs) =>
      if nR < 0 ∨ nA < 0 ∨ nP < 0 then "bad counts" else
      match (do let (rs, x1) ← takeSigs nR.toNat xs; let (as, x2) ← takeSigs nA.toNat x1
                let (ps, x3) ← takeSigs nP.toNat x2; some (rs, as, ps, x3)) with
      | some (rs, as, ps, []) => "ok " ++ showNats (formatRxn (keep != 0) (nox != 0) rs as ps)
      | _ => "bad sigs"
    | _ => "bad ints"
  | "read" :: rest =>
    match parseInts? rest with
    | some xs =>
      match readRxn (xs.map Int.toNat) with
      | .molecule => "mol"
      | .error e => "err " ++ e
      | .roles r a p => "ok R " ++ showStrs r ++ " A " ++ showStrs a ++ " P " ++ showStrs p
    | none => "bad ints"
  | "atok" :: rest =>
    match parseInts? rest with
    | some [z, iso, ch, pch, rad, prad] =>
      match cgrAtomToken ⟨z.toNat, if iso ≤ 0 then none else some iso.toNat, ch, pch, rad != 0, prad != 0⟩ with
      | .ok s => "ok " ++ s
      | .error e => "err " ++ e
    | _ => "bad ints"
  | "btok" :: rest =>
    match parseInts? rest with
    | some [o, p] =>
      match cgrBondToken ⟨if o ≤ 0 then none else some o.toNat, if p ≤ 0 then none else some p.toNat⟩ with
      | .ok s => "ok " ++ s
      | .error e => "err " ++ e
    | _ => "bad ints"
  | "bhash" :: rest =>
    match parseInts? rest with
    | some [o, p] => toString (dynBondHash ⟨if o ≤ 0 then none else some o.toNat, if p ≤ 0 then none else some p.toNat⟩)
    | _ => "bad ints"
  | "ahash" :: rest =>
    match parseInts? rest with
    | some [z, iso, ch, pch, rad, prad] =>
      toString (dynAtomHash ⟨z.toNat, if iso ≤ 0 then none else some iso.toNat, ch, pch, rad != 0, prad != 0⟩)
    | _ => "bad ints"
  | _ => "bad op"

def main : IO Unit := runDriver handle
