import ChythonModel.Py.Wire
import ChythonModel.Model.Pack
import ChythonModel.Model.PackWF
import ChythonModel.Model.PackStereo
/-!
Line-protocol driver for C10 (requests and responses are flat int lists, see `harness/props/c10.py`).

  pack <mol>                        -> ok <bytes>            | err <kind>
  wf <mol>                          -> ok 1|0   (the executable format-limit test `wfb`, hypothesis of the theorems)
  cok <k> {n p q}*k <mol>           -> ok 1|0   (`centersOKb`: hypothesis of the stereo round-trip theorem)
  unpack <bytes>                    -> ok <decoded>          | err <kind>
  unpacka <k> {n p q}*k <bytes>     -> ok <decoded> after the cis/trans re-attachment with `centers`
  packlen <bytes>                   -> ok <n>
  unpach <bytes>                    -> ok 0 <decoded> (molecule) | ok 1 <nr> <decoded>* <ng> <decoded>* <np> <decoded>* (reaction)
  rpack <nr> <ng> <np> <mol>*       -> ok <bytes>
  runpack <bytes>                   -> ok <nr> <decoded>* <ng> <decoded>* <np> <decoded>*
  rpacklen <bytes>                  -> ok <nr> a* <ng> a* <np> a*
  perceive <mol>                    -> ok <perceived>        | err key|set-order|fuel
                                       (`cumulenes`, `stereogenic_cumulenes`, `_stereo_cis_trans_terminals`,
                                        `_stereo_cis_trans_centers`, `_stereo_allenes_terminals` of the model)
  packf <mol>                       -> ok <bytes>   (`packFull`: terminals from the model's own perception; the nterm part of <mol> is ignored)
  unpackf <bytes>                   -> ok <decoded> (`unpackFull`: decoder + perception of the decoded molecule + re-attachment)
  phyp <mol>                        -> ok t k d h (terminals of <mol> = perceived terminals; `marksOKb`; `keysDisjointb`; `noHyperDoubleb`)
  f16 <neg> <m> <e>                 -> ok <bits>
  f16d <bits>                       -> ok <neg> <m> <e>

 <mol>     = natoms {num z iso(0=None) stereo(-1|0|1) xneg xm xe yneg ym ye h(-1=None) charge radical deg {m order bstereo}*deg}*
             nterm {atom tn tm}*
 <perceived> = ncum {len atom*len}* nsg {len atom*len n1 m1 n2(-1=None) m2(-1=None)}* nterm {k tn tm}* ncent {k p q}*
             nall {c n m}*
 <decoded> = size natoms {num z iso(0=None) stereo xbits xneg xm xe ybits yneg ym ye h charge radical deg {m order bstereo}*deg}*
             nct {n m s}*
-/
open ChythonModel.Py ChythonModel.Model.Pack

namespace C10Driver

def parseNbrs : Nat → List Int → Option (List PNbr × List Int)
  | 0, rest => some ([], rest)
  | k + 1, m :: o :: s :: rest => do
      let (tl, rest') ← parseNbrs k rest
      some (⟨m.toNat, o.toNat, tri s⟩ :: tl, rest')
  | _, _ => none

def parseAtoms : Nat → List Int → Option (List PAtom × List Int)
  | 0, rest => some ([], rest)
  | k + 1, num :: z :: iso :: st :: xn :: xm :: xe :: yn :: ym :: ye :: h :: ch :: rad :: deg :: rest => do
      let (nb, rest1) ← parseNbrs deg.toNat rest
      let (tl, rest2) ← parseAtoms k rest1
      let a : PAtom := { num := num.toNat, z := z.toNat, iso := if iso == 0 then none else some iso, stereo := tri st,
                         x := toF16 ⟨xn != 0, xm.toNat, xe⟩, y := toF16 ⟨yn != 0, ym.toNat, ye⟩,
                         h := optNat h, charge := ch, radical := rad != 0, nbrs := nb }
      some (a :: tl, rest2)
  | _, _ => none

def parseTriples : Nat → List Int → Option (List (Nat × Nat × Nat) × List Int)
  | 0, rest => some ([], rest)
  | k + 1, a :: b :: c :: rest => do
      let (tl, rest') ← parseTriples k rest
      some ((a.toNat, b.toNat, c.toNat) :: tl, rest')
  | _, _ => none

def parseMol (xs : List Int) : Option (PMol × List Int) :=
  match xs with
  | n :: rest => do
      if n < 0 then none
      let (atoms, r1) ← parseAtoms n.toNat rest
      match r1 with
      | k :: r2 => do
          let (ts, r3) ← parseTriples k.toNat r2
          some (⟨atoms, ts⟩, r3)
      | [] => none
  | [] => none

def parseMols : Nat → List Int → Option (List PMol × List Int)
  | 0, rest => some ([], rest)
  | k + 1, xs => do
      let (m, r) ← parseMol xs
      let (tl, r') ← parseMols k r
      some (m :: tl, r')

def showOptInt : Option Int → String
  | none => "0" | some i => toString i

def showDy (d : Dy) : String := s!"{if d.neg then 1 else 0} {d.m} {d.e}"

def showAtom (a : PAtom) : String :=
  s!"{a.num} {a.z} {showOptInt a.iso} {showTri a.stereo} {a.x} {showDy (ofF16 a.x)} {a.y} {showDy (ofF16 a.y)} " ++
  s!"{showOptNat a.h} {a.charge} {if a.radical then 1 else 0} {a.nbrs.length}" ++
  String.join (a.nbrs.map fun nb => s!" {nb.m} {nb.order} {showTri nb.stereo}")

def showDecoded (d : Decoded) : String :=
  " ".intercalate ([toString d.size, toString d.atoms.length] ++ d.atoms.map showAtom ++ [toString d.cisTrans.length] ++
    d.cisTrans.map fun (n, m, s) => s!"{n} {m} {if s then 1 else 0}")

def showRes {α} (f : α → String) : Except PErr α → String
  | .ok a => "ok " ++ f a
  | .error e => "err " ++ e.toString

def showPath (p : List Nat) : String := " ".intercalate (toString p.length :: p.map toString)

def showTriples (l : List (Nat × Nat × Nat)) : String :=
  " ".intercalate (toString l.length :: l.map fun (a, b, c) => s!"{a} {b} {c}")

def showPerceived (p : Perceived) : String :=
  " ".intercalate ([toString p.cumulenes.length] ++ p.cumulenes.map showPath ++ [toString p.stereogenic.length] ++
    p.stereogenic.map (fun (path, n1, m1, n2, m2) => s!"{showPath path} {n1} {m1} {showOptNat n2} {showOptNat m2}") ++
    [showTriples p.terminals, showTriples p.centers, showTriples p.allenes])

def bytesOf (xs : List Int) : List Nat := xs.map Int.toNat

def showRoles {α} (f : α → String) (r : RxnRoles α) : String :=
  let part (l : List α) := " ".intercalate (toString l.length :: l.map f)
  s!"{part r.reactants} {part r.reagents} {part r.products}"

def handle (line : String) : String :=
  match words line with
  | [] => "err empty-request"
  | op :: args =>
    match parseInts? args with
    | none => "err parse"
    | some xs =>
      match op with
      | "pack" =>
        match parseMol xs with
        | some (m, []) => showRes showNats (encode m)
        | _ => "err parse"
      | "wf" =>
        match parseMol xs with
        | some (m, []) => if wfb m then "ok 1" else "ok 0"
        | _ => "err parse"
      | "cok" =>
        match xs with
        | k :: rest =>
          match parseTriples k.toNat rest with
          | some (cs, r2) =>
            match parseMol r2 with
            | some (m, []) => if centersOKb m cs then "ok 1" else "ok 0"
            | _ => "err parse"
          | none => "err parse"
        | [] => "err parse"
      | "perceive" =>
        match parseMol xs with
        | some (m, []) =>
          match perceive m.atoms with
          | .ok p => "ok " ++ showPerceived p
          | .error e => "err " ++ e.toString
        | _ => "err parse"
      | "packf" =>
        match parseMol xs with
        | some (m, []) =>
          match packFull m.atoms with
          | .ok b => "ok " ++ showNats b
          | .error e => "err " ++ e.toString
        | _ => "err parse"
      | "unpackf" =>
        match unpackFull (bytesOf xs) with
        | .ok d => "ok " ++ showDecoded d
        | .error e => "err " ++ e.toString
      | "phyp" =>
        match parseMol xs with
        | some (m, []) =>
          match perceive m.atoms with
          | .ok p =>
            let sp := p.stereogenic.map (·.1)
            let b (x : Bool) := if x then "1" else "0"
            s!"ok {b (m.terminals == p.terminals)} {b (marksOKb m.atoms sp)} {b (keysDisjointb sp)} {b (noHyperDoubleb m.atoms)}"
          | .error e => "err " ++ e.toString
        | _ => "err parse"
      | "unpack" => showRes showDecoded (decode (bytesOf xs))
      | "unpacka" =>
        match xs with
        | k :: rest =>
          match parseTriples k.toNat rest with
          | some (cs, bytes) =>
            showRes showDecoded ((decode (bytesOf bytes)).map fun d => { d with atoms := attach cs d.atoms d.cisTrans })
          | none => "err parse"
        | [] => "err parse"
      | "unpach" =>
        showRes (fun u => match u with
          | .mol d => "0 " ++ showDecoded d
          | .rxn r => "1 " ++ showRoles showDecoded r) (unpach (bytesOf xs))
      | "packlen" => showRes toString (packLen (bytesOf xs))
      | "rpack" =>
        match xs with
        | nr :: ng :: np :: rest =>
          match parseMols (nr + ng + np).toNat rest with
          | some (ms, []) =>
            let r := ms.take nr.toNat
            let g := (ms.drop nr.toNat).take ng.toNat
            let p := ms.drop (nr + ng).toNat
            showRes showNats (rxnEncode ⟨r, g, p⟩)
          | _ => "err parse"
        | _ => "err parse"
      | "runpack" => showRes (showRoles showDecoded) (rxnDecode (bytesOf xs))
      | "rpacklen" => showRes (showRoles toString) (rxnPackLen (bytesOf xs))
      | "f16" =>
        match xs with
        | [n, m, e] => s!"ok {toF16 ⟨n != 0, m.toNat, e⟩}"
        | _ => "err parse"
      | "f16d" =>
        match xs with
        | [b] => "ok " ++ showDy (ofF16 b.toNat)
        | _ => "err parse"
      | _ => "err unknown-op"

end C10Driver

def main : IO Unit := ChythonModel.Py.runDriver C10Driver.handle
