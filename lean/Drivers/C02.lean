import ChythonModel.Py.Wire
import ChythonModel.Model.C02ReRead
/-!
Line-protocol driver for C02.  All arguments are ints:

  `<op> <opts> <mol…> nW (atom weight)* nR (len atom*)* nF (child parent len atom*)* nD (atom draw)* nT (len atom env*)* nC (len n0 n1 n2+1 n3+1 path*)*`

  `W` → `format(mol, spec)` and `smiles_atoms_order`   : `ok <order,…>;<text>` | `err <kind>`
  `T` → tokens of the writer (`string` list), `|`-separated, then the lexer model's verdict on the joined text
  `R` → write, re-read with the reader model of C03, judge under the written order: `ok iso <text>` | `ok DIFF <what> <text>` | …
  `C` → structural checkers on the writer's intermediate results (spanning tree, closures, parentheses, numbers)
  `H` → closure-number allocator alone: `H n (k cycle*)*` → numbers per atom | `err crash:IndexError`
  `L` → the written body lexed and read by the positional reader `readL`: `ok n;i-j,…` (atom indices in reading order) — compared
        with the bonds of the real `smiles(text)`
  `D` → the DFS result of every round (`start;visited;tree;closure bonds`) — compared with the locals of the real
        `_smiles` frame captured after its DFS loop
-/
open ChythonModel.Py ChythonModel.Model ChythonModel.Model.SmilesWriter ChythonModel.Model.C02RT

def takeN {α} (n : Nat) (xs : List α) : Option (List α × List α) :=
  if xs.length < n then none else some (xs.take n, xs.drop n)

def parsePairs : Nat → List Int → Option (List (Int × Int) × List Int)
  | 0, xs => some ([], xs)
  | k + 1, a :: b :: xs => (parsePairs k xs).map fun (l, r) => ((a, b) :: l, r)
  | _, _ => none

def parseLists : Nat → List Int → Option (List (List Nat) × List Int)
  | 0, xs => some ([], xs)
  | k + 1, n :: xs => do
    let (l, r) ← takeN n.toNat xs
    let (ls, r') ← parseLists k r
    some (l.map Int.toNat :: ls, r')
  | _, _ => none

def parseFront : Nat → List Int → Option (List ((Nat × Nat) × List Nat) × List Int)
  | 0, xs => some ([], xs)
  | k + 1, c :: p :: n :: xs => do
    let (l, r) ← takeN n.toNat xs
    let (ls, r') ← parseFront k r
    some (((c.toNat, p.toNat), l.map Int.toNat) :: ls, r')
  | _, _ => none

def bit (x : Nat) (i : Nat) : Bool := (x >>> i) % 2 == 1

def optsOf (x : Nat) : Opts :=
  { asym := bit x 0, stereo := bit x 1, aromatic := bit x 2, mapping := bit x 3, hydrogens := bit x 4,
    bonds := bit x 5, charges := bit x 6, random := bit x 7, cx := bit x 8 }

def parseReq (xs : List Int) : Option (Opts × Mol × Env) := do
  match xs with
  | o :: rest =>
    let (m, r1) ← Mol.parse rest
    match r1 with
    | nW :: r2 =>
      let (ws, r3) ← parsePairs nW.toNat r2
      match r3 with
      | nR :: r4 =>
        let (so, r5) ← parseLists nR.toNat r4
        match r5 with
        | nF :: r6 =>
          let (fr, r7) ← parseFront nF.toNat r6
          match r7 with
          | nD :: r8 =>
            let (dr, r9) ← parsePairs nD.toNat r8
            match r9 with
            | nT :: r10 =>
              let (te, r11) ← parseLists nT.toNat r10     -- each: atom :: env
              match r11 with
              | nC :: r12 =>
                let (cu, r13) ← parseLists nC.toNat r12   -- each: n0 n1 n2+1 n3+1 (0 = None) :: path
                if !r13.isEmpty then none
                else
                  let tetra := te.filterMap fun l => match l with | n :: env => some (n, env) | [] => none
                  let cumul := cu.filterMap fun l => match l with
                    | n0 :: n1 :: n2 :: n3 :: path =>
                      some (path, ({ n0 := n0, n1 := n1, n2 := if n2 == 0 then none else some (n2 - 1),
                                     n3 := if n3 == 0 then none else some (n3 - 1) } : Stereo.Ends))
                    | _ => none
                  some (optsOf o.toNat, m,
                    { weights := ws.map fun p => (p.1.toNat, p.2), setOrders := so, front := fr,
                      draws := dr.map fun p => (p.1.toNat, p.2.toNat), tetra := tetra, cumul := cumul })
              | [] => none
            | [] => none
          | [] => none
        | [] => none
      | [] => none
    | [] => none
  | [] => none

def showWTok : WTok → String
  | .atom n a => s!"A{n}:" ++ strOf a.render
  | .bond s => "B" ++ strOf s
  | .closure c => s!"C{c}"
  | .lpar => "("
  | .rpar => ")"
  | .dot => "."

/-- DFS result of every round: `start;visited (discovery order);tree (parent>children in discovery order, parents sorted);
    closure bonds (sorted pairs)` — cycle ids and dict orders, which nothing observable depends on, are not shown -/
def showDfs (rs : List Round) : String :=
  " / ".intercalate (rs.map fun r =>
    s!"{r.start};" ++ ",".intercalate (r.visited.map toString) ++ ";" ++
    " ".intercalate ((sortByNat (fun (e : Nat × List Nat) => e.1) r.edges).map fun (p, cs) => s!"{p}>" ++ ",".intercalate (cs.map toString)) ++ ";" ++
    " ".intercalate ((sortPairs (r.tokens.flatMap fun (a, l) => l.filterMap fun (b, _) => if a < b then some (a, b) else none)).map
      fun (a, b) => s!"{a}-{b}"))

def parseH : Nat → List Int → Option (List (List Nat))
  | 0, [] => some []
  | 0, _ => none
  | k + 1, n :: xs => do
    let (l, r) ← takeN n.toNat xs
    let ls ← parseH k r
    some (l.map Int.toNat :: ls)
  | _, _ => none

/-- the allocator alone: atoms in string order, each with its cycle ids already sorted by partner position -/
def runHeap : List (List Nat) → List (Nat × Nat) → List Nat → Except Err (List (List Nat))
  | [], _, _ => .ok []
  | cyc :: tl, casted, heap =>
    match castOne cyc casted heap [] with
    | .error e => .error e
    | .ok (casted', heap', released) =>
      match runHeap tl casted' (pushAll heap' released) with
      | .error e => .error e
      | .ok r => .ok ((cyc.map fun c => (casted'.lookup c).getD 0) :: r)

def handle (line : String) : String :=
  match words line with
  | op :: args =>
    match parseInts? args with
    | none => "bad-request"
    | some xs =>
      if op == "H" then
        match xs with
        | n :: rest =>
          match parseH n.toNat rest with
          | none => "bad-request"
          | some ls =>
            match runHeap ls [] initialHeap with
            | .ok r => "ok " ++ ";".intercalate (r.map fun l => ",".intercalate (l.map toString))
            | .error e => "err " ++ e.name
        | [] => "bad-request"
      else
      match parseReq xs with
      | none => "bad-request"
      | some (opts, m, env) =>
        if op == "W" then
          match write m env opts with
          | .ok (text, order) => "ok " ++ ",".intercalate (order.map toString) ++ ";" ++ strOf text
          | .error e => "err " ++ e.name
        else if op == "T" then
          match smilesRounds m env opts with
          | .ok (rs, _) =>
            let toks := joinRounds rs
            "ok " ++ "|".intercalate (toks.map showWTok) ++ " ## " ++ lexVerdict toks
          | .error e => "err " ++ e.name
        else if op == "R" then roundTrip m env opts
        else if op == "C" then checkRun m env opts
        else if op == "L" then
          match smilesRounds m env opts with
          | .ok (rs, _) => "ok " ++ readBody (renderAll (joinRounds rs))
          | .error e => "err " ++ e.name
        else if op == "D" then
          match smilesRounds m env opts with
          | .ok (rs, _) => "ok " ++ showDfs rs
          | .error e => "err " ++ e.name
        else "bad-op"
  | [] => "bad-request"

def main : IO Unit := runDriver handle
