import ChythonModel.Model.C18Atom
import ChythonModel.Py.Wire
/-!
Line-protocol driver for C18 (tokens separated by blanks).

* `SYM <s>` / `NUM <n>`    → `<sym> <z>` | `none`            (`Element.from_symbol` / `from_atomic_number`)
* `HIST <sym> <iso> <charge> <rad> <op>*` → `new:ok|new:<Error>` then one token per op and `state=<iso|N>,<charge>,<0|1>`
    values: `N` None, `I<int>`, `T`/`F` bool, `X` any other type;
    ops: `i:<val>` isotope=, `c:<val>` charge=, `r:<val>` is_radical=, `m` read atomic_mass, `k` copy, `v:<n>` valence_rules(n)
    observations: `ok` | `<Error>` | `m=<mass·10¹²>` | `m=KeyError` | `v=-` (ValenceError) | `v=<rule>|<rule>…` with
    `<rule>` = `h;o.z.cnt,…` (dict order)
* `BITS <sym> <iso|N> <charge> <0|1> <h|N> <nb> <het> <qiso|N> <qcharge> <0|1> <qh|N>` →
    `<bits3|E:err> <mask3|E:err> <accelerated 0|1|-> <reference 0|1> <documented 0|1>`
-/
open ChythonModel.Model ChythonModel.Model.C18 ChythonModel.Py ChythonModel.Gen

def parseVal (s : String) : Option PyVal :=
  if s == "N" then some .none
  else if s == "T" then some (.bool true)
  else if s == "F" then some (.bool false)
  else if s == "X" then some .other
  else if s.startsWith "I" then (parseInt? (s.drop 1).toString).map .int
  else none

def parseOp (s : String) : Option Op :=
  if s == "m" then some .read
  else if s == "k" then some .copy
  else if s.startsWith "i:" then (parseVal (s.drop 2).toString).map .iso
  else if s.startsWith "c:" then (parseVal (s.drop 2).toString).map .charge
  else if s.startsWith "r:" then (parseVal (s.drop 2).toString).map .rad
  else if s.startsWith "v:" then (parseInt? (s.drop 2).toString).map fun i => .rules i.toNat
  else none

def showRule (r : Valence.Rule) : String :=
  s!"{r.h};" ++ ",".intercalate (r.dict.map fun ((o, z), c) => s!"{o}.{z}.{c}")

def showObs : Obs → String
  | .done => "ok"
  | .raised e => e.name
  | .mass (.ok m) => s!"m={m}"
  | .mass (.error e) => s!"m={e.name}"
  | .rules none => "v=-"
  | .rules (some rs) => "v=" ++ "|".intercalate (rs.map showRule)

def showState (o : Obj) : String :=
  s!"state={match o.isotope with | none => "N" | some i => toString i},{o.charge},{if o.radical then 1 else 0}"

def optNatTok (s : String) : Option (Option Nat) :=
  if s == "N" then some none else (parseInt? s).map fun i => some i.toNat

def showEnc : Except Bits.EncErr Nat → String
  | .ok v => toString v
  | .error e => s!"E:{e.name}"

def handle (line : String) : String :=
  match words line with
  | ["SYM"] => match fromSymbol "" with | some r => s!"{r.sym} {r.z}" | none => "none"
  | ["SYM", s] => match fromSymbol s with | some r => s!"{r.sym} {r.z}" | none => "none"
  | ["NUM", n] =>
    match parseInt? n with
    | some i => if i < 0 then "none" else match fromNumber i.toNat with | some r => s!"{r.sym} {r.z}" | none => "none"
    | none => "bad-request"
  | "HIST" :: sym :: iso :: c :: rad :: ops =>
    match fromSymbol sym, parseVal iso, parseVal c, parseVal rad, ops.mapM parseOp with
    | some r, some iso, some c, some rad, some ops =>
      match new r iso c rad with
      | .error e => s!"new:{e.name}"
      | .ok o =>
        let p := run r o ops
        " ".intercalate ("new:ok" :: p.2.map showObs ++ [showState p.1])
    | none, _, _, _, _ => "noelem"
    | _, _, _, _, _ => "bad-request"
  | ["BITS", sym, iso, c, rad, h, nb, het, qiso, qc, qrad, qh] =>
    match fromSymbol sym, optNatTok iso, parseInt? c, optNatTok h, parseInt? nb, parseInt? het, optNatTok qiso, parseInt? qc, optNatTok qh with
    | some r, some iso, some c, some h, some nb, some het, some qiso, some qc, some qh =>
      let o : Obj := ⟨iso, c, rad == "1"⟩
      let q : Obj := ⟨qiso, qc, qrad == "1"⟩
      let acc := match accelFound r q qh o h nb.toNat het.toNat with | some true => "1" | some false => "0" | none => "-"
      let b (x : Bool) := if x then "1" else "0"
      s!"{showEnc (molV3 r o h nb.toNat het.toNat)} {showEnc (queryV3 r q qh)} {acc} {b (pyFound r q qh o h nb.toNat het.toNat)} {b (selects q qh o h)}"
    | none, _, _, _, _, _, _, _, _ => "noelem"
    | _, _, _, _, _, _, _, _, _ => "bad-request"
  | _ => "bad-request"

def main : IO Unit := runDriver handle
