import ChythonModel.Py.Wire
import ChythonModel.Model.Stereo
import ChythonModel.Model.StereoParse
import ChythonModel.Model.StereoFix
import ChythonModel.Model.StereoDiff
/-!
Line-protocol driver for C12. Every request is `<op> <int> …`; lists are length-prefixed; `-1` = `None`.

  tt  <order> <env> <Hatoms> stored s                        _translate_tetrahedron_sign
  ct  k (n m n0 n1 n2 n3)^k <Hatoms> n m nn nm stored s       _translate_cis_trans_sign
  al  has n0 n1 n2 n3 <Hatoms> nn nm stored s                 _translate_allene_sign
  pyr 12 ints | cts 8 ints | als mark 6 ints                  geometric sign functions
  wt  <order> <adj> <Hatoms> stored implH isFirst             writer mark of a tetrahedron ('@' = 1)
  rt  <order> <env> <Hatoms> isStart implH mark                    label stored by the reader for a tetrahedron
  wa  n0 n1 n2 n3 <adj1> <adj2> <Hatoms> stored               writer mark of an allene
  ra  n0 n1 n2 n3 <ord1> <ord2> <Hatoms> mark                 label stored by the reader for an allene
  po strong tokens… / rct stereo_bonds counterpart            parser bookkeeping; direction marks → add_cis_trans_stereo calls
  aw / awh / ws                                               add_wedge (heavy / hydrogen target), __wedge_sign
  rdb endsDistinct shareRing <ringSizes>                      double bond reported as stereogenic (chiral_cis_trans)
  df  n0 n1 n2 n3 (has class)^4 <Hatoms> stored               reference pair + mark computed by __differentiation for one unit
  fx  nA (n stereo tetra allene)^nA nB (n m order stereo tn tn' tm tm')^nB nT (k (kind a b s)^k j (kind a b)^j)^nT   fix_stereo
Response: `ok <value>` or `err <PythonExceptionName>`; `bad` for a malformed request line.
-/
open ChythonModel.Py ChythonModel.Model.Stereo
open ChythonModel.Model.StereoParse (Tok)

/-- tokens on the wire: `0 arom stereo` atom, `1 o` bond, `9 up` direction bond, `4` dot, `2` `(`, `3` `)`, `6 n` ring number -/
def parseToks : List Int → Option (List Tok)
  | [] => some []
  | 0 :: ar :: st :: r => (parseToks r).map (Tok.atom (ar != 0) (tri st) :: ·)
  | 1 :: o :: r => (parseToks r).map (Tok.bond o.toNat :: ·)
  | 9 :: u :: r => (parseToks r).map (Tok.dir (u != 0) :: ·)
  | 4 :: r => (parseToks r).map (Tok.dot :: ·)
  | 2 :: r => (parseToks r).map (Tok.lpar :: ·)
  | 3 :: r => (parseToks r).map (Tok.rpar :: ·)
  | 6 :: n :: r => (parseToks r).map (Tok.ring n.toNat :: ·)
  | _ => none

def showOptN : Option Nat → String
  | some n => toString n
  | none => "N"

def showParse (s : ChythonModel.Model.StereoParse.St) : String :=
  let bonds := " ".intercalate (s.bonds.map fun (a, b, _) => s!"{a}-{b}")
  let order := " ".intercalate (s.order.map fun l => "[" ++ ",".intercalate (l.map showOptN) ++ "]")
  let sa := " ".intercalate (s.stereoAtoms.map fun (i, m) => s!"{i}:{if m then 1 else 0}")
  let sb := " ".intercalate (s.stereoBonds.map fun (a, l) =>
    s!"{a}>" ++ ",".intercalate (l.map fun (b, v) => s!"{b}:{if v then 1 else 0}"))
  let st := ",".intercalate (s.starts.map toString)
  s!"ok n={s.nAtoms} | {bonds} | {order} | {sa} | {sb} | {st}"

def takeList : List Int → Option (List Nat × List Int)
  | k :: rest =>
    if k < 0 then none
    else
      let n := k.toNat
      if rest.length < n then none
      else some ((rest.take n).map Int.toNat, rest.drop n)
  | [] => none

def hFun (hs : List Nat) : Nat → Bool := fun x => hs.contains x

def showRes : Except PyErr Bool → String
  | .ok true => "ok 1"
  | .ok false => "ok 0"
  | .error e => "err " ++ e.name

def optNatI (i : Int) : Option Nat := if i < 0 then none else some i.toNat

def endsOf (n0 n1 n2 n3 : Int) : Ends := ⟨n0.toNat, n1.toNat, optNatI n2, optNatI n3⟩

def parseSct : Nat → List Int → Option (List ((Nat × Nat) × Ends) × List Int)
  | 0, rest => some ([], rest)
  | k+1, n :: m :: n0 :: n1 :: n2 :: n3 :: rest => do
    let (tl, rest') ← parseSct k rest
    some (((n.toNat, m.toNat), endsOf n0 n1 n2 n3) :: tl, rest')
  | _, _ => none

def parseTh : Nat → List Int → Option (List (Nat × V2) × List Int)
  | 0, rest => some ([], rest)
  | k+1, i :: x :: y :: rest => do
    let (tl, rest') ← parseTh k rest
    some ((i.toNat, (x, y)) :: tl, rest')
  | _, _ => none

def parseInner : Nat → List Int → Option (List (Nat × Bool) × List Int)
  | 0, rest => some ([], rest)
  | k+1, b :: v :: rest => do
    let (tl, rest') ← parseInner k rest
    some ((b.toNat, v != 0) :: tl, rest')
  | _, _ => none

def parseSB : Nat → List Int → Option (ChythonModel.Model.StereoParse.SB × List Int)
  | 0, rest => some ([], rest)
  | k+1, a :: j :: rest => do
    if j < 0 then none
    let (inner, rest1) ← parseInner j.toNat rest
    let (tl, rest2) ← parseSB k rest1
    some ((a.toNat, inner) :: tl, rest2)
  | _, _ => none

def parsePairs : Nat → List Int → Option (List (Nat × Nat) × List Int)
  | 0, rest => some ([], rest)
  | k+1, a :: b :: rest => do
    let (tl, rest') ← parsePairs k rest
    some ((a.toNat, b.toNat) :: tl, rest')
  | _, _ => none

def showOpt : Except PyErr (Option Bool) → String
  | .ok (some true) => "ok 1"
  | .ok (some false) => "ok 0"
  | .ok none => "ok none"
  | .error e => "err " ++ e.name

/-! `fx`: fix_stereo with the oracle given as a table -/
open ChythonModel.Model.StereoFix in
def kindOf (i : Int) : Kind := if i == 0 then .tetra else if i == 1 then .allene else .cisTrans
open ChythonModel.Model.StereoFix in
def kindNo : Kind → Nat
  | .tetra => 0 | .allene => 1 | .cisTrans => 2
def optPair (a b : Int) : Option (Nat × Nat) := if a < 0 then none else some (a.toNat, b.toNat)

open ChythonModel.Model.StereoFix in
def parseFxAtoms : Nat → List Int → Option (List AtomIn × List Int)
  | 0, rest => some ([], rest)
  | k+1, n :: st :: t :: al :: rest => do
    let (tl, rest') ← parseFxAtoms k rest
    some (⟨n.toNat, tri st, t != 0, al != 0⟩ :: tl, rest')
  | _, _ => none

open ChythonModel.Model.StereoFix in
def parseFxBonds : Nat → List Int → Option (List BondIn × List Int)
  | 0, rest => some ([], rest)
  | k+1, n :: m :: o :: st :: a :: b :: c :: d :: rest => do
    let (tl, rest') ← parseFxBonds k rest
    some (⟨n.toNat, m.toNat, o.toNat, tri st, optPair a b, optPair c d⟩ :: tl, rest')
  | _, _ => none

open ChythonModel.Model.StereoFix in
def parseFxLabels : Nat → List Int → Option (List Label × List Int)
  | 0, rest => some ([], rest)
  | k+1, kd :: a :: b :: sg :: rest => do
    let (tl, rest') ← parseFxLabels k rest
    some ((⟨kindOf kd, a.toNat, b.toNat⟩, sg != 0) :: tl, rest')
  | _, _ => none

open ChythonModel.Model.StereoFix in
def parseFxUnits : Nat → List Int → Option (List SUnit × List Int)
  | 0, rest => some ([], rest)
  | k+1, kd :: a :: b :: rest => do
    let (tl, rest') ← parseFxUnits k rest
    some (⟨kindOf kd, a.toNat, b.toNat⟩ :: tl, rest')
  | _, _ => none

open ChythonModel.Model.StereoFix in
def parseFxTable : Nat → List Int → Option (List (List Label × List SUnit) × List Int)
  | 0, rest => some ([], rest)
  | k+1, nl :: rest => do
    if nl < 0 then none
    let (ls, r1) ← parseFxLabels nl.toNat rest
    match r1 with
    | nu :: r2 =>
      if nu < 0 then none
      let (us, r3) ← parseFxUnits nu.toNat r2
      let (tl, r4) ← parseFxTable k r3
      some ((ls, us) :: tl, r4)
    | [] => none
  | _, _ => none

open ChythonModel.Model.StereoFix in
def showFx (tab : List (List Label × List SUnit)) (o : Out) : String :=
  if o.asked.any (fun q => (tab.lookup q).isNone) then "err oracle-missing"
  else
    let ls := " ".intercalate (o.labels.map fun (u, s) => s!"{kindNo u.kind}:{u.a}:{u.b}:{if s then 1 else 0}")
    s!"ok {ls} | cache={if o.cache.isSome then 1 else 0} | rounds={o.asked.length}"

def handleFx (xs : List Int) : Option String := do
  match xs with
  | na :: r =>
    if na < 0 then none
    let (atoms, r) ← parseFxAtoms na.toNat r
    match r with
    | nb :: r =>
      if nb < 0 then none
      let (bonds, r) ← parseFxBonds nb.toNat r
      match r with
      | nt :: r =>
        if nt < 0 then none
        let (tab, r) ← parseFxTable nt.toNat r
        if r != [] then none
        some (showFx tab (ChythonModel.Model.StereoFix.fixStereo (ChythonModel.Model.StereoFix.tableOracle tab) atoms bonds))
      | [] => none
    | [] => none
  | [] => none

def handleDf (xs : List Int) : Option String :=
  match xs with
  | n0 :: n1 :: n2 :: n3 :: h0 :: c0 :: h1 :: c1 :: h2 :: c2 :: h3 :: c3 :: r => do
    let (hs, r) ← takeList r
    match r with
    | [st] =>
      let e := endsOf n0 n1 n2 n3
      let tab : List (Nat × Int) :=
        (if h0 != 0 then [(n0.toNat, c0)] else []) ++ (if h1 != 0 then [(n1.toNat, c1)] else []) ++
        (if h2 != 0 && n2 ≥ 0 then [(n2.toNat, c2)] else []) ++ (if h3 != 0 && n3 ≥ 0 then [(n3.toNat, c3)] else [])
      match ChythonModel.Model.StereoDiff.diffMark (fun x => tab.lookup x) e (hFun hs) (tri st) with
      | .ok (a, b, v) => some s!"ok {a} {b} {if v then 1 else 0}"
      | .error err => some ("err " ++ err.name)
    | _ => none
  | _ => none

def handleInts (op : String) (xs : List Int) : Option String :=
  match op with
  | "fx" => handleFx xs
  | "df" => handleDf xs
  | "tt" => do
    let (order, r) ← takeList xs
    let (env, r) ← takeList r
    let (hs, r) ← takeList r
    match r with
    | [st, s] => some (showRes (translateTetra order env (hFun hs) (tri st) (tri s)))
    | _ => none
  | "ct" => do
    match xs with
    | k :: r =>
      if k < 0 then none else
      let (sct, r) ← parseSct k.toNat r
      let (hs, r) ← takeList r
      match r with
      | [n, m, nn, nm, st, s] =>
        some (showRes (translateCisTrans sct (hFun hs) n.toNat m.toNat nn.toNat nm.toNat (tri st) (tri s)))
      | _ => none
    | [] => none
  | "al" => do
    match xs with
    | has :: n0 :: n1 :: n2 :: n3 :: r =>
      let (hs, r) ← takeList r
      match r with
      | [nn, nm, st, s] =>
        let e? := if has != 0 then some (endsOf n0 n1 n2 n3) else none
        some (showRes (translateAllene e? (hFun hs) nn.toNat nm.toNat (tri st) (tri s)))
      | _ => none
    | _ => none
  | "pyr" =>
    match xs with
    | [a, b, c, d, e, f, g, h, i, j, k, l] => some s!"ok {pyramidSign (a, b, c) (d, e, f) (g, h, i) (j, k, l)}"
    | _ => none
  | "cts" =>
    match xs with
    | [a, b, c, d, e, f, g, h] => some s!"ok {cisTransSign (a, b) (c, d) (e, f) (g, h)}"
    | _ => none
  | "als" =>
    match xs with
    | [m, a, b, c, d, e, f] => some s!"ok {alleneSign m (a, b) (c, d) (e, f)}"
    | _ => none
  | "wt" => do
    let (order, r) ← takeList xs
    let (adj, r) ← takeList r
    let (hs, r) ← takeList r
    match r with
    | [st, h, first] =>
      if h < 0 then none else
      some (showRes (writerTetraMark order adj (hFun hs) (tri st) h.toNat (first != 0)))
    | _ => none
  | "rt" => do
    let (order, r) ← takeList xs
    let (env, r) ← takeList r
    let (hs, r) ← takeList r
    match r with
    | [start, h, mark] =>
      if h < 0 then none else
      some (showRes (readerTetraSign order env (hFun hs) (start != 0) h.toNat (mark != 0)))
    | _ => none
  | "wa" => do
    match xs with
    | n0 :: n1 :: n2 :: n3 :: r =>
      let (a1, r) ← takeList r
      let (a2, r) ← takeList r
      let (hs, r) ← takeList r
      match r with
      | [st] => some (showRes (writerAlleneMark (endsOf n0 n1 n2 n3) a1 a2 (hFun hs) (tri st)))
      | _ => none
    | _ => none
  | "ra" => do
    match xs with
    | n0 :: n1 :: n2 :: n3 :: r =>
      let (a1, r) ← takeList r
      let (a2, r) ← takeList r
      let (hs, r) ← takeList r
      match r with
      | [mark] => some (showRes (readerAlleneSign (endsOf n0 n1 n2 n3) a1 a2 (hFun hs) (mark != 0)))
      | _ => none
    | _ => none
  | "aw" =>
    -- aw k (id x y)^k  pnx pny  hasH hx hy  m mark
    match xs with
    | k :: r => do
      if k < 0 then none
      let (th, r) ← parseTh k.toNat r
      match r with
      | [px, py, hasH, hx, hy, m, mark] =>
        some (showOpt (addWedgeHeavy th (px, py) (if hasH != 0 then some (hx, hy) else none) m.toNat mark))
      | _ => none
    | [] => none
  | "awh" =>
    match xs with
    | k :: r => do
      if k < 0 then none
      let (th, r) ← parseTh k.toNat r
      match r with
      | [hx, hy, mark] => some (showOpt (addWedgeToH th (hx, hy) mark))
      | _ => none
    | [] => none
  | "ws" =>
    -- ws k (id x y)^k pnx pny hasH hx hy <order> <Hatoms> stored
    match xs with
    | k :: r => do
      if k < 0 then none
      let (th, r) ← parseTh k.toNat r
      match r with
      | px :: py :: hasH :: hx :: hy :: r =>
        let (order, r) ← takeList r
        let (hs, r) ← takeList r
        match r with
        | [st] =>
          some (match wedgeSign th (px, py) (if hasH != 0 then some (hx, hy) else none) order (hFun hs) (tri st) with
                | .ok v => s!"ok {v}"
                | .error e => "err " ++ e.name)
        | _ => none
      | _ => none
    | [] => none
  | "po" =>
    match xs with
    | strong :: r => do
      let toks ← parseToks r
      some (match ChythonModel.Model.StereoParse.run (strong != 0) toks with
            | .ok st => showParse st
            | .error _ => "err IncorrectSmiles")
    | [] => none
  | "rct" =>
    -- rct k (a j (b v)^j)^k  c (n m)^c  k2 (n m n0 n1 n2 n3)^k2 <Hatoms>
    match xs with
    | k :: r => do
      if k < 0 then none
      let (sb, r) ← parseSB k.toNat r
      match r with
      | c :: r =>
        let (ctc, r) ← parsePairs c.toNat r
        match r with
        | k2 :: r =>
          if k2 < 0 then none else
          let (sct, r) ← parseSct k2.toNat r
          let (hs, r) ← takeList r
          match r with
          | [] =>
            -- each call `(n, m, n1, n2, mark)` ends in `_translate_cis_trans_sign`: report the label per double bond
            some (match ChythonModel.Model.StereoParse.readerCisTransCalls sb ctc with
                  | some calls => "ok " ++ " ".intercalate (calls.map fun (n, m, n1, n2, v) =>
                      let lab := match translateCisTrans sct (hFun hs) n m n1 n2 none (some v) with
                        | .ok true => "1" | .ok false => "0" | .error e => e.name
                      s!"{min n m},{max n m}:{lab}")
                  | none => "err KeyError")
          | _ => none
        | [] => none
      | [] => none
    | [] => none
  | "awa" =>
    -- awa n0 n1 n2 n3  p1x p1y p2x p2y  k (id x y)^k  nIsT1 m mIsH mark
    match xs with
    | n0 :: n1 :: n2 :: n3 :: ax :: ay :: bx :: bY :: k :: r => do
      if k < 0 then none
      let (cs, r) ← parseTh k.toNat r
      match r with
      | [t1, m, mh, mark] =>
        some (showOpt (addWedgeAllene (endsOf n0 n1 n2 n3) (ax, ay) (bx, bY) (fun x => cs.lookup x) (t1 != 0) m.toNat (mh != 0) mark))
      | _ => none
    | _ => none
  | "wsa" =>
    -- wsa n0 n1 n2 n3 <Hatoms> x0 x1 pax pay pbx pby px1x px1y stored
    match xs with
    | n0 :: n1 :: n2 :: n3 :: r => do
      let (hs, r) ← takeList r
      match r with
      | [x0, x1, ax, ay, bx, bY, qx, qy, st] =>
        some (match wedgeSignAllene (endsOf n0 n1 n2 n3) (hFun hs) x0.toNat x1.toNat (ax, ay) (bx, bY) (qx, qy) (tri st) with
              | .ok v => s!"ok {v}"
              | .error e => "err " ++ e.name)
      | _ => none
    | _ => none
  | "rdb" =>
    match xs with
    | d :: sh :: r => do
      let (sizes, r) ← takeList r
      match r with
      | [] => some (if cisTransStereogenic (d != 0) (sh != 0) sizes then "ok 1" else "ok 0")
      | _ => none
    | _ => none
  | _ => none

def handle (line : String) : String :=
  match words line with
  | op :: ws =>
    match parseInts? ws with
    | some xs => (handleInts op xs).getD "bad"
    | none => "bad"
  | [] => "bad"

def main : IO Unit := runDriver handle
