import ChythonModel.Model.C16Patcher
import ChythonModel.Model.C16Worklist
import ChythonModel.Model.C16Ions
/-!
Line-protocol driver for C16 (all ints after the op).

* `del nT t*nT nM (k v)*nM N (n deg m*deg)*N`
     → `_get_deleted` on a bare adjacency:            `ok d…` (sorted, duplicate-free) | `err <Class> [n]`
* `init <template>`                                    → `ok t…` (sorted `_to_delete`) | `err <Class>`
* `patch <template> nM (k v)*nM <mol wire>`            → `ok D d… | M k v … | P p… | <mol without stereo>` | `err <Class> [n]`
* `trans <template> K (nM (k v)*nM)*K <mol wire>`      → products of `transformerCall`, `;`-joined `patch` answers
* `remap nM (k v)*nM <mol>`                            → `ok <mol>` | `err ValueError`
* `union K <mol>*K`                                    → `ok <mol>` | `err …`
* `union2 flag <molA> <molB>`                          → `a.union(b, remap=flag)`: `ok <mol>` | `err MappingError`
* `overlap K (nO o*nO)*K <mol>*K`                      → `ok <mol> ; <mol> …`
* `collide nI i*nI nO o*nO <mol>`                      → `ok <mol>`
* `stage <template> nM (k v)*nM K <mol>*K nI i*nI nO o*nO` → `ok <mol>` (one match of `_single_stage` before `split()`)

* `worklist limit nI i*nI nRows (item nR (rid key stop nS s*nS)*nR)*nRows`
     → exhaustive mode of `Reactor.__call__` over the recorded step system: `ok k… | k…` = keys yielded by the literal FIFO
       loop (`C16W.worklist`, fuel = rows + 1) `|` by the level-by-level `worklistBfs`; `fuel` if the loop ran out

* `oneshot nI i*nI nRows (item nR (rid key stop nS s*nS)*nR)*nRows` → one-shot mode: `ok k…` = keys yielded by `C16W.oneShot`

* `ions mode nM (id cls charge ankey ctkey)*nM` → one side of `contract_ions()`: mode 0 reactants (`contractSide`), mode 1
     products (`contractProducts`, keys = position among the reactants' anions / cations, -1 if absent): `ok g ; g …`, each
     group = ids of the molecules united, in union order

`<template>` = `deleteAtoms isQuery nP (n masked)*nP nRA (n kind z iso charge radical nh h*nh)*nRA
               nRB (n deg (m no o*no)*deg)*nRB`, kind 0 any, 1 query, 2 element, 3 unsupported.
-/
open ChythonModel.Py ChythonModel.Model ChythonModel.Model.C16

abbrev P (α : Type) := List Int → Option (α × List Int)

def pInt : P Int
  | x :: xs => some (x, xs)
  | [] => none

def pNat : P Nat
  | x :: xs => if x < 0 then none else some (x.toNat, xs)
  | [] => none

def pMany {α} (p : P α) : Nat → P (List α)
  | 0, xs => some ([], xs)
  | k + 1, xs =>
    match p xs with
    | none => none
    | some (a, r) =>
      match pMany p k r with
      | none => none
      | some (as, r') => some (a :: as, r')

def pCounted {α} (p : P α) : P (List α) := fun xs =>
  match pNat xs with
  | none => none
  | some (k, r) => pMany p k r

def pPair : P (Nat × Nat) := fun xs =>
  match pNat xs with
  | none => none
  | some (a, r) =>
    match pNat r with
    | none => none
    | some (b, r') => some ((a, b), r')

def pRAtom : P (Nat × RAtom) := fun xs =>
  match xs with
  | n :: kind :: z :: iso :: ch :: rad :: rest =>
    match pCounted pNat rest with
    | none => none
    | some (hs, r) =>
      let k : RKind := if kind == 0 then .any else if kind == 1 then .query else if kind == 2 then .element else .unsupported
      some ((n.toNat, { kind := k, z := z.toNat, isotope := if iso ≤ 0 then none else some iso.toNat, charge := ch,
                        radical := rad != 0, hs := hs }), r)
  | _ => none

def pRBondEntry : P (Nat × List Nat) := fun xs =>
  match pNat xs with
  | none => none
  | some (m, r) =>
    match pCounted pNat r with
    | none => none
    | some (os, r') => some ((m, os), r')

def pRBondRow : P (Nat × List (Nat × List Nat)) := fun xs =>
  match pNat xs with
  | none => none
  | some (n, r) =>
    match pCounted pRBondEntry r with
    | none => none
    | some (row, r') => some ((n, row), r')

def pTemplate : P Template := fun xs =>
  match xs with
  | del :: isq :: rest =>
    match pCounted pPair rest with
    | none => none
    | some (pat, r1) =>
      match pCounted pRAtom r1 with
      | none => none
      | some (ras, r2) =>
        match pCounted pRBondRow r2 with
        | none => none
        | some (rbs, r3) =>
          some ({ pattern := pat.map fun p => (p.1, p.2 != 0), replIsQuery := isq != 0, replAtoms := ras,
                  replBonds := rbs, deleteAtoms := del != 0 }, r3)
  | _ => none

def pAdjRow : P (Nat × List Nat) := fun xs =>
  match pNat xs with
  | none => none
  | some (n, r) =>
    match pCounted pNat r with
    | none => none
    | some (nb, r') => some ((n, nb), r')

def pMol : P Mol := Mol.parse

def showErr : PyErr → String
  | .keyError n => s!"err KeyError {n}"
  | .valueError _ => "err ValueError"
  | .typeError _ => "err TypeError"
  | .mappingError _ => "err MappingError"

def sortNats (l : List Nat) : List Nat := (l.mergeSort fun a b => decide (a ≤ b)).eraseDups

/-- the molecule without stereo fields: `N` then per atom `id z iso charge radical implH deg (nbr order)*` -/
def renderMol (m : Mol) : String :=
  let atomStr (p : Nat × Atom) : String :=
    let (n, a) := p
    let nb := m.nbrs n
    s!"{n} {a.z} {a.isotope.getD 0} {a.charge} {if a.radical then 1 else 0} {showOptNat a.implH} {nb.length}" ++
      String.join (nb.map fun (k, b) => s!" {k} {b.order}")
  " ".intercalate (toString m.atoms.length :: m.atoms.map atomStr)

def showPatched (p : Patched) : String :=
  s!"D {showNats (sortNats p.deleted)} | M " ++ " ".intercalate (p.mapping.map fun kv => s!"{kv.1} {kv.2}") ++
  s!" | P {showNats p.patchedIds} | " ++ renderMol p.mol

def handlePatch (xs : List Int) : String :=
  match pTemplate xs with
  | none => "badwire"
  | some (t, r1) =>
    match pCounted pPair r1 with
    | none => "badwire"
    | some (mp, r2) =>
      match pMol r2 with
      | none => "badwire"
      | some (s, _) =>
        if !s.WF then "malformed"   -- the hypotheses of the frame theorems (`Props.C16.wf_gives_hypotheses`)
        else
        match templateInit t with
        | .error e => showErr e
        | .ok td =>
          match patcher s t td mp with
          | .error e => showErr e
          | .ok p => "ok " ++ showPatched p

def handleTrans (xs : List Int) : String :=
  match pTemplate xs with
  | none => "badwire"
  | some (t, r1) =>
    match pCounted (pCounted pPair) r1 with
    | none => "badwire"
    | some (mps, r2) =>
      match pMol r2 with
      | none => "badwire"
      | some (s, _) =>
        if !s.WF then "malformed"
        else
        match templateInit t with
        | .error e => showErr e
        | .ok td =>
          match transformerCall s t td mps with
          | .error e => showErr e
          | .ok ps => "ok " ++ " ; ".intercalate (ps.map showPatched)

def handleDel (xs : List Int) : String :=
  match pCounted pNat xs with
  | none => "badwire"
  | some (tpl, r1) =>
    match pCounted pPair r1 with
    | none => "badwire"
    | some (mp, r2) =>
      match pCounted pAdjRow r2 with
      | none => "badwire"
      | some (g, _) =>
        match getDeleted g tpl mp with
        | .error e => showErr e
        | .ok d =>   -- `sym`: the graph satisfies the hypothesis of `get_deleted_exact` (all generated graphs do)
          (if symmB g then "ok " else "ok-nosym ") ++ showNats (sortNats d)

def pReaction : P (Nat × Nat × Bool × List Nat) := fun xs =>
  match xs with
  | rid :: key :: stop :: rest =>
    if rid < 0 || key < 0 then none else
    match pCounted pNat rest with
    | none => none
    | some (succ, r) => some ((rid.toNat, key.toNat, stop != 0, succ), r)
  | _ => none

def pRow : P (Nat × List (Nat × Nat × Bool × List Nat)) := fun xs =>
  match pNat xs with
  | none => none
  | some (it, r) =>
    match pCounted pReaction r with
    | none => none
    | some (rs, r') => some ((it, rs), r')

def handleWorklist (xs : List Int) : String :=
  match pNat xs with
  | none => "badwire"
  | some (limit, r1) =>
    match pCounted pNat r1 with
    | none => "badwire"
    | some (init, r2) =>
      match pCounted pRow r2 with
      | none => "badwire"
      | some (rows, _) =>
        let S := C16W.tableSys rows
        -- every queue item is a distinct row of the recorded tree, so `rows + |init| + 1` iterations are enough
        match C16W.worklist S limit (rows.length + init.length + 1) init with
        | none => "fuel"
        | some out =>
          "ok " ++ showNats (out.map S.key) ++ " | " ++ showNats ((C16W.worklistBfs S limit init).map S.key)

/-- `id cls charge ankey ctkey` -/
def pIon : P (C16I.Ion × Int × Int) := fun xs =>
  match xs with
  | id :: cls :: ch :: ak :: ck :: rest => if id < 0 || cls < 0 then none else some ((⟨id.toNat, cls.toNat, ch⟩, ak, ck), rest)
  | _ => none

def handleIons (xs : List Int) : String :=
  match xs with
  | mode :: rest =>
    match pCounted pIon rest with
    | none => "badwire"
    | some (rows, _) =>
      let mols := rows.map (·.1)
      let keyOf (sel : C16I.Ion × Int × Int → Int) (m : C16I.Ion) : Int :=
        match rows.find? (fun r => r.1.id == m.id) with
        | some r => sel r
        | none => -1
      let res := if mode == 0 then C16I.contractSide mols
                 else C16I.contractProducts (keyOf (·.2.1)) (keyOf (·.2.2)) mols
      match res with
      | .error _ => "err IndexError"
      | .ok groups => "ok " ++ " ; ".intercalate (groups.map fun g => showNats (g.map (·.id)))
  | [] => "badwire"

def handleOneShot (xs : List Int) : String :=
  match pCounted pNat xs with
  | none => "badwire"
  | some (init, r2) =>
    match pCounted pRow r2 with
    | none => "badwire"
    | some (rows, _) =>
      let S := C16W.tableSys rows
      "ok " ++ showNats ((C16W.oneShot S init).map S.key)

def showMolRes : Except PyErr Mol → String
  | .error e => showErr e
  | .ok m => "ok " ++ renderMol m

def handle (line : String) : String :=
  match words line with
  | [] => "empty"
  | op :: args =>
    match parseInts? args with
    | none => "badints"
    | some xs =>
      match op with
      | "del" => handleDel xs
      | "patch" => handlePatch xs
      | "trans" => handleTrans xs
      | "init" =>
        match pTemplate xs with
        | none => "badwire"
        | some (t, _) =>
          match templateInit t with
          | .error e => showErr e
          | .ok td => "ok " ++ showNats (sortNats td)
      | "remap" =>
        match pCounted pPair xs with
        | none => "badwire"
        | some (mp, r) =>
          match pMol r with
          | none => "badwire"
          | some (m, _) => showMolRes (remap m mp)
      | "union" =>
        match pCounted pMol xs with
        | none => "badwire"
        | some (ms, _) => showMolRes (unionAll ms)
      | "union2" =>   -- `union2 flag <molA> <molB>`: `a.union(b, remap=flag)`
        match pNat xs with
        | none => "badwire"
        | some (flag, r) =>
          match pMany pMol 2 r with
          | some ([a, b], _) =>
            if !(a.WF && b.WF) then "malformed"   -- hypotheses of `Props.C16.union_*`
            else showMolRes (unionR (flag != 0) a b)
          | _ => "badwire"
      | "worklist" => handleWorklist xs
      | "oneshot" => handleOneShot xs
      | "ions" => handleIons xs
      | "overlap" =>
        match pNat xs with
        | none => "badwire"
        | some (k, r) =>
          match pMany (pCounted pNat) k r with
          | none => "badwire"
          | some (orders, r2) =>
            match pMany pMol k r2 with
            | none => "badwire"
            | some (ms, _) =>
              match fixMappingOverlap ms orders with
              | .error e => showErr e
              | .ok out => "ok " ++ " ; ".intercalate (out.map renderMol)
      | "collide" =>
        match pCounted pNat xs with
        | none => "badwire"
        | some (ign, r) =>
          match pCounted pNat r with
          | none => "badwire"
          | some (order, r2) =>
            match pMol r2 with
            | none => "badwire"
            | some (m, _) => showMolRes (collisionRemap m ign order)
      | "stage" =>
        match pTemplate xs with
        | none => "badwire"
        | some (t, r1) =>
          match pCounted pPair r1 with
          | none => "badwire"
          | some (mp, r2) =>
            match pCounted pMol r2 with
            | none => "badwire"
            | some (ms, r3) =>
              match pCounted pNat r3 with
              | none => "badwire"
              | some (ign, r4) =>
                match pCounted pNat r4 with
                | none => "badwire"
                | some (order, _) =>
                  match templateInit t with
                  | .error e => showErr e
                  | .ok td => showMolRes (singleStage t td ms mp ign order)
      | _ => "badop"

def main : IO Unit := ChythonModel.Py.runDriver handle
