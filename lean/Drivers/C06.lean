import ChythonModel.Model.C06Rings
import ChythonModel.Spec.CycleBasis
import ChythonModel.Spec.CycleBasisMin
import ChythonModel.Model.C06Pid
/-!
Line-protocol driver for C06.

`case <mol wire ints> <k> (<len> <atoms…>)×k`  → one line of `|`-separated fields (see `handleCase`)
`pid <n> <mol wire ints>` → `paths=…|cands=…|final=…` (model of `_bfs`, `_c_set`, `_rings_filter`; see `handlePid`)
`canon <ring…>` / `radj <ring…>` / `scis <n> <m> <ring…>` → the model's `_canonic_ring` / `_ring_adjacency` / `_ring_scissors`
-/
open ChythonModel.Py ChythonModel.Model ChythonModel.Model.C06 ChythonModel.Spec.CycleBasis

def lexLe : List Nat → List Nat → Bool
  | [], _ => true
  | _ :: _, [] => false
  | a :: as, b :: bs => if a < b then true else if b < a then false else lexLe as bs

def sortNats (l : List Nat) : List Nat := l.mergeSort fun a b => decide (a ≤ b)
def commas (l : List Nat) : String := ",".intercalate (l.map toString)

/-- dict key order is not part of the property: every dict is printed with its keys sorted -/
def sortByKey {β : Type} (l : List (Nat × β)) : List (Nat × β) := l.mergeSort fun a b => decide (a.1 ≤ b.1)

def showComponents : Option (List (List Nat)) → String
  | none => "nofuel"
  | some cs => ";".intercalate (((cs.map sortNats).mergeSort lexLe).map commas)

def showAdj : Option Adj → String
  | none => "nofuel"
  | some g => ";".intercalate ((sortByKey g).map fun p => s!"{p.1}:{commas (sortNats p.2)}")

def showVerdict : Verdict → String
  | .ok => "ok"
  | .notCycle i => s!"not-cycle@{i}"
  | .dependent => "dependent"
  | .count h w => s!"count:{h}!={w}"
  | .noComponents => "nofuel"

def parseRings : Nat → List Int → Option (List (List Nat))
  | 0, [] => some []
  | 0, _ :: _ => none
  | k + 1, len :: rest =>
    if len < 0 ∨ rest.length < len.toNat then none
    else (parseRings k (rest.drop len.toNat)).map fun tl => ((rest.take len.toNat).map Int.toNat) :: tl
  | _ + 1, [] => none

def showMark (a : AtomMark) : String :=
  s!"{a.n}:{if a.inRing then 1 else 0}:{commas (sortNats a.ringSizes)}:" ++
    ",".intercalate ((sortByKey a.bonds).map fun b => s!"{b.1}={if b.2 then 1 else 0}")

def handleCase (xs : List Int) : String :=
  match Mol.parse xs with
  | none => "badwire"
  | some (m, rest) =>
    match rest with
    | [] => "badwire"
    | k :: rs =>
      match parseRings k.toNat rs with
      | none => "badwire"
      | some rings =>
        let gf := fullAdj m
        let gn := notSpecial m
        if !(m.WF && wfAdj gf && symAdj gf) then "malformed"
        else
          let ref := match minBasis gn with
            | none => "none"
            | some B => commas (sortNats (B.map (·.length)))
          let ar := atomsRings rings
          let ars := atomsRingsSizes rings
          "|".intercalate [
            "cc=" ++ showComponents (connectedComponents gf),
            "ccns=" ++ showComponents (connectedComponents gn),
            "skin=" ++ showAdj (skinGraph gf),
            "skinns=" ++ showAdj (skinGraph gn),
            "rc=" ++ (match ringsCount m with | none => "nofuel" | some c => toString c),
            "chk=" ++ showVerdict (checkSssrV gn rings),
            "chkb=" ++ (if checkSssr gn rings then "1" else "0"),
            "ref=" ++ ref,
            "minw=" ++ (if checkSssr gn rings then (if checkMinimalHorton gn rings then "1" else "0") else "-"),
            "ar=" ++ ";".intercalate ((sortByKey ar).map fun p => s!"{p.1}:" ++ "/".intercalate ((p.2.mergeSort lexLe).map commas)),
            "ars=" ++ ";".intercalate ((sortByKey ars).map fun p => s!"{p.1}:{commas (sortNats p.2)}"),
            "arom=" ++ (match aromaticRings m rings with
              | none => "raise"
              | some out => "/".intercalate ((out.mergeSort lexLe).map commas)),
            "marks=" ++ ";".intercalate (((ringMarks m rings).mergeSort fun a b => decide (a.n ≤ b.n)).map showMark)]

def showRings (rs : List (List Nat)) : String := ";".intercalate (rs.map commas)

def showTrace (t : SssrTrace) : String :=
  let paths := match t.paths with
    | none => "raise"
    | some ps => showRings ps
  let cands := match t.cands with
    | none => "raise"
    | some cs => ";".intercalate (cs.map fun c => match c with | none => "!" | some r => commas r)
  let fin := match t.final with
    | .ok rs => "ok " ++ showRings rs
    | .notReached => "notreached"
    | .raised => "raise"
  "|".intercalate ["paths=" ++ paths, "cands=" ++ cands, "final=" ++ fin]

/-- `pid <n> <mol wire ints>`: the PID stage of `_sssr` on `not_special_connectivity`: `_bfs` paths, the `_c_set`
candidate sequence (`!` = the generator raises there) and the `_rings_filter` result.
`n = 0`: `Rings.sssr` itself (`n_sssr = rings_count`, no call when that is 0); `n > 0`: `_sssr(bonds, n)` -/
def handlePid (xs : List Int) : String :=
  match xs with
  | [] => "badargs"
  | n :: ws =>
    match Mol.parse ws with
    | none => "badwire"
    | some (m, _) =>
      let gf := fullAdj m
      if !(m.WF && wfAdj gf && symAdj gf) then "malformed"
      else if n == 0 then showTrace (sssrModelTrace m)
      else showTrace (sssrTrace (notSpecial m) n.toNat)

def showOptRing : Option (List Nat) → String
  | none => "raise"
  | some r => "ok " ++ commas r

def handle (line : String) : String :=
  match words line with
  | [] => "empty"
  | op :: args =>
    match parseInts? args with
    | none => "badints"
    | some xs =>
      match op with
      | "case" => handleCase xs
      | "pid" => handlePid xs
      | "canon" => showOptRing (canonicRing (xs.map Int.toNat))
      | "scis" =>
        match xs with
        | n :: m :: r => showOptRing (ringScissors (r.map Int.toNat) n.toNat m.toNat)
        | _ => "badargs"
      | "radj" =>
        match ringAdjacency (xs.map Int.toNat) with
        | none => "raise"
        | some d => "ok " ++ ";".intercalate (d.map fun p => s!"{p.1}:{commas p.2}")
      | _ => "badop"

def main : IO Unit := ChythonModel.Py.runDriver handle
