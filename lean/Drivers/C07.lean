import ChythonModel.Py.Wire
import ChythonModel.Model.Iso
import ChythonModel.Model.IsoCheck
import ChythonModel.Model.IsoCompat
import ChythonModel.Model.IsoStereo
/-!
Line-protocol driver for C07. One request per line, all arguments are ints.

  CQ <graph>                               → `_compile_query` of the model: `ok chk=<0|1> C <comps> L <closures>`
  CK <graph> <comps> <closures>            → relational check of a compiled query produced by the real code: `ok 1|0`
  GM <af> <scope> <q> <t> <tcomps> <atomOk> <pbonds> <tbonds>
                                           → `Isomorphism._get_mapping`: `ok rec=<0|1> chk=<0|1> n=<k> : m | m | …`
  GA <af> <scope> <q> <t> <tcomps> <patoms> <tatoms> <pbattr> <tbattr>
                                           → the same call, compatibility computed by the model from attributes
  AM <graph> <cls…> <pbonds> <tbonds>      → `_get_automorphism_mapping`
  LP <k> (<n> <x…>)*                       → `lazy_product`: tuples in yield order
  PM <r> <n> <x…>                          → `itertools.permutations`
  OP <lenSelf> <lenOther> <n> <n'>         → operators from mapping counts: `ok sub eq le lt ge gt`
  GS <GA arguments> <qmarks> <tlabels>     → `QueryIsomorphism.get_mapping(_cython=False)` incl. the stereo post-filter:
                                             `ok … n=<k> : m | …` or `raise <PyErr>`; `pre=<k>` = mappings before the post-filter
  FM <lenSelf> <lenOther> L(so) L(oo) <eq> → `get_fast_mapping`: `ok none` | `ok some : m`
  IC <GA arguments> np (u x)^np            → proved checker `isoCheck` on a REAL `get_fast_mapping` output + executable membership in
                                             the model's `get_mapping` result: `ok chk=<0|1> mem=<0|1>`
  MS <af> <k> (<hasfm> [np (u x)^np] na (np (u x)^np)^na)^k → `match_stereo=True` branch of `MoleculeIsomorphism.get_mapping`

graph  := n (id deg nbr*)^n
scope  := -1 | k id^k
tcomps := k (size id^size)^k
atomOk := for each pattern atom in order: cnt id^cnt          (target atoms x with `q_atom == t_atom`)
pbonds := nb (u v cnt cls^cnt)^nb                              (classes of target bonds the pattern bond equals)
tbonds := nb (x y cls)^nb
patoms := for each pattern atom in order:  0 z iso(-1) charge radical                       (molecule atom)
          | k(1 QueryElement z iso | 2 AnyElement | 3 ListElement n z^n | 4 AnyMetal) charge radical
            L(neighbors) L(hybridization) L(ring_sizes) L(implicit_hydrogens) L(heteroatoms)   (L = count then items)
tatoms := for each target atom in order: z iso(-1) charge radical neighbors hybridization L(ring_sizes) implH(-1) heteroatoms
pbattr := nb (u v 0 order | u v 1 L(orders) in_ring(-1|0|1))^nb
tbattr := nb (x y order in_ring(0|1))^nb
qmarks := for each pattern atom in order: mark(-1|0|1); then nm (u v mark)^nm                (marked query bonds)
tlabels := for each target atom in order: stereo(-1|0|1) isH(0|1); nb (x y stereo)^nb;
           k (n L(order))^k  [stereogenic_tetrahedrons];  k (c n0 n1 n2|-1 n3|-1 t1 t2)^k  [stereogenic_allenes + terminals];
           k (a b n0 n1 n2|-1 n3|-1)^k  [stereogenic_cis_trans];  k (n a b)^k  [_stereo_cis_trans_terminals];
           k (n i j)^k  [_stereo_cis_trans_centers]
-/
open ChythonModel.Py ChythonModel.Model.Iso ChythonModel.Model.Query

abbrev P := StateT (List Int) Option

def pInt : P Int := fun s => match s with | x :: r => some (x, r) | [] => none
def pNat : P Nat := do let x ← pInt; if x < 0 then failure else pure x.toNat
def pMany {α} (n : Nat) (p : P α) : P (List α) := (List.range n).mapM fun _ => p
def pList : P (List Nat) := do let n ← pNat; pMany n pNat

def pGraph : P Graph := do
  let n ← pNat
  let rows ← pMany n (do let id ← pNat; let ns ← pList; pure (id, ns))
  pure ⟨rows.map (·.1), rows⟩

def pScope : P (Option (List Nat)) := do
  let x ← pInt
  if x < 0 then pure none else do let l ← pMany x.toNat pNat; pure (some l)

def normPair (a b : Nat) : Nat × Nat := if a ≤ b then (a, b) else (b, a)

def pPBonds : P (List ((Nat × Nat) × List Nat)) := do
  let n ← pNat
  pMany n (do let u ← pNat; let v ← pNat; let c ← pList; pure (normPair u v, c))

def pTBonds : P (List ((Nat × Nat) × Nat)) := do
  let n ← pNat
  pMany n (do let x ← pNat; let y ← pNat; let c ← pNat; pure (normPair x y, c))

def mkBondOk (pb : List ((Nat × Nat) × List Nat)) (tb : List ((Nat × Nat) × Nat)) : Nat → Nat → Nat → Nat → Bool :=
  fun u v x y =>
    match pb.lookup (normPair u v), tb.lookup (normPair x y) with
    | some cs, some c => cs.contains c
    | _, _ => false

def showDict (d : Dict) : String := " ".intercalate (d.map fun p => s!"{p.1} {p.2}")
def showDicts (ds : List Dict) : String := " | ".intercalate (ds.map showDict)
def b01 (b : Bool) : String := if b then "1" else "0"

def showCompiled (comps : List (List Step)) (cl : Closures) : String :=
  let stepStr (s : Step) : String := s!"{s.front} {match s.back with | none => "-1" | some b => toString b}"
  let compStr (c : List Step) : String := s!"{c.length} " ++ " ".intercalate (c.map stepStr)
  let clStr (p : Nat × List Nat) : String := s!"{p.1} {p.2.length} " ++ " ".intercalate (p.2.map toString)
  let cl' := cl.filter fun p => !p.2.isEmpty
  s!"C {comps.length} " ++ " ".intercalate (comps.map compStr) ++ s!" L {cl'.length} " ++ " ".intercalate (cl'.map clStr)

def pStep : P Step := do
  let f ← pNat
  let b ← pInt
  pure ⟨f, if b < 0 then none else some b.toNat⟩

def pCompiled : P (List (List Step) × Closures) := do
  let k ← pNat
  let comps ← pMany k (do let n ← pNat; pMany n pStep)
  let c ← pNat
  let cl ← pMany c (do let f ← pNat; let l ← pList; pure (f, l))
  pure (comps, cl)

def run (p : P String) (xs : List Int) : String :=
  match p xs with
  | some (s, []) => s
  | some (_, _) => "malformed trailing"
  | none => "malformed"

def flagsOf (p : Problem) : String :=
  let chk := match compileQuery p.q with
    | some (comps, cl) => checkCompiled p.q comps cl
    | none => false
  let tchk := checkComponents p.t p.tComps
  -- the same call through the recursive reference enumerator instead of the stack machine
  let recAgree := match compileQuery p.q with
    | some (comps, cl) =>
      comps.all fun lq => p.tComps.all fun cand =>
        let e := mkEnv p cl lq (restrict p.scope cand)
        getMapping e == some (recMapping e)
    | none => false
  s!"rec={b01 recAgree} chk={b01 chk} tchk={b01 tchk}"

def solve (p : Problem) : String :=
  match isoGetMapping p with
  | none => s!"crash {flagsOf p}"
  | some r => s!"ok {flagsOf p} n={r.length} : {showDicts r}"

def handleGM : P String := do
  let af ← pNat
  let scope ← pScope
  let q ← pGraph
  let t ← pGraph
  let k ← pNat
  let tComps ← pMany k pList
  let rows ← pMany q.atoms.length pList
  let pb ← pPBonds
  let tb ← pTBonds
  if !(q.WF && t.WF) then return "malformed not-wf"
  let tbl := q.atoms.zip rows
  let atomOk := fun u x => match tbl.lookup u with | some r => r.contains x | none => false
  return solve { q := q, t := t, tComps := tComps, scope := scope, autoFilter := af != 0,
                 atomOk := atomOk, bondOk := mkBondOk pb tb }

def pOptNat : P (Option Nat) := do let x ← pInt; pure (if x < 0 then none else some x.toNat)

def pPAtom : P PAtom := do
  let k ← pNat
  if k == 0 then
    let z ← pNat; let iso ← pOptNat; let ch ← pInt; let rad ← pNat
    pure (.mol z iso ch (rad != 0))
  else
    let kind ← (match k with
      | 1 => do let z ← pNat; let iso ← pOptNat; pure (QKind.element z iso)
      | 2 => pure QKind.any
      | 3 => do let zs ← pList; pure (QKind.list zs)
      | 4 => pure QKind.metal
      | _ => failure : P QKind)
    let ch ← pInt; let rad ← pNat
    let nb ← pList; let hy ← pList; let rs ← pList; let ih ← pList; let he ← pList
    pure (.query { kind := kind, charge := ch, radical := rad != 0, neighbors := nb, hybridization := hy,
                   ringSizes := rs, implH := ih, heteroatoms := he })

def pMAtom : P MAtom := do
  let z ← pNat; let iso ← pOptNat; let ch ← pInt; let rad ← pNat; let nb ← pNat; let hy ← pNat
  let rs ← pList; let h ← pOptNat; let he ← pNat
  pure { z := z, isotope := iso, charge := ch, radical := rad != 0, neighbors := nb, hybridization := hy,
         ringSizes := rs, implH := h, heteroatoms := he }

def pPBondAttr : P ((Nat × Nat) × PBond) := do
  let u ← pNat; let v ← pNat; let k ← pNat
  if k == 0 then
    let o ← pNat
    pure (normPair u v, .mol o)
  else
    let os ← pList; let r ← pInt
    pure (normPair u v, .query { orders := os, inRing := if r < 0 then none else some (r != 0) })

def pTBondAttr : P ((Nat × Nat) × MBond) := do
  let x ← pNat; let y ← pNat; let o ← pNat; let r ← pNat
  pure (normPair x y, { order := o, inRing := r != 0 })

def pGAProblem : P (Option Problem × List (Nat × MAtom)) := do
  let af ← pNat
  let scope ← pScope
  let q ← pGraph
  let t ← pGraph
  let k ← pNat
  let tComps ← pMany k pList
  let pas ← pMany q.atoms.length pPAtom
  let tas ← pMany t.atoms.length pMAtom
  let npb ← pNat
  let pb ← pMany npb pPBondAttr
  let ntb ← pNat
  let tb ← pMany ntb pTBondAttr
  let ptbl := q.atoms.zip pas
  let ttbl := t.atoms.zip tas
  if !(q.WF && t.WF) then return (none, ttbl)
  let atomOk := fun u x => match ptbl.lookup u, ttbl.lookup x with
    | some a, some b => pAtomEq a b
    | _, _ => false
  let bondOk := fun u v x y => match pb.lookup (normPair u v), tb.lookup (normPair x y) with
    | some a, some b => pBondEq a b
    | _, _ => false
  return (some { q := q, t := t, tComps := tComps, scope := scope, autoFilter := af != 0, atomOk := atomOk, bondOk := bondOk }, ttbl)

def handleGA : P String := do
  match (← pGAProblem).1 with
  | none => return "malformed not-wf"
  | some p => return solve p

def pTri : P (Option Bool) := do let x ← pInt; pure (if x < 0 then none else some (x != 0))

open ChythonModel.Model.Stereo in
def pEnds : P Ends := do
  let n0 ← pNat; let n1 ← pNat; let n2 ← pOptNat; let n3 ← pOptNat
  pure ⟨n0, n1, n2, n3⟩

def handleGS : P String := do
  let (p?, _) ← pGAProblem
  match p? with
  | none => return "malformed not-wf"
  | some p =>
    let amarks ← pMany p.q.atoms.length pTri
    let nbm ← pNat
    let bmarks ← pMany nbm (do let u ← pNat; let v ← pNat; let m ← pTri; pure (normPair u v, m))
    let tst ← pMany p.t.atoms.length (do let s ← pTri; let h ← pNat; pure (s, h != 0))
    let ntb ← pNat
    let tbs ← pMany ntb (do let x ← pNat; let y ← pNat; let s ← pTri; pure (normPair x y, s))
    let kt ← pNat
    let tetra ← pMany kt (do let n ← pNat; let o ← pList; pure (n, o))
    let ka ← pNat
    let al ← pMany ka (do let c ← pNat; let e ← pEnds; let t1 ← pNat; let t2 ← pNat; pure (c, e, t1, t2))
    let kc ← pNat
    let ct ← pMany kc (do let a ← pNat; let b ← pNat; let e ← pEnds; pure ((a, b), e))
    let kx ← pNat
    let ctTerm ← pMany kx (do let n ← pNat; let a ← pNat; let b ← pNat; pure (n, a, b))
    let ky ← pNat
    let ctCenter ← pMany ky (do let n ← pNat; let i ← pNat; let j ← pNat; pure (n, i, j))
    let atbl := p.q.atoms.zip amarks
    let ttbl := p.t.atoms.zip tst
    let qm : QMarks := { atom := fun u => (atbl.lookup u).join,
                         bond := fun u v => (bmarks.lookup (normPair u v)).join }
    let tl : TLabels := { atom := fun x => ((ttbl.lookup x).map (·.1)).join,
                          bond := fun x y => tbs.lookup (normPair x y),
                          tetra := tetra,
                          allenes := al.map fun (c, e, _, _) => (c, e),
                          alleneTerm := al.map fun (c, _, t1, t2) => (c, t1, t2),
                          cisTrans := ct, ctTerm := ctTerm, ctCenter := ctCenter,
                          isH := fun x => match ttbl.lookup x with | some (_, h) => h | none => false }
    let pre := match isoGetMapping p with | some r => r.length | none => 0
    match queryGetMapping p qm tl with
    | none => return s!"crash {flagsOf p}"
    | some (.error e) => return s!"raise {e.name} {flagsOf p} pre={pre}"
    | some (.ok r) => return s!"ok {flagsOf p} pre={pre} n={r.length} : {showDicts r}"

def pDict : P Dict := do
  let n ← pNat
  pMany n (do let u ← pNat; let x ← pNat; pure (u, x))

def handleFM : P String := do
  let a ← pNat; let b ← pNat
  let so ← pList; let oo ← pList
  let eq ← pNat
  match getFastMapping a b so oo (eq != 0) with
  | none => return "ok none"
  | some d => return s!"ok some n=1 : {showDict d}"

def handleIC : P String := do
  let (p?, _) ← pGAProblem
  let d ← pDict
  match p? with
  | none => return "malformed not-wf"
  | some p =>
    let mem := match compileQuery p.q, isoGetMapping p with
      | some (comps, _), some r =>
        let keys := comps.flatten.map (·.front)
        r.contains (keys.zip (keys.map fun u => (d.lookup u).getD 0))
      | _, _ => false
    return s!"ok chk={b01 (isoCheck p d)} mem={b01 mem}"

def handleMS : P String := do
  let af ← pNat
  let k ← pNat
  let items ← pMany k (do
    let has ← pNat
    let fm ← (if has != 0 then do let d ← pDict; pure (some d) else pure none : P (Option Dict))
    let na ← pNat
    let autos ← pMany na pDict
    pure (fm, autos))
  match matchStereo (af != 0) items with
  | none => return "crash"
  | some r => return s!"ok n={r.length} : {showDicts r}"

def handleAM : P String := do
  let g ← pGraph
  let cls ← pMany g.atoms.length pNat
  let pb ← pPBonds
  let tb ← pTBonds
  if !g.WF then return "malformed not-wf"
  let tbl := g.atoms.zip cls
  let c := fun u => (tbl.lookup u).getD 0
  match automorphismMapping g c (mkBondOk pb tb) with
  | none => return "crash"
  | some r => return s!"ok n={r.length} : {showDicts r}"

def handleLP : P String := do
  let k ← pNat
  let args ← pMany k pList
  let r := lazyProduct args
  return s!"ok n={r.length} : " ++ " | ".intercalate (r.map showNats)

def handlePM : P String := do
  let r ← pNat
  let l ← pList
  let ps := permutations l r
  return s!"ok n={ps.length} : " ++ " | ".intercalate (ps.map showNats)

def handleOP : P String := do
  let a ← pNat
  let b ← pNat
  let n ← pNat
  let n' ← pNat
  let r : List Dict := List.replicate n []
  let r' : List Dict := List.replicate n' []
  return s!"ok {b01 (isSubstructure r)} {b01 (isEqual a b r)} {b01 (opLe r)} {b01 (opLt a b r)} {b01 (opGe r')} {b01 (opGt a b r')}"

def handle (line : String) : String :=
  match words line with
  | [] => "malformed empty"
  | op :: rest =>
    match parseInts? rest with
    | none => "malformed ints"
    | some xs =>
      match op with
      | "CQ" => run (do
          let g ← pGraph
          if !g.WF then return "malformed not-wf"
          match compileQuery g with
          | none => return "crash fuel"
          | some (comps, cl) => return s!"ok chk={b01 (checkCompiled g comps cl)} {showCompiled comps cl}") xs
      | "CK" => run (do
          let g ← pGraph
          let (comps, cl) ← pCompiled
          if !g.WF then return "malformed not-wf"
          return s!"ok {b01 (checkCompiled g comps cl)}") xs
      | "GM" => run handleGM xs
      | "GA" => run handleGA xs
      | "GS" => run handleGS xs
      | "FM" => run handleFM xs
      | "MS" => run handleMS xs
      | "IC" => run handleIC xs
      | "AM" => run handleAM xs
      | "LP" => run handleLP xs
      | "PM" => run handlePM xs
      | "OP" => run handleOP xs
      | _ => "malformed op"

def main : IO Unit := runDriver handle
