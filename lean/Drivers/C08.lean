import ChythonModel.Model.SmartsFull
import ChythonModel.Model.C08Match
import ChythonModel.Model.C08Cx
/-!
# C08 driver — line protocol (all arguments are ints; strings travel as code points)

* `eq  <qatom> <k> <matom>*k`                    → k chars `0|1`: `query_atom == atom`
* `vs <which 0 count|1 hyb|2 ring|3 charge> <raw>`   → the setter's stored tuple: `ok <list>` | `err ValueError`
* `eqa <api query spec> <k> <matom>*k`              → query built from raw constructor arguments, then compared: `ok <qatom> | bits`
* `beq <qbond> <k> (<order> <inring>)*k`          → k chars: `QueryBond == Bond`
* `beqi <qbond> <k> <order>*k`                    → `QueryBond == int`
* `beqq <qbond> <qbond>`                          → `QueryBond == QueryBond`
* `qb <mode 0=int|1=list> <inring> <stereo> <k> <o>*k` → `QueryBond(...)` constructor: `ok <qbond>` | `err Kind`
* `fb <order> <inring> <stereo> <fStereo> <fRing>`   → `QueryBond.from_bond`: `ok <qbond> <bit: matches its bond>`
* `fa <flags5> <matom>`                           → `QueryElement.from_atom`: `ok <qatom>` | `err ValueError`
* `lab <mol> <nrings> (<len> <atom>*len)*`        → `calc_labels`: per atom `id nb het hyb eh k r*k deg b*deg` joined by ` ; `
* `qp <cp>*`                                      → `_query_parse`
* `sm <nrad> <rad>* <cp>*`                        → `smarts()` outcome + inner error kind
* `sf <nrad> <rad>* <cp>*`                        → `smarts()` on the full syntax (branches, closures, plain atoms)
* `m1 <ncp> <cp>* <mol> <nrings> …`               → atoms matched by the single-atom SMARTS (sorted)
* `m2 <ncp> <cp>* <mol> <nrings> …`               → ordered atom pairs matched by a two-atom SMARTS
* `st <cp>*`                                      → `smarts(data)` on the whole input string (white-space split, CX radical block, full syntax)
* `mn <ncp> <cp>* <mol> <nrings> … <ncomp> <len>*ncomp <atom>*` → all mappings of a pattern of any size (full text syntax) found by
                                                    `get_mapping(mol, automorphism_filter=False, _cython=False)`, in yield order:
                                                    `ok img … ; img …` (images in query-atom order) | `stereo` | `noquery` | `raises`
-/
open ChythonModel.Py ChythonModel.Model ChythonModel.Model.Query

def takeList (xs : List Int) : Option (List Int × List Int) :=
  match xs with
  | n :: rest => if n < 0 || rest.length < n.toNat then none else some (rest.take n.toNat, rest.drop n.toNat)
  | [] => none

def nats (l : List Int) : List Nat := l.map Int.toNat

def readQAtom (xs : List Int) : Option (QAtom × List Int) := do
  match xs with
  | k :: z :: iso :: rest =>
    let (zs, r1) ← takeList rest
    match r1 with
    | ch :: rad :: r2 =>
      let (nb, r3) ← takeList r2
      let (hy, r4) ← takeList r3
      let (rs, r5) ← takeList r4
      let (ih, r6) ← takeList r5
      let (he, r7) ← takeList r6
      match r7 with
      | st :: mk :: r8 =>
        let kind : QKind := if k == 0 then .element z.toNat (optNat iso) else if k == 1 then .any
                            else if k == 2 then .list (nats zs) else .metal
        some ({ kind, charge := ch, radical := rad != 0, neighbors := nats nb, hybridization := nats hy,
                ringSizes := nats rs, implH := nats ih, heteroatoms := nats he, stereo := tri st, masked := mk != 0 }, r8)
      | _ => none
    | _ => none
  | _ => none

def readMAtom (xs : List Int) : Option (MAtom × List Int) := do
  match xs with
  | z :: iso :: ch :: rad :: nb :: hy :: rest =>
    let (rs, r1) ← takeList rest
    match r1 with
    | ih :: he :: r2 =>
      some ({ z := z.toNat, isotope := optNat iso, charge := ch, radical := rad != 0, neighbors := nb.toNat,
              hybridization := hy.toNat, ringSizes := nats rs, implH := optNat ih, heteroatoms := he.toNat }, r2)
    | _ => none
  | _ => none

def readMany {α} (rd : List Int → Option (α × List Int)) : Nat → List Int → Option (List α × List Int)
  | 0, xs => some ([], xs)
  | k + 1, xs => do
    let (a, r) ← rd xs
    let (t, r') ← readMany rd k r
    some (a :: t, r')

def showList (l : List Nat) : String := " ".intercalate (toString l.length :: l.map toString)

def showQAtom (q : QAtom) : String :=
  let (k, z, iso, zs) : Nat × Nat × String × List Nat := match q.kind with
    | .element z iso => (0, z, showOptNat iso, [])
    | .any => (1, 0, "-1", [])
    | .list zs => (2, 0, "-1", zs)
    | .metal => (3, 0, "-1", [])
  s!"{k} {z} {iso} {showList zs} {q.charge} {if q.radical then 1 else 0} {showList q.neighbors} {showList q.hybridization} {showList q.ringSizes} {showList q.implH} {showList q.heteroatoms} {showTri q.stereo} {if q.masked then 1 else 0}"

def showQBond (b : QBond) : String := s!"{showList b.orders} {showTri b.inRing} {showTri b.stereo}"

def readQBond (xs : List Int) : Option (QBond × List Int) := do
  let (os, r) ← takeList xs
  match r with
  | ir :: st :: r' => some ({ orders := nats os, inRing := tri ir, stereo := tri st }, r')
  | _ => none

def readRaw (xs : List Int) : Option (RawArg × List Int) :=
  match xs with
  | 0 :: rest => some (.none, rest)
  | 1 :: v :: rest => some (.int v, rest)
  | 2 :: rest => (takeList rest).map fun (l, r) => (.lst l, r)
  | _ => none

/-- `kind z iso nzs zs* charge radical stereo masked` then five raw arguments (neighbors, hybridization, ring sizes, hydrogens, heteroatoms) -/
def readApi (xs : List Int) : Option (Except PyErr QAtom × List Int) := do
  match xs with
  | k :: z :: iso :: rest =>
    let (zs, r1) ← takeList rest
    match r1 with
    | ch :: rad :: st :: mk :: r2 =>
      let (nb, r3) ← readRaw r2
      let (hy, r4) ← readRaw r3
      let (rs, r5) ← readRaw r4
      let (ih, r6) ← readRaw r5
      let (he, r7) ← readRaw r6
      let kind : QKind := if k == 0 then .element z.toNat (optNat iso) else if k == 1 then .any
                          else if k == 2 then .list (nats zs) else .metal
      some (apiQuery kind ch (rad != 0) nb hy rs ih he (tri st) (mk != 0), r7)
    | _ => none
  | _ => none

def bits (l : List Bool) : String := String.ofList (l.map fun b => if b then '1' else '0')

def readRings : Nat → List Int → Option (List (List Nat) × List Int)
  | 0, xs => some ([], xs)
  | k + 1, xs => do
    let (r, rest) ← takeList xs
    let (t, rest') ← readRings k rest
    some (nats r :: t, rest')

def readMolRings (xs : List Int) : Option (Mol × List (List Nat) × List Int) := do
  let (m, r) ← Mol.parse xs
  match r with
  | k :: r' => let (rings, r'') ← readRings k.toNat r'; some (m, rings, r'')
  | [] => none

def chars (l : List Int) : List Char := l.map fun i => Char.ofNat i.toNat

def showIntOrList : Option IntOrList → String
  | none => "-"
  | some (.int v) => s!"i{v}"
  | some (.lst l) => "l" ++ ",".intercalate (l.map toString)
def showOptList : Option (List Int) → String
  | none => "-"
  | some l => "l" ++ ",".intercalate (l.map toString)
def showElemTok : ElemTok → String
  | .num n => s!"#{n}"
  | .sym s => String.ofList s
def showElem : ElemSpec → String
  | .one e => "1:" ++ showElemTok e
  | .many es => "n:" ++ ",".intercalate (es.map showElemTok)

def showParsed (p : Parsed) : String :=
  s!"ok iso={showOptNat p.isotope} ch={match p.charge with | none => "-" | some c => toString c} map={showOptNat p.mapping} st={showTri p.stereo} el={showElem p.element} hy={showIntOrList p.hybridization} rs={showIntOrList p.ringSizes} nb={showOptList p.neighbors} ih={showOptList p.implH} he={showOptList p.heteroatoms} mk={if p.masked then 1 else 0}"

def showGraph (g : QGraph) : String :=
  let rank (n : Nat) : String :=
    if n > maskedBase then "M" ++ toString (n - maskedBase) else toString n
  let atoms := g.atoms.map fun (n, a) => s!"{rank n} {showQAtom a}"
  let bonds := g.bonds.map fun (n, m, b) => s!"{rank n} {rank m} {showQBond b}"
  s!"ok {g.atoms.length} | " ++ " | ".intercalate atoms ++ s!" || {g.bonds.length} | " ++ " | ".intercalate bonds

def showOutcome (inner wrapped : Outcome) : String :=
  match wrapped with
  | .ok g => showGraph g
  | .unsupported => "unsupported"
  | .err e => match inner with
    | .err i => s!"err {e.name} inner={i.name}"
    | _ => s!"err {e.name}"

def labLine (m : Mol) (rings : List (List Nat)) : String :=
  let per := m.atoms.map fun (n, _) =>
    match labelsOf m n with
    | none => "KeyError"
    | some l =>
      let rs := ringSizesOf rings n
      let nb := m.nbrs n
      s!"{n} {l.neighbors} {l.heteroatoms} {l.hybridization} {l.explicitH} {showList rs} {nb.length} " ++
        " ".intercalate (nb.map fun (k, _) => if bondInRing rings n k then "1" else "0")
  " ; ".intercalate per

def singleAtomQuery (s : List Char) : Option QAtom :=
  match smartsModel s [] with
  | .ok ⟨[(_, a)], []⟩ => some a
  | _ => none

def handle (line : String) : String :=
  match words line with
  | [] => "error empty"
  | op :: args =>
    match parseInts? args with
    | none => "error parse"
    | some xs =>
      match op with
      | "eq" =>
        (match readQAtom xs with
         | some (q, k :: rest) =>
           (match readMany readMAtom k.toNat rest with
            | some (as, _) => bits (as.map (pyEq q))
            | none => "error matoms")
         | _ => "error qatom")
      | "vs" =>
        (match xs with
         | which :: rest =>
           (match readRaw rest with
            | some (a, _) =>
              let r := if which == 0 then validateCount a else if which == 1 then validateHyb a
                       else if which == 2 then validateRing a
                       else (match a with | .int v => (validateCharge v).map fun c => [c.toNat, (-c).toNat] | _ => .error .typeError)
              (match r with | .ok l => "ok " ++ showList l | .error e => "err " ++ e.name)
            | none => "error raw")
         | _ => "error vs")
      | "eqa" =>
        (match readApi xs with
         | some (.ok q, k :: rest) =>
           (match readMany readMAtom k.toNat rest with
            | some (as, _) => "ok " ++ showQAtom q ++ " | " ++ bits (as.map (pyEq q))
            | none => "error matoms")
         | some (.error e, _) => "err " ++ e.name
         | _ => "error api")
      | "beq" =>
        (match readQBond xs with
         | some (q, k :: rest) =>
           let rec go : Nat → List Int → List Bool
             | 0, _ => []
             | n + 1, o :: r :: t => bondEq q ⟨o.toNat, r != 0⟩ :: go n t
             | _, _ => []
           bits (go k.toNat rest)
         | _ => "error qbond")
      | "beqi" =>
        (match readQBond xs with
         | some (q, _ :: rest) => bits (rest.map fun o => o ≥ 0 && bondEqInt q o.toNat)
         | _ => "error qbond")
      | "beqq" =>
        (match readQBond xs with
         | some (q, rest) => (match readQBond rest with
           | some (r, _) => bits [bondEqQ q r]
           | none => "error qbond2")
         | none => "error qbond")
      | "qb" =>
        (match xs with
         | mode :: ir :: st :: rest =>
           (match takeList rest with
            | some (os, _) =>
              if os.any (· < 0) then "err ValueError" else
              let r := if mode == 0 then (match os with | [o] => mkQBondInt o.toNat (tri ir) (tri st) | _ => .error .typeError)
                       else mkQBondList (nats os) (tri ir) (tri st)
              (match r with | .ok q => "ok " ++ showQBond q | .error e => "err " ++ e.name)
            | none => "error list")
         | _ => "error qb")
      | "fb" =>
        (match xs with
         | o :: r :: st :: fs :: fr :: _ =>
           let q := fromBond ⟨o.toNat, r != 0⟩ (tri st) (fs != 0) (fr != 0)
           "ok " ++ showQBond q ++ " " ++ bits [bondEq q ⟨o.toNat, r != 0⟩]
         | _ => "error fb")
      | "fa" =>
        (match xs with
         | f1 :: f2 :: f3 :: f4 :: f5 :: rest =>
           (match readMAtom rest with
            | some (a, _) =>
              (match fromAtom a { neighbors := f1 != 0, hybridization := f2 != 0, heteroatoms := f3 != 0,
                                  hydrogens := f4 != 0, ringSizes := f5 != 0 } with
               | some q => "ok " ++ showQAtom q
               | none => "err ValueError")
            | none => "error matom")
         | _ => "error fa")
      | "lab" =>
        (match readMolRings xs with
         | some (m, rings, _) => labLine m rings
         | none => "error mol")
      | "qp" =>
        (match queryParse (chars xs) with
         | .ok p => showParsed p
         | .error e => "err " ++ e.name)
      | "sm" =>
        (match takeList xs with
         | some (rad, cps) =>
           let s := chars cps
           showOutcome (smartsInner s (nats rad)) (smartsModel s (nats rad))
         | none => "error sm")
      | "sf" =>
        (match takeList xs with
         | some (rad, cps) =>
           showOutcome (smartsFullInner (nats cps) (nats rad)) (smartsFull (nats cps) (nats rad))
         | none => "error sf")
      | "m1" =>
        (match takeList xs with
         | some (cps, rest) =>
           (match readMolRings rest with
            | some (m, rings, _) =>
              (match singleAtomQuery (chars cps) with
               | some q =>
                 let hits := m.atoms.filterMap fun (n, _) =>
                   match mAtomOf m rings n with
                   | some a => if pyEq q a then some n else none
                   | none => none
                 "ok " ++ showNats hits
               | none => "noquery")
            | none => "error mol")
         | none => "error m1")
      | "m2" =>
        (match takeList xs with
         | some (cps, rest) =>
           (match readMolRings rest with
            | some (m, rings, _) =>
              (match smartsModel (chars cps) [] with
               | .ok ⟨[(_, q1), (_, q2)], [(_, _, qb)]⟩ =>
                 let hits := m.atoms.flatMap fun (n, _) =>
                   match mAtomOf m rings n with
                   | some a =>
                     if pyEq q1 a then
                       (m.nbrs n).filterMap fun (k, b) =>
                         match mAtomOf m rings k with
                         | some c => if pyEq q2 c && bondEq qb ⟨b.order, bondInRing rings n k⟩ then some (n, k) else none
                         | none => none
                     else []
                   | none => []
                 "ok " ++ " ".intercalate (hits.map fun (a, b) => s!"{a}-{b}")
               | _ => "noquery")
            | none => "error mol")
         | none => "error m2")
      | "st" =>
        (match smartsText (nats xs) with
         | .ok g => showGraph g
         | .unsupported => "unsupported"
         | .err e => s!"err {e.name}")
      | "mn" =>
        (match takeList xs with
         | some (cps, rest) =>
           (match readMolRings rest with
            | some (m, rings, rest') =>
              (match takeList rest' with
               | some (lens, flat) =>
                 let rec split : List Nat → List Nat → List (List Nat)
                   | [], _ => []
                   | k :: ks, l => l.take k :: split ks (l.drop k)
                 let tComps := split (nats lens) (nats flat)
                 if !ChythonModel.Model.Iso.checkComponents (molIsoGraph m) tComps then "error components" else
                 -- the hypotheses of `Props/C08.lean: pattern_match_is_documented`, checked on every executed case
                 if !(m.WF && (molIsoGraph m).WF && m.atoms.all fun p => 1 ≤ p.2.z && p.2.z ≤ 118) then "error molecule-wf" else
                 (match smartsFull (nats cps) [] with
                  | .ok g =>
                    if !(qIsoGraph g).WF then "error query-wf" else
                    if hasStereo g then "stereo" else
                    (match patternMapping g m rings tComps with
                     | some r => "ok " ++ " ; ".intercalate (r.map fun d => showNats (imagesInQueryOrder g d))
                     | none => "raises")
                  | _ => "noquery")
               | none => "error comps")
            | none => "error mol")
         | none => "error mn")
      | _ => "error op"

def main : IO Unit := runDriver handle
