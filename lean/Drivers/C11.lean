import ChythonModel.Py.Wire
import ChythonModel.Model.C11Rdf
import ChythonModel.Spec.CtfileData
/-!
Line-protocol driver for C11. Requests are `<op> <int> <int> …`; texts travel as code points.
-/
open ChythonModel.Py ChythonModel.Model.C11 ChythonModel.Spec.CtfileData

abbrev P := StateT (List Int) Option

def nextI : P Int := fun s => match s with | x :: r => some (x, r) | [] => none
def nextN : P Nat := do let i ← nextI; if i < 0 then failure else pure i.toNat
def many (k : Nat) (p : P α) : P (List α) := match k with
  | 0 => pure []
  | k + 1 => do let a ← p; let r ← many k p; pure (a :: r)
def str : P Str := do let n ← nextN; let cs ← many n nextN; pure (cs.map Char.ofNat)
def restStr : P Str := fun s => some (s.map (fun i => Char.ofNat i.toNat), [])

def pAtom : P WAtom := do
  let num ← nextN; let sym ← str; let x ← nextI; let y ← nextI; let charge ← nextI; let iso ← nextN
  let rad ← nextI; let deg ← nextN
  let nbrs ← many deg (do let a ← nextN; let o ← nextN; pure (a, o))
  pure { num, sym, x, y, charge, iso, rad := rad != 0, nbrs }

def pMol : P WMol := do
  let name ← str; let n ← nextN; let atoms ← many n pAtom; let w ← nextN
  let wedge ← many w (do let a ← nextN; let b ← nextN; let s ← nextI; pure (a, b, s))
  pure { name, atoms, wedge }

def pMeta : P (List (Str × Str)) := do
  let n ← nextN
  many n (do let k ← str; let v ← str; pure (k, v))

def showStr (s : Str) : String := "[" ++ ".".intercalate (s.map (fun c => toString c.toNat)) ++ "]"
def showOptStr : Option Str → String | none => "-" | some s => showStr s
def showOptInt : Option Int → String | none => "-" | some i => toString i
def showDec (d : Dec) : String := s!"{d.mant}e{d.scale}"
def showErr (e : Err) : String := "err:" ++ e.name

def showAtom (a : PAtom) : String :=
  s!"{showStr a.element} {a.charge} {showOptInt a.isotope} {showOptInt a.delta} {a.map} {showDec a.x} {showDec a.y} {showDec a.z} {if a.rad then 1 else 0} {showOptInt a.implH}"

def showTriple (t : Int × Int × Int) : String := s!"{t.1} {t.2.1} {t.2.2}"

def showPMol (m : PMol) : String :=
  s!"T {showOptStr m.title} A {m.atoms.length} " ++ " ".intercalate (m.atoms.map showAtom) ++
  s!" B {m.bonds.length} " ++ " ".intercalate (m.bonds.map showTriple) ++
  s!" S {m.stereo.length} " ++ " ".intercalate (m.stereo.map showTriple)

def showMeta (md : List (Str × Str)) : String :=
  s!"M {md.length} " ++ " ".intercalate (md.map fun kv => showStr kv.1 ++ "=" ++ showStr kv.2)

def showR (f : α → String) : R α → String
  | .ok a => "ok " ++ f a
  | .error e => showErr e

def showP3Mol (m : P3Mol) : String :=
  showPMol { title := m.title, atoms := m.atoms, bonds := m.bonds, stereo := m.stereo } ++ " X " ++ showMeta m.md

def showAnyMol : AnyMol → String
  | .v2 m => "v2 " ++ showPMol m
  | .v3 m => "v3 " ++ showP3Mol m

def showRec (r : Rec') : String :=
  showAnyMol r.mol ++ " MAP " ++ showInts r.mapping ++ " " ++ showMeta r.md

def showRxn (f : μ → String) (r : PRxn μ) : String :=
  let grp (t : String) (ms : List μ) : String := s!" {t} {ms.length} " ++ " ; ".intercalate (ms.map f)
  s!"T {showOptStr r.title}" ++ grp "R" r.reactants ++ grp "P" r.products ++ grp "G" r.reagents

def showRRec : RRec → String
  | .mol m mp md => "mol " ++ showAnyMol m ++ " MAP " ++ showInts mp ++ " " ++ showMeta md
  | .rxn2 r md => "rxn2 " ++ showRxn showPMol r ++ " " ++ showMeta md
  | .rxn3 r md => "rxn3 " ++ showRxn showP3Mol r ++ " " ++ showMeta md

def pMols : P (List WMol) := do let n ← nextN; many n pMol
def pRxn : P WRxn := do
  let name ← str; let r ← pMols; let p ← pMols; let g ← pMols
  pure { name, reactants := r, products := p, reagents := g }

/-- step through an RDF file block by block (`tell` counts successfully read blocks) -/
def rdfSteps (bufSize : Nat) : Nat → Nat → List Str → List String
  | 0, _, _ => ["fuel"]
  | fuel + 1, tell, file =>
    match rdfReadBlock bufSize tell file with
    | .error e => [showErr e]
    | .ok (b, rest) =>
      (s!"blk {b.buf.length} {b.mStart} " ++ showR showRRec (rdfReadStructure b)) :: rdfSteps bufSize fuel (tell + 1) rest

/-- step through a file block by block exactly as repeated `read_structure(current=False)` calls would -/
def stepBlocks (bufSize : Nat) : Nat → List Str → List String
  | 0, _ => ["fuel"]
  | fuel + 1, file =>
    match readBlock bufSize file with
    | .error e => [showErr e]
    | .ok (b, rest) =>
      let hd := s!"blk {b.buf.length} {match b.mEnd with | some k => toString k | none => "-"} " ++
                showR showRec (readStructure b)
      hd :: stepBlocks bufSize fuel rest

def handle (line : String) : String :=
  match words line with
  | [] => "err:empty"
  | op :: args =>
    match parseInts? args with
    | none => "err:args"
    | some xs =>
      let run (p : P String) : String := match p.run xs with | some (s, _) => s | none => "err:parse"
      match op with
      | "fmtd" => run do let w ← nextN; let n ← nextI; pure (showStr (fmtD w n))
      | "f4" => run do let w ← nextN; let k ← nextI; pure (showStr (fmtF4 w k))
      | "int" => run do let s ← restStr; pure (match pyInt? s with | some v => s!"some {v}" | none => "none")
      | "float" => run do
          let s ← restStr
          pure (match pyFloat? s with | .ok d => "ok " ++ showDec d | .valueError => "err:ValueError" | .unsupported => "err:unsupported")
      | "wmol2000" => run do
          let mp ← nextI; let g ← pMol
          pure (showR (fun ls => showStr ls.flatten) (writeMol2000 (mp != 0) g))
      | "sdfwrite" => run do
          let mp ← nextI; let g ← pMol; let md ← pMeta
          pure (showR showStr (sdfWrite (mp != 0) g md))
      | "pmol2000" => run do
          let s ← restStr
          pure (showR showPMol (parseMol2000 (splitLinesKeep s)))
      | "meta" => run do let s ← restStr; pure (showMeta (readMeta (splitLinesKeep s)))
      | "sdfread" => run do
          let bs ← nextN; let s ← restStr
          let file := splitLinesKeep s
          let steps := stepBlocks bs (file.length + 2) file
          let (recs, crash) := iterate readStructure bs (file.length + 2) file
          let it := s!"iter {recs.length} {match crash with | some e => e.name | none => "-"}"
          let idx := "idx " ++ showNats (indexShifts file)
          pure (" | ".intercalate (steps ++ [it, idx]))
      | "getitem" => run do
          let bs ← nextN; let i ← nextN; let s ← restStr
          pure (showR showRec (getItem readStructure bs (splitLinesKeep s) i))
      | "wmol3000" => run do
          let mp ← nextI; let g ← pMol
          pure (showR (fun ls => showStr ls.flatten) (writeMol3000 (mp != 0) g))
      | "esdfwrite" => run do
          let mp ← nextI; let g ← pMol; let md ← pMeta
          pure (showR showStr (esdfWrite (mp != 0) g md))
      | "pmol3000" => run do
          let s ← restStr
          pure (showR showP3Mol (parseMol3000 (splitLinesKeep s)))
      | "v3split" => run do let s ← restStr; pure (" ".intercalate ((v3split s).map showStr))
      | "rdfwmol" => run do
          let v3 ← nextI; let mp ← nextI; let g ← pMol; let md ← pMeta
          pure (showR showStr (if v3 != 0 then erdfWriteMol (mp != 0) g md else rdfWriteMol (mp != 0) g md))
      | "rdfwrxn" => run do
          let v3 ← nextI; let mp ← nextI; let r ← pRxn; let md ← pMeta
          pure (showR showStr (if v3 != 0 then erdfWriteRxn (mp != 0) r md else rdfWriteRxn (mp != 0) r md))
      | "rdfmeta" => run do let s ← restStr; pure (showMeta (rdfReadMeta (splitLinesKeep s)))
      | "rdfread" => run do
          let bs ← nextN; let s ← restStr
          let file := splitLinesKeep s
          let steps := rdfSteps bs (file.length + 2) 0 file
          let (recs, crash) := rdfIterate rdfReadStructure bs (file.length + 2) 0 file
          let it := s!"iter {recs.length} {match crash with | some e => e.name | none => "-"}"
          let starts := rdfIndexStarts file
          let idx := "idx " ++ showNats (starts.map (lineOffset file))
          let gets := (List.range starts.length).map fun i => s!"get {i} " ++ showR showRRec (rdfGetItem rdfReadStructure bs file i)
          pure (" | ".intercalate (steps ++ [it, idx] ++ gets))
      | "normmeta" => run do
          -- the specification side: domain predicates and the documented normalisation of a metadata dictionary
          let md ← pMeta
          let md' : Meta := md.map fun kv => (kv.1, splitNl kv.2)
          let b (x : Bool) : String := if x then "1" else "0"
          pure (s!"sd {b (sdMetaOk md')} rd {b (rdMetaOk md')} " ++ showMeta (normMeta md'))
      | "v3cont" => run do
          -- physical lines of one logical V3000 line at width w, and what the reader's joining loop makes of them
          let w ← nextN; let s ← restStr
          let ls := splitV30 w s
          pure (s!"L {ls.length} " ++ " ".intercalate (ls.map showStr) ++ " J " ++ " ".intercalate ((joinLines ls []).map showStr))
      | _ => "err:op"

def main : IO Unit := runDriver handle
