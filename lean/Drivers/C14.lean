import ChythonModel.Py.Wire
import ChythonModel.Model.Standardize
import ChythonModel.Model.C14Charges
import ChythonModel.Model.C14Resonance
/-!
Line-protocol driver for C14. One request per line, all arguments are ints.

  lmol   := <wire molecule> <labels> <comps> <sssr>
  labels := per atom (dict order): nb hyb het k size^k ; then nrb (x y)^nrb   (bonds whose cached `_in_ring` is true)
  comps  := k (size id^size)^k            (`connected_components`, in the order the property yields them)
  sssr   := k (size id^size)^k

  RULE table idx lmol                      → one rule through `__standardize([rule])` (no `calc_labels` afterwards):
                                             `ok ks kc | hs.. | log | mol` / `crash`
  STD fixTaut phase ri firstShot fixed lmol → `standardize` after `fix_resonance`, from (phase, ri):
                                             `done|pause phase next firstShot | allFixed.. | failed.. | log | mol` / `crash`
  EXPL mol                                 → `ok n | mol` / `err ValenceError`
  IMPL mol                                 → `ok n | fixed.. | mol` / `err ValenceError|crash`
  NEUT lmol nchanged changed.. hasOut [mol] → `ok check | donors.. | acceptors..`
  NEUTX keepCharge lmol                    → `_neutralize(keep_charge)`, first result, exact where the code is deterministic:
                                             `nothing|exact|choice | donors.. | acceptors.. | changed.. | mol` / `crash`
  CHG lmol norders (k (id rank)^k)^norders → `standardize_charges(prepare_molecule=False)`; the `atoms_order` dicts the real call
                                             computed are inputs: `ok | changed.. | mol` / `need-order` / `crash`
  RES lmol nrad rad.. nent ent..           → `fix_resonance(logging=True)`; `list(rads)`, `list(entries)` of the real sets (slot
                                             order = pop order) are inputs: `ok | hs.. | mol` / `crash`
  log    := entries `r kind k id^k` separated by `;`  (kind 0 = applied, 1 = bad charge)
-/
open ChythonModel.Py ChythonModel.Model ChythonModel.Model.Std ChythonModel.Gen.Rules

abbrev P := StateT (List Int) Option

def pInt : P Int := fun s => match s with | x :: r => some (x, r) | [] => none
def pNat : P Nat := do let x ← pInt; if x < 0 then failure else pure x.toNat
def pMany {α} (n : Nat) (p : P α) : P (List α) := (List.range n).mapM fun _ => p
def pList : P (List Nat) := do let n ← pNat; pMany n pNat
def pMol : P Mol := fun s => Mol.parse s

def pLabels (m : Mol) : P Labels := do
  let labs ← m.ids.mapM fun n => do
    let nb ← pNat; let hy ← pNat; let he ← pNat; let rs ← pList
    pure (n, ({ neighbors := nb, hybridization := hy, heteroatoms := he, ringSizes := rs } : Lab))
  let k ← pNat
  let rb ← pMany k (do let x ← pNat; let y ← pNat; pure (x, y))
  pure ⟨labs, rb⟩

structure LMol where
  mol : Mol
  labels : Labels
  comps : List (List Nat)
  sssr : List (List Nat)

def pLMol : P LMol := do
  let m ← pMol
  let L ← pLabels m
  let k ← pNat
  let comps ← pMany k pList
  let r ← pNat
  let sssr ← pMany r pList
  pure ⟨m, L, comps, sssr⟩

def run (p : P String) (xs : List Int) : String :=
  match p xs with
  | some (s, []) => s
  | some (_, _) => "malformed trailing"
  | none => "malformed"

def b01 (b : Bool) : String := if b then "1" else "0"

def showLog (l : List LogEntry) : String :=
  " ; ".intercalate (l.map fun e =>
    s!"{e.rule} {match e.kind with | .applied => 0 | .badCharge => 1} {e.matched.length} {showNats e.matched}")

def tableOf : Nat → List StdRule
  | 0 => doubleRules
  | 1 => singleRules
  | _ => metalRules

def handleRule : P String := do
  let tab ← pNat
  let idx ← pNat
  let lm ← pLMol
  match (tableOf tab)[idx]? with
  | none => return "malformed no-rule"
  | some r =>
    match runRule r idx lm.mol lm.labels lm.comps with
    | none => return "crash"
    | some st =>
      match recalc st.hs st.mol with
      | none => return "crash"
      | some m' => return s!"ok {b01 st.keepSssr} {b01 st.keepComp} | {showNats st.hs} | {showLog st.log} | {m'.render}"

def handleStd : P String := do
  let ft ← pNat
  let phase ← pNat
  let ri ← pNat
  let fs ← pNat
  let fixed ← pList
  let lm ← pLMol
  let ts : TState := { mol := lm.mol, labels := lm.labels, sssr := lm.sssr, comps := lm.comps }
  let fmt (tag : String) (phase next : Nat) (fs : Bool) (all : List Nat) (ts : TState) : String :=
    s!"{tag} {phase} {next} {b01 fs} | {showNats all} | {showNats (failedAtoms ts.mol all)} | {showLog ts.log} | {ts.mol.render}"
  match standardizeFrom (ft != 0) 8 phase ri (fs != 0) fixed ts with
  | .crash => return "crash"
  | .done (ph, f, all, ts') => return fmt "done" ph 0 f all ts'
  | .pause next (ph, f, all, ts') => return fmt "pause" ph next f all ts'

def showHErr : HErr → String
  | .valenceError => "ValenceError" | .crash => "crash"

def handleExpl : P String := do
  let m ← pMol
  match explicify m with
  | .error e => return "err " ++ showHErr e
  | .ok (m', n) => return s!"ok {n} | {m'.render}"

def handleImpl : P String := do
  let m ← pMol
  match implicify m with
  | .error e => return "err " ++ showHErr e
  | .ok (m', n, fx) => return s!"ok {n} | {showNats fx} | {m'.render}"

def handleNeut : P String := do
  let lm ← pLMol
  let changed ← pList
  let has ← pNat
  let out ← if has != 0 then (do let o ← pMol; pure (some o)) else pure none
  match matchFirstAtoms acidStripped lm.mol lm.labels lm.comps, matchFirstAtoms baseStripped lm.mol lm.labels lm.comps with
  | some ds, some as =>
    return s!"ok {b01 (neutralizeCheck lm.mol ds as changed out)} | {showNats ds} | {showNats as}"
  | _, _ => return "crash"

def handleNeutX : P String := do
  let kc ← pNat
  let lm ← pLMol
  match neutralizeModel (kc != 0) lm.mol lm.labels lm.comps with
  | none => return "crash"
  | some (ds, as, .nothing) => return s!"nothing | {showNats ds} | {showNats as} | | "
  | some (ds, as, .choice) => return s!"choice | {showNats ds} | {showNats as} | | "
  | some (ds, as, .exact o ch) => return s!"exact | {showNats ds} | {showNats as} | {showNats ch} | {o.render}"

def handleChg : P String := do
  let lm ← pLMol
  let k ← pNat
  let orders ← pMany k (do let n ← pNat; pMany n (do let a ← pNat; let r ← pNat; pure (a, r)))
  match standardizeCharges lm.mol lm.labels lm.comps lm.sssr orders with
  | none => return "crash"
  | some .needOrder => return "need-order"
  | some (.done m ch) => return s!"ok | {showNats ch} | {m.render}"

def handleRes : P String := do
  let lm ← pLMol
  let ro ← pList
  let eo ← pList
  match fixResonance lm.mol lm.labels ro eo with
  | none => return "crash"
  | some (m, hs) => return s!"ok | {showNats hs} | {m.render}"

def handle (line : String) : String :=
  match words line with
  | op :: ws =>
    match parseInts? ws with
    | none => "malformed ints"
    | some xs =>
      match op with
      | "RULE" => run handleRule xs
      | "STD" => run handleStd xs
      | "EXPL" => run handleExpl xs
      | "IMPL" => run handleImpl xs
      | "NEUT" => run handleNeut xs
      | "NEUTX" => run handleNeutX xs
      | "CHG" => run handleChg xs
      | "RES" => run handleRes xs
      | _ => "malformed op"
  | [] => "malformed empty"

def main : IO Unit := ChythonModel.Py.runDriver handle
