import ChythonModel.Py.Wire
import ChythonModel.Model.C03Front
import ChythonModel.Model.C03Hydrogens
/-!
Line-protocol driver for C03.  Requests (`<op> <code points…>`):
  `T s`  → `smiles_tokenize(s)`      : `ok <tokens>` | `lib:<Class>` | `crash:<Class>`
  `S s`  → `smiles(s)`               : `ok M <record> # <built>` | `ok R <records> # <kept records> # <built>` | error as above
  `H k a c s` → `smiles(s, keep_implicit=k, ignore_aromatic_radicals=a, ignore_carbon_radicals=c)`: `ok M <built>` | `ok R <built>` | error
           `<built>` lists per atom `number:Z:isotope:charge:hydrogens:radical` — hydrogens / radical flag as left by the
           hydrogen loop of `create_molecule` (`molHydrogens`) — and the adjacency in insertion order
The Python side renders the real objects in exactly the same canonical text.
-/
open ChythonModel.Py ChythonModel.Model.C03

def sepBy (sep : String) (l : List String) : String := sep.intercalate l

def showOpt : Option Nat → String
  | none => "-1"
  | some n => toString n

def showStr (s : Str) : String := sepBy "." (s.map toString)

def showAtom (a : AtomTok) : String :=
  s!"{showStr a.element}:{if a.bracket then 1 else 0}:{showOpt a.isotope}:{showOpt a.mapping}:{a.charge}:{showOpt a.hyd}:{showTri a.stereo}:{if a.radical then 1 else 0}"

def showVal : Val → String
  | .none => "N"
  | .str s => "s" ++ showStr s
  | .int n => "i" ++ toString n
  | .bool b => if b then "bT" else "bF"
  | .ints l => "l" ++ sepBy "." (l.map toString)
  | .chars l => "c" ++ showStr l
  | .qbond o r => "q" ++ sepBy "." (o.map toString) ++ (if r then "T" else "F")

def showTok : Tok → String
  | .atom ty a => s!"A{ty}:{showAtom a}"
  | .bond o => s!"B{o}"
  | .lpar => "("
  | .rpar => ")"
  | .dot => "."
  | .cyc n => s!"C{n}"
  | .dir b => if b then "D1" else "D0"
  | .other ty v => s!"O{ty}:{showVal v}"

def showErr : Err → String
  | .lib c _ => "lib:" ++ c
  | .crash c => "crash:" ++ c

def showErrMsg : Err → String
  | .lib c m => "lib:" ++ c ++ " @" ++ m
  | .crash c => "crash:" ++ c

def insByKey {β} (x : Nat × β) : List (Nat × β) → List (Nat × β)
  | [] => [x]
  | y :: tl => if x.1 ≤ y.1 then x :: y :: tl else y :: insByKey x tl

/-- dict whose insertion order is not observable downstream: compared sorted by key -/
def sortByKey {β} (l : List (Nat × β)) : List (Nat × β) := l.foldr insByKey []

def showRec (r : MolRec) : String :=
  let atoms := sepBy "," (r.atoms.map showAtom)
  let bonds := sepBy "," (r.bonds.map fun (a, b, o) => s!"{a}-{b}-{o}")
  let order := sepBy ";" ((sortByKey r.order).map fun (k, l) => s!"{k}:" ++ sepBy "," (l.map showOpt))
  let sa := sepBy "," (r.stereoAtoms.map fun (k, b) => s!"{k}:{if b then 1 else 0}")
  let sb := sepBy ";" ((sortByKey r.stereoBonds).map fun (k, d) => s!"{k}>" ++ sepBy "," (d.map fun (m, b) => s!"{m}:{if b then 1 else 0}"))
  let mp := sepBy "," (r.mapping.map toString)
  let stt := sepBy "," (r.starts.map toString)
  s!"atoms={atoms} bonds={bonds} order={order} satoms={sa} sbonds={sb} starts={stt} map={mp}"

def showOutWith (hyd : MolOut → Except Err (List (Nat × Option Nat × Bool))) (m : MolOut) : String :=
  let hs : List (Nat × Option Nat × Bool) := match hyd m with
    | .ok l => l
    | .error _ => []          -- rendered as `?` below: never equal to what the real code shows
  let atoms := sepBy "," (m.atoms.map fun (n, z, iso, ch, _, _) =>
    let hr := match lookupNat n hs with
      | some (h, r) => s!"{showOpt h}:{if r then 1 else 0}"
      | none => "?"
    s!"{n}:{z}:{showOpt iso}:{ch}:{hr}")
  let adj := sepBy ";" (m.adj.map fun (n, l) => s!"{n}>" ++ sepBy "," (l.map fun (k, o) => s!"{k}:{o}"))
  s!"{atoms} {adj}"

def showOut (m : MolOut) : String := showOutWith molHydrogens m

def showRxnRec (r : RxnRec) : String :=
  "R[" ++ sepBy " | " (r.reactants.map showRec) ++ "] G[" ++ sepBy " | " (r.reagents.map showRec) ++
  "] P[" ++ sepBy " | " (r.products.map showRec) ++ "]"

def showRxnOutWith (f : MolOut → String) (r : RxnOut) : String :=
  "R[" ++ sepBy " | " (r.reactants.map f) ++ "] G[" ++ sepBy " | " (r.reagents.map f) ++
  "] P[" ++ sepBy " | " (r.products.map f) ++ "]"

def showRxnOut (r : RxnOut) : String := showRxnOutWith showOut r

def handle (line : String) : String :=
  match words line with
  | op :: args =>
    match parseInts? args with
    | none => "bad-request"
    | some xs =>
      let s : Str := xs.map Int.toNat
      if op == "T" then
        match smilesTokenize s with
        | .ok toks => "ok " ++ sepBy " " (toks.map showTok)
        | .error e => showErrMsg e
      else if op == "S" then
        match smiles s with
        | .ok (.mol r m) => "ok M " ++ showRec r ++ " # " ++ showOut m
        | .ok (.rxn r k m) => "ok R " ++ showRxnRec r ++ " # " ++ showRxnRec k ++ " # " ++ showRxnOut m
        | .error e => showErrMsg e
      else if op == "H" then
        -- `H k a c <code points>`: smiles(s, keep_implicit=k, ignore_aromatic_radicals=a, ignore_carbon_radicals=c), built part only
        match xs with
        | k :: a :: c :: rest =>
          let o : HOpts := { keepImplicit := k != 0, ignoreAromaticRadicals := a != 0, ignoreCarbonRadicals := c != 0 }
          let f := showOutWith (molHydrogensOpt o)
          match smiles (rest.map Int.toNat) with
          | .ok (.mol _ m) => "ok M " ++ f m
          | .ok (.rxn _ _ m) => "ok R " ++ showRxnOutWith f m
          | .error e => showErrMsg e
        | _ => "bad-request"
      else "bad-op"
  | [] => "bad-request"

def main : IO Unit := runDriver handle
