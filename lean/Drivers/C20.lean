import ChythonModel.Py.Wire
import ChythonModel.Model.C20Bridge
import ChythonModel.Model.C20Conformers
import ChythonModel.Model.C20FromFinal
/-!
Line-protocol driver for C20. Every request is `<op> <int> …`; `-1` = `None`; enum members travel as their position in the
generated constructor list (`RdBondType.all` …), which is RDKit's own value order.

  MOL   = wire format of `Model/Graph.lean`
  CMOL  = MOL pmap×N (x y)×N
  RMOL  = N (z eH iH charge iso rad map tag)×N  M (bgn end type stereo sa0 sa1)×M  haspos (x y)×N
  NBRS  = (deg idx×deg)×N
  ENV   = k (n len a×len)×k  k (n c0 c1)×k  k (n m n0 n1 n2 n3)×k

  env   MOL                 stereogenic_tetrahedrons / _stereo_cis_trans_centers / stereogenic_cis_trans  → ENV
  to    keep CMOL           to_rdkit_molecule before SanitizeMol (stereo dictionaries computed by the model)  → RMOL
  tow   keep CMOL ENV       same with the stereo dictionaries given
  from  RMOL NBRS           from_rdkit_molecule before fix_structure/fix_stereo                           → CMOL
  fromw RMOL NBRS ENV       same with the stereo dictionaries of the new molecule given
  rt    keep CMOL           from(to(m)) with RDKit taken as the identity on the transferred fields           → CMOL
  CONFS = k (len (n x y z)×len)×k        `_conformers`: dicts in their own order
  RCONFS = k (is3D len (x y z)×len)×k    RDKit conformers
  TABLE = k (nl (kind a b s)×nl  nu (kind a b)×nu)×k   chiral_* oracle: label set ↦ units reported chiral (kind 0 tetra, 1 allene, 2 cis-trans)
  fromf RMOL NBRS TABLE                  from_rdkit_molecule to its return value (fix_stereo over the table)  → CMOL | rounds=<n>, or `err oracle-missing`
  toc   N id×N (x y)×N has [CONFS]       the conformers `to_rdkit_molecule` attaches                      → RCONFS
  fromc N RCONFS                         `xy` and `_conformers` read by `from_rdkit_molecule`             → hasxy (x y)×N has [CONFS]
Response: `ok …` or `err <PythonExceptionName>`; `bad` for a malformed request line.
-/
open ChythonModel.Py ChythonModel.Model ChythonModel.Model.Stereo ChythonModel.Model.C20 ChythonModel.Gen.C20

abbrev P := StateT (List Int) Option

def nextI : P Int := do
  match (← get) with
  | x :: r => set r; pure x
  | [] => failure

def nextN : P Nat := do
  let x ← nextI
  if x < 0 then failure else pure x.toNat

def nextOptN : P (Option Nat) := do
  let x ← nextI
  pure (if x < 0 then none else some x.toNat)

def rep {α} (k : Nat) (p : P α) : P (List α) := (List.range k).mapM fun _ => p

def pMol : P Mol := do
  match Mol.parse (← get) with
  | some (m, rest) => set rest; pure m
  | none => failure

def pCMol : P CMol := do
  let m ← pMol
  let n := m.atoms.length
  let pm ← rep n nextN
  let xy ← rep n (do let x ← nextI; let y ← nextI; pure (x, y))
  pure ⟨m, pm, xy⟩

def pEnum {α} (all : List α) : P α := do
  let i ← nextN
  match all[i]? with
  | some v => pure v
  | none => failure

def pRMol : P RMol := do
  let n ← nextN
  let atoms ← rep n (do
    let z ← nextN; let eh ← nextN; let ih ← nextN; let ch ← nextI; let iso ← nextN; let rad ← nextN; let mp ← nextN
    let tag ← pEnum RdChiral.all
    pure ({ z := z, explicitHs := eh, implicitHs := ih, charge := ch, isotope := iso, radicalE := rad, mapNum := mp, tag := tag } : RAtom))
  let k ← nextN
  let bonds ← rep k (do
    let b ← nextN; let e ← nextN; let t ← pEnum RdBondType.all; let s ← pEnum RdStereo.all
    let s0 ← nextI; let s1 ← nextI
    pure ({ bgn := b, end_ := e, type := t, stereo := s,
            satoms := if s0 < 0 || s1 < 0 then none else some (s0.toNat, s1.toNat) } : RBond))
  let hp ← nextN
  let pos ← if hp == 0 then pure none else do
    let p ← rep n (do let x ← nextI; let y ← nextI; pure (x, y))
    pure (some p)
  pure ⟨atoms, bonds, pos⟩

def pNbrs (n : Nat) : P (List (List Nat)) := rep n (do let d ← nextN; rep d nextN)

def pEnv : P StereoEnv := do
  let k ← nextN
  let stet ← rep k (do let n ← nextN; let l ← nextN; let o ← rep l nextN; pure (n, o))
  let k ← nextN
  let centers ← rep k (do let n ← nextN; let a ← nextN; let b ← nextN; pure (n, (a, b)))
  let k ← nextN
  let sct ← rep k (do
    let n ← nextN; let m ← nextN; let n0 ← nextN; let n1 ← nextN; let n2 ← nextOptN; let n3 ← nextOptN
    pure ((n, m), (⟨n0, n1, n2, n3⟩ : Ends)))
  pure ⟨stet, centers, sct⟩

def idxIn {α} [BEq α] (all : List α) (v : α) : Nat := all.findIdx (· == v)

def showRMol (r : RMol) : String :=
  let a := r.atoms.map fun a =>
    s!"{a.z} {a.explicitHs} {a.implicitHs} {a.charge} {a.isotope} {a.radicalE} {a.mapNum} {idxIn RdChiral.all a.tag}"
  let b := r.bonds.map fun b =>
    let sa := match b.satoms with | some (x, y) => s!"{x} {y}" | none => "-1 -1"
    s!"{b.bgn} {b.end_} {idxIn RdBondType.all b.type} {idxIn RdStereo.all b.stereo} {sa}"
  let p := match r.pos with
    | none => ["0"]
    | some ps => "1" :: ps.map fun (x, y) => s!"{x} {y}"
  " ".intercalate ([toString r.atoms.length] ++ a ++ [toString r.bonds.length] ++ b ++ p)

def showCMol (c : CMol) : String :=
  " ".intercalate ([c.mol.render] ++ c.pmap.map toString ++ c.xy.map fun (x, y) => s!"{x} {y}")

def showEnv (e : StereoEnv) : String :=
  let t := e.stet.map fun (n, o) => s!"{n} {o.length} {showNats o}"
  let c := e.centers.map fun (n, (a, b)) => s!"{n} {a} {b}"
  let s := e.sct.map fun ((n, m), en) => s!"{n} {m} {en.n0} {en.n1} {showOptNat en.n2} {showOptNat en.n3}"
  " ".intercalate ([toString t.length] ++ t ++ [toString c.length] ++ c ++ [toString s.length] ++ s)

def fin {α} (sh : α → String) : Except BErr α → String
  | .ok v => "ok " ++ sh v
  | .error e => "err " ++ e.name

/-- RDKit taken as the identity on the transferred fields: neighbour order = bond order, no implicit hydrogens added -/
def roundTrip (c : CMol) (keep : Bool) : Except BErr CMol := do
  let r ← toRd c keep
  fromRd r ((List.range r.atoms.length).map (rNbrs r.bonds))

def pP3 : P P3 := do let x ← nextI; let y ← nextI; let z ← nextI; pure (x, y, z)

def pConfs : P (List (List (Nat × P3))) := do
  let k ← nextN
  rep k (do let l ← nextN; rep l (do let n ← nextN; let v ← pP3; pure (n, v)))

def pRConfs : P (List RConf) := do
  let k ← nextN
  rep k (do let f ← nextN; let l ← nextN; let ps ← rep l pP3; pure ⟨f != 0, ps⟩)

def showP3 (v : P3) : String := s!"{v.1} {v.2.1} {v.2.2}"

def showRConfs (cs : List RConf) : String :=
  " ".intercalate (toString cs.length :: cs.map fun c =>
    " ".intercalate ([if c.is3D then "1" else "0", toString c.pos.length] ++ c.pos.map showP3))

def showConfs (l : List (List (Nat × P3))) : String :=
  " ".intercalate (toString l.length :: l.map fun d =>
    " ".intercalate (toString d.length :: d.map fun (n, v) => s!"{n} {showP3 v}"))

def showFromConfs (r : Option (List (Int × Int)) × Option (List (List (Nat × P3)))) : String :=
  let a := match r.1 with
    | none => "0"
    | some xy => " ".intercalate ("1" :: xy.map fun (x, y) => s!"{x} {y}")
  let b := match r.2 with
    | none => "0"
    | some l => "1 " ++ showConfs l
  a ++ " " ++ b

open ChythonModel.Model.StereoFix in
def pKind : P Kind := do
  let i ← nextN
  pure (if i == 0 then .tetra else if i == 1 then .allene else .cisTrans)

open ChythonModel.Model.StereoFix in
def pTable : P (List (List Label × List SUnit)) := do
  let k ← nextN
  rep k (do
    let nl ← nextN
    let ls ← rep nl (do let kd ← pKind; let a ← nextN; let b ← nextN; let sg ← nextN; pure ((⟨kd, a, b⟩, sg != 0) : Label))
    let nu ← nextN
    let us ← rep nu (do let kd ← pKind; let a ← nextN; let b ← nextN; pure (⟨kd, a, b⟩ : SUnit))
    pure (ls, us))

open ChythonModel.Model.StereoFix in
def showFinal (tab : List (List Label × List SUnit)) : Except BErr (CMol × Option Out) → String
  | .error e => "err " ++ e.name
  | .ok (c, none) => "ok " ++ showCMol c ++ " | rounds=-1"
  | .ok (c, some o) =>
    if o.asked.any (fun q => (tab.lookup q).isNone) then "err oracle-missing"
    else "ok " ++ showCMol c ++ s!" | rounds={o.asked.length}"

def run (op : String) : P String := do
  match op with
  | "env" => do
    let m ← pMol
    pure (fin showEnv (liftPy (stereoEnvOf m)))
  | "to" => do
    let keep ← nextN; let c ← pCMol
    pure (fin showRMol (toRd c (keep != 0)))
  | "tow" => do
    let keep ← nextN; let c ← pCMol; let e ← pEnv
    pure (fin showRMol (toRdWith c e (keep != 0)))
  | "from" => do
    let r ← pRMol; let nb ← pNbrs r.atoms.length
    pure (fin showCMol (fromRd r nb))
  | "fromw" => do
    let r ← pRMol; let nb ← pNbrs r.atoms.length; let e ← pEnv
    pure (fin showCMol (fromRdWith r nb e))
  | "rt" => do
    let keep ← nextN; let c ← pCMol
    pure (fin showCMol (roundTrip c (keep != 0)))
  | "fromf" => do
    let r ← pRMol; let nb ← pNbrs r.atoms.length; let tab ← pTable
    pure (showFinal tab (fromRdFinal r nb (ChythonModel.Model.StereoFix.tableOracle tab)))
  | "toc" => do
    let n ← nextN; let ids ← rep n nextN
    let xy ← rep n (do let x ← nextI; let y ← nextI; pure (x, y))
    let has ← nextN
    let confs ← if has == 0 then pure none else do let l ← pConfs; pure (some l)
    pure (fin showRConfs (toConformers ids xy confs))
  | "fromc" => do
    let n ← nextN; let cs ← pRConfs
    pure ("ok " ++ showFromConfs (fromConformers n cs))
  | _ => failure

def handle (line : String) : String :=
  match words line with
  | op :: rest =>
    match parseInts? rest with
    | some xs =>
      match (run op).run xs with
      | some (out, []) => out
      | _ => "bad"
    | none => "bad"
  | [] => "bad"

def main : IO Unit := runDriver handle
