import ChythonModel.Model.BitLayout
import ChythonModel.Model.C09Arrays
/-!
# C09 driver — line protocol (all arguments are ints)

* `ea <matom>`                      → `ok v1 v2 v3 v4` | `err <Exception>`         one molecule atom through `_cython_compiled_structure`
* `eq <hasBond> [<qbond>] <qatom>`  → `ok m1 m2 m3 m4` | `err …`                   one query atom (reached through the bond) through `_cython_compiled_query`
* `cw <qbond>`                      → closure bond mask
* `es <lmol>`                       → `ok N (b1 b2 b3 b4 from to num)*N M (bond idx)*M` | `err …`
* `ec <lquery>`                     → `ok K ; N (m1 m2 m3 m4 back closure from to num)*N M (bond idx)*M ; …` | `err …`
* `mt <hasBond> [<qbond>] <qatom> <matom> [<order> <inring> <nbrV1>]` → `<mask test> <pyEq [&& bondEq]>` on one pair
* `gm <autoF> <hasScope> <k> <scope>*k <lquery> <lmol> <ncomps> (<len> <atom>*len)*` → `C <outcome> ; P <outcome>`
  outcome = `ok <k> | q m q m … | …` in yield order, `err <Exception>`, `crash`
  (`C` = `cythonPathA`: the `.pyx` matcher with every array access guarded by the regenerated allocation sizes)
* `ga <old> <k> <scope01>*k <lquery> <lmol>` → per query component `ok <max stack pointer> <pushes> <mappings>` | `oob <array> <index> <size>` |
  `uninit <array>` | `range`, joined by ` ; ` — `get_mapping` of the `.pyx` on the encoders' buffers with the arrays at the regenerated
  sizes (`old` = 1: with the `2 * atoms` stack of before repo commit e44243a); scope = one flag per atom in `_atoms` order
* `gb <old> <k> <scope01>*k <cquery> <cmol>` → the same for one pair of raw buffers (`<cmol>` / `<cquery>` in the format `es` / `ec` print):
  the guarded matcher on buffers no encoder produced (duplicated bond rows, indices outside the buffer, short scope arrays)

`<matom>` = `z iso(-1) charge rad nb hyb k rs*k h(-1) het`; `<qatom>` = `kind z iso(-1) k zs*k charge rad L(nb) L(hyb) L(rs) L(h) L(het) stereo masked`;
`<qbond>` = `k orders*k inring(-1|0|1) stereo`; `<lmol>` = `N (id <matom> deg (nbr order inring)*deg)*N`;
`<lquery>` = `N (id <qatom> deg (nbr <qbond>)*deg)*N`.
-/
open ChythonModel.Py ChythonModel.Model ChythonModel.Model.Query ChythonModel.Model.Bits

def takeList (xs : List Int) : Option (List Int × List Int) :=
  match xs with
  | n :: rest => if n < 0 || rest.length < n.toNat then none else some (rest.take n.toNat, rest.drop n.toNat)
  | [] => none

def nats (l : List Int) : List Nat := l.map Int.toNat

def readQAtom (xs : List Int) : Option (QAtom × List Int) := do
  match xs with
  | k :: z :: iso :: rest =>
    let (zs, r1) ← takeList rest
    match r1 with
    | ch :: rad :: r2 =>
      let (nb, r3) ← takeList r2
      let (hy, r4) ← takeList r3
      let (rs, r5) ← takeList r4
      let (ih, r6) ← takeList r5
      let (he, r7) ← takeList r6
      match r7 with
      | st :: mk :: r8 =>
        let kind : QKind := if k == 0 then .element z.toNat (optNat iso) else if k == 1 then .any
                            else if k == 2 then .list (nats zs) else .metal
        some ({ kind, charge := ch, radical := rad != 0, neighbors := nats nb, hybridization := nats hy,
                ringSizes := nats rs, implH := nats ih, heteroatoms := nats he, stereo := tri st, masked := mk != 0 }, r8)
      | _ => none
    | _ => none
  | _ => none

def readMAtom (xs : List Int) : Option (MAtom × List Int) := do
  match xs with
  | z :: iso :: ch :: rad :: nb :: hy :: rest =>
    let (rs, r1) ← takeList rest
    match r1 with
    | ih :: he :: r2 =>
      some ({ z := z.toNat, isotope := optNat iso, charge := ch, radical := rad != 0, neighbors := nb.toNat,
              hybridization := hy.toNat, ringSizes := nats rs, implH := optNat ih, heteroatoms := he.toNat }, r2)
    | _ => none
  | _ => none

def readQBond (xs : List Int) : Option (QBond × List Int) := do
  let (os, r) ← takeList xs
  match r with
  | ir :: st :: r' => some ({ orders := nats os, inRing := tri ir, stereo := tri st }, r')
  | _ => none

def readMany {α} (rd : List Int → Option (α × List Int)) : Nat → List Int → Option (List α × List Int)
  | 0, xs => some ([], xs)
  | k + 1, xs => do
    let (a, r) ← rd xs
    let (t, r') ← readMany rd k r
    some (a :: t, r')

def readMNbr (xs : List Int) : Option ((Nat × MBond) × List Int) :=
  match xs with
  | nb :: o :: ir :: r => some ((nb.toNat, { order := o.toNat, inRing := ir != 0 }), r)
  | _ => none

def readMRow (xs : List Int) : Option ((Nat × MAtom × List (Nat × MBond)) × List Int) := do
  match xs with
  | id :: r0 =>
    let (a, r1) ← readMAtom r0
    match r1 with
    | deg :: r2 =>
      let (nb, r3) ← readMany readMNbr deg.toNat r2
      some ((id.toNat, a, nb), r3)
    | [] => none
  | [] => none

def readLMol (xs : List Int) : Option (LMol × List Int) := do
  match xs with
  | n :: r0 =>
    let (rows, r1) ← readMany readMRow n.toNat r0
    some (⟨rows.map fun r => (r.1, r.2.1), rows.map fun r => (r.1, r.2.2)⟩, r1)
  | [] => none

def readQNbr (xs : List Int) : Option ((Nat × QBond) × List Int) := do
  match xs with
  | nb :: r0 =>
    let (b, r1) ← readQBond r0
    some ((nb.toNat, b), r1)
  | [] => none

def readQRow (xs : List Int) : Option ((Nat × QAtom × List (Nat × QBond)) × List Int) := do
  match xs with
  | id :: r0 =>
    let (a, r1) ← readQAtom r0
    match r1 with
    | deg :: r2 =>
      let (nb, r3) ← readMany readQNbr deg.toNat r2
      some ((id.toNat, a, nb), r3)
    | [] => none
  | [] => none

def readLQuery (xs : List Int) : Option (LQuery × List Int) := do
  match xs with
  | n :: r0 =>
    let (rows, r1) ← readMany readQRow n.toNat r0
    some (⟨rows.map fun r => (r.1, r.2.1), rows.map fun r => (r.1, r.2.2)⟩, r1)
  | [] => none

def readNatList (xs : List Int) : Option (List Nat × List Int) := do
  let (l, r) ← takeList xs
  some (nats l, r)

def showWords (w : Words) : String := s!"ok {w.v1} {w.v2} {w.v3} {w.v4}"

def showExcept {α} (f : α → String) : Except EncErr α → String
  | .ok a => f a
  | .error e => s!"err {e.name}"

def showCMol (m : CMol) : String :=
  let atoms := m.atoms.map fun a => s!"{a.b1} {a.b2} {a.b3} {a.b4} {a.from_} {a.to_} {a.mapping}"
  let bonds := m.bonds.map fun b => s!"{b.bond} {b.index}"
  " ".intercalate ([toString m.atoms.length] ++ atoms ++ [toString m.bonds.length] ++ bonds)

def showCQuery (q : CQuery) : String :=
  let atoms := q.atoms.map fun a => s!"{a.m1} {a.m2} {a.m3} {a.m4} {a.back} {a.closure} {a.from_} {a.to_} {a.mapping}"
  let bonds := q.bonds.map fun b => s!"{b.bond} {b.index}"
  " ".intercalate ([toString q.atoms.length] ++ atoms ++ [toString q.bonds.length] ++ bonds)

def readCBond (xs : List Int) : Option (CBond × List Int) :=
  match xs with
  | b :: i :: r => some (⟨b.toNat, i.toNat⟩, r)
  | _ => none

def readCAtom (xs : List Int) : Option (CAtom × List Int) :=
  match xs with
  | b1 :: b2 :: b3 :: b4 :: f :: t :: n :: r => some (⟨b1.toNat, b2.toNat, b3.toNat, b4.toNat, f.toNat, t.toNat, n.toNat⟩, r)
  | _ => none

def readCQAtom (xs : List Int) : Option (CQAtom × List Int) :=
  match xs with
  | m1 :: m2 :: m3 :: m4 :: bk :: c :: f :: t :: n :: r =>
    some (⟨m1.toNat, m2.toNat, m3.toNat, m4.toNat, bk.toNat, c.toNat, f.toNat, t.toNat, n.toNat⟩, r)
  | _ => none

/-- `N <atom>*N M <bond>*M` (the format `es` / `ec` print) -/
def readCMol (xs : List Int) : Option (CMol × List Int) :=
  match xs with
  | n :: r0 => do
    let (atoms, r1) ← readMany readCAtom n.toNat r0
    match r1 with
    | k :: r2 => do
      let (bonds, r3) ← readMany readCBond k.toNat r2
      some (⟨atoms, bonds⟩, r3)
    | [] => none
  | [] => none

def readCQuery (xs : List Int) : Option (CQuery × List Int) :=
  match xs with
  | n :: r0 => do
    let (atoms, r1) ← readMany readCQAtom n.toNat r0
    match r1 with
    | k :: r2 => do
      let (bonds, r3) ← readMany readCBond k.toNat r2
      some (⟨atoms, bonds⟩, r3)
    | [] => none
  | [] => none

def showDict (d : Iso.Dict) : String := " ".intercalate (d.map fun p => s!"{p.1} {p.2}")

def showOutcome : Outcome → String
  | .ok ms => s!"ok {ms.length} | " ++ " | ".intercalate (ms.map showDict)
  | .err e => s!"err {e.name}"
  | .crash => "crash"

def showFault : Except Fault (List Iso.Dict × Stats) → String
  | .ok (r, st) => s!"ok {st.maxStack} {st.pushes} {r.length}"
  | .error (.oob a i n) => s!"oob {a.name} {i} {n}"
  | .error (.uninit a) => s!"uninit {a.name}"
  | .error .range => "range"
  | .error .fuel => "fuel"

def b01 (b : Bool) : String := if b then "1" else "0"

def handle (line : String) : String :=
  match words line with
  | [] => "error empty"
  | op :: args =>
    match parseInts? args with
    | none => "error parse"
    | some xs =>
      match op with
      | "ea" =>
        match readMAtom xs with
        | some (a, _) =>
          match mdlOf a.z with
          | some mdl => showExcept showWords (encAtom mdl a)
          | none => "err KeyError"
        | none => "error args"
      | "eq" =>
        match xs with
        | hb :: r0 =>
          let rb : Option (Option QBond × List Int) :=
            if hb != 0 then (readQBond r0).map fun (b, r) => (some b, r) else some (none, r0)
          match rb with
          | some (b, r1) =>
            match readQAtom r1 with
            | some (a, _) =>
              match qmdlFor a with
              | .ok qmdl => showExcept showWords (encQAtom qmdl a b)
              | .error e => s!"err {e.name}"
            | none => "error args"
          | none => "error args"
        | [] => "error args"
      | "cw" =>
        match readQBond xs with
        | some (b, _) => s!"ok {closureWord b}"
        | none => "error args"
      | "es" =>
        match readLMol xs with
        | some (m, _) => showExcept (fun c => "ok " ++ showCMol c) (encStructure m)
        | none => "error args"
      | "ec" =>
        match readLQuery xs with
        | some (q, _) =>
          match Iso.compileQuery q.graph with
          | none => "crash"
          | some (comps, cl) =>
            showExcept (fun cs => s!"ok {cs.length} ; " ++ " ; ".intercalate (cs.map showCQuery)) (encQuery q comps cl)
        | none => "error args"
      | "mt" =>
        match xs with
        | hb :: r0 =>
          let rb : Option (Option QBond × List Int) :=
            if hb != 0 then (readQBond r0).map fun (b, r) => (some b, r) else some (none, r0)
          match rb with
          | some (qb, r1) =>
            match readQAtom r1 with
            | some (q, r2) =>
              match readMAtom r2 with
              | some (a, r3) =>
                match qmdlFor q, mdlOf a.z with
                | .ok qmdl, some mdl =>
                  let qw := qWords qmdl q qb
                  let aw := atomWords mdl a
                  let cq : CQAtom := ⟨qw.v1, qw.v2, qw.v3, qw.v4, 0, 0, 0, 0, 0⟩
                  let ca : CAtom := ⟨aw.v1, aw.v2, aw.v3, aw.v4, 0, 0, 0⟩
                  match qb, r3 with
                  | some b, o :: ir :: _ =>
                    let mb : MBond := { order := o.toNat, inRing := ir != 0 }
                    s!"{b01 (nextOk cq (bondWord aw.v1 mb) ca)} {b01 (pyEq q a && bondEq b mb)}"
                  | none, _ => s!"{b01 (rootOk cq ca)} {b01 (pyEq q a)}"
                  | _, _ => "error args"
                | _, _ => "err KeyError"
              | none => "error args"
            | none => "error args"
          | none => "error args"
        | [] => "error args"
      | "gm" =>
        match xs with
        | af :: hs :: r0 =>
          match readNatList r0 with
          | some (sc, r1) =>
            match readLQuery r1 with
            | some (q, r2) =>
              match readLMol r2 with
              | some (m, r3) =>
                match r3 with
                | nc :: r4 =>
                  match readMany readNatList nc.toNat r4 with
                  | some (tc, _) =>
                    let scope := if hs != 0 then some sc else none
                    s!"C {showOutcome (cythonPathA q m tc scope (af != 0))} ; P {showOutcome (pythonPath q m tc scope (af != 0))}"
                  | none => "error args"
                | [] => "error args"
              | none => "error args"
            | none => "error args"
          | none => "error args"
        | _ => "error args"
      | "ga" =>
        match xs with
        | old :: r0 =>
          match readNatList r0 with
          | some (sc, r1) =>
            match readLQuery r1 with
            | some (q, r2) =>
              match readLMol r2 with
              | some (m, _) =>
                match Iso.compileQuery q.graph with
                | none => "crash"
                | some (comps, cl) =>
                  match encQuery q comps cl, encStructure m with
                  | .ok cqs, .ok cm =>
                    " ; ".intercalate (cqs.map fun cq =>
                      let al := if old != 0 then allocOld cq.atoms.length cm.atoms.length else allocOf cq.atoms.length cm.atoms.length
                      showFault (getMappingA al cm cq (sc.map (· != 0))))
                  | .error e, _ => s!"err {e.name}"
                  | _, .error e => s!"err {e.name}"
              | none => "error args"
            | none => "error args"
          | none => "error args"
        | [] => "error args"
      | "gb" =>
        match xs with
        | old :: r0 =>
          match readNatList r0 with
          | some (sc, r1) =>
            match readCQuery r1 with
            | some (cq, r2) =>
              match readCMol r2 with
              | some (cm, _) =>
                let al := if old != 0 then allocOld cq.atoms.length cm.atoms.length else allocOf cq.atoms.length cm.atoms.length
                showFault (getMappingA al cm cq (sc.map (· != 0)))
              | none => "error args"
            | none => "error args"
          | none => "error args"
        | [] => "error args"
      | _ => "error op"

def main : IO Unit := runDriver handle
