import ChythonModel.Model.C05Rules
import ChythonModel.Model.C05Thiele
import ChythonModel.Model.C05Search
import ChythonModel.Model.C05Full
import ChythonModel.Spec.Kekule
/-!
Line-protocol driver for C05.

`cls z charge radical neighbors implH exo`         → `raise` | `<db> <pyr>`            (`classifyAtom`)
`prep <mol> k (<len> <atoms…>)×k`                 → `raise` | `rings=…|pyr=…|db=…|singles=…` (`prepareRings`, canonicalised)
`kek <molA> <molK>`                                → `ok` | `reject …`                 (`checkKekule`)
`kekn <molA> <molK> k (<len> <atoms…>)×k`         → `ok norm=<0|1>` | `reject …` | `prep-raise`
                                                     (`prepareRings` → `normalise` → `checkKekule` ∧ `checkMatching`)
`thi <molK> <molT>`                                → `ok` | `reject …`                 (`checkThiele`)
`lab <mol>`                                        → `n:hyb:neighbours;…` in `_atoms` order (`hybridization`, `neighborsOf`: the labels `calc_labels` writes)
`tmono <mol> <len> <ring atoms…>`                  → `<0|1> <kind>`                    (`monoAromatic`, `ringKind`)
`tnf <molK> k (<len> <atoms…>)×k`                  → `freak` | `<0|1> | <mol wire>`     (`thieleNoFix`)
`thr <molK> <molT> k (<len> <atoms…>)×k`          → `ok` | `reject`                   (`aromatisedOnlyEligible`)
`fix <mol> r (c (p (<q> <n>)×p)×c)×r`             → `raise` | `<faithful> <keep> <seen…> | <mol wire>` (`fixRings` over the regenerated table)
`kekf <mol> <maps as in fix> k (<len> <atoms…>)×k <buffer_size> c (<adj> d <db…> p <pyr…>)×c`
                                                   → `raise` | `crash:…` | `bad-components` | `<0|1> | <mol wire>` (`kekuleFull`: the whole of
                                                     `kekule()`: value returned and molecule left behind)
`ks <buffer_size> <limit> k (<atom> <deg> <nbrs…>)×k d <double_bonded…> p <pyrroles…>`
                                                   → `<done|raise|crash:<Exc>|more> dom=<0|1> | <n>,<m>,<b> … ; …` (`kekuleComponent`:
                                                     the yielded paths of `_kekule_component` in order, verbatim;
                                                     `dom` = `graphOKb`, the domain of `search_sound_partial`)
-/
open ChythonModel.Py ChythonModel.Model ChythonModel.Model.C05 ChythonModel.Model.C05T ChythonModel.Spec.Kekule

def sortNats (l : List Nat) : List Nat := l.mergeSort fun a b => decide (a ≤ b)
def commas (l : List Nat) : String := ",".intercalate (l.map toString)
def sortByKey {β : Type} (l : List (Nat × β)) : List (Nat × β) := l.mergeSort fun a b => decide (a.1 ≤ b.1)

def parseRings : Nat → List Int → Option (List (List Nat) × List Int)
  | 0, rest => some ([], rest)
  | k + 1, len :: rest =>
    if len < 0 ∨ rest.length < len.toNat then none
    else (parseRings k (rest.drop len.toNat)).map fun (tl, r) => (((rest.take len.toNat).map Int.toNat) :: tl, r)
  | _ + 1, [] => none

def showPrep (p : Prep) : String :=
  let pairs := (p.singles.map fun ab => if ab.1 ≤ ab.2 then ab else (ab.2, ab.1)).mergeSort
    fun a b => decide (a.1 < b.1 ∨ (a.1 = b.1 ∧ a.2 ≤ b.2))
  "rings=" ++ ";".intercalate ((sortByKey p.rings).map fun r => s!"{r.1}:{commas (sortNats r.2)}") ++
  "|pyr=" ++ commas (sortNats p.pyrroles) ++ "|db=" ++ commas (sortNats p.dbl) ++
  "|singles=" ++ ",".intercalate (pairs.map fun ab => s!"{ab.1}-{ab.2}")

/-- first failing item of `checkKekule`, for the report only (the verdict is `checkKekule` itself) -/
def explainKek (a k : Mol) : String :=
  let rec atoms : List (Nat × Atom) → List (Nat × Atom) → Option String
    | [], [] => none
    | x :: xs, y :: ys => if atomOk a k x y then atoms xs ys else
        some (if x.1 != y.1 || core x.2 != core y.2 then s!"atom-changed@{x.1}"
              else match y.2.implH with
                | none => s!"H-undefined@{x.1}"
                | some h => match x.2.implH with
                  | some h0 => if h0 != h then s!"H-changed@{x.1}:{h0}->{h}" else s!"H-not-by-valence-rules@{x.1}:{h}"
                  | none => s!"H-not-by-valence-rules@{x.1}:{h}")
    | _, _ => some "atom-count"
  let rec bonds : List (Nat × Bond) → List (Nat × Bond) → Nat → Option String
    | [], [], _ => none
    | p :: ps, q :: qs, n => if bondOk p q then bonds ps qs n else
        some (if p.1 != q.1 then s!"neighbour-changed@{n}" else if q.2.order == 4 then s!"aromatic-left@{n}-{p.1}"
              else s!"order@{n}-{p.1}:{p.2.order}->{q.2.order}")
    | _, _, n => some s!"degree-changed@{n}"
  let rec rows : List (Nat × List (Nat × Bond)) → List (Nat × List (Nat × Bond)) → Option String
    | [], [] => none
    | r :: rs, s :: ss => if r.1 != s.1 then some s!"row-changed@{r.1}" else
        match bonds r.2 s.2 r.1 with
        | some e => some e
        | none => rows rs ss
    | _, _ => some "row-count"
  match atoms a.atoms k.atoms with
  | some e => e
  | none => (rows a.adj k.adj).getD "?"

def explainThi (k t : Mol) : String :=
  let rec atoms : List (Nat × Atom) → List (Nat × Atom) → Option String
    | [], [] => none
    | x :: xs, y :: ys => if aromAtomOk x y then atoms xs ys else
        some (if x.2.implH != y.2.implH then s!"H-changed@{x.1}" else s!"atom-changed@{x.1}")
    | _, _ => some "atom-count"
  let rec rows : List (Nat × List (Nat × Bond)) → List (Nat × List (Nat × Bond)) → Option String
    | [], [] => none
    | r :: rs, s :: ss => if aromRowOk t r s then rows rs ss else some s!"bonds@{r.1}"
    | _, _ => some "row-count"
  match atoms k.atoms t.atoms with
  | some e => e
  | none => (rows k.adj t.adj).getD "dangling-aromatic-bond"

def handleKekn (a k : Mol) (sssr : List (List Nat)) : String :=
  match prepareRings a sssr with
  | none => "prep-raise"
  | some p =>
    let an := normalise a p
    let must := p.rings.keys.filter fun n => !p.dbl.contains n && !p.pyrroles.contains n
    let norm := if an == a then "0" else "1"
    if !checkKekule an k then s!"reject kekule {explainKek an k} norm={norm}"
    else if !checkMatching an k must p.dbl then s!"reject matching norm={norm}"
    else s!"ok norm={norm}"

def parseMaps (xs : List Int) : Option (List (List (List (Nat × Nat))) × List Int) :=
  let rec pairs : Nat → List Int → Option (List (Nat × Nat) × List Int)
    | 0, r => some ([], r)
    | k + 1, q :: n :: r => (pairs k r).map fun (tl, r') => ((q.toNat, n.toNat) :: tl, r')
    | _, _ => none
  let rec maps : Nat → List Int → Option (List (List (Nat × Nat)) × List Int)
    | 0, r => some ([], r)
    | k + 1, p :: r => do
        let (mp, r1) ← pairs p.toNat r
        let (tl, r2) ← maps k r1
        some (mp :: tl, r2)
    | _, _ => none
  let rec rules : Nat → List Int → Option (List (List (List (Nat × Nat))) × List Int)
    | 0, r => some ([], r)
    | k + 1, c :: r => do
        let (ms, r1) ← maps c.toNat r
        let (tl, r2) ← rules k r1
        some (ms :: tl, r2)
    | _, _ => none
  match xs with
  | n :: rest => rules n.toNat rest
  | [] => none

def showKind : RingKind → String
  | .skip => "skip" | .benzene => "benzene" | .tetra => "tetra" | .pyrrole n => s!"pyrrole:{n}" | .freak => "freak"

def parseAdj : Nat → List Int → Option (Adj × List Int)
  | 0, rest => some ([], rest)
  | k + 1, a :: d :: rest =>
    if d < 0 ∨ rest.length < d.toNat then none
    else (parseAdj k (rest.drop d.toNat)).map fun (tl, r) => ((a.toNat, (rest.take d.toNat).map Int.toNat) :: tl, r)
  | _ + 1, _ => none

def showStatus : C05S.Status → String
  | .done => "done" | .raised => "raise" | .crashed e => "crash:" ++ e | .more => "more"

def showPath (p : C05S.Path) : String := " ".intercalate (p.map fun e => s!"{e.1},{e.2.1},{e.2.2}")

def handleKs (xs : List Int) : String :=
  match xs with
  | buf :: limit :: k :: rest =>
    match parseAdj k.toNat rest with
    | some (rings, d :: rest1) =>
      if d < 0 ∨ rest1.length < d.toNat then "badwire" else
      match rest1.drop d.toNat with
      | p :: rest2 =>
        if rest2.length != p.toNat then "badwire" else
        let (ys, st) := C05S.kekuleComponent rings ((rest1.take d.toNat).map Int.toNat) (rest2.map Int.toNat) buf.toNat limit.toNat
        showStatus st ++ (if C05S.graphOKb rings then " dom=1" else " dom=0") ++ " | " ++ " ; ".intercalate (ys.map showPath)
      | [] => "badwire"
    | _ => "badwire"
  | _ => "badwire"

def parseComps : Nat → List Int → Option (List C05F.Comp × List Int)
  | 0, rest => some ([], rest)
  | n + 1, k :: rest => do
    let (rings, r1) ← parseAdj k.toNat rest
    match r1 with
    | d :: r2 =>
      if d < 0 ∨ r2.length < d.toNat then none else
      match r2.drop d.toNat with
      | p :: r3 =>
        if p < 0 ∨ r3.length < p.toNat then none else
        let (tl, r4) ← parseComps n (r3.drop p.toNat)
        some (⟨rings, (r2.take d.toNat).map Int.toNat, (r3.take p.toNat).map Int.toNat⟩ :: tl, r4)
      | [] => none
    | [] => none
  | _ + 1, [] => none

/-- `kekf <mol> <maps> k (<len> <atoms…>)×k <buffer_size> c (<adj> d <db…> p <pyr…>)×c` -/
def handleKekf (xs : List Int) : String :=
  match Mol.parse xs with
  | some (m, rest) =>
    match parseMaps rest with
    | some (maps, k :: rest1) =>
      match parseRings k.toNat rest1 with
      | some (sssr, buf :: nc :: rest2) =>
        match parseComps nc.toNat rest2 with
        | some (cs, []) =>
          if !m.WF then "malformed" else
          match C05F.kekuleFull fixRules m maps sssr buf.toNat cs with
          | .ok ret k => s!"{if ret then 1 else 0} | {k.render}"
          | .invalid => "raise"
          | .crash e => "crash:" ++ e
          | .badInput => "bad-components"
        | _ => "badwire"
      | _ => "badwire"
    | _ => "badwire"
  | none => "badwire"

def handle (line : String) : String :=
  match words line with
  | [] => "empty"
  | op :: args =>
    match parseInts? args with
    | none => "badints"
    | some xs =>
      match op with
      | "cls" =>
        match xs with
        | [z, c, r, nb, h, e] =>
          match classifyAtom ⟨z.toNat, c, r != 0, nb.toNat, optNat h, e != 0⟩ with
          | none => "raise"
          | some k => s!"{if k.db then 1 else 0} {if k.pyr then 1 else 0}"
        | _ => "badargs"
      | "prep" =>
        match Mol.parse xs with
        | some (m, k :: rest) =>
          match parseRings k.toNat rest with
          | some (rings, []) =>
            if !m.WF then "malformed" else
            match prepareRings m rings with
            | none => "raise"
            | some p => showPrep p
          | _ => "badwire"
        | _ => "badwire"
      | "kek" =>
        match Mol.parse xs with
        | some (a, rest) =>
          match Mol.parse rest with
          | some (k, []) => if checkKekule a k then "ok" else s!"reject kekule {explainKek a k}"
          | _ => "badwire"
        | none => "badwire"
      | "kekn" =>
        match Mol.parse xs with
        | some (a, rest) =>
          match Mol.parse rest with
          | some (k, n :: rest') =>
            match parseRings n.toNat rest' with
            | some (rings, []) => if !a.WF then "malformed" else handleKekn a k rings
            | _ => "badwire"
          | _ => "badwire"
        | none => "badwire"
      | "thi" =>
        match Mol.parse xs with
        | some (k, rest) =>
          match Mol.parse rest with
          | some (t, []) => if checkThiele k t then "ok" else s!"reject thiele {explainThi k t}"
          | _ => "badwire"
        | none => "badwire"
      | "lab" =>
        match Mol.parse xs with
        | some (m, []) => ";".intercalate (m.ids.map fun n => s!"{n}:{hybridization m n}:{neighborsOf m n}")
        | _ => "badwire"
      | "tmono" =>
        match Mol.parse xs with
        | some (m, len :: rest) =>
          if rest.length != len.toNat then "badwire" else
          if !m.WF then "malformed" else
          let ring := rest.map Int.toNat
          s!"{if monoAromatic m ring then 1 else 0} {showKind (ringKind m ring)}"
        | _ => "badwire"
      | "tnf" =>
        match Mol.parse xs with
        | some (k, n :: rest) =>
          match parseRings n.toNat rest with
          | some (rings, []) =>
            if !k.WF then "malformed" else
            match thieleNoFix k rings with
            | none => "freak"
            | some (ret, t) => s!"{if ret then 1 else 0} | {t.render}"
          | _ => "badwire"
        | _ => "badwire"
      | "thr" =>
        match Mol.parse xs with
        | some (k, rest) =>
          match Mol.parse rest with
          | some (t, n :: rest') =>
            match parseRings n.toNat rest' with
            | some (rings, []) =>
              if !k.WF then "malformed" else if aromatisedOnlyEligible k t rings then "ok" else "reject not-on-candidate-ring"
            | _ => "badwire"
          | _ => "badwire"
        | none => "badwire"
      | "fix" =>
        match Mol.parse xs with
        | some (m, rest) =>
          match parseMaps rest with
          | some (maps, []) =>
            match fixRings fixRules m maps with
            | none => "raise"
            | some s => s!"{if fixFaithful m maps then 1 else 0} {if s.keep then 1 else 0} {commas (sortNats s.seen)} | {s.mol.render}"
          | _ => "badwire"
        | none => "badwire"
      | "ks" => handleKs xs
      | "kekf" => handleKekf xs
      | _ => "badop"

def main : IO Unit := ChythonModel.Py.runDriver handle
