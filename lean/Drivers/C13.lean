import ChythonModel.Model.Cache
/-!
Line protocol of the C13 model.

request : `run|<molecule wire ints>|<op>|<op>|…`   with `<op>` = `<name> <ints…> # <observed __dict__ keys…>`
          (`read` takes the key as its second token; lists are length-prefixed)
response: one `|`-separated block per op: `<outcome>;new=<idx|->;recalc=<ids>` followed by one `;obj …` summary per object
-/
open ChythonModel.Py ChythonModel.Model ChythonModel.Model.C13

def maskMol (m : Mol) : Mol :=
  ⟨m.atoms.map fun p => (p.1, { p.2 with implH := none, stereo := none }),
   m.adj.map fun p => (p.1, p.2.map fun kb => (kb.1, { kb.2 with stereo := none }))⟩

def sortNat (l : List Nat) : List Nat := (l.toArray.qsort (· < ·)).toList
def sortStr (l : List String) : List String := (l.toArray.qsort (· < ·)).toList

def showSlotList : Option (Option (List Nat)) → String
  | none => "unset"
  | some none => "none"
  | some (some l) => "set:" ++ ",".intercalate ((sortNat l).map toString)

def objSummary (w : World) (o : Obj) : String :=
  let c := o.toCore
  let keys := ",".intercalate (sortStr (o.cache.map (·.key)))
  let stale := ",".intercalate (sortStr (staleKeys c))
  let hst := ",".intercalate ((sortNat (hStale c)).map toString)
  let bk := match o.backup with
    | none => "unset"
    | some none => "none"
    | some (some _) => "set"
  let nm := match o.name with
    | none => "unset"
    | some none => "none"
    | some (some n) => s!"{n}"
  let mt := match o.info with
    | none => "unset"
    | some none => "none"
    | some (some d) => "d:" ++ ",".intercalate (d.map fun (p : Nat × Nat) => s!"{p.1}={p.2}")
  let xy := ",".intercalate ((coords w o).map fun p => s!"{p.1}:{p.2.1}:{p.2.2}")
  -- the executable well-formedness check the theorems `wf_*` are about: live graph and transaction snapshot
  let wf : Bool := o.mol.WF && (match o.backup with
    | some (some b) => b.mol.WF
    | _ => true)
  s!"obj keys={keys} changed={showSlotList o.changed} backup={bk} name={nm} meta={mt} lfresh={if labelsFresh c then 1 else 0} " ++
  s!"coh={if coherent c then 1 else 0} stale={stale} hstale={hst} xy={xy} wf={if wf then 1 else 0} mol={(maskMol o.mol).render}"

def takeList (xs : List Int) : Option (List Nat × List Int) :=
  match xs with
  | n :: rest => if rest.length < n.toNat then none else some ((rest.take n.toNat).map Int.toNat, rest.drop n.toNat)
  | [] => none

def pairs : List Nat → List (Nat × Nat)
  | a :: b :: t => (a, b) :: pairs t
  | _ => []

def parseOp (name : String) (toks : List String) : Option Op :=
  if name == "read" then
    match toks with
    | [o, k] => (parseInt? o).map fun i => .read i.toNat k
    | _ => none
  else do
    let xs ← parseInts? toks
    let b (i : Int) : Bool := i != 0
    match name, xs with
    | "addAtom", [o, z, n, skip] => some (.addAtom o.toNat z.toNat (if n < 0 then none else some n.toNat) (b skip))
    | "addBond", [o, a, c, ord, skip] => some (.addBond o.toNat a.toNat c.toNat ord.toNat (b skip))
    | "delAtom", [o, n, skip] => some (.delAtom o.toNat n.toNat (b skip))
    | "delBond", [o, a, c, skip] => some (.delBond o.toNat a.toNat c.toNat (b skip))
    | "remap", o :: rest => do
        let (l, _) ← takeList rest
        some (.remap o.toNat (pairs l))
    | "copy", [o, s, c] => some (.copy o.toNat (b s) (b c))
    | "substructure", o :: r :: rest => do
        let (l, _) ← takeList rest
        some (.substructure o.toNat l (b r))
    | "union", [o, p, r, c] => some (.union o.toNat p.toNat (b r) (b c))
    | "fixStructure", [o, r] => some (.fixStructure o.toNat (b r))
    | "calcLabels", [o] => some (.calcLabels o.toNat)
    | "fixStereo", [o] => some (.fixStereo o.toNat)
    | "cleanStereo", [o] => some (.cleanStereo o.toNat)
    | "flush", [o, s, c] => some (.flush o.toNat (b s) (b c))
    | "enter", [o] => some (.enter o.toNat)
    | "exitOk", [o] => some (.exitOk o.toNat)
    | "exitExc", [o] => some (.exitExc o.toNat)
    | "setCharge", [o, n, c] => some (.setCharge o.toNat n.toNat c)
    | "setRadical", [o, n, r] => some (.setRadical o.toNat n.toNat (b r))
    | "setXY", [o, n, x, y] => some (.setXY o.toNat n.toNat x y)
    | "setMeta", [o, k, v] => some (.setMeta o.toNat k.toNat v.toNat)
    | _, _ => none

def runOps (w : World) : List String → List String
  | [] => []
  | s :: rest =>
    let (opPart, obsPart) := match s.splitOn "#" with
      | [a, b] => (a, b)
      | [a] => (a, "")
      | _ => (s, "")
    match words opPart with
    | name :: toks =>
      match parseOp name toks with
      | none => ["bad-op " ++ s]
      | some op =>
        let out := step current w op (words obsPart)
        let oc := match out.err with
          | none => "ok"
          | some e => e.render
        let nw := match out.created with
          | none => "-"
          | some j => toString j
        let line := s!"{oc};new={nw};recalc={",".intercalate ((sortNat out.recalc).map toString)}" ++
          String.join (out.w.objs.map fun o => ";" ++ objSummary out.w o)
        line :: runOps out.w rest
    | [] => ["bad-op (empty)"]

def handle (line : String) : String :=
  match line.splitOn "|" with
  | "run" :: molS :: ops =>
    match parseInts? (words molS) with
    | none => "bad-mol"
    | some xs =>
      match Mol.parse xs with
      | some (m, []) => "|".intercalate (runOps (freshWorld m) ops)
      | _ => "bad-mol"
  | _ => "bad-request"

def main : IO Unit := runDriver handle
