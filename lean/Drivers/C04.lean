import ChythonModel.Model.Valence
import ChythonModel.Model.C04Standardize
/-!
Line-protocol driver for C04. Requests (all ints after the op):

* `rules z`                          → compiled table of element `z`:
                                        `ok K {c r v n {ns {o z}*ns nd {o z cnt}*nd h}*n}*K` | `err <kind>`
* `calcs z c r hmax N {k {o z}*k}*N` → for each of the N bond lists: `h|-1` and the bitmask of
                                        `check_implicit(h')` for `h' = 0..hmax`, as `h:mask`
* `implicify <wire>` / `explicify <wire>` → `ok <wire of the result> H <total hydrogens|-1>` | `lib:ValenceError` | `E:KeyError`
* `stdrule na {pn ch ir(-1|0|1)}*na nb {pn pm bo}*nb ny {pn}*ny nm {len {pn n}*len}*nm <wire>` → one rule of `__standardize` over the
                                        recorded mappings (rewrite + recount of `hs`): `ok <wire of the result>` | `E:KeyError`
* `stdchain K {rule as in stdrule, without the molecule}*K <wire>` → the rule part of one `standardize()` call (`stdRules`): same answers
* `mol <wire molecule>`              → `calc h..|chk (0,1,-1)..|cv ids..|fixcv ids.. ; marks after fix_structure..|q charge|rad 0/1|brutto sym n ..|mass pico`
-/
open ChythonModel.Model ChythonModel.Model.Valence ChythonModel.Py ChythonModel.Gen
open ChythonModel.Model.C04Standardize

def showErr : PyErr → String
  | .indexError => "IndexError"
  | .keyError s => s!"KeyError:{s}"
  | .atomKeyError n => s!"KeyError:{n}"
  | .typeError => "TypeError"

def showRule (r : Rule) : String :=
  s!"{r.set.length} " ++ String.join (r.set.map fun (o, z) => s!"{o} {z} ") ++
  s!"{r.dict.length} " ++ String.join (r.dict.map fun ((o, z), c) => s!"{o} {z} {c} ") ++ s!"{r.h}"

def showRules (t : Rules) : String :=
  s!"ok {t.length}" ++ String.join (t.map fun ((c, r, v), rs) =>
    s!" {c} {if r then 1 else 0} {v} {rs.length}" ++ String.join (rs.map fun r => " " ++ showRule r))

def optH : Option Nat → String
  | none => "-1" | some h => toString h

def parseBonds : Nat → List Int → Option (List BE × List Int)
  | 0, rest => some ([], rest)
  | k+1, o :: z :: rest => do
      let (tl, rest') ← parseBonds k rest
      some ((o.toNat, z.toNat) :: tl, rest')
  | _, _ => none

def calcsLoop (t : Rules) (z : Nat) (c : Int) (r : Bool) (hmax : Nat) : Nat → List Int → List String → Option (List String)
  | 0, _, acc => some acc.reverse
  | n+1, k :: rest, acc =>
    match parseBonds k.toNat rest with
    | none => none
    | some (bs, rest') =>
      let ctx : Ctx := ⟨z, c, r, bs⟩
      let h := calcWith t ctx
      let mask := (List.range (hmax + 1)).foldl (fun m i => if checkWith t ctx i then m + 2 ^ i else m) 0
      calcsLoop t z c r hmax n rest' (s!"{optH h}:{mask}" :: acc)
  | _, _, _ => none

def showOptOpt : Option (Option Nat) → String
  | none => "E" | some none => "-1" | some (some h) => toString h

def handleMol (xs : List Int) : String :=
  match Mol.parse xs with
  | none => "bad-mol"
  | some (m, _) =>
    let calcS := " ".intercalate (m.ids.map fun n => showOptOpt (calcImplicitMol m n))
    let chk := " ".intercalate (m.atoms.map fun (p : Nat × Atom) => match p.2.implH with
      | none => "-1"
      | some h => match checkImplicitMol m p.1 h with
        | none => "E" | some true => "1" | some false => "0")
    let cv := showNats (checkValence m)
    let fixcv := match fixStructure m with
      | none => "E"
      | some m' => showNats (checkValence m') ++ " ; " ++ " ".intercalate (m'.atoms.map fun (p : Nat × Atom) => showOptNat p.2.implH)
    let q := toString (molecularCharge m)
    let rad := if isRadical m then "1" else "0"
    let br := match brutto m with
      | .error e => "E:" ++ showErr e
      | .ok l => " ".intercalate (l.map fun (sn : String × Nat) => s!"{sn.1} {sn.2}")
    let mass := match molecularMassPico m with
      | .error e => "E:" ++ showErr e
      | .ok v => toString v
    s!"calc {calcS}|chk {chk}|cv {cv}|fixcv {fixcv}|q {q}|rad {rad}|brutto {br}|mass {mass}"

def showOp : Except OpErr Mol → String
  | .ok m => "ok " ++ m.render ++ " H " ++ showOptNat (totalHydrogens m)
  | .error .valenceError => "lib:ValenceError"
  | .error .keyError => "E:KeyError"

/-- `k` groups of `w` ints from the front of the list -/
def takeGroups (w : Nat) : Nat → List Int → Option (List (List Int) × List Int)
  | 0, rest => some ([], rest)
  | k+1, rest =>
    if rest.length < w then none
    else match takeGroups w k (rest.drop w) with
      | none => none
      | some (tl, r) => some (rest.take w :: tl, r)

def counted? (w : Nat) : List Int → Option (List (List Int) × List Int)
  | k :: rest => takeGroups w k.toNat rest
  | [] => none

def parseMaps : Nat → List Int → Option (List (List (Nat × Nat)) × List Int)
  | 0, rest => some ([], rest)
  | k+1, rest => do
    let (g, r) ← counted? 2 rest
    let (tl, r') ← parseMaps k r
    some (g.map (fun x => ((x.getD 0 0).toNat, (x.getD 1 0).toNat)) :: tl, r')

def parseRuleFix (xs : List Int) : Option ((RuleFix × List (List (Nat × Nat))) × List Int) := do
  let (af, r1) ← counted? 3 xs
  let (bf, r2) ← counted? 3 r1
  let (ay, r3) ← counted? 1 r2
  let (maps, r4) ← match r3 with
    | k :: rest => parseMaps k.toNat rest
    | [] => none
  let fx : RuleFix :=
    { atomFix := af.map fun x => ((x.getD 0 0).toNat, x.getD 1 0, tri (x.getD 2 (-1))),
      bondsFix := bf.map fun x => ((x.getD 0 0).toNat, (x.getD 1 0).toNat, (x.getD 2 0).toNat),
      anyAtoms := ay.map fun x => (x.getD 0 0).toNat }
  some ((fx, maps), r4)

def parseRuleFixes : Nat → List Int → Option (List (RuleFix × List (List (Nat × Nat))) × List Int)
  | 0, rest => some ([], rest)
  | k+1, rest => do
    let (r, rest1) ← parseRuleFix rest
    let (tl, rest2) ← parseRuleFixes k rest1
    some (r :: tl, rest2)

def handleStdRule (xs : List Int) : String :=
  match (parseRuleFix xs).bind fun (r, rest) => (Mol.parse rest).map fun (m, _) => (r, m) with
  | none => "bad-request"
  | some ((fx, maps), m) => match stdRule fx maps m with
    | none => "E:KeyError"
    | some m' => "ok " ++ m'.render

def handleStdChain (xs : List Int) : String :=
  match xs with
  | k :: rest =>
    match (parseRuleFixes k.toNat rest).bind fun (rs, rest') => (Mol.parse rest').map fun (m, _) => (rs, m) with
    | none => "bad-request"
    | some (rs, m) => match stdRules rs m with
      | none => "E:KeyError"
      | some m' => "ok " ++ m'.render
  | [] => "bad-request"

def handle (line : String) : String :=
  match words line with
  | "rules" :: ws =>
    match parseInts? ws with
    | some [z] =>
      match rowOfZ periodicTable z.toNat with
      | none => "err no-element"
      | some r => match compileRules periodicTable r with
        | .ok t => showRules t
        | .error e => "err " ++ showErr e
    | _ => "bad-request"
  | "calcs" :: ws =>
    match parseInts? ws with
    | some (z :: c :: r :: hmax :: n :: rest) =>
      match tableOf z.toNat with
      | none => "err no-table"
      | some t => match calcsLoop t z.toNat c (r != 0) hmax.toNat n.toNat rest [] with
        | none => "bad-request"
        | some out => " ".intercalate out
    | _ => "bad-request"
  | "mol" :: ws =>
    match parseInts? ws with
    | some xs => handleMol xs
    | none => "bad-request"
  | "stdrule" :: ws =>
    match parseInts? ws with
    | some xs => handleStdRule xs
    | none => "bad-request"
  | "stdchain" :: ws =>
    match parseInts? ws with
    | some xs => handleStdChain xs
    | none => "bad-request"
  | "implicify" :: ws =>
    match (parseInts? ws).bind Mol.parse with
    | some (m, _) => showOp (implicify m)
    | none => "bad-request"
  | "explicify" :: ws =>
    match (parseInts? ws).bind Mol.parse with
    | some (m, _) => showOp (explicify m)
    | none => "bad-request"
  | _ => "bad-request"

def main : IO Unit := runDriver handle
