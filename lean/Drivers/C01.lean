import ChythonModel.Py.Wire
import ChythonModel.Py.Hash
import ChythonModel.Model.Morgan
import ChythonModel.Model.ChiralMorgan
import ChythonModel.Model.C01Chiral
import ChythonModel.Model.C01Check
import ChythonModel.Gen.PeriodicTable
/-!
Line-protocol driver for C01. Requests are `<op> <int> …`.

  order  N (id z iso(0=None) charge radical implH(-1=None) inRing deg (nbr order)^deg)^N     Morgan.atoms_order
  morgan K (n w)^K B (n deg (m b)^deg)^B                                                     _morgan(atoms, bonds)
  cmorgan N (id z iso charge radical implH inRing stereo(-1|0|1) deg (nbr order bstereo(-1|0|1))^deg)^N           _chiral_morgan
  cfull  (same wire as cmorgan)                                                              _chiral_morgan incl. cis/trans and allene labels (Model/C01Chiral.lean)
  stabs  (same wire as cmorgan)                                                              stereogenic_cumulenes, stereogenic_allenes, stereogenic_cis_trans, _stereo_cis_trans_centers, _stereo_cis_trans_terminals (dict order)
  cumul  (same wire as cmorgan)                                                              MoleculeStereo.cumulenes: `ok P (len a…)^P`
  same   K (old new)^K <order-wire of a> <order-wire of b>                                    C01Check.checkSame (proved checker)
  hash   z iso charge radical implH inRing                                                   hash(atom)  (Element.__hash__)
  tuple  i0 i1 …                                                                             hash((i0, i1, …))

Responses: `ok …` (dicts as `k v k v …` in dict order), `err KeyError`, `err NoneInHash`, `bad` for a malformed line.
-/
open ChythonModel.Py ChythonModel.Model ChythonModel.Model.Morgan

/-- `is_forming_single_bonds` of the element with atomic number `z` (regenerated periodic table) -/
def singleOf (z : Nat) : Bool :=
  match ChythonModel.Gen.periodicTable.find? (·.z == z) with
  | some r => r.single
  | none => false

/-- `is_forming_double_bonds` of the element with atomic number `z` (regenerated periodic table) -/
def doubleOf (z : Nat) : Bool :=
  match ChythonModel.Gen.periodicTable.find? (·.z == z) with
  | some r => r.double
  | none => false

def showStop : ChiralFull.Stop → String
  | .err e => "err " ++ e.name
  | .notModelled => "notmodelled"
  | .fuelOut => "fuelout"

def parseNb : Nat → List Int → Option (List (Nat × Int) × List Int)
  | 0, rest => some ([], rest)
  | k + 1, m :: b :: rest => do
    let (tl, r) ← parseNb k rest
    some ((m.toNat, b) :: tl, r)
  | _, _ => none

def parseViewAtoms : Nat → List Int → Option (List (Nat × HAtom × List (Nat × Int)) × List Int)
  | 0, rest => some ([], rest)
  | k + 1, id :: z :: iso :: ch :: rad :: h :: ring :: deg :: rest => do
    if deg < 0 then none
    let (nb, r1) ← parseNb deg.toNat rest
    let (tl, r2) ← parseViewAtoms k r1
    let a : HAtom := { z := z.toNat, isotope := if iso ≤ 0 then none else some iso.toNat, charge := ch,
                       radical := rad != 0, implH := optNat h, inRing := ring != 0 }
    some ((id.toNat, a, nb) :: tl, r2)
  | _, _ => none

def parseView (xs : List Int) : Option MolView :=
  match xs with
  | n :: rest =>
    if n < 0 then none else
    match parseViewAtoms n.toNat rest with
    | some (rows, []) =>
      some ⟨rows.map (fun r => (r.1, r.2.1)),
            rows.map (fun r => (r.1, r.2.2.map fun (mb : Nat × Int) => (mb.1, ({ order := mb.2.toNat } : Bond))))⟩
    | _ => none
  | [] => none

def viewOfRows (rows : List (Nat × HAtom × List (Nat × Int))) : MolView :=
  ⟨rows.map (fun r => (r.1, r.2.1)),
   rows.map (fun r => (r.1, r.2.2.map fun (mb : Nat × Int) => (mb.1, ({ order := mb.2.toNat } : Bond))))⟩

/-- one molecule from the front of the list -/
def parseViewPrefix (xs : List Int) : Option (MolView × List Int) :=
  match xs with
  | n :: rest =>
    if n < 0 then none else
    match parseViewAtoms n.toNat rest with
    | some (rows, r) => some (viewOfRows rows, r)
    | none => none
  | [] => none

def parseNbS : Nat → List Int → Option (List (Nat × Bond) × List Int)
  | 0, rest => some ([], rest)
  | k + 1, m :: b :: st :: rest => do
    let (tl, r) ← parseNbS k rest
    some ((m.toNat, ({ order := b.toNat, stereo := tri st } : Bond)) :: tl, r)
  | _, _ => none

/-- rows: (id, atom, labelled?, neighbours) -/
def parseViewAtomsS : Nat → List Int → Option (List (Nat × HAtom × Option Bool × List (Nat × Bond)) × List Int)
  | 0, rest => some ([], rest)
  | k + 1, id :: z :: iso :: ch :: rad :: h :: ring :: st :: deg :: rest => do
    if deg < 0 then none
    let (nb, r1) ← parseNbS deg.toNat rest
    let (tl, r2) ← parseViewAtomsS k r1
    let a : HAtom := { z := z.toNat, isotope := if iso ≤ 0 then none else some iso.toNat, charge := ch,
                       radical := rad != 0, implH := optNat h, inRing := ring != 0 }
    some ((id.toNat, a, tri st, nb) :: tl, r2)
  | _, _ => none

def parseWeights : Nat → List Int → Option (Weights × List Int)
  | 0, rest => some ([], rest)
  | k + 1, n :: w :: rest => do
    let (tl, r) ← parseWeights k rest
    some ((n.toNat, w) :: tl, r)
  | _, _ => none

def parseAdj : Nat → List Int → Option (IntAdj × List Int)
  | 0, rest => some ([], rest)
  | k + 1, n :: deg :: rest => do
    if deg < 0 then none
    let (nb, r1) ← parseNb deg.toNat rest
    let (tl, r2) ← parseAdj k r1
    some ((n.toNat, nb) :: tl, r2)
  | _, _ => none

def showRanks (r : List (Nat × Nat)) : String :=
  " ".intercalate ("ok" :: r.map fun (n, i) => s!"{n} {i}")

def handleInts (op : String) (xs : List Int) : Option String :=
  match op with
  | "order" => do
    let m ← parseView xs
    match atomsOrderPy m with
    | some r => some (showRanks r)
    | none => some "err KeyError"
  | "cmorgan" =>
    match xs with
    | n :: rest =>
      if n < 0 then none else
      match parseViewAtomsS n.toNat rest with
      | some (rows, []) =>
        let m : MolView := ⟨rows.map (fun r => (r.1, r.2.1)), rows.map (fun r => (r.1, r.2.2.2))⟩
        let labels := rows.filterMap (fun r => r.2.2.1.map fun s => (r.1, s))
        match ChiralMorgan.chiralMorgan pyHashTuple singleOf m labels with
        | .ranks r => some (showRanks r)
        | .err e => some ("err " ++ e.name)
        | .notModelled => some "notmodelled"
        | .fuelOut => some "fuelout"
      | _ => none
    | [] => none
  | "cfull" =>
    match xs with
    | n :: rest =>
      if n < 0 then none else
      match parseViewAtomsS n.toNat rest with
      | some (rows, []) =>
        let m : MolView := ⟨rows.map (fun r => (r.1, r.2.1)), rows.map (fun r => (r.1, r.2.2.2))⟩
        let labels := rows.filterMap (fun r => r.2.2.1.map fun s => (r.1, s))
        match ChiralFull.chiralFull pyHashTuple singleOf doubleOf m labels with
        | .ranks r => some (showRanks r)
        | .err e => some ("err " ++ e.name)
        | .notModelled => some "notmodelled"
        | .fuelOut => some "fuelout"
      | _ => none
    | [] => none
  | "cumul" =>
    match xs with
    | n :: rest =>
      if n < 0 then none else
      match parseViewAtomsS n.toNat rest with
      | some (rows, []) =>
        let m : MolView := ⟨rows.map (fun r => (r.1, r.2.1)), rows.map (fun r => (r.1, r.2.2.2))⟩
        match ChiralFull.cumulenes doubleOf m with
        | .ok ps => some (" ".intercalate ("ok" :: toString ps.length :: ps.map fun p =>
            " ".intercalate (toString p.length :: p.map toString)))
        | .error s => some (showStop s)
      | _ => none
    | [] => none
  | "stabs" =>
    match xs with
    | n :: rest =>
      if n < 0 then none else
      match parseViewAtomsS n.toNat rest with
      | some (rows, []) =>
        let m : MolView := ⟨rows.map (fun r => (r.1, r.2.1)), rows.map (fun r => (r.1, r.2.2.2))⟩
        match ChiralFull.cumulenes doubleOf m with
        | .error s => some (showStop s)
        | .ok paths =>
          match ChiralFull.stereogenicCumulenes singleOf m paths with
          | .error e => some ("err " ++ e.name)
          | .ok sc =>
            let o (x : Option Nat) : String := match x with | some k => toString k | none => "-1"
            let e (x : ChythonModel.Model.Stereo.Ends) : String := s!"{x.n0} {x.n1} {o x.n2} {o x.n3}"
            let pr (x : Nat × Nat) : String := s!"{x.1} {x.2}"
            some (" ".intercalate (
              ["ok", "SC", toString sc.length] ++ sc.map (fun pe => " ".intercalate (toString pe.1.length :: pe.1.map toString) ++ " " ++ e pe.2) ++
              ["AL", toString (ChiralFull.stereogenicAllenes sc).length] ++ (ChiralFull.stereogenicAllenes sc).map (fun r => s!"{r.1} " ++ e r.2) ++
              ["CT", toString (ChiralFull.stereogenicCisTrans sc).length] ++ (ChiralFull.stereogenicCisTrans sc).map (fun r => pr r.1 ++ " " ++ e r.2) ++
              ["CE", toString (ChiralFull.cisTransCenters sc).length] ++ (ChiralFull.cisTransCenters sc).map (fun r => s!"{r.1} " ++ pr r.2) ++
              ["TE", toString (ChiralFull.cisTransTerminals sc).length] ++ (ChiralFull.cisTransTerminals sc).map (fun r => s!"{r.1} " ++ pr r.2)))
      | _ => none
    | [] => none
  | "same" =>
    match xs with
    | k :: rest => do
      if k < 0 then none
      let (mp, r1) ← parseWeights k.toNat rest
      let (a, r2) ← parseViewPrefix r1
      let (b, r3) ← parseViewPrefix r2
      if !r3.isEmpty then none
      some (if C01Check.checkSame (mp.map fun kv => (kv.1, kv.2.toNat)) a b then "ok 1" else "ok 0")
    | [] => none
  | "morgan" =>
    match xs with
    | k :: rest => do
      if k < 0 then none
      let (w, r1) ← parseWeights k.toNat rest
      match r1 with
      | b :: r2 =>
        if b < 0 then none else
        match parseAdj b.toNat r2 with
        | some (adj, []) =>
          match morgan pyHashTuple w adj with
          | some r => some (showRanks r)
          | none => some "err KeyError"
        | _ => none
      | [] => none
    | [] => none
  | "hash" =>
    match xs with
    | [z, iso, ch, rad, h, ring] =>
      let a : HAtom := { z := z.toNat, isotope := if iso ≤ 0 then none else some iso.toNat, charge := ch,
                         radical := rad != 0, implH := optNat h, inRing := ring != 0 }
      match atomHash pyHashTuple a with
      | some v => some s!"ok {v}"
      | none => some "err NoneInHash"
    | _ => none
  | "tuple" => some s!"ok {pyHashTuple xs}"
  | _ => none

def handle (line : String) : String :=
  match words line with
  | op :: rest =>
    match parseInts? rest with
    | some xs => (handleInts op xs).getD "bad"
    | none => "bad"
  | [] => "bad"

def main : IO Unit := runDriver handle
