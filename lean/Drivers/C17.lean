import ChythonModel.Model.Fingerprint
/-!
Line-protocol driver for C17. One request per line: `<op> <int params…> <molecule ints>`; one response line.

  ident                      M   → `id:hash …`                      (`_atom_identifiers`)
  chains lo hi               M   → `a-b-c a-b …`                    (`_chains`)
  frags  lo hi               M   → `k,k,k=a-b-c;a-b-c|…`            (`_fragments`)
  lhs    lo hi nbp           M   → ints                             (`linear_hash_set`)
  lbs    lo hi len nab nbp   M   → ints                             (`linear_bit_set`)
  mdict  lo hi               M   → `/ id:hash … / id:hash …` (one `/` per dict)          (`_morgan_hash_dict`)
  mhs    lo hi               M   → ints                             (`morgan_hash_set`)
  mbs    lo hi len nab       M   → ints                             (`morgan_bit_set`)
  fold   len nab h h h …         → ints   (the folding of arbitrary Python ints, no molecule)
  hash   x x x …                 → int    (`hash(tuple)`)
Errors: `err:KeyError | err:ValueError | err:AssertionError | err:fuel`, `bad-request`.
-/
open ChythonModel.Py ChythonModel.Model ChythonModel.Model.Fingerprint

def showPath (p : Path) : String := "-".intercalate (p.map toString)
def showDict (d : List (Nat × Int)) : String := " ".intercalate (d.map fun (n, h) => s!"{n}:{h}")
def showRes {α : Type} (f : α → String) : Except Err α → String
  | .ok a => let s := f a; if s.isEmpty then "ok" else "ok " ++ s
  | .error e => e.render

def withMol (xs : List Int) (k : Mol → String) : String :=
  match Mol.parse xs with
  | some (m, []) => k m
  | _ => "bad-request"

def handle (line : String) : String :=
  match words line with
  | [] => "bad-request"
  | op :: ws =>
    match parseInts? ws with
    | none => "bad-request"
    | some xs =>
      let H : TupleHash := pyHashTuple
      match op, xs with
      | "hash", xs => toString (pyHashTuple xs)
      | "fold", len :: nab :: hs =>
        if len ≤ 0 then Err.valueError.render else "ok " ++ showNats (activeBits len.toNat nab (toSet hs))
      | "ident", xs => withMol xs fun m => "ok " ++ showDict (atomIdentifiers H m)
      | "chains", lo :: hi :: xs => withMol xs fun m =>
          showRes (fun ps => " ".intercalate (ps.map showPath)) (chains m lo hi)
      | "frags", lo :: hi :: xs => withMol xs fun m =>
          showRes (fun (d : FragDict) => "|".intercalate (d.map fun (k, ps) =>
            ",".intercalate (k.map toString) ++ "=" ++ ";".intercalate (ps.map showPath))) (fragments H m lo hi)
      | "lhs", lo :: hi :: nbp :: xs => withMol xs fun m => showRes showInts (linearHashSet H m lo hi nbp)
      | "lbs", lo :: hi :: len :: nab :: nbp :: xs => withMol xs fun m =>
          showRes showNats (linearBitSet H m lo hi len nab nbp)
      | "mdict", lo :: hi :: xs => withMol xs fun m =>
          showRes (fun ds => String.join (ds.map fun d => "/ " ++ showDict d ++ " ")) (morganHashDict H m lo hi)
      | "mhs", lo :: hi :: xs => withMol xs fun m => showRes showInts (morganHashSet H m lo hi)
      | "mbs", lo :: hi :: len :: nab :: xs => withMol xs fun m => showRes showNats (morganBitSet H m lo hi len nab)
      | _, _ => "bad-request"

def main : IO Unit := runDriver handle
