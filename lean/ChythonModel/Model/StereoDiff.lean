import ChythonModel.Model.Stereo
/-!
# C12 — executable model of the reference-substituent choice in `MoleculeStereo.__differentiation` (core Lean only)

When several labelled double bonds (or allenes) are constitutionally equivalent, `__differentiation` decides which of them have
the *same* and which the *opposite* configuration by translating every label to one canonical pair of substituents:

```
n1, m1, n2, m2 = cis_trans[nm]            # allenes[c]
a = n1 if n2 is None else min(n1, n2, key=morgan.get)
b = m1 if m2 is None else min(m1, m2, key=morgan.get)
if translate_cis_trans(n, m, a, b): s.append(x)       # translate_allene(c, a, b)
```

`pickRef` is the `min(..., key=morgan.get)` line (first minimal element wins; a missing class is Python's `TypeError` on
`None < int`), `diffMark` the whole right-hand side for one unit (`translateEnds` is the function of `Model/Stereo.lean` that both
`_translate_cis_trans_sign` and `_translate_allene_sign` run after their dictionary lookup).
-/
namespace ChythonModel.Model.StereoDiff
open ChythonModel.Model.Stereo

inductive DErr
  | typeError
  | py (e : PyErr)
  deriving Repr, DecidableEq

def DErr.name : DErr → String
  | .typeError => "TypeError"
  | .py e => e.name

/-- `n1 if n2 is None else min(n1, n2, key=morgan.get)` -/
def pickRef (morgan : Nat → Option Int) (n1 : Nat) : Option Nat → Except DErr Nat
  | none => .ok n1
  | some n2 =>
    match morgan n1, morgan n2 with
    | some a, some b => .ok (if b < a then n2 else n1)      -- `min` keeps the first of equal keys
    | _, _ => .error .typeError

/-- the boolean `__differentiation` appends-or-not for one labelled unit with environment `e` and label `stored` -/
def diffMark (morgan : Nat → Option Int) (e : Ends) (isH : Nat → Bool) (stored : Option Bool) : Except DErr (Nat × Nat × Bool) := do
  let a ← pickRef morgan e.n0 e.n2
  let b ← pickRef morgan e.n1 e.n3
  match (do let s ← pickSign stored none; translateEnds e isH a b s) with
  | .ok v => .ok (a, b, v)
  | .error err => .error (.py err)

end ChythonModel.Model.StereoDiff
