import ChythonModel.Model.QueryEq
import ChythonModel.Model.Iso
import ChythonModel.Gen.PeriodicTable
import ChythonModel.Gen.BitLayout
/-!
# C09 — the bit layout of the accelerated matcher and the matcher itself (executable model, core Lean only)

Mirrors, statement by statement:
* `chython/algorithms/isomorphism.py: MoleculeIsomorphism._cython_compiled_structure` → `atomWords`, `bondWord`, `encStructure`
* `chython/algorithms/isomorphism.py: QueryIsomorphism._cython_compiled_query`     → `qWords`, `closureWord`, `encComponent`, `encQuery`
* `chython/algorithms/_isomorphism.pyx: get_mapping`                               → `rootOk`, `nextOk`, `closureC`, `runLoopC`, `getMappingC`
* `QueryIsomorphism.get_mapping(_cython=True)` glue (scope array, `Isomorphism._get_mapping` with the overridden mapper) → `isoWith`, `cythonPath`
* the reference path `get_mapping(_cython=False)` is C07's `Iso.getMapping` instantiated with C08's `pyEq` / `bondEq` → `pythonPath`

Every literal of the two encoders is a constant of `Gen/BitLayout.lean` (regenerated from the source on every run); this file
contains no mask literal of its own.

Python → Lean conventions: words are `Nat` (Python ints); `1 << k` with negative `k` raises `ValueError`
(`shiftsOk`), `Struct.pack` of a word ≥ 2^64 or an index ≥ 2^32 raises `struct.error` (`wordsFit`); the C arrays
`stack_index/stack_depth` + counter are a list (head = top), `path` + `path_size` is a list, `matched` is a `List Bool`,
the scratch array `closures` (written, read and zeroed again inside one candidate test) is a local function;
an out-of-range C read is `none`. Dicts are insertion-ordered association lists.
-/
namespace ChythonModel.Model.Bits
open ChythonModel.Model.Query ChythonModel.Gen.Bits

inductive EncErr
  | valueError     -- negative shift count
  | structError    -- `struct.error`: value does not fit the field
  | keyError       -- atom number / element missing from a table
  deriving Repr, DecidableEq, Inhabited

def EncErr.name : EncErr → String
  | .valueError => "ValueError" | .structError => "error" | .keyError => "KeyError"

structure Words where
  v1 : Nat
  v2 : Nat
  v3 : Nat
  v4 : Nat
  deriving Repr, DecidableEq, Inhabited

def two64 : Nat := 2 ^ 64
def two32 : Nat := 2 ^ 32

def Words.fit (w : Words) : Bool := w.v1 < two64 && w.v2 < two64 && w.v3 < two64 && w.v4 < two64

/-- `Element.mdl_isotope` of the element with atomic number `z` (regenerated periodic table) -/
def mdlOf (z : Nat) : Option Nat := (ChythonModel.Gen.periodicTable.find? (·.z == z)).map (·.mdl)
/-- `QueryElement.mdl_isotope` -/
def qmdlOf (z : Nat) : Option Nat := (ChythonModel.Gen.periodicTable.find? (·.qz == some z)).bind (·.qmdl)

/-- `if a.isotope:` — `None` and `0` are falsy -/
def isoTruthy : Option Nat → Option Nat
  | some k => if k != 0 then some k else none
  | none => none

/-! ## molecule atoms: `_cython_compiled_structure`, first loop -/

/-- `an` after `if an > 116: an = 116` -/
def capS (z : Nat) : Nat := if z > sHeavyGt then sHeavyCap else z

def atomV1 (a : MAtom) : Nat :=
  if a.z > sTransferZ then sTransferBit else 1 <<< (sLoBase - a.z)

def atomV2 (a : MAtom) : Nat :=
  let v2 := 1 <<< (a.hybridization - sHybSub)
  if a.z > sTransferZ then v2 ||| (1 <<< (sHiBase - capS a.z)) else v2

/-- `(a.implicit_hydrogens or 0)` -/
def hOr (h : Option Nat) : Nat :=
  match h with
  | some k => if k != 0 then k else sHNone
  | none => sHNone

def atomV3 (mdl : Nat) (a : MAtom) : Nat :=
  let base :=
    match isoTruthy a.isotope with
    | some i => (1 <<< (i + sIsoOff - mdl)) ||| (if a.radical then sIsoRad else sIsoNoRad)
    | none => if a.radical then sNoIsoRad else sNoIsoNoRad
  base ||| (1 <<< (a.charge + sChargeOff).toNat) ||| (1 <<< (hOr a.implH + sHOff)) ||| (1 <<< (a.neighbors + sNbOff))
    ||| (1 <<< a.heteroatoms)

/-- `for r in ring_sizes: if r > 65: continue; v4 |= 1 << (65 - r)` (OR is order-free: written as a recursion) -/
def ringBits (rmax rbase : Nat) : List Nat → Nat
  | [] => 0
  | r :: rs => (if r > rmax then 0 else 1 <<< (rbase - r)) ||| ringBits rmax rbase rs

def atomV4 (a : MAtom) : Nat :=
  if !a.ringSizes.isEmpty then
    let v4 := ringBits sRingMax sRingBase a.ringSizes
    if v4 == 0 then sOnlyBig else v4
  else sNoRing

def atomWords (mdl : Nat) (a : MAtom) : Words := ⟨atomV1 a, atomV2 a, atomV3 mdl a, atomV4 a⟩

/-- every shift count of the atom loop is non-negative (otherwise Python raises `ValueError: negative shift count`) -/
def atomShiftsOk (mdl : Nat) (a : MAtom) : Bool :=
  decide (sHybSub ≤ a.hybridization) &&
  (if a.z > sTransferZ then decide (capS a.z ≤ sHiBase) else decide (a.z ≤ sLoBase)) &&
  (match isoTruthy a.isotope with | some i => decide (mdl ≤ i + sIsoOff) | none => true) &&
  decide (0 ≤ a.charge + sChargeOff) &&
  a.ringSizes.all (fun r => r > sRingMax || decide (r ≤ sRingBase))

/-- the four words of one molecule atom, or the exception the encoder leaves with -/
def encAtom (mdl : Nat) (a : MAtom) : Except EncErr Words :=
  if !atomShiftsOk mdl a then .error .valueError
  else if !(atomWords mdl a).fit then .error .structError
  else .ok (atomWords mdl a)

/-! ## molecule bonds: second loop -/

def sOrderBit (o : Nat) : Nat :=
  if o == 1 then sOrd1 else if o == 2 then sOrd2 else if o == 3 then sOrd3 else if o == 4 then sOrd4 else sOrdElse

/-- `v = bits1[x]; v |= <order bit>; v |= 0x04… if b.in_ring else 0x02…` -/
def bondWord (v1nbr : Nat) (b : MBond) : Nat :=
  v1nbr ||| sOrderBit b.order ||| (if b.inRing then sRingYes else sRingNo)

/-! ## query atoms: `_cython_compiled_query`, mask loop -/

/-- `1 << (x + off)` OR-ed over a tuple -/
def orShifts (off : Nat) : List Nat → Nat
  | [] => 0
  | x :: xs => (1 <<< (x + off)) ||| orShifts off xs

/-- `1 << (n - sub)` OR-ed over a tuple (hybridization) -/
def orShiftsSub (sub : Nat) : List Nat → Nat
  | [] => 0
  | x :: xs => (1 <<< (x - sub)) ||| orShiftsSub sub xs

/-- (v1, v2) contribution of one atomic number -/
def elemBits (tz gt cap tb hi lo n : Nat) : Nat × Nat :=
  if n > tz then (tb, 1 <<< (hi - (if n > gt then cap else n))) else (1 <<< (lo - n), 0)

/-- `for n in a.atomic_numbers: …` of the `ListElement` branch -/
def listBits : List Nat → Nat × Nat
  | [] => (0, 0)
  | n :: ns =>
    let p := elemBits qlTransferZ qlHeavyGt qlHeavyCap qlTransferBit qlHiBase qlLoBase n
    let r := listBits ns
    (p.1 ||| r.1, p.2 ||| r.2)

def qOrderBit (o1 o2 o3 o4 oe o : Nat) : Nat :=
  if o == 1 then o1 else if o == 4 then o4 else if o == 2 then o2 else if o == 3 then o3 else oe

def qOrderBits (o1 o2 o3 o4 oe : Nat) : List Nat → Nat
  | [] => 0
  | o :: os => qOrderBit o1 o2 o3 o4 oe o ||| qOrderBits o1 o2 o3 o4 oe os

def qRingBit (any yes no : Nat) : Option Bool → Nat
  | none => any
  | some true => yes
  | some false => no

/-- bond part OR-ed into `v1` of a query atom -/
def qBondBits (b : QBond) : Nat :=
  qOrderBits qOrd1 qOrd2 qOrd3 qOrd4 qOrdElse b.orders ||| qRingBit qRingAny qRingYes qRingNo b.inRing

def isMetalKind : QKind → Bool
  | .metal => true
  | _ => false

/-- (v1, v2) of the element part for the non-metal kinds -/
def qElemPart : QKind → Nat × Nat
  | .any => (qAnyV1, qAnyV2)
  | .list zs => listBits zs
  | .element z _ => elemBits qeTransferZ qeHeavyGt qeHeavyCap qeTransferBit qeHiBase qeLoBase z
  | .metal => (qMetalV1, qMetalV2)

/-- `isinstance(a, QueryElement) and a.isotope` -/
def qIso : QKind → Option Nat
  | .element _ iso => isoTruthy iso
  | _ => none

def qV3ext (qmdl : Nat) (a : QAtom) : Nat :=
  let base :=
    match qIso a.kind with
    | some i =>
      -- `if -8 <= (n := a.isotope - a.mdl_isotope) <= 8: v3 = 1 << (n + 54) else: v3 = 0`
      (if decide (qmdl ≤ i + qIsoLo) && decide (i ≤ qmdl + qIsoHi) then 1 <<< (i + qIsoOff - qmdl) else qIsoNone)
        ||| (if a.radical then qIsoRad else qIsoNoRad)
    | none => if a.radical then qAnyIsoRad else qAnyIsoNoRad
  base ||| (1 <<< (a.charge + qChargeOff).toNat)
    ||| (if a.implH.isEmpty then qHAll else orShifts qHOff a.implH)
    ||| (if a.heteroatoms.isEmpty then qHetAll else orShifts 0 a.heteroatoms)

def qV4ext (a : QAtom) : Nat :=
  match a.ringSizes with
  | [] => qAnyRing
  | r0 :: _ =>
    if r0 != 0 then
      let v4 := ringBits qRingMax qRingBase a.ringSizes
      if v4 == 0 then qOnlyBig else v4
    else qNoRing

/-- the four masks of one query atom reached through query bond `b` (`none` for the first atom of a component) -/
def qWords (qmdl : Nat) (a : QAtom) (b : Option QBond) : Words :=
  let metal := isMetalKind a.kind
  let v1 := (qElemPart a.kind).1
  let v2 := (qElemPart a.kind).2
  let v3 := if metal then qMetalV3 else qV3ext qmdl a
  let v4 := if metal then qMetalV4 else qV4ext a
  let v3 := v3 ||| (if a.neighbors.isEmpty then qNbAll else orShifts qNbOff a.neighbors)
  let v2 := v2 ||| (if a.hybridization.isEmpty then qHybAll else orShiftsSub qHybSub a.hybridization)
  let v1 := match b with | some b => v1 ||| qBondBits b | none => v1
  ⟨v1, v2, v3, v4⟩

def qShiftsOk (qmdl : Nat) (a : QAtom) : Bool :=
  (isMetalKind a.kind ||
    ((match qIso a.kind with
      | some i => !(decide (qmdl ≤ i + qIsoLo) && decide (i ≤ qmdl + qIsoHi)) || decide (qmdl ≤ i + qIsoOff)
      | none => true) &&
     decide (0 ≤ a.charge + qChargeOff) &&
     (match a.ringSizes with
      | [] => true
      | r0 :: _ => r0 == 0 || a.ringSizes.all (fun r => r > qRingMax || decide (r ≤ qRingBase))))) &&
  a.hybridization.all (fun n => decide (qHybSub ≤ n))

def encQAtom (qmdl : Nat) (a : QAtom) (b : Option QBond) : Except EncErr Words :=
  if !qShiftsOk qmdl a then .error .valueError
  else if !(qWords qmdl a b).fit then .error .structError
  else .ok (qWords qmdl a b)

/-- closure bond mask: `v = 0x01ff…; for o in b.order: …; in_ring …` -/
def closureWord (b : QBond) : Nat :=
  cAtomAny ||| qOrderBits cOrd1 cOrd2 cOrd3 cOrd4 cOrdElse b.orders ||| qRingBit cRingAny cRingYes cRingNo b.inRing

/-! ## packed structures (what the `.pyx` reads through its struct views) -/

structure CAtom where
  b1 : Nat
  b2 : Nat
  b3 : Nat
  b4 : Nat
  from_ : Nat
  to_ : Nat
  mapping : Nat
  deriving Repr, DecidableEq, Inhabited

structure CBond where
  bond : Nat
  index : Nat
  deriving Repr, DecidableEq, Inhabited

structure CMol where
  atoms : List CAtom
  bonds : List CBond
  deriving Repr, DecidableEq, Inhabited

structure CQAtom where
  m1 : Nat
  m2 : Nat
  m3 : Nat
  m4 : Nat
  back : Nat
  closure : Nat
  from_ : Nat
  to_ : Nat
  mapping : Nat
  deriving Repr, DecidableEq, Inhabited

structure CQuery where
  atoms : List CQAtom
  bonds : List CBond
  deriving Repr, DecidableEq, Inhabited

/-- a molecule with the labels `calc_labels` attached, in dict order -/
structure LMol where
  atoms : List (Nat × MAtom)
  adj : List (Nat × List (Nat × MBond))
  deriving Repr, DecidableEq, Inhabited

def LMol.ids (m : LMol) : List Nat := m.atoms.map (·.1)

/-- `mapping[n]` for `mapping = {n: i for i, n in enumerate(keys)}` -/
def indexOf? (keys : List Nat) (n : Nat) : Option Nat := keys.findIdx? (· == n)

/-- per-atom words (first loop) -/
def molWords (m : LMol) : Except EncErr (List Words) :=
  m.atoms.mapM fun (_, a) =>
    match mdlOf a.z with
    | none => .error .keyError
    | some mdl => if !atomShiftsOk mdl a then .error .valueError else .ok (atomWords mdl a)

/-- bonds of one adjacency row: `(bond word, index)` -/
def rowBonds (ids : List Nat) (bits1 : List Nat) (ms : List (Nat × MBond)) : Except EncErr (List CBond) :=
  ms.mapM fun (mb : Nat × MBond) =>
    match indexOf? ids mb.1 with
    | none => .error .keyError
    | some x =>
      match bits1[x]? with
      | none => .error .keyError
      | some v => .ok ⟨bondWord v mb.2, x⟩

/-- second loop: `(row index i, from, to)` per adjacency row and the flat bond array -/
def molBonds (ids : List Nat) (bits1 : List Nat) :
    List (Nat × List (Nat × MBond)) → Nat → Except EncErr (List (Nat × Nat × Nat) × List CBond)
  | [], _ => .ok ([], [])
  | (n, ms) :: rest, start => do
    let i ← match indexOf? ids n with | some i => pure i | none => .error .keyError
    let bs ← rowBonds ids bits1 ms
    let (offs, tl) ← molBonds ids bits1 rest (start + ms.length)
    pure ((i, start, start + ms.length) :: offs, bs ++ tl)

/-- `o_from[i]`, `o_to[i]` (rows are `[0] * n` before the loop; a later row for the same `i` overwrites) -/
def offOf (offs : List (Nat × Nat × Nat)) (i : Nat) : Nat × Nat :=
  match offs.reverse.find? (·.1 == i) with
  | some (_, f, t) => (f, t)
  | none => (0, 0)

def CAtom.fit (a : CAtom) : Bool :=
  a.b1 < two64 && a.b2 < two64 && a.b3 < two64 && a.b4 < two64 && a.from_ < two32 && a.to_ < two32 && a.mapping < two32

def CBond.fit (b : CBond) : Bool := b.bond < two64 && b.index < two32

/-- `_cython_compiled_structure` (on a molecule whose `_bonds` is symmetric, so that `bonds_count * 2` is the number of
    adjacency entries) -/
def encStructure (m : LMol) : Except EncErr CMol := do
  let ws ← molWords m
  let ids := m.ids
  let (offs, bonds) ← molBonds ids (ws.map (·.v1)) m.adj 0
  let atoms := (ws.zip ids).zipIdx.map fun ((w, n), i) =>
    let ft := offOf offs i
    (⟨w.v1, w.v2, w.v3, w.v4, ft.1, ft.2, n⟩ : CAtom)
  if ids.length < two32 && atoms.all CAtom.fit && bonds.all CBond.fit then pure ⟨atoms, bonds⟩ else .error .structError

/-- a query graph in dict order -/
structure LQuery where
  atoms : List (Nat × QAtom)
  adj : List (Nat × List (Nat × QBond))
  deriving Repr, DecidableEq, Inhabited

def LQuery.graph (q : LQuery) : Iso.Graph := ⟨q.atoms.map (·.1), q.adj.map fun (n, ms) => (n, ms.map (·.1))⟩
def LQuery.atom? (q : LQuery) (n : Nat) : Option QAtom := q.atoms.lookup n
def LQuery.bond? (q : LQuery) (n m : Nat) : Option QBond := (q.adj.lookup n).bind (·.lookup m)

/-- `QueryElement.mdl_isotope` is read only when `isinstance(a, QueryElement) and a.isotope` -/
def qmdlFor (a : QAtom) : Except EncErr Nat :=
  match a.kind with
  | .element z _ =>
    match qIso a.kind with
    | none => .ok 0
    | some _ => match qmdlOf z with | some k => .ok k | none => .error .keyError
  | _ => .ok 0

def stepMask (q : LQuery) (s : Iso.Step) : Except EncErr Words := do
  let a ← match q.atom? s.front with | some a => pure a | none => .error .keyError
  let b ← match s.back with
    | none => pure none
    | some k => match q.bond? k s.front with | some b => pure (some b) | none => .error .keyError
  let qmdl ← qmdlFor a
  if !qShiftsOk qmdl a then .error .valueError else pure (qWords qmdl a b)

/-- the encoded closure bonds of one query atom: `bonds[j] = v; indices[j] = mapping[m]` for `(m, b)` in `_closures[n]` -/
def closureBonds (q : LQuery) (fronts : List Nat) (n : Nat) (ms : List Nat) : Except EncErr (List CBond) :=
  ms.mapM fun m =>
    match q.bond? n m, indexOf? fronts m with
    | some b, some j => .ok (⟨closureWord b, j⟩ : CBond)
    | _, _ => .error .keyError

/-- closure rows of one component: `for n, ms in _closures.items(): if (i := mapping.get(n)) is not None: …`
    (entries with an empty list exist only when an earlier Python-path search touched the `defaultdict`; they change
    nothing but `q_from/q_to` of closure-free atoms, which the matcher never reads — they are skipped here) -/
def closureRows (q : LQuery) (fronts : List Nat) :
    Iso.Closures → Nat → Except EncErr (List (Nat × Nat × Nat × Nat) × List CBond)
  | [], _ => .ok ([], [])
  | (n, ms) :: rest, start =>
    match indexOf? fronts n with
    | none => closureRows q fronts rest start
    | some i =>
      if ms.isEmpty then closureRows q fronts rest start
      else do
        let bs ← closureBonds q fronts n ms
        let (rows, tl) ← closureRows q fronts rest (start + ms.length)
        pure ((i, ms.length, start, start + ms.length) :: rows, bs ++ tl)

def rowOf (rows : List (Nat × Nat × Nat × Nat)) (i : Nat) : Nat × Nat × Nat :=
  match rows.reverse.find? (·.1 == i) with
  | some (_, c, f, t) => (c, f, t)
  | none => (0, 0, 0)

def CQAtom.fit (a : CQAtom) : Bool :=
  a.m1 < two64 && a.m2 < two64 && a.m3 < two64 && a.m4 < two64 && a.back < two32 && a.closure < two32 &&
  a.from_ < two32 && a.to_ < two32 && a.mapping < two32

/-- `back = [0] + [mapping[x] for _, x, *_ in c[1:]]` -/
def backIndex (fronts : List Nat) (s : Iso.Step) : Except EncErr Nat :=
  match s.back with
  | none => .ok 0
  | some b => match indexOf? fronts b with | some j => .ok j | none => .error .keyError

/-- one element of `_cython_compiled_query` -/
def encComponent (q : LQuery) (cl : Iso.Closures) (comp : List Iso.Step) : Except EncErr CQuery := do
  let fronts := comp.map (·.front)
  let masks ← comp.mapM (stepMask q)
  let (rows, bonds) ← closureRows q fronts cl 0
  let backs ← comp.mapM (backIndex fronts)
  let atoms := ((masks.zip backs).zip fronts).zipIdx.map fun (((w, bk), n), i) =>
    let r := rowOf rows i
    (⟨w.v1, w.v2, w.v3, w.v4, bk, r.1, r.2.1, r.2.2, n⟩ : CQAtom)
  if fronts.length < two32 && atoms.all CQAtom.fit && bonds.all CBond.fit then pure ⟨atoms, bonds⟩ else .error .structError

/-- `_cython_compiled_query` given `_compiled_query = (comps, cl)` -/
def encQuery (q : LQuery) (comps : List (List Iso.Step)) (cl : Iso.Closures) : Except EncErr (List CQuery) :=
  comps.mapM (encComponent q cl)

/-! ## `_isomorphism.pyx: get_mapping` -/

/-- first-atom test (without `scope[n]`): `mask1 & bits1 and mask2 & bits2 == bits2 and mask3 & bits3 == bits3 and mask4 & bits4` -/
def rootOk (q : CQAtom) (a : CAtom) : Bool :=
  (q.m1 &&& a.b1 != 0) && (q.m2 &&& a.b2 == a.b2) && (q.m3 &&& a.b3 == a.b3) && (q.m4 &&& a.b4 != 0)

/-- next-atom test (without scope / matched): `mask1 & bond == bond and mask2 & bits2 == bits2 and …` -/
def nextOk (q : CQAtom) (bond : Nat) (a : CAtom) : Bool :=
  (q.m1 &&& bond == bond) && (q.m2 &&& a.b2 == a.b2) && (q.m3 &&& a.b3 == a.b3) && (q.m4 &&& a.b4 != 0)

/-- `arr[from_ : to_]` for `for j in range(from_, to_)` (`none` when the range leaves the array) -/
def slice? {α} (l : List α) (f t : Nat) : Option (List α) :=
  if f ≤ t then (if t ≤ l.length then some ((l.drop f).take (t - f)) else none) else some []

/-- the scratch array after the fill loop: index ↦ bond word of the last neighbour written there, 0 elsewhere -/
def scratch (hits : List CBond) (k : Nat) : Nat :=
  match hits.reverse.find? (·.index == k) with
  | some jb => jb.bond
  | none => 0

/-- `for j in range(q_atom.from_, q_atom.to_): c_bond = closures[path[j_bond.index]]; if not c_bond or j_bond.bond & c_bond != c_bond: break`
    … `else:` accepted (`images` = `path[j_bond.index]` per query closure bond) -/
def closureAll (hits qb : List CBond) (images : List Nat) : Bool :=
  (qb.zip images).all fun (jb, x) =>
    let c := scratch hits x
    !(c == 0 || (jb.bond &&& c != c))

/-- the closure block for candidate `mAtom` reached from `n` -/
def closureC (m : CMol) (q : CQuery) (qa : CQAtom) (mAtom : CAtom) (n : Nat) (matched : List Bool) (path : List Nat) :
    Option Bool := do
  let nb ← slice? m.bonds mAtom.from_ mAtom.to_
  let flags ← nb.mapM fun jb => matched[jb.index]?
  let hits := ((nb.zip flags).filter fun (jb, f) => jb.index != n && f).map (·.1)
  if qa.closure != 0 then
    if hits.length == qa.closure then
      let qb ← slice? q.bonds qa.from_ qa.to_
      let images ← qb.mapM fun jb => path[jb.index]?
      pure (closureAll hits qb images)
    else pure false
  else pure hits.isEmpty

/-- the `for i in range(n_atom.from_, n_atom.to_)` loop as a filter (candidate indices in array order) -/
def candidatesC (m : CMol) (q : CQuery) (scope : List Bool) (qa : CQAtom) (n : Nat) (matched : List Bool) (path : List Nat) :
    List CBond → Option (List Nat)
  | [] => some []
  | ib :: rest => do
    let tl ← candidatesC m q scope qa n matched path rest
    let mi := ib.index
    let mAtom ← m.atoms[mi]?
    let sc ← scope[mi]?
    let mt ← matched[mi]?
    if sc && !mt && nextOk qa ib.bond mAtom then
      if (← closureC m q qa mAtom n matched path) then pure (mi :: tl) else pure tl
    else pure tl

/-- `matched[path[i]] = False` for the dropped tail of `path` -/
def unmark : List Nat → List Bool → List Bool
  | [], mt => mt
  | x :: xs, mt => unmark xs (mt.set x false)

/-- the yielded dict: `mapping[query.atoms[i].mapping] = molecule.atoms[path[i]].mapping` for `i < depth`, then `depth ↦ n` -/
def buildMapping (m : CMol) (q : CQuery) (path : List Nat) (depth n : Nat) : Option Iso.Dict := do
  let idx := (path.take depth) ++ [n]
  if idx.length != depth + 1 then none
  let pairs ← idx.zipIdx.mapM fun (x, i) => do
    let qa ← q.atoms[i]?
    let a ← m.atoms[x]?
    pure (qa.mapping, a.mapping)
  pure (pairs.foldl (fun d p => d.set p.1 p.2) [])

/-- one expansion: load the next query atom, pick the molecule atom it hangs on (`if q_atom.back != depth: n = path[q_atom.back]`),
    scan that atom's bond row -/
def expandC (m : CMol) (q : CQuery) (scope : List Bool) (depth n : Nat) (path : List Nat) (matched : List Bool) :
    Option (List Nat) :=
  match q.atoms[depth + 1]? with
  | none => none
  | some qa =>
    match (if qa.back != depth then path[qa.back]? else some n) with
    | none => none
    | some n' =>
      match m.atoms[n']? with
      | none => none
      | some nAtom =>
        match slice? m.bonds nAtom.from_ nAtom.to_ with
        | none => none
        | some row => candidatesC m q scope qa n' matched path row

/-- the `while stack:` loop -/
def runLoopC (m : CMol) (q : CQuery) (scope : List Bool) (qdec : Nat) :
    Nat → List (Nat × Nat) → List Nat → List Bool → List Iso.Dict → Option (List Iso.Dict)
  | 0, _, _, _, _ => none
  | _+1, [], _, _, acc => some acc.reverse
  | fuel+1, (n, depth) :: stack, path, matched, acc => do
    if depth == qdec then
      let mp ← buildMapping m q path depth n
      runLoopC m q scope qdec fuel stack path matched (mp :: acc)
    else
      let matched := if path.length != depth then unmark (path.drop depth) matched else matched
      let path := path.take depth
      if n ≥ matched.length then none
      let matched := matched.set n true
      let path := path ++ [n]
      let cands ← expandC m q scope depth n path matched
      runLoopC m q scope qdec fuel (cands.reverse.map (·, depth + 1) ++ stack) path matched acc

/-! ### the same matcher with the scratch array `closures[]` as explicit state (statement by statement)

`closures` is allocated once, zero-filled by `memset`, written by the fill loop of a candidate, read by the comparison loop and
zeroed again by the last loop of the block. `Props/C09.lean: scratch_array_is_clean` proves that every candidate finds it all-zero,
which is what makes the local-function reading (`scratch`, `closureC`) above exact. -/

/-- `closures[j_bond.index] = j_bond.bond` for the recorded neighbours, in loop order (a later write wins) -/
def fillScratch (arr : List Nat) (hits : List CBond) : List Nat := hits.foldl (fun a jb => a.set jb.index jb.bond) arr

/-- `for j in range(m_atom.from_, m_atom.to_): closures[molecule.bonds[j].index] = 0` -/
def zeroScratch (arr : List Nat) (nb : List CBond) : List Nat := nb.foldl (fun a jb => a.set jb.index 0) arr

/-- the closure block with the array threaded through: verdict and the array it leaves behind -/
def closureCS (m : CMol) (q : CQuery) (qa : CQAtom) (mAtom : CAtom) (n : Nat) (matched : List Bool) (path : List Nat)
    (arr : List Nat) : Option (Bool × List Nat) :=
  match slice? m.bonds mAtom.from_ mAtom.to_ with
  | none => none
  | some nb =>
    match nb.mapM (fun jb => matched[jb.index]?) with
    | none => none
    | some flags =>
      let hits := ((nb.zip flags).filter fun (jb, f) => jb.index != n && f).map (·.1)
      if qa.closure != 0 then
        let arr1 := fillScratch arr hits
        if hits.length == qa.closure then
          match slice? q.bonds qa.from_ qa.to_ with
          | none => none
          | some qb =>
            match qb.mapM (fun jb => path[jb.index]?) with
            | none => none
            | some images =>
              match images.mapM (fun x => arr1[x]?) with
              | none => none
              | some cs => some ((qb.zip cs).all (fun (jb, c) => !(c == 0 || (jb.bond &&& c != c))), zeroScratch arr1 nb)
        else some (false, zeroScratch arr1 nb)
      else some (hits.isEmpty, arr)

/-- the bond-row scan in loop order, the array handed from candidate to candidate -/
def candidatesCS (m : CMol) (q : CQuery) (scope : List Bool) (qa : CQAtom) (n : Nat) (matched : List Bool) (path : List Nat) :
    List CBond → List Nat → Option (List Nat × List Nat)
  | [], arr => some ([], arr)
  | ib :: rest, arr =>
    match m.atoms[ib.index]?, scope[ib.index]?, matched[ib.index]? with
    | some mAtom, some sc, some mt =>
      if sc && !mt && nextOk qa ib.bond mAtom then
        match closureCS m q qa mAtom n matched path arr with
        | none => none
        | some (ok, arr') =>
          match candidatesCS m q scope qa n matched path rest arr' with
          | none => none
          | some (tl, arr'') => some (if ok then ib.index :: tl else tl, arr'')
      else candidatesCS m q scope qa n matched path rest arr
    | _, _, _ => none

def expandCS (m : CMol) (q : CQuery) (scope : List Bool) (depth n : Nat) (path : List Nat) (matched : List Bool) (arr : List Nat) :
    Option (List Nat × List Nat) :=
  match q.atoms[depth + 1]? with
  | none => none
  | some qa =>
    match (if qa.back != depth then path[qa.back]? else some n) with
    | none => none
    | some n' =>
      match m.atoms[n']? with
      | none => none
      | some nAtom =>
        match slice? m.bonds nAtom.from_ nAtom.to_ with
        | none => none
        | some row => candidatesCS m q scope qa n' matched path row arr

def runLoopCS (m : CMol) (q : CQuery) (scope : List Bool) (qdec : Nat) :
    Nat → List (Nat × Nat) → List Nat → List Bool → List Nat → List Iso.Dict → Option (List Iso.Dict)
  | 0, _, _, _, _, _ => none
  | _+1, [], _, _, _, acc => some acc.reverse
  | fuel+1, (n, depth) :: stack, path, matched, arr, acc =>
    if depth == qdec then
      match buildMapping m q path depth n with
      | none => none
      | some mp => runLoopCS m q scope qdec fuel stack path matched arr (mp :: acc)
    else
      let matched := if path.length != depth then unmark (path.drop depth) matched else matched
      let path := path.take depth
      if n ≥ matched.length then none
      else
        let matched := matched.set n true
        let path := path ++ [n]
        match expandCS m q scope depth n path matched arr with
        | none => none
        | some (cands, arr') => runLoopCS m q scope qdec fuel (cands.reverse.map (·, depth + 1) ++ stack) path matched arr' acc

/-- same potential bound as C07's machine -/
def fuelC (m : CMol) (q : CQuery) : Nat := m.atoms.length * (m.atoms.length + 1) ^ (q.atoms.length + 1) + 1

/-- indices pushed by the first loop, in array order -/
def rootsC (m : CMol) (q : CQuery) (scope : List Bool) : Option (List Nat) := do
  let qa ← q.atoms[0]?
  if scope.length < m.atoms.length then none
  pure ((m.atoms.zipIdx.filter fun (a, i) => scope.getD i false && rootOk qa a).map (·.2))

/-- `get_mapping(q_buffer, m_buffer, scope)` as the list of yielded dicts -/
def getMappingC (m : CMol) (q : CQuery) (scope : List Bool) : Option (List Iso.Dict) := do
  let roots ← rootsC m q scope
  runLoopC m q scope (q.atoms.length - 1) (fuelC m q) (roots.reverse.map (·, 0)) [] (List.replicate m.atoms.length false) []

/-- `get_mapping(q_buffer, m_buffer, scope)` with the scratch array as state (`memset(closures, 0, …)` at the start) -/
def getMappingCS (m : CMol) (q : CQuery) (scope : List Bool) : Option (List Iso.Dict) :=
  match rootsC m q scope with
  | none => none
  | some roots =>
    runLoopCS m q scope (q.atoms.length - 1) (fuelC m q) (roots.reverse.map (·, 0)) [] (List.replicate m.atoms.length false)
      (List.replicate m.atoms.length 0) []

/-! ## the two paths of `QueryIsomorphism.get_mapping` (stereo post-filter excluded: it is shared code applied to either stream) -/

/-- `Isomorphism._get_mapping` with an arbitrary per-component mapper (a copy of C07's `isoUnfiltered`, which fixes the mapper;
    `Props/C09.lean: isoWith_python` proves the copy equal to C07's function for the Python mapper) -/
def mappersWith {κ} (mapper : κ → List Nat → Option (List Iso.Dict)) (scope : Option (List Nat)) :
    List κ → List (List Nat) → Option (Option (List (List Iso.Dict)))
  | [], _ => some (some [])
  | _, [] => some (some [])
  | lq :: lqs, cand :: cands =>
    let c := Iso.restrict scope cand
    if Iso.scopeActive scope && c.isEmpty then some none
    else do
      let r ← mapper lq c
      match ← mappersWith mapper scope lqs cands with
      | none => pure none
      | some rs => pure (some (r :: rs))

def isoWith {κ} (mapper : κ → List Nat → Option (List Iso.Dict)) (tComps : List (List Nat)) (scope : Option (List Nat))
    (comps : List κ) : Option (List Iso.Dict) :=
  match comps with
  | [lq] =>
    tComps.foldlM (fun acc cand =>
      let c := Iso.restrict scope cand
      if Iso.scopeActive scope && c.isEmpty then some acc
      else do
        let r ← mapper lq c
        pure (acc ++ r)) []
  | _ =>
    (Iso.permutations tComps comps.length).foldlM (fun acc cands => do
      match ← mappersWith mapper scope comps cands with
      | none => pure acc
      | some mappers => do
        let ms ← (Iso.lazyProduct mappers).mapM Iso.mergeDicts
        pure (acc ++ ms)) []

def LMol.graph (m : LMol) : Iso.Graph := ⟨m.ids, m.adj.map fun (n, ms) => (n, ms.map (·.1))⟩
def LMol.atom? (m : LMol) (n : Nat) : Option MAtom := m.atoms.lookup n
def LMol.bond? (m : LMol) (n k : Nat) : Option MBond := (m.adj.lookup n).bind (·.lookup k)

/-- `s_atom == o_atom` through C08's `pyEq` (absent keys cannot occur on well-formed inputs: `false`) -/
def atomOkPy (q : LQuery) (m : LMol) (u x : Nat) : Bool :=
  match q.atom? u, m.atom? x with
  | some qa, some a => pyEq qa a
  | _, _ => false

/-- `s_bond == o_bond` through C08's `bondEq` -/
def bondOkPy (q : LQuery) (m : LMol) (u v x y : Nat) : Bool :=
  match q.bond? u v, m.bond? x y with
  | some qb, some b => bondEq qb b
  | _, _ => false

inductive Outcome
  | ok (ms : List Iso.Dict)
  | err (e : EncErr)
  | crash                      -- the model ran out of fuel / read out of range (never on well-formed inputs)
  deriving Repr, DecidableEq, Inhabited

/-- `array('I', [n in scope for n in other])` -/
def scopeArray (m : LMol) (cand : List Nat) : List Bool := m.ids.map (cand.contains ·)

/-- a candidate target component that is not emptied by the scope restriction -/
def survives (scope : Option (List Nat)) (c : List Nat) : Bool := !(Iso.scopeActive scope && (Iso.restrict scope c).isEmpty)

/-- is the overridden mapper called at all (and with it `other._cython_compiled_structure` evaluated)? `k` = number of query components -/
def neededC (tComps : List (List Nat)) (scope : Option (List Nat)) (k : Nat) : Bool :=
  if k == 1 then tComps.any (survives scope)
  else (Iso.permutations tComps k).any fun cands => match cands with | c :: _ => survives scope c | [] => false

/-- `query.get_mapping(mol, automorphism_filter, searching_scope)` with the translated extension installed -/
def cythonPathWith (gm : CMol → CQuery → List Bool → Option (List Iso.Dict))
    (q : LQuery) (m : LMol) (tComps : List (List Nat)) (scope : Option (List Nat)) (autoF : Bool) : Outcome :=
  match Iso.compileQuery q.graph with
  | none => .crash
  | some (comps, cl) =>
    -- `components = self._cython_compiled_query` is evaluated before the first candidate is tried;
    -- `other._cython_compiled_structure` on the first call of the mapper
    match encQuery q comps cl with
    | .error e => .err e
    | .ok cqs =>
      -- the mapper is only called when some candidate component survives the scope restriction
      let needed := neededC tComps scope cqs.length
      if !needed then .ok []
      else
        match encStructure m with
        | .error e => .err e
        | .ok cm =>
          match isoWith (fun cq cand => gm cm cq (scopeArray m cand)) tComps scope cqs with
          | none => .crash
          | some r => .ok (if autoF then Iso.autoFilter r else r)

/-- the accelerated path with the `.pyx` matcher whose scratch array is read as a local function (what the theorems talk about) -/
def cythonPath (q : LQuery) (m : LMol) (tComps : List (List Nat)) (scope : Option (List Nat)) (autoF : Bool) : Outcome :=
  cythonPathWith getMappingC q m tComps scope autoF

/-- the accelerated path with the `.pyx` matcher transcribed statement by statement, scratch array as explicit state (what the
    driver runs; `Props/C09.lean: scratch_array_is_clean` proves the two equal) -/
def cythonPathS (q : LQuery) (m : LMol) (tComps : List (List Nat)) (scope : Option (List Nat)) (autoF : Bool) : Outcome :=
  cythonPathWith getMappingCS q m tComps scope autoF

/-- `query.get_mapping(mol, …, _cython=False)` -/
def pythonPath (q : LQuery) (m : LMol) (tComps : List (List Nat)) (scope : Option (List Nat)) (autoF : Bool) : Outcome :=
  let p : Iso.Problem := { q := q.graph, t := m.graph, tComps := tComps, scope := scope, autoFilter := autoF,
                           atomOk := atomOkPy q m, bondOk := bondOkPy q m }
  match Iso.isoGetMapping p with
  | none => .crash
  | some r => .ok r

end ChythonModel.Model.Bits
