import ChythonModel.Model.Pack
/-!
# C10 — the format limits as an executable test

`wfb m` is the decidable form of the hypothesis `WF m` of the round-trip theorems (`Proofs.C10.wfb_sound`); the
driver evaluates it on every generated molecule so the evidence records that real molecules satisfy it.
-/
namespace ChythonModel.Model.Pack
open ChythonModel.Gen

def atomOKb (a : PAtom) : Bool :=
  decide (a.num < 4096) && decide (a.nbrs.length < 16) && decide (1 ≤ a.z) && decide (a.z ≤ 118) &&
  (match a.iso with
    | none => true
    | some i => match commonAt packCommon a.z with
      | some c => decide (1 ≤ i - c) && decide (i - c ≤ 31)
      | none => false) &&
  decide (a.x < 65536) && decide (a.y < 65536) &&
  (match a.h with | none => true | some k => decide (k ≤ 6)) &&
  decide (-4 ≤ a.charge) && decide (a.charge ≤ 4)

def graphOKb (all : List PAtom) : Bool :=
  decide ((all.map (·.num)).Nodup) &&
  all.all (fun a => decide ((a.nbrs.map (·.m)).Nodup)) &&
  all.all (fun a => a.nbrs.all fun nb => nb.m != a.num) &&
  all.all (fun a => a.nbrs.all fun nb =>
    all.any fun b => b.num == nb.m && b.nbrs.contains (⟨a.num, nb.order, nb.stereo⟩ : PNbr)) &&
  all.all (fun a => a.nbrs.all fun nb => decide (1 ≤ nb.order) && decide (nb.order ≤ 8))

def wfb (m : PMol) : Bool :=
  !m.atoms.isEmpty && decide (m.atoms.length ≤ 4095) && m.atoms.all atomOKb && graphOKb m.atoms &&
  decide (ctCount m.atoms ≤ 4095) &&
  (firstSeen [] m.atoms).all fun p =>
    !p.2.stereo.isSome ||
      (match m.terminals.lookup p.1 with
        | some (tn, tm) => decide (tn < 4096) && decide (tm < 4096)
        | none => false)


/-- executable form of the hypothesis on `_stereo_cis_trans_centers` used by the stereo round-trip theorem
    (`Proofs.C10.CentersOK`): the first terminal of every marked bond leads back to that bond -/
def centersOKb (m : PMol) (centers : List (Nat × Nat × Nat)) : Bool :=
  (firstSeen [] m.atoms).all fun p =>
    !p.2.stereo.isSome ||
      (match m.terminals.lookup p.1 with
        | some (tn, _) => centers.lookup tn == some (p.1, p.2.m) || centers.lookup tn == some (p.2.m, p.1)
        | none => false)

end ChythonModel.Model.Pack
