import ChythonModel.Py.Wire
/-!
# Molecular graph as chython stores it (`Graph._atoms`, `Graph._bonds`), dict order preserved

`atoms` is `_atoms` in insertion order; `adj` is `_bonds`: for each atom (same key order as the dict)
the neighbour dict in insertion order. Python `dict` → insertion-ordered association list (DESIGN §4).
Well-formedness (`WF`) is a separate predicate, not a subtype.

Wire format (flat ints): `N` then per atom
`id z iso(0=None) charge radical(0|1) implH(-1=None) stereo(-1|0|1) deg` followed by `deg` × `nbr order bstereo(-1|0|1)`.
-/
namespace ChythonModel.Model
open ChythonModel.Py

structure Atom where
  z : Nat
  isotope : Option Nat := none
  charge : Int := 0
  radical : Bool := false
  implH : Option Nat := none
  stereo : Option Bool := none
  deriving Repr, DecidableEq, Inhabited

structure Bond where
  order : Nat
  stereo : Option Bool := none
  deriving Repr, DecidableEq, Inhabited

structure Mol where
  atoms : List (Nat × Atom)
  adj : List (Nat × List (Nat × Bond))
  deriving Repr, DecidableEq, Inhabited

namespace Mol

def empty : Mol := ⟨[], []⟩
def ids (m : Mol) : List Nat := m.atoms.map (·.1)
def atom? (m : Mol) (n : Nat) : Option Atom := m.atoms.lookup n
def nbrs (m : Mol) (n : Nat) : List (Nat × Bond) := (m.adj.lookup n).getD []
def bond? (m : Mol) (a b : Nat) : Option Bond := (m.nbrs a).lookup b
def hasAtom (m : Mol) (n : Nat) : Bool := m.atoms.any (·.1 == n)

/-- `Graph.bonds()`: each bond once, in the order the dict iteration yields them. -/
def bonds (m : Mol) : List (Nat × Nat × Bond) :=
  let rec go (rest : List (Nat × List (Nat × Bond))) (seen : List Nat) : List (Nat × Nat × Bond) :=
    match rest with
    | [] => []
    | (n, ms) :: tl =>
      let seen' := n :: seen
      (ms.filterMap fun (mb : Nat × Bond) => if seen'.contains mb.1 then none else some (n, mb.1, mb.2)) ++ go tl seen'
  go m.adj []

def bondsCount (m : Mol) : Nat := (m.adj.map (·.2.length)).sum / 2

/-- keys unique, adjacency keyed by exactly the atoms, symmetric with equal bond on both sides, no loops -/
def WF (m : Mol) : Bool :=
  m.ids.Nodup && (m.adj.map (·.1) == m.ids) &&
  m.adj.all fun (n, ms) =>
    (ms.map (·.1)).Nodup && ms.all fun (k, b) => k != n && m.hasAtom k && (m.bond? k n == some b)

/-! ### wire -/

def parseNbrs : Nat → List Int → Option (List (Nat × Bond) × List Int)
  | 0, rest => some ([], rest)
  | k+1, nb :: o :: s :: rest => do
      let (tl, rest') ← parseNbrs k rest
      some ((nb.toNat, { order := o.toNat, stereo := tri s }) :: tl, rest')
  | _, _ => none

def parseAtoms : Nat → List Int → Option (List (Nat × Atom × List (Nat × Bond)) × List Int)
  | 0, rest => some ([], rest)
  | k+1, id :: z :: iso :: ch :: rad :: h :: st :: deg :: rest => do
      let (nb, rest1) ← parseNbrs deg.toNat rest
      let (tl, rest2) ← parseAtoms k rest1
      let a : Atom := { z := z.toNat, isotope := if iso ≤ 0 then none else some iso.toNat, charge := ch,
                        radical := rad != 0, implH := optNat h, stereo := tri st }
      some ((id.toNat, a, nb) :: tl, rest2)
  | _, _ => none

/-- parse one molecule from the front of an int list, returning the remainder -/
def parse (xs : List Int) : Option (Mol × List Int) :=
  match xs with
  | n :: rest => do
      if n < 0 then none
      let (rows, rest') ← parseAtoms n.toNat rest
      some (⟨rows.map (fun r => (r.1, r.2.1)), rows.map (fun r => (r.1, r.2.2))⟩, rest')
  | [] => none

def render (m : Mol) : String :=
  let atomStr (p : Nat × Atom) : String :=
    let (n, a) := p
    let nb := m.nbrs n
    s!"{n} {a.z} {(a.isotope.getD 0)} {a.charge} {if a.radical then 1 else 0} {showOptNat a.implH} {showTri a.stereo} {nb.length}" ++
      String.join (nb.map fun (k, b) => s!" {k} {b.order} {showTri b.stereo}")
  " ".intercalate (toString m.atoms.length :: m.atoms.map atomStr)

end Mol
end ChythonModel.Model
