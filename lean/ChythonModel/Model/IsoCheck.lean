import ChythonModel.Model.Iso
/-!
# C07 — executable checkers (relational side)

`checkCompiled q comps cl` accepts a linearisation `(components, closures)` of the pattern `q` iff it is *a* valid DFS
linearisation: the fronts enumerate the atoms exactly once; every component starts with a back-less step and every
other step hangs on an earlier atom of its component by a pattern bond; for every step the recorded closure partners
together with the parent are exactly the earlier-visited neighbours; no bond leaves a component.
The matcher theorems (`Props/C07.lean`) need nothing else about `_compile_query`, so the check is used twice:
on the model's own output (theorem `compile_checks` states it always passes) and on the output of the *real*
`_compile_query`, whatever order it chose (a rewrite that visits neighbours in another order stays accepted).

`checkComponents t comps` accepts a list of atom sets iff it is the partition of `t` into connected components.
Core Lean only.
-/
namespace ChythonModel.Model.Iso

/-- per-step conditions; `earlier` = fronts of the same component visited before -/
def checkSteps (q : Graph) (cl : Closures) (compFronts : List Nat) : List Nat → List Step → Bool
  | _, [] => true
  | earlier, s :: rest =>
    (q.nbrs s.front).all (compFronts.contains ·) &&
    (match s.back with
     | none => earlier.isEmpty
     | some b => earlier.contains b && q.hasBond s.front b && !(cl.get s.front).contains b) &&
    (cl.get s.front).Nodup &&
    setEq (s.back.toList ++ cl.get s.front) ((q.nbrs s.front).filter (earlier.contains ·)) &&
    checkSteps q cl compFronts (earlier ++ [s.front]) rest

def checkComp (q : Graph) (cl : Closures) (comp : List Step) : Bool :=
  !comp.isEmpty && checkSteps q cl (comp.map (·.front)) [] comp

def checkCompiled (q : Graph) (comps : List (List Step)) (cl : Closures) : Bool :=
  let fronts := comps.flatten.map (·.front)
  fronts.Nodup && fronts.all (q.atoms.contains ·) && q.atoms.all (fronts.contains ·) &&
  comps.all (checkComp q cl)

/-- one round of neighbour expansion -/
def expand (t : Graph) (seen : List Nat) : List Nat :=
  seen ++ ((seen.flatMap t.nbrs).filter fun y => !seen.contains y)

def reachN (t : Graph) : Nat → List Nat → List Nat
  | 0, s => s
  | k+1, s => reachN t k (expand t s)

def checkComponents (t : Graph) (comps : List (List Nat)) : Bool :=
  let all := comps.flatten
  all.Nodup && all.all (t.atoms.contains ·) && t.atoms.all (all.contains ·) &&
  comps.all fun c =>
    c.all (fun x => (t.nbrs x).all (c.contains ·)) &&
    match c with
    | [] => false
    | x :: _ => let r := reachN t c.length [x]; c.all (r.contains ·)

end ChythonModel.Model.Iso
