import ChythonModel.Py.Hash
import ChythonModel.Model.Graph
import ChythonModel.Gen.C01Tables
/-!
# `chython/algorithms/morgan.py` — `_morgan`, `Morgan.atoms_order`, `Morgan.int_adjacency`,
# `Element.__hash__`, `Bond.__hash__`  (C01)

Statement-by-statement transcription. Python `dict` = insertion-ordered association list (keys unique);
a failed `d[k]` (KeyError) is `none` — never defaulted.

Everything is parametrised by the tuple hash `h : List Int → Int` (`hash((i₀, i₁, …))` of a tuple of Python
ints). The driver instantiates `h := Py.pyHashTuple` (CPython's `tuplehash`, bit exact); the theorems of
`Props/C01.lean` hold for **every** `h`.

```python
def _morgan(atoms, bonds):
    tries = len(atoms) - 1
    numb = len(set(atoms.values()))
    stab = old_numb = 0
    for _ in range(tries):
        atoms = {n: hash((atoms[n], *(x for x in sorted((atoms[m], b) for m, b in ms.items()) for x in x)))
                 for n, ms in bonds.items()}
        old_numb, numb = numb, len(set(atoms.values()))
        if numb == len(atoms): break
        elif numb == old_numb:
            if stab == 3: break
            stab += 1
        elif stab: stab = 0
    else: (only a log line)
    return {n: i for i, (_, g) in enumerate(groupby(sorted(atoms.items(), key=itemgetter(1)), key=itemgetter(1)),
                                            start=1) for n, _ in g}
```
The `for … else` branch only emits a log warning (`old_numb` is used for nothing else) and is not modelled.
-/
namespace ChythonModel.Model.Morgan
open ChythonModel.Py ChythonModel.Gen.C01

/-- `hash(tuple of ints)` -/
abbrev TupleHash := List Int → Int

/-- a `dict[int, int]` : atom number → current invariant -/
abbrev Weights := List (Nat × Int)

/-- `int_adjacency` : `dict[int, dict[int, int]]` -/
abbrev IntAdj := List (Nat × List (Nat × Int))

/-- a comprehension whose element expression may raise: the first `none` (exception) aborts the whole comprehension -/
def optMapM {α β : Type} (f : α → Option β) : List α → Option (List β)
  | [] => some []
  | a :: tl =>
    match f a with
    | none => none
    | some b =>
      match optMapM f tl with
      | none => none
      | some r => some (b :: r)

/-- insert `a` before the first element that is not smaller (stable insertion) -/
def insertBy {α : Type} (le : α → α → Bool) (a : α) : List α → List α
  | [] => [a]
  | b :: tl => if le a b then a :: b :: tl else b :: insertBy le a tl

/-- Python's `sorted` (a stable sort): stable insertion sort — structurally recursive, so the kernel can evaluate it -/
def sortBy {α : Type} (le : α → α → Bool) (l : List α) : List α := l.foldr (insertBy le) []

/-! ## one refinement round -/

/-- Python's order on `(int, int)` tuples (`<=`) -/
def pairLe (a b : Int × Int) : Bool := a.1 < b.1 || (a.1 == b.1 && a.2 ≤ b.2)

/-- `(x for x in pairs for x in x)` -/
def flattenPairs : List (Int × Int) → List Int
  | [] => []
  | (a, b) :: tl => a :: b :: flattenPairs tl

/-- `((atoms[m], b) for m, b in ms.items())`; `none` = KeyError -/
def nbrPairs (w : Weights) (ms : List (Nat × Int)) : Option (List (Int × Int)) :=
  optMapM (fun (mb : Nat × Int) => (w.lookup mb.1).map fun x => (x, mb.2)) ms

/-- the new invariant of one atom:
    `hash((atoms[n], *flatten(sorted((atoms[m], b) for m, b in ms.items()))))` -/
def newWeight (h : TupleHash) (w : Weights) (n : Nat) (ms : List (Nat × Int)) : Option Int :=
  match w.lookup n with
  | none => none
  | some wn =>
    match nbrPairs w ms with
    | none => none
    | some ps => some (h (wn :: flattenPairs (sortBy pairLe ps)))

/-- `{n: hash(…) for n, ms in bonds.items()}` — the new dict has the key order of `bonds` -/
def step (h : TupleHash) (w : Weights) (bonds : IntAdj) : Option Weights :=
  optMapM (fun (row : Nat × List (Nat × Int)) => (newWeight h w row.1 row.2).map fun x => (row.1, x)) bonds

/-- `len(set(values))` -/
def numDistinct : List Int → Nat
  | [] => 0
  | x :: tl => if tl.contains x then numDistinct tl else numDistinct tl + 1

def values (w : Weights) : List Int := w.map (·.2)

/-- the `for _ in range(tries)` loop; arguments are the loop-carried variables `atoms`, `numb`, `stab`.
    `break` = return the current `atoms`. -/
def loop (h : TupleHash) (bonds : IntAdj) : Nat → Weights → Nat → Nat → Option Weights
  | 0, w, _, _ => some w
  | k + 1, w, numb, stab =>
    match step h w bonds with
    | none => none
    | some w' =>
      let numb' := numDistinct (values w')
      if numb' == w'.length then some w'                       -- each atom now unique
      else if numb' == numb then
        if stab == morganStabLimit then some w'                -- not changed `stab` times in a row
        else loop h bonds k w' numb' (stab + 1)
      else if stab != 0 then loop h bonds k w' numb' 0
      else loop h bonds k w' numb' stab

/-! ## final dense ranks -/

/-- `key=itemgetter(1)` comparison used by `sorted` (stable) -/
def byValue (a b : Nat × Int) : Bool := a.2 ≤ b.2

/-- `{n: i for i, (_, g) in enumerate(groupby(sorted_items, key=value), start) for n, _ in g}`:
    `prev` is the key of the group being emitted (`none` before the first group, which gets index `i`),
    `i` the index of the current group. -/
def assignRanks : List (Nat × Int) → Option Int → Nat → List (Nat × Nat)
  | [], _, _ => []
  | (n, v) :: tl, none, i => (n, i) :: assignRanks tl (some v) i
  | (n, v) :: tl, some p, i =>
    if p == v then (n, i) :: assignRanks tl (some p) i
    else (n, i + 1) :: assignRanks tl (some v) (i + 1)

/-- sorted by value (stable), grouped, groups numbered from `morganRankStart` -/
def ranks (w : Weights) : List (Nat × Nat) :=
  assignRanks (sortBy byValue w) none morganRankStart

/-- `_morgan(atoms, bonds)` -/
def morgan (h : TupleHash) (atoms : Weights) (bonds : IntAdj) : Option (List (Nat × Nat)) :=
  match loop h bonds (atoms.length - morganTriesOffset) atoms (numDistinct (values atoms)) 0 with
  | none => none
  | some w => some (ranks w)

/-! ## `Element.__hash__`, `Bond.__hash__`, `int_adjacency`, `atoms_order` -/

/-- the attributes `Element.__hash__` can read; `inRing` is the stored `_in_ring` label -/
structure HAtom where
  isotope : Option Nat := none
  z : Nat
  charge : Int := 0
  radical : Bool := false
  implH : Option Nat := none
  inRing : Bool := false
  deriving Repr, DecidableEq, Inhabited

def ofBool (b : Bool) : Int := if b then 1 else 0

/-- value of one tuple item; `none` = the item is Python `None` (attribute unset and not written `or 0`):
    `hash(None)` is outside the model. `x or 0` maps `None` and `0`/`False` to `0`. -/
def evalField (a : HAtom) (f : HashField) : Option Int :=
  let optNat (o : Option Nat) : Option Int :=
    match o with
    | some k => some (k : Int)
    | none => if f.orZero then some 0 else none
  match f.attr with
  | .isotope => optNat a.isotope
  | .atomicNumber => some (a.z : Int)
  | .charge => some a.charge
  | .isRadical => some (ofBool a.radical)
  | .implicitH => optNat a.implH
  | .inRing => some (ofBool a.inRing)

def evalFields (a : HAtom) (fs : List HashField) : Option (List Int) := optMapM (evalField a) fs

/-- `hash(atom)` = `hash((…fields…))` with the field list regenerated from the source -/
def atomHash (h : TupleHash) (a : HAtom) : Option Int :=
  match evalFields a elementHashFields with
  | none => none
  | some xs => some (h xs)

/-- `hash(bond)` -/
def bondHash (b : Bond) : Int :=
  match bondHashField with
  | .order => (b.order : Int)

/-- a molecule as `atoms_order` sees it: `_atoms` (with the stored ring label) and `_bonds`, dict orders preserved -/
structure MolView where
  atoms : List (Nat × HAtom)
  bonds : List (Nat × List (Nat × Bond))
  deriving Repr, DecidableEq, Inhabited

/-- `{n: {m: hash(b) for m, b in mb.items()} for n, mb in self._bonds.items()}` -/
def intAdjacency (bonds : List (Nat × List (Nat × Bond))) : IntAdj :=
  bonds.map fun (n, mb) => (n, mb.map fun (m, b) => (m, bondHash b))

/-- `{n: hash(a) for n, a in self.atoms()}` -/
def initWeights (h : TupleHash) (atoms : List (Nat × HAtom)) : Option Weights :=
  optMapM (fun (na : Nat × HAtom) => (atomHash h na.2).map fun x => (na.1, x)) atoms

/-- `Morgan.atoms_order` -/
def atomsOrder (h : TupleHash) (m : MolView) : Option (List (Nat × Nat)) :=
  match m.atoms with
  | [] => some []                                         -- `if not self: return {}`
  | [(n, _)] => some [(n, singleAtomRank)]                -- `dict.fromkeys(self, 1)`
  | _ =>
    match initWeights h m.atoms with
    | none => none
    | some w => morgan h w (intAdjacency m.bonds)

/-- CPython instance used by the driver -/
def atomsOrderPy (m : MolView) : Option (List (Nat × Nat)) := atomsOrder pyHashTuple m

/-- atoms whose adjacency row contains a labelled bond (`stereo_bonds` of `_chiral_morgan`, see `Model/ChiralMorgan.lean`) -/
def stereoBondAtoms (bonds : List (Nat × List (Nat × Bond))) : List Nat :=
  (bonds.filter fun row => row.2.any fun mb => mb.2.stereo.isSome).map (·.1)

/-! ## `Smiles.__eq__`, `Smiles.__hash__` (shapes regenerated from the source) -/

/-- `a == b` where `sa = str(a)`, `sb = str(b)` and `isSmiles = isinstance(b, Smiles)`;
    `none` = the source no longer has a shape the table language knows -/
def molEq (form : EqForm) (isSmiles : Bool) (sa sb : String) : Option Bool :=
  match form with
  | .isinstanceAndStrEq => some (isSmiles && sa == sb)
  | .other => none

/-- `hash(a)` for any string hash `hs` (CPython's is seeded per process; no model of it is needed) -/
def molHash (form : HashForm) (hs : String → Int) (s : String) : Option Int :=
  match form with
  | .hashOfStr => some (hs s)
  | .other => none

end ChythonModel.Model.Morgan
