import ChythonModel.Gen.StereoTables
/-!
# C12 — executable model of chython's stereo sign algebra (core Lean only)

Mirrors, statement by statement, from `/repo/chython/algorithms/stereo.py`:

* `_translate_tetrahedron_sign`  → `translateTetra`
* `_translate_cis_trans_sign`    → `translateCisTrans` (dict lookup `(n, m)` then `(m, n)` with swapped arguments)
* `_translate_allene_sign`       → `translateAllene`
* `_pyramid_sign`, `_cis_trans_sign`, `_allene_sign` → `pyramidSign`, `cisTransSign`, `alleneSign` over `Int`
  (exact arithmetic; float rounding of real coordinates is outside the model)

from `/repo/chython/algorithms/smiles.py` (`_format_atom`) and `/repo/chython/files/daylight/smiles.py`
(`postprocess_molecule`) the first-atom inversion rule and the allene neighbour choice:
`writerTetraMark`, `readerTetraSign`, `writerAlleneMark`, `readerAlleneSign`;
from `/repo/chython/files/daylight/parser.py` the neighbour-order bookkeeping (`order`, ring-closure slot
reservation, `stereo_atoms`) → `parseOrder`.

The two literal tables come from `Gen/StereoTables.lean` (regenerated from /repo on every run).
Python exceptions are `Except PyErr`; no branch is defaulted.
-/
namespace ChythonModel.Model.Stereo
open ChythonModel.Gen

inductive PyErr
  | keyError | valueError | stopIteration
  deriving Repr, DecidableEq

def PyErr.name : PyErr → String
  | .keyError => "KeyError" | .valueError => "ValueError" | .stopIteration => "StopIteration"

/-- `tuple.index(x)`: position of the first occurrence; `none` = `ValueError`. -/
def index? : List Nat → Nat → Option Nat
  | [], _ => none
  | y :: ys, x => if y = x then some 0 else (index? ys x).map (· + 1)

/-- `dict[k]` on an insertion-ordered association list: `KeyError` when absent. -/
def getKey {κ ν} [BEq κ] (d : List (κ × ν)) (k : κ) : Except PyErr ν :=
  match d.lookup k with
  | some v => .ok v
  | none => .error .keyError

/-- `s` argument or, when `None`, the stored label; a stored `None` raises `KeyError`. -/
def pickSign (stored s : Option Bool) : Except PyErr Bool :=
  match s with
  | some b => .ok b
  | none => match stored with
    | some b => .ok b
    | none => .error .keyError

/-- apply a table entry: `if table[key]: return not s; return s` -/
def flipIf (b s : Bool) : Bool := if b then !s else s

/-! ## tetrahedron -/

/-- the effective `order` tuple after the length checks and the "hydrogen always last" completion -/
def tetraOrder (order env : List Nat) (isH : Nat → Bool) : Except PyErr (List Nat) :=
  if order.length = 3 then
    if env.length = 4 then
      match env.find? isH with
      | some h => .ok (order ++ [h])
      | none => .error .keyError            -- `except StopIteration: raise KeyError`
    else if env.length ≠ 3 then .error .valueError
    else .ok order
  else if env.length ≠ 3 ∧ env.length ≠ 4 then .error .valueError
  else .ok order

/-- `tuple(order.index(x) for x in env[:3])` followed by the table lookup -/
def tetraLookup (order env : List Nat) : Except PyErr Bool :=
  match env with
  | x :: y :: z :: _ =>
    match index? order x, index? order y, index? order z with
    | some a, some b, some c => getKey tetrahedronTranslate (a, b, c)
    | _, _, _ => .error .valueError          -- `tuple.index` of a foreign atom
  | _ => .error .valueError                  -- not reachable after `tetraOrder` (kept: no defaulting)

/-- `MoleculeStereo._translate_tetrahedron_sign(n, env, s)`;
`order = stereogenic_tetrahedrons[n]`, `stored = atoms[n].stereo`, `isH x = (atoms[x] == H)`. -/
def translateTetra (order env : List Nat) (isH : Nat → Bool) (stored s : Option Bool) : Except PyErr Bool := do
  let s ← pickSign stored s
  let order' ← tetraOrder order env isH
  let t ← tetraLookup order' env
  pure (flipIf t s)

/-! ## double bonds and allenes -/

/-- value of `stereogenic_cis_trans[(n, m)]` / `stereogenic_allenes[c]`: `(n0, n1, n2, n3)`,
`n0, n2` at the first end, `n1, n3` at the last end, `None` = no second heavy neighbour (implicit or explicit H). -/
structure Ends where
  n0 : Nat
  n1 : Nat
  n2 : Option Nat
  n3 : Option Nat
  deriving Repr, DecidableEq

/-- `x == nk or nk is None and atoms[x] == H` -/
def matchOpt (x : Nat) (nk : Option Nat) (isH : Nat → Bool) : Bool :=
  match nk with
  | some k => x == k
  | none => isH x

/-- the four-way case analysis shared verbatim by `_translate_cis_trans_sign` and `_translate_allene_sign` -/
def endsSlots (e : Ends) (isH : Nat → Bool) (nn nm : Nat) : Except PyErr (Nat × Nat) :=
  if nn = e.n0 then
    if nm = e.n1 then .ok (0, 1)
    else if matchOpt nm e.n3 isH then .ok (0, 3)
    else .error .keyError
  else if nn = e.n1 then
    if nm = e.n0 then .ok (1, 0)
    else if matchOpt nm e.n2 isH then .ok (1, 2)
    else .error .keyError
  else if matchOpt nn e.n2 isH then
    if nm = e.n1 then .ok (2, 1)
    else if matchOpt nm e.n3 isH then .ok (2, 3)
    else .error .keyError
  else if matchOpt nn e.n3 isH then
    if nm = e.n0 then .ok (3, 0)
    else if matchOpt nm e.n2 isH then .ok (3, 2)
    else .error .keyError
  else .error .keyError

def translateEnds (e : Ends) (isH : Nat → Bool) (nn nm : Nat) (s : Bool) : Except PyErr Bool := do
  let t ← endsSlots e isH nn nm
  let f ← getKey alkeneTranslate t
  pure (flipIf f s)

/-- `_translate_cis_trans_sign(n, m, nn, nm, s)`; `sct = stereogenic_cis_trans` (dict keyed by terminal pair),
`stored` = label of the central bond. -/
def translateCisTrans (sct : List ((Nat × Nat) × Ends)) (isH : Nat → Bool) (n m nn nm : Nat)
    (stored s : Option Bool) : Except PyErr Bool :=
  match sct.lookup (n, m) with
  | some e => do
    let s ← pickSign stored s
    translateEnds e isH nn nm s
  | none => do
    let e ← getKey sct (m, n)       -- second lookup: KeyError propagates
    let s ← pickSign stored s
    translateEnds e isH nm nn s     -- `n, m = m, n; nn, nm = nm, nn`

/-- `_translate_allene_sign(c, nn, nm, s)`; `env? = stereogenic_allenes.get(c)`, `stored = atoms[c].stereo` -/
def translateAllene (env? : Option Ends) (isH : Nat → Bool) (nn nm : Nat) (stored s : Option Bool) :
    Except PyErr Bool := do
  let s ← pickSign stored s
  match env? with
  | some e => translateEnds e isH nn nm s
  | none => .error .keyError

/-! ## geometry over exact integers -/

def sgn (x : Int) : Int := if x > 0 then 1 else if x < 0 then -1 else 0

abbrev V3 := Int × Int × Int
abbrev V2 := Int × Int

def pyramidVol (n u v w : V3) : Int :=
  let (nx, ny, nz) := n
  let (ux, uy, uz) := u
  let (vx, vy, vz) := v
  let (wx, wy, wz) := w
  let q1x := ux - nx; let q1y := uy - ny; let q1z := uz - nz
  let q2x := vx - nx; let q2y := vy - ny; let q2z := vz - nz
  let q3x := wx - nx; let q3y := wy - ny; let q3z := wz - nz
  q1x * (q2y * q3z - q2z * q3y) + q1y * (q2z * q3x - q2x * q3z) + q1z * (q2x * q3y - q2y * q3x)

/-- `_pyramid_sign(n, u, v, w)` -/
def pyramidSign (n u v w : V3) : Int := sgn (pyramidVol n u v w)

def cisTransDot (n u v w : V2) : Int :=
  let (nx, ny) := n
  let (ux, uy) := u
  let (vx, vy) := v
  let (wx, wy) := w
  let q1x := ux - nx; let q1y := uy - ny
  let q2x := vx - ux; let q2y := vy - uy
  let q3x := wx - vx; let q3y := wy - vy
  let q1q2z := q1x * q2y - q1y * q2x
  let q2q3z := q2x * q3y - q2y * q3x
  q1q2z * q2q3z

/-- `_cis_trans_sign(n, u, v, w)` -/
def cisTransSign (n u v w : V2) : Int := sgn (cisTransDot n u v w)

def alleneDot (mark : Int) (u v w : V2) : Int :=
  let (ux, uy) := u
  let (vx, vy) := v
  let (wx, wy) := w
  let q2x := vx - ux; let q2y := vy - uy
  let q3x := wx - vx; let q3y := wy - vy
  let q2q3z := q2x * q3y - q2y * q3x
  let dot := -mark * q2q3z
  dot

/-- `_allene_sign(mark, u, v, w)` -/
def alleneSign (mark : Int) (u v w : V2) : Int := sgn (alleneDot mark u v w)

/-! ## SMILES marks: first-atom inversion (writer `_format_atom`, reader `postprocess_molecule`) -/

/-- writer: `atom.implicit_hydrogens and next(x for x in adjacency) == n` -/
def writerInverts (implH : Nat) (isFirstOfComponent : Bool) : Bool := implH != 0 && isFirstOfComponent

/-- reader: `i in data['starts'] and atoms[n].implicit_hydrogens` (`starts` = atom tokens without a preceding atom:
the first one and those after a dot; before commit 8b29359 the test was `not i`, see known_findings/C12.json) -/
def readerInverts (isStart : Bool) (implH : Nat) : Bool := isStart && implH != 0

/-- `_format_atom`, tetrahedron branch. `true` = `'@'`, `false` = `'@@'`.
`adj = adjacency[n]` (predecessor, ring closures by closure number, children). -/
def writerTetraMark (order adj : List Nat) (isH : Nat → Bool) (stored : Option Bool) (implH : Nat)
    (isFirstOfComponent : Bool) : Except PyErr Bool := do
  let t ← translateTetra order adj isH stored none
  pure (if writerInverts implH isFirstOfComponent then !t else t)

/-- `postprocess_molecule` + `add_atom_stereo`, tetrahedron branch: the label stored for mark `mark`
(`true` = `'@'`) on an atom token whose text-order neighbours are `env`. -/
def readerTetraSign (order env : List Nat) (isH : Nat → Bool) (isStart : Bool) (implH : Nat) (mark : Bool) :
    Except PyErr Bool :=
  translateTetra order env isH none (some (if readerInverts isStart implH then !mark else mark))

/-- `tuple.__contains__` on `(n0, n1, n2, n3)` for an int -/
def Ends.contains (e : Ends) (x : Nat) : Bool :=
  x == e.n0 || x == e.n1 || e.n2 == some x || e.n3 == some x

/-- `next(x for x in adj if x in env)`; exhausted generator = `StopIteration` -/
def firstIn (adj : List Nat) (e : Ends) : Except PyErr Nat :=
  match adj.find? e.contains with
  | some x => .ok x
  | none => .error .stopIteration

/-- `_format_atom`, allene branch (`adj1 = adjacency[t1]`, `adj2 = adjacency[t2]`) -/
def writerAlleneMark (e : Ends) (adj1 adj2 : List Nat) (isH : Nat → Bool) (stored : Option Bool) :
    Except PyErr Bool := do
  let n1 ← firstIn adj1 e
  let n2 ← firstIn adj2 e
  translateAllene (some e) isH n1 n2 stored none

/-- `postprocess_molecule`, allene branch (`ord1 = order[t1]`, `ord2 = order[t2]`); no first-atom rule -/
def readerAlleneSign (e : Ends) (ord1 ord2 : List Nat) (isH : Nat → Bool) (mark : Bool) : Except PyErr Bool := do
  let n1 ← firstIn ord1 e
  let n2 ← firstIn ord2 e
  translateAllene (some e) isH n1 n2 none (some mark)

/-! ## wedge bonds of a tetrahedron (`add_wedge`, `_MoleculeStereo__wedge_sign`) over integer coordinates -/

def lift (p : V2) (z : Int) : V3 := (p.1, p.2, z)

/-- `add_wedge(n, m, mark)`, tetrahedron branch, for a wedge that ends on a heavy neighbour `m`:
`th` = `stereogenic_tetrahedrons[n]` with the 2-D coordinates of each neighbour, `pn` = coordinates of `n`,
`explicitH` = coordinates of the explicit hydrogen when `len(bonds[n]) == 4` and `len(th) == 3`.
Result: `some label` when the signed volume is non-zero (`atoms[n]._stereo = s > 0`), `none` when it is zero
(nothing is stored), `error` for a neighbour list that is not 3 or 4 long (Python would raise `TypeError`
from the call arity — not reachable for a stereogenic tetrahedron). -/
def addWedgeHeavy (th : List (Nat × V2)) (pn : V2) (explicitH : Option V2) (m : Nat) (mark : Int) :
    Except PyErr (Option Bool) :=
  let order := th.map fun (x, p) => lift p (if x = m then mark else 0)
  let s? : Option Int :=
    match order with
    | [u, v, w] =>
      match explicitH with
      | some ph => some (pyramidSign (lift ph 0) u v w)
      | none => some (pyramidSign (lift pn 0) u v w)
    | [u, v, w, t] => some (pyramidSign t u v w)
    | _ => none
  match s? with
  | none => .error .valueError
  | some s => .ok (if s = 0 then none else some (decide (s > 0)))

/-- `add_wedge(n, m, mark)` for a wedge that ends on the explicit hydrogen `m` (coordinates `ph`) -/
def addWedgeToH (th : List (Nat × V2)) (ph : V2) (mark : Int) : Except PyErr (Option Bool) :=
  match th.map fun (_, p) => lift p 0 with
  | [u, v, w] =>
    let s := pyramidSign (lift ph mark) u v w
    .ok (if s = 0 then none else some (decide (s > 0)))
  | _ => .error .valueError

/-- `__wedge_sign`, tetrahedron branch: `order` = a rotation of the neighbour tuple chosen by `_wedge_map`
(wedge goes from `n` to `order[0]`); `th`, `explicitH` as above; `stored` = `atoms[n].stereo`. Returns the wedge mark
(`1` up, `-1` down, `0` = ambiguous drawing).  With three neighbours the fourth point is the explicit hydrogen when
there is one, else the centre (commit 7df698c; before it always the centre, see known_findings/C12.json). -/
def wedgeSign (th : List (Nat × V2)) (pn : V2) (explicitH : Option V2) (order : List Nat) (isH : Nat → Bool)
    (stored : Option Bool) : Except PyErr Int := do
  let s ← translateTetra (th.map (·.1)) order isH stored none
  let coord (x : Nat) : Except PyErr V2 :=
    match th.lookup x with
    | some p => .ok p
    | none => .error .keyError
  match order with
  | [o0, o1, o2] =>
    let p0 ← coord o0; let p1 ← coord o1; let p2 ← coord o2
    let apex := match explicitH with
      | some ph => ph
      | none => pn
    let v := pyramidSign (lift apex 0) (lift p0 1) (lift p1 0) (lift p2 0)
    pure (if s then v else -v)
  | [o0, o1, o2, o3] =>
    let p0 ← coord o0; let p1 ← coord o1; let p2 ← coord o2; let p3 ← coord o3
    let v := pyramidSign (lift p3 0) (lift p0 1) (lift p1 0) (lift p2 0)
    pure (if s then v else -v)
  | _ => .error .valueError

/-! ## wedge bonds of an allene (`add_wedge` allene branch, `__wedge_sign` allene branch) -/

/-- `add_wedge(n, m, mark)`, allene branch. `e` = `stereogenic_allenes[c]` = `(n0, n1, n2, n3)` (`n0, n2` on terminal `t1`,
`n1, n3` on `t2`), `p1 p2` = coordinates of `t1 t2`, `coord` = coordinates of the substituents, `nIsT1` = the wedge starts
at `t1`. The four-way table on `order.index(m)`: which opposite substituent is looked at, whether the terminals are
swapped, whether the sign is reversed (second substituent of a terminal, or hydrogen). -/
def addWedgeAllene (e : Ends) (p1 p2 : V2) (coord : Nat → Option V2) (nIsT1 : Bool) (m : Nat) (mIsH : Bool)
    (mark : Int) : Except PyErr (Option Bool) :=
  let pick : Except PyErr (Nat × Bool × Bool) :=      -- (m1, swapped, r)
    if mIsH then .ok (if nIsT1 then (e.n1, false, true) else (e.n0, true, true))
    else if m = e.n0 then .ok (e.n1, false, false)
    else if m = e.n1 then .ok (e.n0, true, false)
    else if e.n2 = some m then .ok (e.n1, false, true)
    else if e.n3 = some m then .ok (e.n0, true, true)
    else .error .valueError                          -- `order.index(m)` of a foreign atom
  match pick with
  | .error err => .error err
  | .ok (m1, swapped, r) =>
    match coord m1 with
    | none => .error .keyError
    | some pm =>
      let s := if swapped then alleneSign mark p2 p1 pm else alleneSign mark p1 p2 pm
      .ok (if s = 0 then none else some (if r then decide (s < 0) else decide (s > 0)))

/-- `__wedge_sign`, allene branch, for the tuple `(x0, x1, ta, tb, c, True)` that `_wedge_map` builds: wedge from terminal
`ta` to its substituent `x0`, `x1` = reference substituent at the other terminal `tb` -/
def wedgeSignAllene (e : Ends) (isH : Nat → Bool) (x0 x1 : Nat) (pa pb : V2) (px1 : V2) (stored : Option Bool) :
    Except PyErr Int := do
  let s ← translateAllene (some e) isH x0 x1 stored none
  let v := alleneSign 1 pa pb px1
  pure (if s then v else -v)

/-! ## stereogenicity of one double bond (`MoleculeStereo.__chiral_centers`, cis-trans part) -/

/-- `any(len(x) < 8 for x in atoms_rings[n] if m in x)`: the "skip small rings" test; `sizes` = sizes of the SSSR rings
that contain both terminal atoms of the double-bond chain (before commit c15352c: every ring through the first
terminal, see known_findings/C12.json) -/
def smallRing (sizes : List Nat) : Bool := sizes.any (· < 8)

/-- Is the (unlabelled) double bond reported in `chiral_cis_trans`?  `endsDistinct`: both ends carry two substituents with
different Morgan classes; `shareRing`: both terminal atoms lie in one SSSR ring (`ring_cumulenes_terminals`).
Chain double bonds: stereogenic iff the ends are distinct.  Ring double bonds: "always chiral" unless a ring through
both terminals has fewer than 8 atoms, then never.  (The later axis/graph step only adds elements for multi-element ring
systems and is outside this function.) -/
def cisTransStereogenic (endsDistinct shareRing : Bool) (sizes : List Nat) : Bool :=
  if shareRing then !smallRing sizes else endsDistinct

end ChythonModel.Model.Stereo
