import ChythonModel.Model.Graph
import ChythonModel.Gen.QueryTables
/-!
# C08 — query atoms / query bonds and the labels they read (executable model, core Lean only)

Mirrors, statement by statement:
* `chython/periodictable/base/query.py`: `QueryElement.__eq__`, `AnyElement.__eq__`, `ListElement.__eq__`, `AnyMetal.__eq__`,
  `_validate`, the `hybridization` / `ring_sizes` / `charge` setters, `QueryElement.from_atom`;
* `chython/containers/bonds.py`: `QueryBond.__init__`, `QueryBond.__eq__` (against `Bond`, `QueryBond`, `int`);
* `chython/containers/molecule.py`: `MoleculeContainer.calc_labels` (neighbors, heteroatoms, hybridization, explicit hydrogens,
  atom ring sizes / in_ring and bond in_ring as a function of the SSSR the caller supplies — ring perception is C06's).

Python tuples are lists; the *set* `Element.ring_sizes` is a duplicate-free list (only membership is ever used).
Python `raise` is `Except PyErr`.
-/
namespace ChythonModel.Model.Query
open ChythonModel.Gen.Query

/-- exception classes that can leave the modelled code -/
inductive PyErr
  | incorrectSmarts | incorrectSmiles | valueError | typeError | indexError | keyError
  deriving Repr, DecidableEq, Inhabited

def PyErr.name : PyErr → String
  | .incorrectSmarts => "IncorrectSmarts" | .incorrectSmiles => "IncorrectSmiles" | .valueError => "ValueError"
  | .typeError => "TypeError" | .indexError => "IndexError" | .keyError => "KeyError"

/-- a molecule atom as the comparison methods see it (attributes set by `calc_labels`) -/
structure MAtom where
  z : Nat
  isotope : Option Nat := none
  charge : Int := 0
  radical : Bool := false
  neighbors : Nat := 0
  hybridization : Nat := 1
  ringSizes : List Nat := []
  implH : Option Nat := none
  heteroatoms : Nat := 0
  deriving Repr, DecidableEq, Inhabited

inductive QKind
  | element (z : Nat) (isotope : Option Nat)   -- `QueryElement` subclass instance
  | any                                        -- `AnyElement`
  | list (zs : List Nat)                       -- `ListElement` (`atomic_numbers`)
  | metal                                      -- `AnyMetal`
  deriving Repr, DecidableEq, Inhabited

/-- a query atom. For `metal` the fields charge…heteroatoms do not exist in Python and are ignored by `pyEq`. -/
structure QAtom where
  kind : QKind
  charge : Int := 0
  radical : Bool := false
  neighbors : List Nat := []
  hybridization : List Nat := []
  ringSizes : List Nat := []
  implH : List Nat := []
  heteroatoms : List Nat := []
  stereo : Option Bool := none
  masked : Bool := false
  deriving Repr, DecidableEq, Inhabited

/-! ## element flags (regenerated) -/

def flagsOf (z : Nat) : Option (Bool × Bool) :=
  (elemFlags.find? (fun r => r.2.1 == z)).map (fun r => (r.2.2.1, r.2.2.2))

/-- `other.is_forming_single_bonds or isinstance(other, GroupXVIII)`; atoms always are instances of a table class -/
def notMetal (z : Nat) : Bool :=
  match flagsOf z with
  | some (single, noble) => single || noble
  | none => true

/-! ## the four `__eq__` methods -/

/-- `if self.X and other.X not in self.X: return False` — an empty tuple is falsy -/
def tupleRejects (constraint : List Nat) (v : Nat) : Bool := !constraint.isEmpty && !constraint.contains v

/-- `if self.implicit_hydrogens and other.implicit_hydrogens not in self.implicit_hydrogens` (`None` is in no tuple of ints) -/
def hRejects (constraint : List Nat) (v : Option Nat) : Bool :=
  !constraint.isEmpty && !(match v with | some h => constraint.contains h | none => false)

/-- the ring block: `if self.ring_sizes: if self.ring_sizes[0]: isdisjoint … elif other.ring_sizes: return False` -/
def ringRejects (qr : List Nat) (ar : List Nat) : Bool :=
  match qr with
  | [] => false
  | r0 :: _ =>
    if r0 != 0 then !(ar.any fun s => qr.contains s)   -- other.ring_sizes.isdisjoint(self.ring_sizes)
    else !ar.isEmpty                                    -- not in ring expected

/-- `if self.isotope and self.isotope != other.isotope` (0 is falsy) -/
def isoRejects (qi ai : Option Nat) : Bool :=
  match qi with
  | some i => i != 0 && some i != ai
  | none => false

/-- the statements shared by `QueryElement/AnyElement/ListElement.__eq__` after the element test -/
def extendedTail (q : QAtom) (iso : Option Nat) (a : MAtom) : Bool :=
  if q.charge != a.charge then false
  else if q.radical != a.radical then false
  else if isoRejects iso a.isotope then false
  else if tupleRejects q.neighbors a.neighbors then false
  else if tupleRejects q.hybridization a.hybridization then false
  else if ringRejects q.ringSizes a.ringSizes then false
  else if hRejects q.implH a.implH then false
  else if tupleRejects q.heteroatoms a.heteroatoms then false
  else true

/-- `query_atom == molecule_atom` -/
def pyEq (q : QAtom) (a : MAtom) : Bool :=
  match q.kind with
  | .element z iso => if z != a.z then false else extendedTail q iso a
  | .any => extendedTail q none a
  | .list zs => if !zs.contains a.z then false else extendedTail q none a
  | .metal =>
    if notMetal a.z then false
    else if tupleRejects q.neighbors a.neighbors then false
    else if tupleRejects q.hybridization a.hybridization then false
    else true

/-! ## bonds -/

structure MBond where
  order : Nat
  inRing : Bool
  deriving Repr, DecidableEq, Inhabited

structure QBond where
  orders : List Nat
  inRing : Option Bool := none
  stereo : Option Bool := none
  deriving Repr, DecidableEq, Inhabited

/-- `QueryBond.__eq__(Bond)` -/
def bondEq (q : QBond) (b : MBond) : Bool :=
  match q.inRing with
  | some r => if r != b.inRing then false else q.orders.contains b.order
  | none => q.orders.contains b.order

/-- `QueryBond.__eq__(int)` -/
def bondEqInt (q : QBond) (o : Nat) : Bool := q.orders.contains o

/-- `QueryBond.__eq__(QueryBond)` -/
def bondEqQ (q r : QBond) : Bool := q.orders == r.orders && q.inRing == r.inRing

/-- insertion into a sorted duplicate-free list (`tuple(sorted(set(order)))`) -/
def insertSorted (x : Nat) : List Nat → List Nat
  | [] => [x]
  | y :: ys => if x < y then x :: y :: ys else if x == y then y :: ys else y :: insertSorted x ys

def sortDedup (l : List Nat) : List Nat := l.foldr insertSorted []

/-- `QueryBond(order)` with a list/tuple/set argument -/
def mkQBondList (orders : List Nat) (inRing : Option Bool := none) (stereo : Option Bool := none) : Except PyErr QBond :=
  if orders.any (fun o => !bondOrders.contains o) then .error .valueError
  else .ok { orders := sortDedup orders, inRing, stereo }

/-- `QueryBond(order)` with an int argument -/
def mkQBondInt (order : Nat) (inRing : Option Bool := none) (stereo : Option Bool := none) : Except PyErr QBond :=
  if !bondOrders.contains order then .error .valueError else .ok { orders := [order], inRing, stereo }

/-- `QueryBond.from_bond(bond, stereo=…, in_ring=…)` -/
def fromBond (b : MBond) (bondStereo : Option Bool) (fStereo fRing : Bool) : QBond :=
  { orders := [b.order], inRing := if fRing then some b.inRing else none, stereo := if fStereo then bondStereo else none }

/-! ## validators (setters). `Int` inputs because the parser can produce negative numbers. -/

def hasDup : List Int → Bool
  | [] => false
  | x :: xs => xs.contains x || hasDup xs

def insertSortedI (x : Int) : List Int → List Int
  | [] => [x]
  | y :: ys => if x ≤ y then x :: y :: ys else y :: insertSortedI x ys

def sortI (l : List Int) : List Int := l.foldr insertSortedI []

/-- `_validate(value, prop)` for a list / tuple and the list branch of the hybridization setter (bounds differ) -/
def validateList (lo hi : Nat) (v : List Int) : Except PyErr (List Nat) :=
  if v.any (fun x => x < lo || x > hi) then .error .valueError
  else if hasDup v then .error .valueError
  else .ok ((sortI v).map Int.toNat)

/-- the int branch -/
def validateInt (lo hi : Nat) (v : Int) : Except PyErr (List Nat) :=
  if v < lo || v > hi then .error .valueError else .ok [v.toNat]

/-- `ring_sizes` setter, tuple/list branch -/
def validateRingList (v : List Int) : Except PyErr (List Nat) :=
  if v.any (fun x => x < ringMin) then .error .valueError
  else if hasDup v then .error .valueError
  else .ok ((sortI v).map Int.toNat)

/-- `ring_sizes` setter, int branch: `if value < 3 and value != 0: raise` -/
def validateRingInt (v : Int) : Except PyErr (List Nat) :=
  if v < ringMin && v != 0 then .error .valueError else .ok [v.toNat]

def validateCharge (c : Int) : Except PyErr Int :=
  if c > chargeHi || c < chargeLo then .error .valueError else .ok c

/-! ## the constructors / setters of the query API with raw arguments -/

/-- an argument as the caller passes it: `None`, an `int`, or a list / tuple of ints -/
inductive RawArg
  | none
  | int (v : Int)
  | lst (l : List Int)
  deriving Repr, DecidableEq, Inhabited

/-- `_validate(value, prop)`: neighbors, heteroatoms, implicit hydrogens -/
def validateCount : RawArg → Except PyErr (List Nat)
  | .none => .ok []
  | .int v => validateInt countLo countHi v
  | .lst l => validateList countLo countHi l

/-- the `hybridization` setter -/
def validateHyb : RawArg → Except PyErr (List Nat)
  | .none => .ok []
  | .int v => validateInt hybLo hybHi v
  | .lst l => validateList hybLo hybHi l

/-- the `ring_sizes` setter -/
def validateRing : RawArg → Except PyErr (List Nat)
  | .none => .ok []
  | .int v => validateRingInt v
  | .lst l => validateRingList l

/-- `QueryElement(isotope, charge=…, is_radical=…, neighbors=…, …)`, `AnyElement(…)`, `ListElement(elements, …)`, `AnyMetal(neighbors=…,
    hybridization=…)` — also what assigning the properties one by one does. All failures are `ValueError`. -/
def apiQuery (kind : QKind) (charge : Int) (radical : Bool) (nb hy rs ih he : RawArg) (stereo : Option Bool) (masked : Bool) :
    Except PyErr QAtom :=
  match validateCount nb with
  | .error e => .error e
  | .ok nb' =>
    match validateHyb hy with
    | .error e => .error e
    | .ok hy' =>
      match kind with
      | .metal => .ok { kind := .metal, neighbors := nb', hybridization := hy', masked := masked }
      | k =>
        match validateCharge charge with
        | .error e => .error e
        | .ok ch =>
          match validateCount he with
          | .error e => .error e
          | .ok he' =>
            match validateRing rs with
            | .error e => .error e
            | .ok rs' =>
              match validateCount ih with
              | .error e => .error e
              | .ok ih' =>
                .ok { kind := k, charge := ch, radical := radical, neighbors := nb', hybridization := hy', ringSizes := rs',
                      implH := ih', heteroatoms := he', stereo := stereo, masked := masked }

/-! ## `QueryElement.from_atom` -/

structure FromAtomFlags where
  neighbors : Bool := false
  hybridization : Bool := false
  heteroatoms : Bool := false
  hydrogens : Bool := false
  ringSizes : Bool := false
  deriving Repr, DecidableEq, Inhabited

/-- `QueryElement.from_atom(atom, …)`: `none` when no `QueryElement` subclass has that number (`ValueError`).
    `ring_sizes=True` copies the atom's ring-size set as a sorted tuple. -/
def fromAtom (a : MAtom) (f : FromAtomFlags) : Option QAtom :=
  if querySyms.any (fun r => r.2 == a.z) then
    some { kind := .element a.z a.isotope, charge := a.charge, radical := a.radical,
           neighbors := if f.neighbors then [a.neighbors] else [],
           hybridization := if f.hybridization then [a.hybridization] else [],
           heteroatoms := if f.heteroatoms then [a.heteroatoms] else [],
           ringSizes := if f.ringSizes then sortDedup a.ringSizes else [],
           implH := if f.hydrogens then (match a.implH with | some h => [h] | none => []) else [] }
  else none

/-! ## `calc_labels` -/

structure Labels where
  neighbors : Nat
  heteroatoms : Nat
  hybridization : Nat
  explicitH : Nat
  deriving Repr, DecidableEq, Inhabited

/-- one pass of the hybridization update for a bond of the given order (orders other than 2,3,4 leave it unchanged);
    the caller has already skipped order 8. -/
def hybStep (h : Nat) (order : Nat) : Nat :=
  if order == 4 then 4
  else if h != 4 then
    if order == 3 then 3
    else if order == 2 then (if h == 1 then 2 else if h == 2 then 3 else h)
    else h
  else h

/-- the inner `for m, bond in m_bond.items()` loop; the neighbour's atomic number is looked up in `atoms`
    (`KeyError` ⇒ `none`) only for bonds that are not skipped -/
def labelsLoop (atomZ : Nat → Option Nat) : List (Nat × Bond) → Labels → Option Labels
  | [], acc => some acc
  | (m, b) :: rest, acc =>
    if b.order == 8 then labelsLoop atomZ rest acc
    else
      match atomZ m with
      | none => none
      | some z =>
        labelsLoop atomZ rest
          { neighbors := acc.neighbors + 1,
            heteroatoms := if z == 1 then acc.heteroatoms else if z != 6 then acc.heteroatoms + 1 else acc.heteroatoms,
            hybridization := hybStep acc.hybridization b.order,
            explicitH := if z == 1 then acc.explicitH + 1 else acc.explicitH }

def labelsOf (m : Mol) (n : Nat) : Option Labels :=
  labelsLoop (fun k => (m.atom? k).map (·.z)) (m.nbrs n) ⟨0, 0, 1, 0⟩

/-- `atoms_rings[n]`: the SSSR rings through `n` (as indices into the ring list) -/
def ringsThrough (sssr : List (List Nat)) (n : Nat) : List Nat :=
  (sssr.zipIdx.filter fun (r, _) => r.contains n).map (·.2)

def dedup : List Nat → List Nat
  | [] => []
  | x :: xs => if xs.contains x then dedup xs else x :: dedup xs

/-- `atoms_rings_sizes.get(n) or set()` as a sorted duplicate-free list -/
def ringSizesOf (sssr : List (List Nat)) (n : Nat) : List Nat :=
  sortDedup ((sssr.filter fun r => r.contains n).map List.length)

/-- `bond._in_ring = anr and amr and not anr.isdisjoint(amr)` -/
def bondInRing (sssr : List (List Nat)) (n m : Nat) : Bool :=
  sssr.any fun r => r.contains n && r.contains m

/-- the labelled atom the query methods see -/
def mAtomOf (m : Mol) (sssr : List (List Nat)) (n : Nat) : Option MAtom := do
  let a ← m.atom? n
  let l ← labelsOf m n
  some { z := a.z, isotope := a.isotope, charge := a.charge, radical := a.radical, neighbors := l.neighbors,
         hybridization := l.hybridization, ringSizes := ringSizesOf sssr n, implH := a.implH,
         heteroatoms := l.heteroatoms }

end ChythonModel.Model.Query
