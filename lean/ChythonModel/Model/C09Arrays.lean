import ChythonModel.Model.BitLayout
import ChythonModel.Gen.C09Alloc
/-!
# C09 — the compiled matcher with its C arrays at their allocated sizes

`_isomorphism.pyx: get_mapping` allocates five arrays (`path`, `stack_index`, `stack_depth`, `matched`, `closures`) whose element
counts are regenerated from the text of the `.pyx` into `Gen/C09Alloc.lean`, and indexes them without bounds checks
(`@cython.boundscheck(False)`). This file is the matcher of `Model/BitLayout.lean` (`runLoopCS`: scratch array as explicit state)
with **a guard in front of every access to an allocated array**: the index is compared with the allocated element count and the
machine stops with `Fault.oob` when it is not below it (undefined behaviour in the compiled code; `IndexError` in the `pyx2py`
rendering). It also records how far the stack pointer went and how many entries were pushed.

Accesses, statement by statement:
* `stack_index[stack] = …; stack_depth[stack] = …; stack += 1` (first loop and both push sites): the stack is the list of waiting
  entries, the stack pointer its length; after a batch of pushes the highest index written is `length - 1`.
* `path[path_size] = n` with `path_size = depth`; `path[i]` for `i < depth` when a mapping is yielded.
* `matched[n] = True`, `matched[path[i]] = False` (dead-end unmarking), `matched[m]` for every bond of the scanned row,
  `matched[j_bond.index]` for every bond of a candidate's row.
* `closures[j_bond.index] = …` (fill and zeroing loops: every bond of a candidate's row), `closures[path[j_bond.index]]` (comparison
  loop: entries of the path).
* `memset(matched / closures, 0, count)`: the count must not exceed the allocation (`oob`) and must cover every atom (`uninit`).
The guards of one expansion are evaluated together in front of it (a superset of what the loops touch when they leave early).
-/
namespace ChythonModel.Model.Bits
open ChythonModel.Gen.C09Alloc

inductive Arr
  | path | stackIndex | stackDepth | matched | closures
  deriving Repr, DecidableEq, Inhabited

def Arr.name : Arr → String
  | .path => "path" | .stackIndex => "stack_index" | .stackDepth => "stack_depth" | .matched => "matched" | .closures => "closures"

inductive Fault
  | oob (a : Arr) (idx size : Nat)   -- access outside the allocation
  | uninit (a : Arr)                 -- array read without having been zero-filled over all atoms
  | range                            -- a read outside a *buffer* (query / structure / scope / the filled part of `path`)
  | fuel                             -- the structural-recursion budget of the model ran out (not an access)
  deriving Repr, DecidableEq, Inhabited

/-- element counts of the five arrays -/
structure Alloc where
  path : Nat
  stackIndex : Nat
  stackDepth : Nat
  matched : Nat
  closures : Nat
  setMatched : Nat
  setClosures : Nat
  deriving Repr, DecidableEq

/-- the sizes `get_mapping` computes (regenerated from the `.pyx`) -/
def allocOf (qn mn : Nat) : Alloc :=
  ⟨allocPath qn mn, allocStackIndex qn mn, allocStackDepth qn mn, allocMatched qn mn, allocClosures qn mn,
   memsetMatched qn mn, memsetClosures qn mn⟩

/-- the sizes before repo commit e44243a (`2 * molecule.atoms_count` stack entries) — `Findings/C09.lean` shows the overflow -/
def allocOld (qn mn : Nat) : Alloc := { allocOf qn mn with stackIndex := 2 * mn, stackDepth := 2 * mn }

structure Stats where
  maxStack : Nat := 0   -- highest value of the stack pointer
  pushes : Nat := 0     -- entries pushed in total
  deriving Repr, DecidableEq, Inhabited

/-- first index of `idxs` that is not below `size` -/
def oobIn (size : Nat) (a : Arr) (idxs : List Nat) : Option Fault :=
  (idxs.find? fun i => decide (size ≤ i)).map fun i => Fault.oob a i size

/-- `molecule.bonds[from_ : to_]` indices of one atom (empty when the atom or its row is outside the buffer: then the list
    model stops with `none` anyway) -/
def rowIdx (m : CMol) (i : Nat) : List Nat :=
  match m.atoms[i]? with
  | some a => match slice? m.bonds a.from_ a.to_ with
    | some nb => nb.map (·.index)
    | none => []
  | none => []

/-- atoms whose `matched[]` / `closures[]` slot one scan of `row` may touch: the row itself and the rows of its members -/
def touched (m : CMol) (row : List CBond) : List Nat :=
  row.map (·.index) ++ row.flatMap fun ib => rowIdx m ib.index

/-- one expansion (`expandCS`) behind the guards of the arrays it indexes -/
def expandCA (al : Alloc) (m : CMol) (q : CQuery) (scope : List Bool) (depth n : Nat) (path : List Nat) (matched : List Bool)
    (arr : List Nat) : Except Fault (List Nat × List Nat) :=
  match q.atoms[depth + 1]? with
  | none => .error .range
  | some qa =>
    match (if qa.back != depth then path[qa.back]? else some n) with
    | none => .error .range
    | some n' =>
      match m.atoms[n']? with
      | none => .error .range
      | some nAtom =>
        match slice? m.bonds nAtom.from_ nAtom.to_ with
        | none => .error .range
        | some row =>
          match oobIn al.matched .matched (touched m row) with
          | some f => .error f
          | none =>
            match (if qa.closure != 0 then oobIn al.closures .closures (touched m row ++ path) else none) with
            | some f => .error f
            | none =>
              match candidatesCS m q scope qa n' matched path row arr with
              | none => .error .range
              | some r => .ok r

/-- the `while stack:` loop -/
def runLoopA (al : Alloc) (m : CMol) (q : CQuery) (scope : List Bool) (qdec : Nat) :
    Nat → List (Nat × Nat) → List Nat → List Bool → List Nat → List Iso.Dict → Stats → Except Fault (List Iso.Dict × Stats)
  | 0, _, _, _, _, _, _ => .error .fuel
  | _+1, [], _, _, _, acc, st => .ok (acc.reverse, st)
  | fuel+1, (n, depth) :: stack, path, matched, arr, acc, st =>
    if depth == qdec then
      -- `mapping[query.atoms[i].mapping] = molecule.atoms[path[i]].mapping` for `i < depth`: reads `path[0 … depth - 1]`
      if al.path < depth then .error (.oob .path (depth - 1) al.path)
      else
        match buildMapping m q path depth n with
        | none => .error .range
        | some mp => runLoopA al m q scope qdec fuel stack path matched arr (mp :: acc) st
    else
      -- `matched[path[i]] = False` for the dropped tail, `matched[n] = True`
      match oobIn al.matched .matched (path.drop depth ++ [n]) with
      | some f => .error f
      | none =>
        -- `path[path_size] = n` with `path_size = depth`
        if al.path ≤ depth then .error (.oob .path depth al.path)
        else
          let matched := if path.length != depth then unmark (path.drop depth) matched else matched
          let path := path.take depth
          if n ≥ matched.length then .error .range
          else
            let matched := matched.set n true
            let path := path ++ [n]
            match expandCA al m q scope depth n path matched arr with
            | .error f => .error f
            | .ok (cands, arr') =>
              let stack' := cands.reverse.map (·, depth + 1) ++ stack
              -- `stack_index[stack] = m; stack_depth[stack] = front; stack += 1` for every accepted candidate
              if al.stackIndex < stack'.length then .error (.oob .stackIndex (stack'.length - 1) al.stackIndex)
              else if al.stackDepth < stack'.length then .error (.oob .stackDepth (stack'.length - 1) al.stackDepth)
              else
                runLoopA al m q scope qdec fuel stack' path matched arr' acc
                  ⟨max st.maxStack stack'.length, st.pushes + cands.length⟩

/-- `get_mapping(q_buffer, m_buffer, scope)` with the arrays at the sizes `al` -/
def getMappingA (al : Alloc) (m : CMol) (q : CQuery) (scope : List Bool) : Except Fault (List Iso.Dict × Stats) :=
  match rootsC m q scope with
  | none => .error .range
  | some roots =>
    -- `memset(matched, 0, …)`, `memset(closures, 0, …)`
    if al.matched < al.setMatched then .error (.oob .matched (al.setMatched - 1) al.matched)
    else if al.closures < al.setClosures then .error (.oob .closures (al.setClosures - 1) al.closures)
    else if al.setMatched < m.atoms.length then .error (.uninit .matched)
    else if al.setClosures < m.atoms.length then .error (.uninit .closures)
    -- the first loop pushes every root
    else if al.stackIndex < roots.length then .error (.oob .stackIndex (roots.length - 1) al.stackIndex)
    else if al.stackDepth < roots.length then .error (.oob .stackDepth (roots.length - 1) al.stackDepth)
    else
      runLoopA al m q scope (q.atoms.length - 1) (fuelC m q) (roots.reverse.map (·, 0)) [] (List.replicate m.atoms.length false)
        (List.replicate m.atoms.length 0) [] ⟨roots.length, roots.length⟩

/-- the mapper handed to `_get_mapping`: a fault ends the call (the accelerated path then reports a crash) -/
def mapperA (m : CMol) (q : CQuery) (scope : List Bool) : Option (List Iso.Dict) :=
  match getMappingA (allocOf q.atoms.length m.atoms.length) m q scope with
  | .ok (r, _) => some r
  | .error _ => none

/-- the accelerated path with the arrays at their allocated sizes (what the driver runs) -/
def cythonPathA (q : LQuery) (m : LMol) (tComps : List (List Nat)) (scope : Option (List Nat)) (autoF : Bool) : Outcome :=
  cythonPathWith mapperA q m tComps scope autoF

end ChythonModel.Model.Bits
