/-!
# C15 — reaction signature: `ReactionContainer.__format__` (containers/reaction.py)

Strings are lists of code points (`Str`). The molecule-level signature `m.__format__(spec, _return_order=True)`, the
component count and the radical flags in signature order are *inputs* (`MolSig`, taken from the real code by the
harness): the molecule writer and canonical numbering belong to C01/C02.

```
for ml in (reactants, reagents, products):
    mso = [(m, *m.__format__(format_spec, _return_order=True)) for m in ml]
    if not format_spec or '!c' not in format_spec:
        mso.sort(key=lambda x: (x[1], [x[0].atom(n).is_radical for n in x[2]]))
    ss = []
    for m, s, o in mso:
        if m.connected_components_count > 1:
            contract.append([str(x + count) for x in range(m.connected_components_count)])
            count += m.connected_components_count
        else:
            count += 1
        radicals.extend(m.atom(n).is_radical for n in o)
        ss.append(s)
    sig.append('.'.join(ss))
if not format_spec or '!x' not in format_spec:
    cx = []
    if r := ','.join(str(n) for n, r in enumerate(radicals) if r): cx.append(f'^1:{r}')
    if contract: cx.append(f"f:{','.join('.'.join(x) for x in contract)}")
    if cx: return f"{'>'.join(sig)} |{','.join(cx)}|"
return '>'.join(sig)
```
-/
namespace ChythonModel.Model.C15

abbrev Str := List Nat

def chGt : Nat := 62      -- '>'
def chDot : Nat := 46     -- '.'
def chComma : Nat := 44   -- ','
def chBar : Nat := 124    -- '|'
def chColon : Nat := 58   -- ':'
def chCaret : Nat := 94   -- '^'
def chF : Nat := 102      -- 'f'
def chSpace : Nat := 32

structure MolSig where
  s : Str
  ncomp : Nat
  radicals : List Bool
  deriving Repr, DecidableEq, Inhabited

/-- Python `<=` on sequences: lexicographic, a proper prefix is smaller -/
def lexLe : List Nat → List Nat → Bool
  | [], _ => true
  | _ :: _, [] => false
  | a :: as, b :: bs => a < b || (a == b && lexLe as bs)

def b2n (b : Bool) : Nat := if b then 1 else 0

/-- order of the sort key `(signature, [is_radical …])` (Python tuple comparison) -/
def keyLe (a b : MolSig) : Bool :=
  if a.s == b.s then lexLe (a.radicals.map b2n) (b.radicals.map b2n) else lexLe a.s b.s

/-- `mso.sort(key=…)` unless `'!c'`: Python's sort is stable, so is `mergeSort` -/
def sortRole (keep : Bool) (ml : List MolSig) : List MolSig := if keep then ml else ml.mergeSort keyLe

structure FmtAcc where
  count : Nat
  contract : List (List Nat)
  radicals : List Bool
  deriving Repr, DecidableEq

def molStep (acc : FmtAcc) (m : MolSig) : FmtAcc :=
  if m.ncomp > 1 then
    ⟨acc.count + m.ncomp, acc.contract ++ [(List.range m.ncomp).map (· + acc.count)], acc.radicals ++ m.radicals⟩
  else ⟨acc.count + 1, acc.contract, acc.radicals ++ m.radicals⟩

/-- `sep.join(parts)` -/
def join (sep : Nat) : List Str → Str
  | [] => []
  | [x] => x
  | x :: y :: rest => x ++ sep :: join sep (y :: rest)

/-- `str(n)` for a non-negative int: decimal digits, most significant first (code points) -/
def digits (n : Nat) : Str :=
  if h : n < 10 then [48 + n] else digits (n / 10) ++ [48 + n % 10]
termination_by n
decreasing_by omega

/-- the structured content of the signature: per-role molecule strings, radical atom indices, fragment groups -/
structure FmtOut where
  roles : List (List Str)
  radicalIdx : List Nat
  contract : List (List Nat)
  deriving Repr, DecidableEq

def formatCore (keep : Bool) (R A P : List MolSig) : FmtOut :=
  let r := sortRole keep R
  let a := sortRole keep A
  let p := sortRole keep P
  let acc := (r ++ a ++ p).foldl molStep ⟨0, [], []⟩
  ⟨[r.map (·.s), a.map (·.s), p.map (·.s)],
   acc.radicals.zipIdx.filterMap (fun bi => if bi.1 then some bi.2 else none),
   acc.contract⟩

def render (noCx : Bool) (o : FmtOut) : Str :=
  let sig := join chGt (o.roles.map (join chDot))
  if noCx then sig else
    let cx := (if o.radicalIdx.isEmpty then [] else [chCaret :: 49 :: chColon :: join chComma (o.radicalIdx.map digits)])
      ++ (if o.contract.isEmpty then [] else
            [chF :: chColon :: join chComma (o.contract.map fun g => join chDot (g.map digits))])
    if cx.isEmpty then sig else sig ++ chSpace :: chBar :: join chComma cx ++ [chBar]

/-- `ReactionContainer.__format__`; `keep` = `'!c' in format_spec`, `noCx` = `'!x' in format_spec` -/
def formatRxn (keep noCx : Bool) (R A P : List MolSig) : Str := render noCx (formatCore keep R A P)

end ChythonModel.Model.C15
