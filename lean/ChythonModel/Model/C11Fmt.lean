/-!
# C11 — Python text primitives used by the MDL readers/writers (core Lean only)

Strings are `List Char`. A *line* is what iterating a text file yields: the characters up to and including the
terminating `'\n'` (the last line of a file may lack it).

* `slice s a b`            Python `s[a:b]` for `0 ≤ a ≤ b` (clamped, never raises)
* `strip / lstrip / rstrip`  `str.strip()` over the ASCII whitespace set (domain of the check: ASCII text)
* `lstripSet cs s`         `s.lstrip(cs)` — strips a character **set** (this is what `line.lstrip("$DATUM")` does)
* `pyInt?`                 `int(str)`: whitespace-stripped, optional sign, digits with single `_` between digits
* `fmtD w n`               `f'{n:{w}d}'`
* `fmtF4 w k`              `f'{x:{w}.4f}'` for `x = k/10000` (exactly representable decimal with 4 places)
* `pyFloat?`               `float(str)` restricted to plain decimals `[sign]digits[.digits]`; every other spelling that
                           CPython accepts (exponent, inf, nan, `_`) is reported as `unsupported`, never guessed.
-/
namespace ChythonModel.Model.C11

abbrev Str := List Char

def slice (s : List α) (a b : Nat) : List α := (s.drop a).take (b - a)

/-- ASCII subset of `Py_UNICODE_ISSPACE` -/
def isSpace (c : Char) : Bool :=
  c == ' ' || c == '\t' || c == '\n' || c == '\r' || c.toNat == 11 || c.toNat == 12 ||
  (28 ≤ c.toNat && c.toNat ≤ 31)

def lstrip (s : Str) : Str := s.dropWhile isSpace
def rstrip (s : Str) : Str := (s.reverse.dropWhile isSpace).reverse
def strip (s : Str) : Str := rstrip (lstrip s)

/-- `s.lstrip(chars)`: drop leading characters that belong to the *set* `chars`. -/
def lstripSet (chars : Str) (s : Str) : Str := s.dropWhile (fun c => chars.contains c)

/-- `s.startswith(p)` -/
def startsWith (s p : Str) : Bool := p.isPrefixOf s

/-- `s.removeprefix(p)` -/
def removePrefix (p s : Str) : Str := if p.isPrefixOf s then s.drop p.length else s

def isDigit (c : Char) : Bool := 48 ≤ c.toNat && c.toNat ≤ 57
def digitVal (c : Char) : Nat := c.toNat - 48
def digitChar (d : Nat) : Char := Char.ofNat (48 + d)

/-- digits with single underscores strictly between digits; `prev` = previous char was a digit -/
def digitsVal? : Nat → Bool → Str → Option Nat
  | acc, prev, [] => if prev then some acc else none
  | acc, prev, c :: cs =>
    if isDigit c then digitsVal? (acc * 10 + digitVal c) true cs
    else if c == '_' && prev then
      match cs with
      | d :: _ => if isDigit d then digitsVal? acc false cs else none
      | [] => none
    else none

/-- `int(s)` for a `str` argument (base 10). `none` = `ValueError`. -/
def pyInt? (s : Str) : Option Int :=
  match strip s with
  | '-' :: ds => (digitsVal? 0 false ds).map (fun n => -(n : Int))
  | '+' :: ds => (digitsVal? 0 false ds).map (fun n => (n : Int))
  | ds => (digitsVal? 0 false ds).map (fun n => (n : Int))

/-- decimal digits of a natural number, most significant first (`fuel` ≥ number of digits) -/
def natDigitsF : Nat → Nat → Str
  | 0, _ => []
  | f + 1, n => if n < 10 then [digitChar n] else natDigitsF f (n / 10) ++ [digitChar (n % 10)]

def natDigits (n : Nat) : Str := natDigitsF (n + 1) n

def intDigits (n : Int) : Str := if n < 0 then '-' :: natDigits n.natAbs else natDigits n.natAbs

def padLeft (w : Nat) (s : Str) : Str := List.replicate (w - s.length) ' ' ++ s
def padRight (w : Nat) (s : Str) : Str := s ++ List.replicate (w - s.length) ' '

/-- `f'{n:{w}d}'` -/
def fmtD (w : Nat) (n : Int) : Str := padLeft w (intDigits n)

/-- exactly `w` digits, zero padded on the left (`n < 10^w`) -/
def zeroPad (w : Nat) (n : Nat) : Str := let d := natDigits n; List.replicate (w - d.length) '0' ++ d

/-- `f'{x:.4f}'` for `x = k / 10000` -/
def f4 (k : Int) : Str :=
  (if k < 0 then ['-'] else []) ++ natDigits (k.natAbs / 10000) ++ ['.'] ++ zeroPad 4 (k.natAbs % 10000)

/-- `f'{x:{w}.4f}'` for `x = k / 10000` -/
def fmtF4 (w : Nat) (k : Int) : Str := padLeft w (f4 k)

/-- a decimal number `mant · 10^(−scale)`, normalised: no trailing zero in the fraction -/
structure Dec where
  mant : Int
  scale : Nat
  deriving DecidableEq, Repr, Inhabited

def Dec.normF : Nat → Int → Nat → Dec
  | 0, m, s => ⟨m, s⟩
  | f + 1, m, s => if s = 0 then ⟨m, 0⟩ else if m % 10 = 0 then Dec.normF f (m / 10) (s - 1) else ⟨m, s⟩

def Dec.norm (m : Int) (s : Nat) : Dec := Dec.normF (s + 1) m s

/-- the decimal `k / 10000` -/
def Dec.ofTenThousandths (k : Int) : Dec := Dec.norm k 4

inductive FloatRes where
  | ok (d : Dec)
  | valueError
  | unsupported          -- a spelling CPython's float() may accept that is outside this model
  deriving DecidableEq, Repr

def allDigits (s : Str) : Bool := s.all isDigit
def digitsNat (s : Str) : Nat := s.foldl (fun a c => a * 10 + digitVal c) 0

/-- the unsigned part of a float literal -/
def floatBody (neg : Bool) (body : Str) : FloatRes :=
  if body.any (fun c => c == 'e' || c == 'E' || c == '_' || c == 'n' || c == 'N' || c == 'i' || c == 'I') then .unsupported
  else
    let ip := body.takeWhile (· != '.')
    let fp := (body.dropWhile (· != '.')).drop 1
    if !(allDigits ip && allDigits fp) then .valueError
    else if ip.isEmpty && fp.isEmpty then .valueError
    else
      let m : Int := (digitsNat (ip ++ fp) : Nat)
      .ok (Dec.norm (if neg then -m else m) fp.length)

/-- `float(s)` on plain decimals. -/
def pyFloat? (s : Str) : FloatRes :=
  match strip s with
  | '-' :: r => floatBody true r
  | '+' :: r => floatBody false r
  | r => floatBody false r

/-- split a text into lines, each keeping its `'\n'` (Python text-file iteration / `StringIO` iteration) -/
def splitLinesKeep : Str → List Str
  | [] => []
  | c :: cs =>
    if c == '\n' then ['\n'] :: splitLinesKeep cs
    else match splitLinesKeep cs with
      | [] => [[c]]
      | l :: ls => (c :: l) :: ls

end ChythonModel.Model.C11
