import ChythonModel.Model.C03Tokenize
/-!
# C03 — model of `chython/files/daylight/parser.py:parser`

Verbatim transcription: branch stack, `cycles` table with the reserved neighbour slot, `previous` bond, implicit
aromatic/single choice, stereo bookkeeping.  Python lists are lists (append at the end), `dict`/`defaultdict`
are insertion-ordered association lists.  List indexing / `dict[key]` that Python would answer with
`IndexError`/`KeyError` are `Err.crash`.
-/
namespace ChythonModel.Model.C03

/-- `previous = (token_type, token)` for token types 1, 4, 9 -/
inductive PB
  | bond (o : Nat)
  | dot
  | dir (b : Bool)
  deriving Repr, DecidableEq, Inhabited

abbrev Order := List (Nat × List (Option Nat))

def orderGet (o : Order) (k : Nat) : List (Option Nat) := (lookupNat k o).getD []

/-- `order[k].append(v)` on a `defaultdict(list)` -/
def orderAppend : Order → Nat → Option Nat → Order
  | [], k, v => [(k, [v])]
  | (a, l) :: tl, k, v => if a == k then (a, l ++ [v]) :: tl else (a, l) :: orderAppend tl k v

/-- `order[k][i] = v`; `none` is Python's IndexError (also when the key had to be created) -/
def orderSet : Order → Nat → Nat → Option Nat → Option Order
  | [], _, _, _ => none
  | (a, l) :: tl, k, i, v =>
    if a == k then (if i < l.length then some ((a, l.set i v) :: tl) else none)
    else (orderSet tl k i v).map ((a, l) :: ·)

abbrev SBonds := List (Nat × List (Nat × Bool))

def innerSet : List (Nat × Bool) → Nat → Bool → List (Nat × Bool)
  | [], k, v => [(k, v)]
  | (a, b) :: tl, k, v => if a == k then (a, v) :: tl else (a, b) :: innerSet tl k v

/-- `stereo_bonds[a][b] = v` on a `defaultdict(dict)` -/
def sbSet : SBonds → Nat → Nat → Bool → SBonds
  | [], a, b, v => [(a, [(b, v)])]
  | (x, d) :: tl, a, b, v => if x == a then (x, innerSet d b v) :: tl else (x, d) :: sbSet tl a b v

structure Cyc where
  atom : Nat
  bond : Option PB
  ind : Nat
  deriving Repr, DecidableEq, Inhabited

def eraseKey {β} (k : Nat) : List (Nat × β) → List (Nat × β)
  | [] => []
  | (a, b) :: tl => if a == k then tl else (a, b) :: eraseKey k tl

structure PState where
  atoms : List AtomTok := []
  types : List Nat := []
  bonds : List (Nat × Nat × Nat) := []
  order : Order := []
  atomNum : Nat := 0
  lastNum : Nat := 0
  stack : List Nat := []          -- head = top
  cycles : List (Nat × Cyc) := []
  stereoAtoms : List (Nat × Bool) := []
  stereoBonds : SBonds := []
  starts : List Nat := []         -- set: atoms without a preceding atom
  previous : Option PB := none
  opened : Bool := false          -- `(` read and no atom of the side chain yet
  log : List String := []
  deriving Repr, Inhabited

def notEqual : Err := smilesErr "not equal cycle bonds"

/-- `4 if x == y == 8 else 1` -/
def arom4 (x y : Nat) : Nat := if x == y && y == 8 then 4 else 1

/-- closing a ring: returns the bond order and the updated (stereo_bonds, previous, log) -/
def closeBond (st : PState) (strong : Bool) (c : Cyc) : Except Err (Nat × SBonds × Option PB × List String) :=
  let a := c.atom
  let l := st.lastNum
  -- `4 if atoms_types[last_num] == atoms_types[a] == 8 else 1`
  let implicit (k : Nat → Except Err (Nat × SBonds × Option PB × List String)) :=
    match st.types[l]?, st.types[a]? with
    | some x, some y => k (arom4 x y)
    | _, _ => .error (.crash "IndexError")
  match c.bond, st.previous with
  | some ob, none =>
    match ob with
    | .dir b => implicit fun o => .ok (o, sbSet (sbSet st.stereoBonds a l b) l a (!b), none, st.log)
    | .bond o => if strong then .error notEqual
                 else .ok (o, st.stereoBonds, none, st.log ++ ["ignored difference in cycle bonds"])
    | .dot => .error (.crash "ModelShape")
  | some ob, some pv =>
    match pv, ob with
    | .dir b, .dir o => implicit fun x => .ok (x, sbSet (sbSet st.stereoBonds a l o) l a b, none, st.log)
    | .dir b, .bond o => if o != 1 then .error notEqual
                         else .ok (1, sbSet (sbSet st.stereoBonds a l (!b)) l a b, none, st.log)
    | .bond b, .dir o => if b != 1 then .error notEqual
                         else .ok (b, sbSet (sbSet st.stereoBonds a l o) l a (!o), none, st.log)
    | .bond b, .bond o => if b != o then .error notEqual else .ok (b, st.stereoBonds, none, st.log)
    | _, _ => .error (.crash "ModelShape")
  | none, some pv =>
    match pv with
    | .dir b => implicit fun o => .ok (o, sbSet (sbSet st.stereoBonds l a b) a l (!b), none, st.log)
    | .bond b => if strong then .error notEqual
                 else .ok (b, st.stereoBonds, none, st.log ++ ["ignored difference in cycle bonds"])
    | .dot => .error (.crash "ModelShape")
  | none, none => implicit fun o => .ok (o, st.stereoBonds, none, st.log)

/-- one iteration of `for token_type, token in tokens:` -/
def pstep (strong : Bool) (st : PState) (t : Tok) : Except Err PState :=
  match t with
  | .lpar =>
    if st.previous.isSome then .error (smilesErr "bond before side chain")
    else .ok { st with stack := st.lastNum :: st.stack, opened := true }
  | .rpar =>
    if st.previous.isSome then .error (smilesErr "bond before closure")
    else match st.stack with
      | [] => .error (smilesErr "close chain more than open")
      | x :: tl => .ok { st with lastNum := x, stack := tl }
  | .bond o =>
    if st.previous.isSome then .error (smilesErr "2 bonds in a row")
    else if st.atoms.isEmpty then .error (smilesErr "started from bond")
    else .ok { st with previous := some (.bond o) }
  | .dot =>
    if st.previous.isSome then .error (smilesErr "2 bonds in a row")
    else if st.atoms.isEmpty then .error (smilesErr "started from bond")
    else .ok { st with previous := some .dot }
  | .dir b =>
    if st.previous.isSome then .error (smilesErr "2 bonds in a row")
    else if st.atoms.isEmpty then .error (smilesErr "started from bond")
    else .ok { st with previous := some (.dir b) }
  | .cyc n =>
    if st.previous == some .dot then .error (smilesErr "dot-cycle pattern invalid")
    else if st.opened then .error (smilesErr "cycle number right after (")
    else match lookupNat n st.cycles with
      | none =>
        .ok { st with cycles := st.cycles ++ [(n, ⟨st.lastNum, st.previous, (orderGet st.order st.lastNum).length⟩)],
                      order := orderAppend st.order st.lastNum none,
                      previous := none }
      | some c =>
        match closeBond st strong c with
        | .error e => .error e
        | .ok (b, sb, pv, lg) =>
          match orderSet st.order c.atom c.ind (some st.lastNum) with
          | none => .error (.crash "IndexError")
          | some ord =>
            .ok { st with bonds := st.bonds ++ [(st.lastNum, c.atom, b)],
                          order := orderAppend ord st.lastNum (some c.atom),
                          cycles := eraseKey n st.cycles,
                          stereoBonds := sb, previous := pv, log := lg }
  | .atom ty tok =>
    let n := st.atomNum
    let l := st.lastNum
    let isStart : Bool := st.atoms.isEmpty || st.previous == some .dot
    let linked : Except Err (List (Nat × Nat × Nat) × Order × SBonds × Option PB) :=
      if st.atoms.isEmpty then .ok (st.bonds, st.order, st.stereoBonds, st.previous)
      else
        let link (b : Nat) := (st.bonds ++ [(n, l, b)], orderAppend (orderAppend st.order l (some n)) n (some l))
        match st.previous with
        | none =>
          match st.types[l]? with
          | none => .error (.crash "IndexError")
          | some tl => let (bs, ord) := link (arom4 ty tl); .ok (bs, ord, st.stereoBonds, none)
        | some (.dir b) =>
          match st.types[l]? with
          | none => .error (.crash "IndexError")
          | some tl => let (bs, ord) := link (arom4 ty tl)
                       .ok (bs, ord, sbSet (sbSet st.stereoBonds l n b) n l (!b), none)
        | some (.bond o) => let (bs, ord) := link o; .ok (bs, ord, st.stereoBonds, none)
        | some .dot => .ok (st.bonds, st.order, st.stereoBonds, none)
    match linked with
    | .error e => .error e
    | .ok (bs, ord, sb, pv) =>
      .ok { st with bonds := bs, order := ord, stereoBonds := sb, previous := pv,
                    stereoAtoms := match tok.stereo with
                      | some s => st.stereoAtoms ++ [(n, s)]
                      | none => st.stereoAtoms,
                    starts := if isStart then st.starts ++ [n] else st.starts,
                    atoms := st.atoms ++ [{ tok with stereo := none }],
                    types := st.types ++ [ty],
                    lastNum := n, atomNum := n + 1, opened := false }
  | .other _ _ => .error (.crash "ModelShape")

def prun (strong : Bool) : PState → List Tok → Except Err PState
  | st, [] => .ok st
  | st, t :: ts => match pstep strong st t with
    | .ok st' => prun strong st' ts
    | .error e => .error e

def Tok.isAtom : Tok → Bool
  | .atom _ _ => true
  | _ => false

/-- the checks before the loop (`tokens[0]`, `tokens[1]`) -/
def startCheck : List Tok → Except Err Unit
  | [] => .error (.crash "IndexError")
  | .lpar :: rest =>
    match rest with
    | [] => .error (smilesErr "not atom started")
    | t :: _ => if t.isAtom then .ok () else .error (smilesErr "not atom started")
  | t :: _ => if t.isAtom then .ok () else .error (smilesErr "not atom started")

/-- the checks after the loop -/
def endCheck (st : PState) : Except Err PState :=
  if !st.stack.isEmpty then .error (smilesErr "number of ( does not equal to number of )")
  else if !st.cycles.isEmpty then .error (smilesErr "cycle is not finished")
  else if st.previous.isSome then .error (smilesErr "bond on the end")
  else .ok st

/-- `parser(tokens, strong_cycle)` -/
def parse (strong : Bool) (toks : List Tok) : Except Err PState :=
  match startCheck toks with
  | .error e => .error e
  | .ok () => match prun strong {} toks with
    | .error e => .error e
    | .ok st => endCheck st

end ChythonModel.Model.C03
