import ChythonModel.Model.QueryEq
/-!
# C08 — SMARTS reading (executable model, core Lean only, structural recursion throughout so the kernel can evaluate it)

Mirrors:
* `tokenize._query_parse` completely (the four regexes `iso_re`, `chg_re`, `mpp_re`, `str_re` as hand-written scanners;
  `;` / `,` splitting; exact-match primitives `a A !R M`; numeric primitives `D h r x z`; Python `int()` incl. sign and `_`);
* `tokenize._tokenize` restricted to the alphabet *bracket atoms + bond symbols* `[ … ] = # : - ~ / \ . ; , ! @`
  (token types 1, 4, 5, 9, 10, 11, 12); any other character outside brackets yields `unsupported` (never sent by the harness);
* `parser.parser` for the resulting linear token sequences (no branches / closures): bond bookkeeping, `stereo_bonds`;
* `smarts.smarts`: atom numbering (`parsed_mapping`, free counter, masked counter), element class resolution
  (`QueryElement.from_atomic_number / from_symbol`, `ListElement`), constructor keyword acceptance (`TypeError`) and the
  setters' validation, CX radical *indices* (the CX text syntax is not modelled), cis/trans mark transfer, `QueryBond` creation,
  and the final wrapping of every non-`IncorrectSmarts` error into `IncorrectSmarts`.

Strings are `List Char`. Assumption (domain of the correspondence): ASCII, no whitespace inside the SMARTS part.
-/
namespace ChythonModel.Model.Query
open ChythonModel.Gen.Query

/-! ## character scanners -/

def isDigit (c : Char) : Bool := '0' ≤ c && c ≤ '9'
def digitVal (c : Char) : Nat := c.toNat - 48
def natOfDigits (cs : List Char) : Nat := cs.foldl (fun a c => 10 * a + digitVal c) 0

def spanDigits : List Char → List Char × List Char
  | [] => ([], [])
  | c :: cs => if isDigit c then let (d, r) := spanDigits cs; (c :: d, r) else ([], c :: cs)

def lookupC {β} (k : List Char) : List (List Char × β) → Option β
  | [] => none
  | (k', v) :: t => if k == k' then some v else lookupC k t

/-- `search(chg_re, token)` with `chg_re = [+-][1-4+-]?`: (before, match, after) of the leftmost match -/
def chgSearch : List Char → Option (List Char × List Char × List Char)
  | [] => none
  | c :: cs =>
    if c == '+' || c == '-' then
      match cs with
      | d :: ds => if d == '1' || d == '2' || d == '3' || d == '4' || d == '+' || d == '-'
                   then some ([], [c, d], ds) else some ([], [c], cs)
      | [] => some ([], [c], [])
    else (chgSearch cs).map fun (b, m, a) => (c :: b, m, a)

/-- `search(mpp_re, token)` with `mpp_re = :[1-9][0-9]*$`: (before, number) of the leftmost match -/
def mppTail : List Char → Bool
  | d :: ds => '1' ≤ d && d ≤ '9' && ds.all isDigit
  | [] => false

def mppSearch : List Char → Option (List Char × Nat)
  | [] => none
  | c :: cs =>
    if c == ':' && mppTail cs
    then some ([], natOfDigits cs)
    else (mppSearch cs).map fun (b, n) => (c :: b, n)

/-- `search(str_re, token)` with `str_re = @[@?]?` -/
def strSearch : List Char → Option (List Char × List Char × List Char)
  | [] => none
  | c :: cs =>
    if c == '@' then
      match cs with
      | d :: ds => if d == '@' || d == '?' then some ([], [c, d], ds) else some ([], [c], cs)
      | [] => some ([], [c], [])
    else (strSearch cs).map fun (b, m, a) => (c :: b, m, a)

/-- `str.split(sep)` for a one-character separator -/
def splitOn (sep : Char) : List Char → List (List Char)
  | [] => [[]]
  | c :: cs =>
    match splitOn sep cs with
    | [] => [[]]
    | h :: t => if c == sep then [] :: h :: t else (c :: h) :: t

def isPySpace (c : Char) : Bool :=
  c == ' ' || c == '\t' || c == '\n' || c == '\r' || c.toNat == 11 || c.toNat == 12 ||
  c.toNat == 28 || c.toNat == 29 || c.toNat == 30 || c.toNat == 31

def dropSpaces : List Char → List Char
  | [] => []
  | c :: cs => if isPySpace c then dropSpaces cs else c :: cs

/-- digits with single underscores between digits -/
def digitsU : List Char → Bool → Nat → Option Nat
  | [], prev, acc => if prev then some acc else none
  | c :: cs, prev, acc =>
    if isDigit c then digitsU cs true (10 * acc + digitVal c)
    else if c == '_' && prev then
      (match cs with
       | d :: _ => if isDigit d then digitsU cs false acc else none
       | [] => none)
    else none

/-- Python `int(str)` (base 10, ASCII): surrounding whitespace, optional sign, digits with `_` separators; `none` = `ValueError` -/
def pyInt (s : List Char) : Option Int :=
  let t := (dropSpaces (dropSpaces s).reverse).reverse
  match t with
  | '+' :: r => (digitsU r false 0).map Int.ofNat
  | '-' :: r => (digitsU r false 0).map fun n => -(Int.ofNat n)
  | r => (digitsU r false 0).map Int.ofNat

/-! ## `_query_parse` -/

inductive ElemTok
  | num (n : Int)
  | sym (s : List Char)
  deriving Repr, DecidableEq, Inhabited

inductive ElemSpec
  | one (e : ElemTok)
  | many (es : List ElemTok)
  deriving Repr, DecidableEq, Inhabited

/-- value stored under a key that `_query_parse` fills either with an int or with a list -/
inductive IntOrList
  | int (v : Int)
  | lst (l : List Int)
  deriving Repr, DecidableEq, Inhabited

/-- the `out` dict of `_query_parse` (absent key = `none`; `masked` is only ever set to `True`) -/
structure Parsed where
  isotope : Option Nat := none
  charge : Option Int := none
  mapping : Option Nat := none
  stereo : Option Bool := none
  element : ElemSpec
  hybridization : Option IntOrList := none
  ringSizes : Option IntOrList := none
  neighbors : Option (List Int) := none
  implH : Option (List Int) := none
  heteroatoms : Option (List Int) := none
  masked : Bool := false
  deriving Repr, DecidableEq, Inhabited

/-- element part: `[int(x[1:]) if x.startswith('#') else x for x in element.split(',')]` -/
def parseElemItems : List (List Char) → Except PyErr (List ElemTok)
  | [] => .ok []
  | x :: xs =>
    match x with
    | '#' :: r =>
      match pyInt r with
      | none => .error .valueError
      | some n => do let t ← parseElemItems xs; .ok (.num n :: t)
    | _ => do let t ← parseElemItems xs; .ok (.sym x :: t)

/-- `[int(x[1:]) for x in p]` with `ValueError → IncorrectSmarts`; every `x` is non-empty here -/
def parsePrimNums : List (List Char) → Except PyErr (List Int)
  | [] => .ok []
  | x :: xs =>
    match pyInt x.tail with
    | none => .error .incorrectSmarts
    | some n => do let t ← parsePrimNums xs; .ok (n :: t)

def firstChars : List (List Char) → Option (List Char)
  | [] => some []
  | x :: xs => match x with
    | [] => none
    | c :: _ => (firstChars xs).map (c :: ·)

def allSame : List Char → Bool
  | [] => true
  | c :: cs => cs.all (· == c)

/-- store a numeric primitive under its key -/
def setPrim (out : Parsed) (t : Char) (nums : List Int) : Parsed :=
  if t == 'D' then { out with neighbors := some nums }
  else if t == 'h' then { out with implH := some nums }
  else if t == 'r' then { out with ringSizes := some (.lst nums) }
  else if t == 'x' then { out with heteroatoms := some nums }
  else { out with hybridization := some (.lst nums) }

/-- the `else:` branch of the primitive loop: `p = p.split(',')` … -/
def applyNumPrim (out : Parsed) (ps : List (List Char)) : Except PyErr Parsed :=
  -- `len(p) != 1 and len({x[0] for x in p}) > 1`: the set comprehension indexes every item (IndexError on an empty one)
  match (if ps.length != 1 then firstChars ps else some []) with
  | none => .error .indexError
  | some fcs =>
    if ps.length != 1 && !allSame fcs then .error .incorrectSmarts
    else
      match ps with
      | [] => .error .indexError
      | p0 :: _ =>
        match p0 with
        | [] => .error .indexError
        | t :: _ =>
          if !primLetters.contains t then .error .incorrectSmarts
          else
            match parsePrimNums ps with
            | .error e => .error e
            | .ok nums => .ok (setPrim out t nums)

/-- one `;`-separated primitive applied to `out` -/
def applyPrim (out : Parsed) (p : List Char) : Except PyErr Parsed :=
  if p.isEmpty then .ok out
  else if p == ['a'] then .ok { out with hybridization := some (.int 4) }
  else if p == ['A'] then .ok out
  else if p == ['!', 'R'] then .ok { out with ringSizes := some (.int 0) }
  else if p == ['M'] then .ok { out with masked := true }
  else applyNumPrim out (splitOn ',' p)

def applyPrims : Parsed → List (List Char) → Except PyErr Parsed
  | out, [] => .ok out
  | out, p :: ps => do let o ← applyPrim out p; applyPrims o ps

/-- the marks `_query_parse` cuts out of the token before splitting: isotope, charge, atom map, stereo -/
structure Marks where
  isotope : Option Nat
  charge : Option Int
  mapping : Option Nat
  stereo : Option Bool
  deriving Repr, DecidableEq, Inhabited

/-- first half of `_query_parse`: the four regex steps, in source order (`KeyError` for a charge text not in `charge_dict`) -/
def stripMarks (token : List Char) : Except PyErr (List Char × Marks) :=
  let t1 := (spanDigits token).2
  let isoDigits := (spanDigits token).1
  let isotope : Option Nat := if isoDigits.isEmpty then none else some (natOfDigits isoDigits)
  match chgSearch t1 with
  | none =>
    let t3 := match mppSearch t1 with | none => t1 | some (b, _) => b
    let mapping := (mppSearch t1).map (·.2)
    let t4 := match strSearch t3 with | none => t3 | some (b, _, a) => b ++ a
    let stereo := (strSearch t3).map fun x => x.2.1 == ['@']
    .ok (t4, { isotope, charge := none, mapping, stereo })
  | some (b, m, a) =>
    match lookupC m chargeDict with
    | none => .error .keyError
    | some c =>
      let t2 := b ++ a
      let t3 := match mppSearch t2 with | none => t2 | some (b, _) => b
      let mapping := (mppSearch t2).map (·.2)
      let t4 := match strSearch t3 with | none => t3 | some (b, _, a) => b ++ a
      let stereo := (strSearch t3).map fun x => x.2.1 == ['@']
      .ok (t4, { isotope, charge := some c, mapping, stereo })

def mkElem : List ElemTok → ElemSpec
  | [x] => .one x
  | l => .many l

/-- second half: `;` / `,` splitting, element part, primitives -/
def parseBody (t4 : List Char) (mk : Marks) : Except PyErr Parsed :=
  match splitOn ';' t4 with
  | [] => .error .incorrectSmarts
  | e :: prims =>
    if e.isEmpty then .error .incorrectSmarts
    else
      match parseElemItems (splitOn ',' e) with
      | .error err => .error err
      | .ok items =>
        applyPrims { isotope := mk.isotope, charge := mk.charge, mapping := mk.mapping, stereo := mk.stereo,
                     element := mkElem items } prims

/-- `_query_parse(token)` -/
def queryParse (token : List Char) : Except PyErr Parsed :=
  match stripMarks token with
  | .error e => .error e
  | .ok (t4, mk) => parseBody t4 mk

/-! ## `smarts()`: building one query atom from the parsed keywords -/

def zOfQuerySym (s : List Char) : Option Nat := lookupC s querySyms
def zOfElemSym (s : List Char) : Option Nat := (elemFlags.find? fun r => r.1 == s).map (·.2.1)

/-- `ListElement.__init__` element loop: `ValueError` on an unknown symbol / number -/
def listElements : List ElemTok → Except PyErr (List Nat)
  | [] => .ok []
  | .num n :: t =>
    if n ≥ 0 && elemFlags.any (fun r => r.2.1 == n.toNat) then do let r ← listElements t; .ok (n.toNat :: r)
    else .error .valueError
  | .sym s :: t =>
    match zOfElemSym s with
    | some z => do let r ← listElements t; .ok (z :: r)
    | none => .error .valueError

def intOrListHyb : IntOrList → Except PyErr (List Nat)
  | .int v => validateInt hybLo hybHi v
  | .lst l => validateList hybLo hybHi l

def intOrListRing : IntOrList → Except PyErr (List Nat)
  | .int v => validateRingInt v
  | .lst l => validateRingList l

def optValidate (lo hi : Nat) : Option (List Int) → Except PyErr (List Nat)
  | none => .ok []
  | some l => validateList lo hi l

/-- the keywords `Query.__init__` accepts -/
def baseFields (p : Parsed) : Except PyErr (List Nat × List Nat) := do
  let nb ← optValidate countLo countHi p.neighbors
  let hy ← match p.hybridization with | none => .ok [] | some v => intOrListHyb v
  .ok (nb, hy)

/-- which class `smarts()` instantiates (`ValueError` when the symbol / number is unknown) -/
def resolveKind (p : Parsed) : Except PyErr QKind :=
  match p.element with
  | .one (.num n) =>
    if n ≥ 0 then
      match querySyms.find? (fun r => r.2 == n.toNat) with
      | some r => .ok (.element r.2 none)
      | none => .error .valueError
    else .error .valueError
  | .one (.sym s) =>
    if s == ['A'] then .ok .any
    else if s == ['M'] then .ok .metal
    else match zOfQuerySym s with
      | some z => .ok (.element z none)
      | none => .error .valueError
  | .many es =>
    match listElements es with
    | .ok zs => .ok (.list (sortDedup zs))
    | .error e => .error e

def ringField (p : Parsed) : Except PyErr (List Nat) :=
  match p.ringSizes with
  | none => .ok []
  | some v => intOrListRing v

/-- `ExtendedQuery.__init__` and below: the setters (all failures are `ValueError`, so their order is immaterial) -/
def buildExt (p : Parsed) (radical : Bool) (k : QKind) : Except PyErr QAtom :=
  match baseFields p with
  | .error e => .error e
  | .ok (nb, hy) =>
    match validateCharge (p.charge.getD 0) with
    | .error e => .error e
    | .ok ch =>
      match optValidate countLo countHi p.heteroatoms with
      | .error e => .error e
      | .ok he =>
        match ringField p with
        | .error e => .error e
        | .ok rs =>
          match optValidate countLo countHi p.implH with
          | .error e => .error e
          | .ok ih =>
            .ok { kind := k, charge := ch, radical := radical, neighbors := nb, hybridization := hy, ringSizes := rs,
                  implH := ih, heteroatoms := he, stereo := p.stereo, masked := p.masked }

/-- `AnyMetal(**a)`: `Query.__init__` only -/
def buildMetal (p : Parsed) : Except PyErr QAtom :=
  match baseFields p with
  | .error e => .error e
  | .ok (nb, hy) => .ok { kind := .metal, neighbors := nb, hybridization := hy, masked := p.masked }

/-- `e(**a)` for the class chosen by `smarts()`; `radical` is the CX mark (`is_radical=True` keyword present).
    Keyword acceptance (`TypeError`) is decided before any setter runs. -/
def buildAtom (p : Parsed) (radical : Bool) : Except PyErr QAtom :=
  match resolveKind p with
  | .error e => .error e
  | .ok .metal =>
    if p.charge.isSome || p.stereo.isSome || p.ringSizes.isSome || p.implH.isSome || p.heteroatoms.isSome || radical
        || p.isotope.isSome then .error .typeError
    else buildMetal p
  | .ok (.element z _) => buildExt p radical (.element z p.isotope)
  | .ok k => if p.isotope.isSome then .error .typeError else buildExt p radical k

/-! ## `_tokenize` on bracket atoms + bond symbols -/

inductive Tok
  | atom (raw : List Char)      -- type 5
  | bond (o : Nat)              -- type 1
  | dot                         -- type 4
  | updown (up : Bool)          -- type 9
  | orlist (l : List Nat)       -- type 10
  | ring (q : QBond)            -- type 12, finalised
  | ringFlag                    -- type 12 left dangling with `token = True` at the end of the string
  deriving Repr, DecidableEq, Inhabited

/-- `token_type` values that occur on this alphabet -/
inductive TT
  | none | t0 | t1 | t4 | t5 | t9 | t10 | t11 | t12
  deriving Repr, DecidableEq, Inhabited

inductive TokErr
  | py (e : PyErr)
  | unsupported          -- a character outside the modelled alphabet (outside brackets)
  deriving Repr, DecidableEq, Inhabited

structure TState where
  tt : TT := .none
  chars : List Char := []      -- `token` while `token_type == 5` (reversed)
  orl : List Nat := []         -- `token` while `token_type == 10`
  flag : Bool := false         -- `token` while `token_type == 12`
  toks : List Tok := []        -- reversed
  deriving Repr, Inhabited

def bondChars : List Char := tokClasses.headD []
def updownChars : List Char := (tokClasses.drop 1).headD []

def lookupCh {β} (c : Char) : List (Char × β) → Option β
  | [] => none
  | (k, v) :: t => if c == k then some v else lookupCh c t

def tokStep (st : TState) (s : Char) : Except TokErr TState :=
  if st.tt == .t12 then
    if s == '!' then (if st.flag then .error (.py .incorrectSmarts) else .ok { st with flag := true })
    else if s == '@' then
      match st.toks with
      | .bond o :: rest =>
        (match mkQBondInt o (some (!st.flag)) with
         | .ok q => .ok { st with toks := .ring q :: rest, tt := .none, flag := false }
         | .error e => .error (.py e))
      | .orlist l :: rest =>
        (match mkQBondList l (some (!st.flag)) with
         | .ok q => .ok { st with toks := .ring q :: rest, tt := .none, flag := false }
         | .error e => .error (.py e))
      | _ => .error (.py .incorrectSmarts)
    else .error (.py .incorrectSmarts)
  else if s == '[' then
    if st.tt == .t5 then .error (.py .incorrectSmiles)
    else if st.tt == .t10 || st.tt == .t11 then .error (.py .incorrectSmarts)
    else .ok { st with tt := .t5, chars := [] }
  else if s == ']' then
    if st.tt != .t5 then .error (.py .incorrectSmiles)
    else if st.chars.isEmpty then .error (.py .incorrectSmiles)
    else .ok { st with toks := .atom st.chars.reverse :: st.toks, chars := [], tt := .t0 }
  else if st.tt == .t5 then .ok { st with chars := s :: st.chars }
  else if bondChars.contains s then
    if st.tt == .t10 then
      match lookupCh s replaceDict with
      | some o => .ok { st with toks := .orlist (st.orl ++ [o]) :: st.toks, orl := [], tt := .none }
      | none => .error (.py .keyError)
    else if st.tt == .t11 then
      match lookupCh s notDict with
      | some l => .ok { st with toks := .orlist l :: st.toks, tt := .none }
      | none => .error (.py .incorrectSmarts)
    else
      match lookupCh s replaceDict with
      | some o => .ok { st with toks := .bond o :: st.toks, tt := .t1 }
      | none => .error (.py .keyError)
  else if st.tt == .t10 || st.tt == .t11 then .error (.py .incorrectSmarts)
  else if updownChars.contains s then .ok { st with toks := .updown (s == '/') :: st.toks, tt := .t9 }
  else if s == '.' then .ok { st with toks := .dot :: st.toks, tt := .t4 }
  else if s == ';' then
    if st.tt != .none && st.tt != .t1 then .error (.py .incorrectSmarts) else .ok { st with tt := .t12, flag := false }
  else if s == ',' then
    if st.tt != .t1 then .error (.py .incorrectSmarts)
    else match st.toks with
      | .bond o :: rest => .ok { st with toks := rest, orl := [o], tt := .t10 }
      | _ => .error .unsupported     -- unreachable: token_type 1 is only set together with a type-1 token
  else if s == '!' then
    if st.tt != .t0 then .error (.py .incorrectSmarts) else .ok { st with tt := .t11 }
  else if s == '@' then .error (.py .incorrectSmiles)     -- no branch takes `@` outside brackets: final `else: raise`
  else .error .unsupported

def tokLoop : TState → List Char → Except TokErr TState
  | st, [] => .ok st
  | st, c :: cs => do let st' ← tokStep st c; tokLoop st' cs

/-- `_tokenize(smiles)` on the modelled alphabet -/
def tokenizeQ (s : List Char) : Except TokErr (List Tok) := do
  let st ← tokLoop {} s
  if st.tt == .t5 then .error (.py .incorrectSmiles)
  else if st.tt == .t11 || (st.tt == .t12 && !st.flag) then .error (.py .incorrectSmarts)
  else if st.tt == .t10 then .ok (.orlist st.orl :: st.toks).reverse    -- `elif token:` (the one-element list)
  else if st.tt == .t12 then .ok (.ringFlag :: st.toks).reverse          -- `token = True`
  else .ok st.toks.reverse

/-! ## `parser` on linear token sequences and `smarts()` -/

inductive PBond
  | order (o : Nat)
  | orders (l : List Nat)
  | query (q : QBond)
  deriving Repr, DecidableEq, Inhabited

/-- the `previous` variable -/
inductive Prev
  | none | bond (b : PBond) | dot | updown (up : Bool) | flag
  deriving Repr, DecidableEq, Inhabited

abbrev StereoBonds := List (Nat × List (Nat × Bool))   -- defaultdict(dict), insertion ordered

def sbSet (sb : StereoBonds) (n m : Nat) (v : Bool) : StereoBonds :=
  let rec upd : List (Nat × Bool) → List (Nat × Bool)
    | [] => [(m, v)]
    | (k, x) :: t => if k == m then (k, v) :: t else (k, x) :: upd t
  let rec go : StereoBonds → StereoBonds
    | [] => [(n, [(m, v)])]
    | (k, d) :: t => if k == n then (k, upd d) :: t else (k, d) :: go t
  go sb

structure PState where
  atoms : List Parsed := []                -- reversed
  bonds : List (Nat × Nat × PBond) := []   -- reversed; (atom_num, last_num, b)
  sb : StereoBonds := []
  prev : Prev := .none
  deriving Repr, Inhabited

/-- `smarts_tokenize`: every type-5 token goes through `_query_parse` *before* the parser sees anything -/
inductive PTok
  | atom (p : Parsed)
  | other (t : Tok)
  deriving Repr, DecidableEq, Inhabited

def smartsTokens : List Tok → Except PyErr (List PTok)
  | [] => .ok []
  | .atom raw :: ts => do let p ← queryParse raw; let r ← smartsTokens ts; .ok (.atom p :: r)
  | t :: ts => do let r ← smartsTokens ts; .ok (.other t :: r)

def parseStep (ps : PState) : PTok → Except PyErr PState
  | .atom p =>
    let n := ps.atoms.length
    if n == 0 then .ok { ps with atoms := [p] }
    else
      let last := n - 1
      match ps.prev with
      | .none => .ok { ps with atoms := p :: ps.atoms, bonds := (n, last, .order 1) :: ps.bonds }
      | .updown b => .ok { ps with atoms := p :: ps.atoms, bonds := (n, last, .order 1) :: ps.bonds,
                                   sb := sbSet (sbSet ps.sb last n b) n last (!b), prev := .none }
      | .bond b => .ok { ps with atoms := p :: ps.atoms, bonds := (n, last, b) :: ps.bonds, prev := .none }
      | .flag => .error .typeError   -- unreachable: a dangling `;!` token only exists at the very end of the string
      | .dot => .ok { ps with atoms := p :: ps.atoms, prev := .none }
  | .other t =>
    if ps.prev != .none then .error .incorrectSmiles        -- 2 bonds in a row
    else if ps.atoms.isEmpty then .error .incorrectSmiles   -- started from bond
    else match t with
      | .bond o => .ok { ps with prev := .bond (.order o) }
      | .orlist l => .ok { ps with prev := .bond (.orders l) }
      | .ring q => .ok { ps with prev := .bond (.query q) }
      | .updown b => .ok { ps with prev := .updown b }
      | .dot => .ok { ps with prev := .dot }
      | .ringFlag => .ok { ps with prev := .flag }
      | .atom _ => .ok ps                                   -- unreachable: atoms arrive as `PTok.atom`

def parseLoop : PState → List PTok → Except PyErr PState
  | ps, [] => .ok ps
  | ps, t :: ts => do let ps' ← parseStep ps t; parseLoop ps' ts

/-- a query graph as `smarts()` returns it -/
structure QGraph where
  atoms : List (Nat × QAtom)           -- (number, atom); masked atoms carry `10^9 + k` for the k-th masked atom of this call
  bonds : List (Nat × Nat × QBond)
  deriving Repr, DecidableEq, Inhabited

def maskedBase : Nat := 1000000000

/-- atom numbering: `a.pop('parsed_mapping', 0) or next(global_free_masked if masked else free)` -/
def numberAtoms : List Parsed → Nat → Nat → List Nat
  | [], _, _ => []
  | p :: ps, free, fm =>
    match p.mapping with
    | some k => if k != 0 then k :: numberAtoms ps free fm
                else if p.masked then (maskedBase + fm) :: numberAtoms ps free (fm + 1) else free :: numberAtoms ps (free + 1) fm
    | none => if p.masked then (maskedBase + fm) :: numberAtoms ps free (fm + 1) else free :: numberAtoms ps (free + 1) fm

def buildAtoms : List Parsed → List Nat → (idx : Nat) → (radicals : List Nat) → List Nat → Except PyErr (List (Nat × QAtom))
  | [], _, _, _, _ => .ok []
  | _ :: _, [], _, _, _ => .ok []
  | p :: ps, n :: ns, i, rad, seen => do
    let a ← buildAtom p (rad.contains i)
    if seen.contains n then .error .valueError     -- MappingError('atom with same number exists') is a ValueError
    else do
      let rest ← buildAtoms ps ns (i + 1) rad (n :: seen)
      .ok ((n, a) :: rest)

def popLast {α} : List α → Option (α × List α)
  | [] => none
  | [x] => some (x, [])
  | x :: xs => (popLast xs).map fun (l, r) => (l, x :: r)

def sbGet (sb : StereoBonds) (n : Nat) : Option (List (Nat × Bool)) := sb.lookup n
def sbPut (sb : StereoBonds) (n : Nat) (d : List (Nat × Bool)) : StereoBonds :=
  sb.map fun (k, x) => if k == n then (k, d) else (k, x)

def toQBond (b : PBond) (stereo : Option Bool) : Except PyErr QBond :=
  match b with
  | .order o => mkQBondInt o none stereo
  | .orders l => mkQBondList l none stereo
  | .query q => .ok { q with stereo := stereo }

/-- `Graph.add_bond` checks: `MappingError` (a `ValueError`) for a loop or an already bonded pair -/
def addBondOk (seen : List (Nat × Nat)) (n m : Nat) : Bool :=
  n != m && !(seen.any fun p => (p.1 == n && p.2 == m) || (p.1 == m && p.2 == n))

/-- the bond loop of `smarts()` incl. the cis/trans transfer (`popitem` on an empty dict ⇒ `KeyError`) and `g.add_bond` -/
def buildBondsAux : List (Nat × Nat × PBond) → StereoBonds → (Nat → Nat) → List (Nat × Nat) →
    Except PyErr (List (Nat × Nat × QBond))
  | [], _, _, _ => .ok []
  | (n, m, b) :: rest, sb, num, seen =>
    match sbGet sb n, sbGet sb m with
    | some dn, some dm =>
      if !(dn.any (·.1 == m)) then
        match popLast dn with
        | none => .error .keyError
        | some ((_, s1), dn') =>
          let sb1 := sbPut sb n dn'
          -- n ≠ m always; dm is read after the first pop
          match popLast ((sbGet sb1 m).getD dm) with
          | none => .error .keyError
          | some ((_, s2), dm') =>
            let sb2 := sbPut sb1 m dm'
            do
              let q ← toQBond b (some (s1 == s2))
              if !addBondOk seen n m then .error .valueError
              let r ← buildBondsAux rest sb2 num ((n, m) :: seen)
              .ok ((num n, num m, q) :: r)
      else do
        let q ← toQBond b none
        if !addBondOk seen n m then .error .valueError
        let r ← buildBondsAux rest sb num ((n, m) :: seen)
        .ok ((num n, num m, q) :: r)
    | _, _ => do
      let q ← toQBond b none
      if !addBondOk seen n m then .error .valueError
      let r ← buildBondsAux rest sb num ((n, m) :: seen)
      .ok ((num n, num m, q) :: r)

def buildBonds (bonds : List (Nat × Nat × PBond)) (sb : StereoBonds) (num : Nat → Nat) :
    Except PyErr (List (Nat × Nat × QBond)) := buildBondsAux bonds sb num []

inductive Outcome
  | ok (g : QGraph)
  | err (e : PyErr)
  | unsupported
  deriving Repr, DecidableEq, Inhabited

/-- everything `smarts(smr + cx)` does between `data.split()` and `return g`, before the final error wrapping;
    `radicals` = atom indices named by the CX `^n:` blocks -/
def smartsInner (smr : List Char) (radicals : List Nat) : Outcome :=
  match tokenizeQ smr with
  | .error (.py e) => .err e
  | .error .unsupported => .unsupported
  | .ok toks =>
    match smartsTokens toks with
    | .error e => .err e
    | .ok ptoks =>
      match ptoks with
      | [] => .err .indexError
      | .atom _ :: _ =>
        (match parseLoop {} ptoks with
         | .error e => .err e
         | .ok ps =>
           if ps.prev != .none then .err .incorrectSmiles     -- bond on the end
           else
             let atoms := ps.atoms.reverse
             if radicals.any (· ≥ atoms.length) then .err .indexError
             else
               let maxMap := atoms.foldl (fun a p => max a (p.mapping.getD 0)) 0
               let nums := numberAtoms atoms (maxMap + 1) 1
               match buildAtoms atoms nums 0 radicals [] with
               | .error e => .err e
               | .ok qa =>
                 match buildBonds ps.bonds.reverse ps.sb (fun i => nums.getD i 0) with
                 | .error e => .err e
                 | .ok qb => .ok ⟨qa, qb⟩)
      | _ => .err .incorrectSmiles                           -- not atom started

/-- `smarts()`: every error raised while reading the string is reported as `IncorrectSmarts` -/
def smartsModel (smr : List Char) (radicals : List Nat) : Outcome :=
  match smartsInner smr radicals with
  | .err _ => .err .incorrectSmarts
  | o => o

end ChythonModel.Model.Query
