/-!
# C16 — the exhaustive (`one_shot=False`) branch of `Reactor.__call__` as a worklist over an abstract single-step system
(core Lean only)

```python
queue = deque((chosen, ignored, 0) for chosen in permutations(s_nums, len_patterns))
while queue:
    chosen, ignored, depth = queue.popleft()
    depth += 1
    for new in self._single_stage(chosen, {x for x in ignored for x in x}):
        r = ReactionContainer(...)                      # + contract_ions() when len(new) > 1
        if len(new) > 1:
            if str(r) in seen: continue
            seen.add(str(r))
            if len(r.products) != len(ignored) + len(self._products_atoms):
                yield r; continue                       # "ambiguous multicomponent structures": reported, never re-queued
        elif str(r) in seen: continue
        else: seen.add(str(r))
        if depth < self._polymerise_limit:
            ... queue.append((…, …, depth)) …           # the items `succ`
        yield r
```

What the loop needs to know of chemistry is four functions (`Sys`): the reactions one queue item produces, in generator
order (`step`), the de-duplication key `str(r)` (`key`), the "ambiguous" flag (`stop`) and the queue items appended for a
reaction (`succ`). Everything else — FIFO queue, `seen`, depth counter, `polymerise_limit` — is modelled literally (`loop`).
`bfs` is the same computation organised level by level (structural recursion, no fuel); `Proofs/C16Worklist.lean` proves
`loop` = `bfs` for every sufficient fuel and the set-level theorems.
-/
namespace ChythonModel.Model.C16W

/-- what `Reactor.__call__` sees of one queue item `σ` and one reaction `ρ`; `κ` = `str(r)` -/
structure Sys (σ ρ κ : Type) where
  /-- reactions built from `_single_stage(chosen, ignored)` (after `ReactionContainer(..)`/`contract_ions()`), generator order -/
  step : σ → List ρ
  /-- `str(r)` -/
  key : ρ → κ
  /-- `len(new) > 1 and len(r.products) != len(ignored) + len(self._products_atoms)` -/
  stop : ρ → Bool
  /-- the items appended to the queue for `r` (in `queue.append` order) -/
  succ : σ → ρ → List σ

/-- result of scanning reactions: reactions yielded, the `seen` set (newest first), items to append (oldest first) -/
structure Res (σ ρ κ : Type) where
  out : List ρ
  seen : List κ
  acc : List σ

variable {σ ρ κ : Type} [DecidableEq κ]

/-- body of `for new in self._single_stage(...)` over a list of (queue item, reaction) pairs;
`requeue` = `depth < self._polymerise_limit` -/
def scan (S : Sys σ ρ κ) (requeue : Bool) : List (σ × ρ) → List κ → List σ → Res σ ρ κ
  | [], seen, acc => ⟨[], seen, acc⟩
  | (it, r) :: ps, seen, acc =>
    if seen.contains (S.key r) then scan S requeue ps seen acc
    else
      let acc' := if !S.stop r && requeue then acc ++ S.succ it r else acc
      let res := scan S requeue ps (S.key r :: seen) acc'
      ⟨r :: res.out, res.seen, res.acc⟩

/-- all (item, reaction) pairs of a list of queue items, in processing order -/
def pairs (S : Sys σ ρ κ) : List σ → List (σ × ρ)
  | [] => []
  | it :: its => (S.step it).map (fun r => (it, r)) ++ pairs S its

/-- the literal loop. `none` = out of fuel. Queue entries are `(item, depth)`. -/
def loop (S : Sys σ ρ κ) (limit : Nat) : Nat → List (σ × Nat) → List κ → Option (List ρ)
  | _, [], _ => some []
  | 0, _ :: _, _ => none
  | fuel + 1, (it, depth) :: q, seen =>
    let d := depth + 1
    let res := scan S (decide (d < limit)) ((S.step it).map fun r => (it, r)) seen []
    (loop S limit fuel (q ++ res.acc.map fun s => (s, d)) res.seen).map (res.out ++ ·)

/-- `Reactor.__call__` (exhaustive mode) on the initial queue items `init`: the reactions yielded, in order -/
def worklist (S : Sys σ ρ κ) (limit fuel : Nat) (init : List σ) : Option (List ρ) :=
  loop S limit fuel (init.map fun s => (s, 0)) []

/-- the same computation level by level: `n` levels starting with the items of depth `d` -/
def bfs (S : Sys σ ρ κ) (limit : Nat) : Nat → Nat → List σ → List κ → List ρ
  | 0, _, _, _ => []
  | n + 1, d, items, seen =>
    let res := scan S (decide (d + 1 < limit)) (pairs S items) seen []
    res.out ++ bfs S limit n (d + 1) res.acc res.seen

/-- number of queue items `bfs` processes (= iterations of `while queue:`) -/
def work (S : Sys σ ρ κ) (limit : Nat) : Nat → Nat → List σ → List κ → Nat
  | 0, _, _, _ => 0
  | n + 1, d, items, seen =>
    let res := scan S (decide (d + 1 < limit)) (pairs S items) seen []
    items.length + work S limit n (d + 1) res.acc res.seen

/-- fuel-free entry point: `max limit 1` levels are all there can be -/
def worklistBfs (S : Sys σ ρ κ) (limit : Nat) (init : List σ) : List ρ :=
  bfs S limit (max limit 1) 0 init []

/-- the one-shot branch of `Reactor.__call__`: every initial choice of reactants once, no re-queueing, `seen` strings only
```python
for chosen in permutations(s_nums, len_patterns):
    for new in self._single_stage(chosen, ignored_atoms):
        r = ReactionContainer(...)            # + contract_ions() when len(new) > 1
        if str(r) in seen: continue
        seen.add(str(r)); yield r
``` -/
def oneShot (S : Sys σ ρ κ) (init : List σ) : List ρ := (scan S false (pairs S init) [] []).out

/-! ## a finite system given by tables (what the driver runs): items, reactions and keys are numbers

`rows[i]` = the reactions of item `i`: `(reaction id, key, stop, successor items)`. -/

abbrev Table := List (Nat × List (Nat × Nat × Bool × List Nat))

/-- an item without a row is not silently "no reactions": it yields the sentinel reaction `(0, 0, true, [])`
(real reaction ids and keys start at 1), so a table that does not cover what the loop processes shows in the output -/
def tableSys (t : Table) : Sys Nat (Nat × Nat × Bool × List Nat) Nat where
  step := fun it => match t.lookup it with
    | some rows => rows
    | none => [(0, 0, true, [])]
  key := fun r => r.2.1
  stop := fun r => r.2.2.1
  succ := fun _ r => r.2.2.2

end ChythonModel.Model.C16W
