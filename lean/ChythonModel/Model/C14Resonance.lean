import ChythonModel.Model.Standardize
/-!
# C14 — `Resonance.fix_resonance` (`chython/algorithms/standardize/resonance.py`), core Lean only

Statement by statement:

* `__entries()` — `entriesOf`: the seven sets (`entries`, `exits`, `rads`, `transfer`, `nitrogen_cat`, `nitrogen_ani`, `sulfur_cat`),
  from the live charges / radicals / stored hydrogen counts / bonds and the **cached** labels (`hybridization`, `neighbors`);
* `__find_delocalize_path(start, finish, constrains, odd_only)` — `findPath`: the explicit-stack DFS with its `path` / `seen`
  truncation, the alternating `±1` bond orders, the `odd_only` / `depth` yield conditions. The generator is consumed by a loop
  whose body either accepts the path and `break`s or rolls back and `continue`s; the bonds are not written before the `break`, so
  the search is modelled as "first path the body accepts" (`accept`);
* the radical loop `while len(rads) > 1` and the charge loop `while entries and exits` incl. the `nitrogen_cat → nitrogen_ani`
  skip, the `sulfur_cat` branch and the `valence_rules` test with roll-back — `radLoop`, `acceptCharge`, `chargeLoop`;
* `for n in hs: self.calc_implicit(n)` — `recalc` (C04's model).

`set.pop()` follows CPython's slot order, which is not modelled: the order in which `rads` / `entries` are popped is an **input**
(`list(set)` of the real sets; with removals only, `pop()` returns the first remaining element of that order). The model checks
that the supplied orders are permutations of the sets it computed itself (`none` = mismatch).
-/
namespace ChythonModel.Model.Std
open ChythonModel.Model ChythonModel.Gen.Rules

structure ResSets where
  entries : List Nat := []
  exits : List Nat := []
  rads : List Nat := []
  transfer : List Nat := []
  nCat : List Nat := []
  nAni : List Nat := []
  sCat : List Nat := []
  deriving Repr, DecidableEq, Inhabited

def organicSet : List Nat := [5, 6, 7, 8, 14, 15, 16, 33, 34, 52]

/-- what the first `for n, a in self.atoms()` loop of `__entries` does for one atom -/
def classifyAtom (m : Mol) (L : Labels) (s : ResSets) (n : Nat) (a : Atom) : Option ResSets := do
  if !organicSet.contains a.z then return s
  let row ← m.adj.lookup n
  let lab ← L.atoms.lookup n
  let h := a.implH.getD 0
  if a.radical then return { s with rads := setAdd s.rads n, transfer := setAdd s.transfer n }
  if a.charge == -1 then
    let lb := row.length + h
    if lb == 4 && a.z == 5 then return s
    if lb == 6 && a.z == 15 then return s
    if a.implH.isNone then return s
    return { s with entries := setAdd s.entries n, transfer := setAdd s.transfer n }
  if a.charge == 1 then
    let lb := row.length
    if a.z == 7 then
      let lh := lb + h
      if lh == 4 then return s
      if lb == 2 && lab.hybridization == 3 then
        match row with
        | [(n1, b1), (n2, b2)] =>
          let an1 ← m.atom? n1
          let an2 ← m.atom? n2
          if b1.order == 2 && b2.order == 2 && ((an1.charge == -1 && an1.z == 7) || (an2.charge == -1 && an2.z == 7)) then return s
          return { s with exits := setAdd s.exits n, transfer := setAdd s.transfer n }
        | _ => none
      if lh == 3 && lab.hybridization == 2 then
        return { s with nAni := setAdd s.nAni n, exits := setAdd s.exits n, transfer := setAdd s.transfer n }
      return { s with exits := setAdd s.exits n, transfer := setAdd s.transfer n }
    if a.z == 15 && lb == 4 then return s
    if a.z == 16 then
      if lb == 2 && lab.hybridization == 2 then
        return { s with sCat := setAdd s.sCat n, exits := setAdd s.exits n, transfer := setAdd s.transfer n }
      if lb == 3 && lab.hybridization == 1 then return s
      return { s with exits := setAdd s.exits n, transfer := setAdd s.transfer n }
    return { s with exits := setAdd s.exits n, transfer := setAdd s.transfer n }
  return { s with transfer := setAdd s.transfer n }

/-- the second loop: neutral nitrogens as potential donors / acceptors -/
def classifyNitrogen (L : Labels) (s : ResSets) (n : Nat) (a : Atom) : Option ResSets := do
  if a.z == 7 && a.charge == 0 then
    let lab ← L.atoms.lookup n
    if lab.hybridization == 1 && lab.neighbors ≤ 3 then
      return { s with entries := setAdd s.entries n, nCat := setAdd s.nCat n }
    if lab.hybridization == 3 && lab.neighbors == 1 then
      return { s with exits := setAdd s.exits n, nAni := setAdd s.nAni n }
    return s
  return s

/-- `__entries()` -/
def entriesOf (m : Mol) (L : Labels) : Option ResSets := do
  let s ← m.atoms.foldlM (fun s p => classifyAtom m L s p.1 p.2) {}
  if s.exits.isEmpty && s.entries.isEmpty then return s
  m.atoms.foldlM (fun s p => classifyNitrogen L s p.1 p.2) s

abbrev RPath := List (Nat × Nat × Nat)      -- `(last, current, order)`

/-- the `while stack:` loop of `__find_delocalize_path`, stopped at the first yielded path that `accept`s.
    `some none` = generator exhausted; `none` = crash / out of fuel. Stack head = top. -/
def findPath (m : Mol) (finish constrains : List Nat) (oddOnly : Bool) (accept : RPath → Option Bool) :
    Nat → List (Nat × Nat × Nat × Nat) → RPath → List Nat → Option (Option RPath)
  | 0, _, _, _ => none
  | _+1, [], _, _ => some none
  | fuel+1, (last, cur, depth, order) :: stack, path, seen =>
    let seen := if path.length > depth then seen.filter fun x => !((path.drop depth).any fun t => t.2.1 == x) else seen
    let path := (if path.length > depth then path.take depth else path) ++ [(last, cur, order)]
    let isFinish := finish.contains cur
    let yields := isFinish && (if oddOnly then path.length % 2 == 1 else depth != 0)
    let go (_ : Unit) : Option (Option RPath) :=
      if isFinish && oddOnly && path.length % 2 == 0 then findPath m finish constrains oddOnly accept fuel stack path seen   -- `continue`
      else
        let depth := depth + 1
        let seen := setAdd seen cur
        match m.adj.lookup cur with
        | none => none
        | some row =>
          let ext := row.filterMap fun kb =>
            if !seen.contains kb.1 && constrains.contains kb.1 then
              if depth % 2 == 1 then (if 2 ≤ kb.2.order && kb.2.order ≤ 4 then some (cur, kb.1, depth, kb.2.order - 1) else none)
              else (if kb.2.order ≤ 2 then some (cur, kb.1, depth, kb.2.order + 1) else none)
            else none
          findPath m finish constrains oddOnly accept fuel (ext.reverse ++ stack) path seen
    if yields then
      match accept path with
      | none => none
      | some true => some (some path)
      | some false => go ()
    else go ()

/-- `stack = [(start, n, 0, b.order + 1) for n, b in bonds[start].items() if n in constrains and b.order < 3]` -/
def startStack (m : Mol) (start : Nat) (constrains : List Nat) : Option (List (Nat × Nat × Nat × Nat)) :=
  (m.adj.lookup start).map fun row =>
    (row.filterMap fun kb => if constrains.contains kb.1 && kb.2.order < 3 then some (start, kb.1, 0, kb.2.order + 1) else none).reverse

def searchFuel (m : Mol) : Nat := 5000 * (m.atoms.length + 1) * (m.atoms.length + 1) + 1000

/-- `for n, m, b in path: hs.add(m); bonds[n][m]._order = b` -/
def applyPath : RPath → Mol → List Nat → Mol × List Nat
  | [], m, hs => (m, hs)
  | (x, y, b) :: rest, m, hs => applyPath rest (setOrder m x y b) (setAdd hs y)

/-- `a = atoms[n]; <write a>` with the `KeyError` of `atoms[n]` (`none`) -/
def updAtom? (m : Mol) (n : Nat) (f : Atom → Atom) : Option Mol :=
  match m.atom? n with
  | none => none
  | some _ => some (updAtom m n f)

/-- `s.pop()` given the slot order of the set: the first element of `order` that is still in `s` -/
def popBy (order s : List Nat) : Option Nat := order.find? (s.contains ·)

structure RState2 where
  mol : Mol
  hs : List Nat := []
  deriving Repr, DecidableEq, Inhabited

/-- `while len(rads) > 1:` -/
def radLoop (order constrains : List Nat) : Nat → List Nat → RState2 → Option RState2
  | 0, _, _ => none
  | fuel+1, rads, st =>
    if rads.length ≤ 1 then some st
    else
      match popBy order rads with
      | none => none
      | some n =>
        let rads := rads.filter (· != n)
        match startStack st.mol n constrains with
        | none => none
        | some st0 =>
          match findPath st.mol rads constrains true (fun _ => some true) (searchFuel st.mol) st0 [] [n] with
          | none => none
          | some none => radLoop order constrains fuel rads st
          | some (some path) =>
            match path.getLast? with
            | none => none
            | some (_, last, _) =>
              match updAtom? st.mol n fun a => { a with radical := false } with
              | none => none
              | some m1 =>
                let (m2, hs) := applyPath path m1 (setAdd st.hs n)
                match updAtom? m2 last fun a => { a with radical := false } with
                | none => none
                | some m3 => radLoop order constrains fuel (rads.filter (· != last)) { mol := m3, hs := hs }

/-- the body of `for path in …` of the charge loop up to "succeed!": `some true` = this path is taken -/
def acceptCharge (m : Mol) (s : ResSets) (n : Nat) (path : RPath) : Option Bool :=
  match path.getLast? with
  | none => none
  | some (l, e, b) =>
    if s.nCat.contains n && s.nAni.contains e then some false
    else if s.sCat.contains e then some (b == 1)
    else
      match m.atom? e, m.adj.lookup e with
      | some a, some row =>
        let v := ((row.filter (·.1 != l)).map (·.2.order)).sum + b
        match Valence.tableOf a.z with
        | none => none
        | some t => some (Valence.valenceRules t (a.charge - 1) a.radical v).isSome
      | _, _ => none

/-- `while entries and exits:` -/
def chargeLoop (order : List Nat) (s : ResSets) : Nat → List Nat → List Nat → RState2 → Option RState2
  | 0, _, _, _ => none
  | fuel+1, entries, exits, st =>
    if entries.isEmpty || exits.isEmpty then some st
    else
      match popBy order entries with
      | none => none
      | some n =>
        let entries := entries.filter (· != n)
        match startStack st.mol n s.transfer with
        | none => none
        | some st0 =>
          match findPath st.mol exits s.transfer false (acceptCharge st.mol s n) (searchFuel st.mol) st0 [] [n] with
          | none => none
          | some none => chargeLoop order s fuel entries exits st
          | some (some path) =>
            match path.getLast? with
            | none => none
            | some (_, e, _) =>
              match updAtom? st.mol e fun a => { a with charge := a.charge - 1 } with
              | none => none
              | some m1 =>
                match updAtom? m1 n fun a => { a with charge := a.charge + 1 } with
                | none => none
                | some m2 =>
                  let (m3, hs) := applyPath path m2 (setAdd st.hs n)
                  chargeLoop order s fuel entries (exits.filter (· != e)) { mol := m3, hs := hs }

def sameSet (a b : List Nat) : Bool := a.all (b.contains ·) && b.all (a.contains ·)

/-- `fix_resonance(logging=True)` up to (not including) `flush_cache / calc_labels / fix_stereo`: the molecule and `hs`.
    `radOrder`, `entOrder` = `list(rads)`, `list(entries)` of the real sets (slot order); `none` = crash or order mismatch -/
def fixResonance (m : Mol) (L : Labels) (radOrder entOrder : List Nat) : Option (Mol × List Nat) :=
  match entriesOf m L with
  | none => none
  | some s =>
    if !(sameSet s.rads radOrder && sameSet s.entries entOrder) then none
    else
      match radLoop radOrder s.transfer (m.atoms.length + 1) s.rads { mol := m } with
      | none => none
      | some st1 =>
        match chargeLoop entOrder s (m.atoms.length + 1) s.entries s.exits st1 with
        | none => none
        | some st2 =>
          if st2.hs.isEmpty then some (st2.mol, [])
          else (recalc st2.hs st2.mol).map fun m' => (m', st2.hs)

end ChythonModel.Model.Std
