import ChythonModel.Model.Valence
/-!
# C05 — the deterministic parts of `Kekule` (chython/algorithms/aromatics/kekule.py), executable, core Lean only

Mirrors, statement by statement,

* the atom classification of `Kekule.__prepare_rings` (`classify`, `quinoneOk`): which ring atoms are
  *double bonded* (two single ring bonds: exocyclic double bond, pyrrole-like hetero atom, charged carbon …),
  which are *pyrroles* (ambiguous: zero or one ring double bond) and which are plain acceptors (exactly one);
* the whole of `__prepare_rings` given the ring list (`self.sssr` is C06's subject and arrives as an input):
  aromatic skeleton, the two repairs of mis-drawn rings (`c1ccc-cc1`, `c1ccccc1c2ccccc2`), the degree check,
  the quinone checks and the classification loop (`prepareRings`);
* the patch application loop of `Kekule.__fix_rings` over the regenerated rule table, given the mappings the
  matcher produced (matching itself is C07's subject) (`fixRings`).

Python → Lean conventions
* `defaultdict(list)` / `dict` → insertion ordered association list (`Adj`); `x in d` never inserts.
* `set` of ints → duplicate-free list; only membership is observed by the code modelled here.
* `raise InvalidAromaticRing` → `none` / `Except.error`; the message text is not modelled.
* `list.remove(x)` on a list that does not hold `x` raises `ValueError` in Python; in `__prepare_rings` that can
  only happen on an asymmetric bond dict, which the driver rejects up front (`Mol.WF`), so `List.erase` is exact
  on every input the driver evaluates.
* `atom.neighbors` is the label written by `calc_labels`: the number of non-special (order ≠ 8) bonds.
-/
namespace ChythonModel.Model.C05
open ChythonModel.Model

/-! ## atom classification -/

/-- everything the classification reads of one ring atom. `exo` = the atom is already in `double_bonded`
    when the loop reaches it (it carries a double bond that is not an aromatic-skeleton bond). -/
structure RingAtom where
  z : Nat
  charge : Int
  radical : Bool
  neighbors : Nat
  implH : Option Nat
  exo : Bool
  deriving Repr, DecidableEq, Inhabited

/-- membership of the atom in the two sets after the loop body ran for it -/
structure Cls where
  db : Bool     -- `n in double_bonded`
  pyr : Bool    -- `n in pyrroles`
  deriving Repr, DecidableEq, Inhabited

/-- `for n in double_bonded:` … the two quinone tests (`True` = no raise) -/
def quinoneOk (a : RingAtom) : Bool :=
  if a.z == 7 then a.charge == 1
  else (a.z == 6 || a.z == 15 || a.z == 16 || a.z == 33 || a.z == 34 || a.z == 52) && a.charge == 0

/-- body of `for n in rings:`; `none` = `raise InvalidAromaticRing` -/
def classify (a : RingAtom) : Option Cls :=
  let keep : Cls := ⟨a.exo, false⟩
  let db : Cls := ⟨true, false⟩
  let pyr : Cls := ⟨a.exo, true⟩
  if a.z == 6 then
    if a.charge == 0 then
      if a.neighbors == 2 || a.neighbors == 3 then some keep else none
    else if a.charge == -1 || a.charge == 1 then
      if a.radical then (if a.neighbors == 2 then some db else none)
      else if a.neighbors == 3 then some db
      else if a.neighbors == 2 then some pyr
      else none
    else none
  else if a.z == 7 || a.z == 15 || a.z == 33 then
    if a.charge == 0 then
      if a.radical then (if a.neighbors != 2 then none else some db)
      else if a.neighbors == 3 then (if a.z == 7 then some db else some pyr)
      else if a.neighbors == 2 then
        match a.implH with
        | none => some pyr
        | some 1 => some db
        | some 0 => some keep
        | some _ => none
      else if a.neighbors != 4 || !(a.z == 15 || a.z == 33) then none
      else some keep
    else if a.charge == -1 then
      if a.neighbors != 2 || a.radical then none else some db
    else if a.charge != 1 then none
    else if a.radical then (if a.neighbors != 2 then none else some keep)
    else if a.neighbors == 2 then
      match a.implH with
      | some 2 => some db
      | some 1 => some keep
      | _ => some pyr
    else if a.neighbors != 3 then none
    else some keep
  else if a.z == 8 then
    if a.neighbors == 2 then
      if a.charge == 0 then (if a.radical then none else some db)
      else if a.charge == 1 then (if a.radical then some db else some keep)
      else none
    else none
  else if a.z == 16 || a.z == 34 || a.z == 52 then
    if !a.exo then
      if a.neighbors == 2 then
        if a.radical && a.charge != 1 then none
        else if a.charge == 0 then some db
        else if a.charge != 1 then none
        else if a.radical then some db else some keep
      else if a.neighbors == 3 then
        if a.radical then (if a.charge != 0 then none else some db)
        else if a.charge == 1 then some db
        else if a.charge != 0 then none
        else some keep
      else none
    else some keep
  else if a.z == 5 then
    if a.charge == 0 then
      if a.neighbors == 2 then
        if a.radical then some db
        else match a.implH with
          | none => some pyr
          | some 1 => some db
          | some 0 => some keep
          | some _ => none
      else if !a.radical then some db
      else none
    else if a.charge == 1 then
      if a.neighbors == 2 && !a.radical then some db else none
    else if a.charge == -1 then
      if a.neighbors == 2 then (if !a.radical then some pyr else some keep)
      else if a.radical then some db
      else some pyr
    else none
  else none

/-- quinone test (only for atoms already double bonded) followed by the classification -/
def classifyAtom (a : RingAtom) : Option Cls :=
  if a.exo && !quinoneOk a then none else classify a

/-! ## `__prepare_rings` -/

/-- insertion-ordered `dict[int, list[int]]` -/
abbrev Adj := List (Nat × List Nat)

def Adj.get (g : Adj) (n : Nat) : List Nat := (g.lookup n).getD []
def Adj.hasKey (g : Adj) (n : Nat) : Bool := g.any (·.1 == n)
def Adj.keys (g : Adj) : List Nat := g.map (·.1)

/-- `g[n] = f(g[n])` for an existing key (no-op on a missing key) -/
def Adj.update (g : Adj) (n : Nat) (f : List Nat → List Nat) : Adj :=
  g.map fun p => if p.1 == n then (p.1, f p.2) else p

/-- `g[n].append(m)` -/
def Adj.push (g : Adj) (n m : Nat) : Adj := g.update n (· ++ [m])
/-- `g[n].remove(m)` -/
def Adj.drop (g : Adj) (n m : Nat) : Adj := g.update n (·.erase m)

/-- the first loop: neighbours over bonds of order `o`, keys in `_bonds` order, only atoms that have one -/
def scan (m : Mol) (o : Nat) : Adj :=
  m.adj.filterMap fun p =>
    let l := (p.2.filter (·.2.order == o)).map (·.1)
    if l.isEmpty then none else some (p.1, l)

/-- atoms carrying a triple bond -/
def tripleBonded (m : Mol) : List Nat := (scan m 3).keys

structure PrepState where
  rings : Adj
  dbl : Adj
  copy : Adj
  deriving Repr, DecidableEq, Inhabited

/-- body executed for the closing pair and for each consecutive pair of an all-aromatic-atoms ring -/
def pairStep (s : PrepState) (n m : Nat) : PrepState :=
  if !(s.rings.get m).contains n then
    let dbl := if s.dbl.hasKey n && s.dbl.hasKey m && (s.dbl.get n).contains m
               then (s.dbl.drop n m).drop m n else s.dbl
    { s with dbl := dbl, rings := (s.rings.push m n).push n m }
  else if (s.copy.get n).contains m then
    { s with copy := (s.copy.drop n m).drop m n }
  else s

/-- `zip(r, r[1:])` -/
def consecutive : List Nat → List (Nat × Nat)
  | a :: b :: tl => (a, b) :: consecutive (b :: tl)
  | _ => []

/-- `n, *_, m = r` followed by the `zip` loop: the pairs visited for one ring (`none`: fewer than 2 atoms,
    the star-unpacking raises `ValueError`) -/
def ringPairs (r : List Nat) : Option (List (Nat × Nat)) :=
  match r, r.getLast? with
  | a :: _ :: _, some z => some ((a, z) :: consecutive r)
  | _, _ => none

/-- `for r in self.sssr: if set(r).issubset(rings): …` -/
def ringLoop (s : PrepState) : List (List Nat) → Option PrepState
  | [] => some s
  | r :: rs =>
    if r.all s.rings.hasKey then
      match ringPairs r with
      | none => none
      | some ps => ringLoop (ps.foldl (fun s p => pairStep s p.1 p.2) s) rs
    else ringLoop s rs

/-- second repair: aromatic bonds that belong to no all-aromatic ring become single.
    Returns the new skeleton and the bonds reset to order 1. -/
def leftover (copy : Adj) (rings : Adj) : Adj × List (Nat × Nat) :=
  let rec go (rest : Adj) (seen : List Nat) (rings : Adj) (acc : List (Nat × Nat)) : Adj × List (Nat × Nat) :=
    match rest with
    | [] => (rings, acc)
    | (n, ms) :: tl =>
      if ms.isEmpty then go tl seen rings acc
      else
        let seen' := n :: seen
        let todo := ms.filter fun m => !seen'.contains m
        let rings' := todo.foldl (fun g m => (g.drop n m).drop m n) rings
        go tl seen' rings' (acc ++ todo.map fun m => (n, m))
  go copy [] rings []

/-- `atom.neighbors` as `calc_labels` leaves it -/
def neighborsOf (m : Mol) (n : Nat) : Nat := ((m.nbrs n).filter (·.2.order != 8)).length

structure Prep where
  rings : Adj                    -- aromatic skeleton after the repairs
  pyrroles : List Nat
  dbl : List Nat                 -- `double_bonded`
  singles : List (Nat × Nat)     -- bonds written `_order = 1`
  deriving Repr, DecidableEq, Inhabited

def Prep.empty : Prep := ⟨[], [], [], []⟩

/-- the classification loop `for n in rings:` -/
def classLoop (m : Mol) (exo : List Nat) : List Nat → List Nat → List Nat → Option (List Nat × List Nat)
  | [], pyr, db => some (pyr, db)
  | n :: ns, pyr, db =>
    match m.atom? n with
    | none => none
    | some a =>
      match classify ⟨a.z, a.charge, a.radical, neighborsOf m n, a.implH, db.contains n⟩ with
      | none => none
      | some c =>
        classLoop m exo ns (if c.pyr && !pyr.contains n then pyr ++ [n] else pyr)
          (if c.db && !db.contains n then db ++ [n] else db)

/-- `Kekule.__prepare_rings` with `self.sssr` supplied; `none` = `raise InvalidAromaticRing`.
    (the `ValueError` of unpacking a ring with < 2 atoms cannot occur for a ring list and is mapped to `none` too) -/
def prepareRings (m : Mol) (sssr : List (List Nat)) : Option Prep :=
  let rings0 := scan m 4
  if rings0.isEmpty then some Prep.empty
  else if (tripleBonded m).any rings0.hasKey then none
  else
    match ringLoop ⟨rings0, scan m 2, rings0⟩ sssr with
    | none => none
    | some s =>
      let (rings, singles) := leftover s.copy s.rings
      if rings.any fun p => !(p.2.length == 2 || p.2.length == 3) then none
      else
        let exo := (s.dbl.filter fun p => !p.2.isEmpty && rings.hasKey p.1).map (·.1)
        if exo.any fun n => (rings.get n).length != 2 then none
        else if exo.any fun n => match m.atom? n with
            | none => true
            | some a => !quinoneOk ⟨a.z, a.charge, a.radical, neighborsOf m n, a.implH, true⟩ then none
        else
          match classLoop m exo rings.keys [] exo with
          | none => none
          | some (pyr, db) => some ⟨rings, pyr, db, singles⟩

/-! ## normalised aromatic form: what `__prepare_rings` repaired, written back into the molecule -/

/-- set the order of bond `n–m` (both directions) -/
def setOrder (m : Mol) (a b : Nat) (o : Nat) : Mol :=
  { m with adj := m.adj.map fun p =>
      if p.1 == a then (p.1, p.2.map fun q => if q.1 == b then (q.1, { q.2 with order := o }) else q)
      else if p.1 == b then (p.1, p.2.map fun q => if q.1 == a then (q.1, { q.2 with order := o }) else q)
      else p }

/-- every skeleton bond gets order 4, every bond in `singles` order 1: the aromatic form `kekule()` really
    works on (equals the input when the rings were drawn properly) -/
def normalise (m : Mol) (p : Prep) : Mol :=
  let m1 := p.singles.foldl (fun m ab => setOrder m ab.1 ab.2 1) m
  { m1 with adj := m1.adj.map fun r =>
      let ring := p.rings.get r.1
      (r.1, r.2.map fun q => if ring.contains q.1 then (q.1, { q.2 with order := 4 }) else q) }

/-! ## `__fix_rings`: patch application -/

/-- one rule of `aromatics._rules.rules` as far as the patch loop reads it -/
structure FixRule where
  atomFix : List (Nat × Int)          -- `atom_fix` (dict order)
  bondFix : List (Nat × Nat × Nat)    -- `bonds_fix`
  multi : Bool                        -- allow multimatch
  deriving Repr, DecidableEq, Inhabited

def setCharge (m : Mol) (n : Nat) (c : Int) : Mol :=
  { m with atoms := m.atoms.map fun p => if p.1 == n then (p.1, { p.2 with charge := c }) else p }

/-- `mapping[n]`; `none` = `KeyError` -/
def mapGet (mp : List (Nat × Nat)) (n : Nat) : Option Nat := mp.lookup n

/-- `for n, c in af.items(): atoms[mapping[n]]._charge = c`; `none` = `KeyError` -/
def patchAtoms (m : Mol) (mp : List (Nat × Nat)) : List (Nat × Int) → Option Mol
  | [] => some m
  | (q, c) :: tl => match mapGet mp q with
    | none => none
    | some n => if m.hasAtom n then patchAtoms (setCharge m n c) mp tl else none

/-- `for n, m, b in bf:` … records the ends of every aromatic bond that stops being aromatic (`localized`) -/
def patchBonds (m : Mol) (mp : List (Nat × Nat)) (loc : List Nat) : List (Nat × Nat × Nat) → Option (Mol × List Nat)
  | [] => some (m, loc)
  | (q1, q2, o) :: tl =>
    match mapGet mp q1, mapGet mp q2 with
    | some n, some k =>
      match m.bond? n k with
      | none => none
      | some b =>
        let loc' := if b.order == 4 && o != 4 then
            (if loc.contains n then loc else loc ++ [n]) |> fun l => if l.contains k then l else l ++ [k]
          else loc
        patchBonds (setOrder m n k o) mp loc' tl
    | _, _ => none

/-- the two inner loops for one accepted match; `none` = `KeyError` -/
def applyPatch (m : Mol) (r : FixRule) (mp : List (Nat × Nat)) (loc : List Nat) : Option (Mol × List Nat) :=
  match patchAtoms m mp r.atomFix with
  | none => none
  | some m1 => patchBonds m1 mp loc r.bondFix

structure FixState where
  mol : Mol
  seen : List Nat
  keep : Bool
  localized : List Nat
  deriving Repr, DecidableEq, Inhabited

/-- `for mapping in q.get_mapping(...)` for one rule -/
def fixMatches (r : FixRule) : FixState → List (List (Nat × Nat)) → Option FixState
  | s, [] => some s
  | s, mp :: rest =>
    let mat := mp.map (·.2)
    if !r.multi && mat.any s.seen.contains then fixMatches r s rest
    else
      match applyPatch s.mol r mp s.localized with
      | none => none
      | some (m', loc) =>
        fixMatches r ⟨m', s.seen ++ mat.filter (fun x => !s.seen.contains x),
                      s.keep && !(r.bondFix.any fun b => b.2.2 == 8), loc⟩ rest

/-- `for n in localized: if all(b != 4 for b in bonds[n].values()): self.calc_implicit(n)` -/
def fixHydrogens : List Nat → Mol → Option Mol
  | [], m => some m
  | n :: ns, m =>
    if (m.nbrs n).all (·.2.order != 4) then
      match Valence.calcImplicitMol m n with
      | none => none
      | some h => fixHydrogens ns (Valence.setH m n h)
    else fixHydrogens ns m

def fixLoop : List FixRule → List (List (List (Nat × Nat))) → FixState → Option FixState
  | [], _, s => some s
  | _ :: _, [], s => some s
  | r :: rs, ms :: mss, s =>
    match fixMatches r s ms with
    | none => none
    | some s' => fixLoop rs mss s'

/-- `Kekule.__fix_rings` given, per rule, the list of mappings `q.get_mapping(self, automorphism_filter=False)`
    produced **for the molecule as patched so far** (the harness records what the real generator yields while the
    real loop runs). Returns the patched molecule, `seen` and the `keep` flag. -/
def fixRings (rules : List FixRule) (m : Mol) (maps : List (List (List (Nat × Nat)))) : Option FixState :=
  match fixLoop rules maps ⟨m, [], true, []⟩ with
  | none => none
  | some s => (fixHydrogens s.localized s.mol).map fun m' => { s with mol := m' }

end ChythonModel.Model.C05
