import ChythonModel.Model.C11Sdf
/-!
# C11 — V3000: `EMOLWrite._write_molecule`, `ESDFWrite.write`, `parse_mol_v3000` (line joining, `split`, key=value tokens)

Star atoms (`*`), `ENDPTS=` and the SGROUP section are outside the modelled subset (`Err.unsupported`).
-/
namespace ChythonModel.Model.C11

/-! ## `emol.split(line)` — tokeniser with `(...)` and `"..."` groups -/

def splitGo : Str → List Str → Str → Option Char → List Str
  | [], collect, tmp, _ => if tmp.isEmpty then collect else collect ++ [tmp]
  | s :: rest, collect, tmp, some u =>
    splitGo rest collect (tmp ++ [s]) (if s == u then none else some u)
  | s :: rest, collect, tmp, none =>
    if s == '(' then splitGo rest collect (tmp ++ ['(']) (some ')')
    else if s == '"' then splitGo rest collect (tmp ++ [s]) (some '"')
    else if s == ' ' then (if tmp.isEmpty then splitGo rest collect tmp none else splitGo rest (collect ++ [tmp]) [] none)
    else splitGo rest collect (tmp ++ [s]) none

def v3split (line : Str) : List Str := splitGo line [] [] none

/-- `str.split()` (no argument): split on runs of whitespace, no empty strings -/
def wsSplitGo : Str → List Str → Str → List Str
  | [], acc, cur => if cur.isEmpty then acc else acc ++ [cur]
  | c :: cs, acc, cur =>
    if isSpace c then (if cur.isEmpty then wsSplitGo cs acc cur else wsSplitGo cs (acc ++ [cur]) [])
    else wsSplitGo cs acc (cur ++ [c])

def wsSplit (s : Str) : List Str := wsSplitGo s [] []

/-- `s.split('=', 1)` -/
def splitEq1 (s : Str) : List Str :=
  if s.contains '=' then [s.takeWhile (· != '='), (s.dropWhile (· != '=')).drop 1] else [s]

/-- `s.split('=')` -/
def splitEqAll : Str → List Str
  | s => go s []
where go : Str → Str → List Str
  | [], cur => [cur]
  | c :: cs, cur => if c == '=' then cur :: go cs [] else go cs (cur ++ [c])

/-- `s[a:b]` on characters with Python negative indices -/
def endsWith (s p : Str) : Bool := p.reverse.isPrefixOf s.reverse

/-- the line-joining loop of `parse_mol_v3000` (`keep` = `''`/`None` are both falsy, modelled as `[]`) -/
def joinLines : List Str → Str → List Str
  | [], _ => []
  | line :: rest, keep =>
    if endsWith line ['-', '\n'] then
      let l := pySlice line 7 (-2)
      joinLines rest (if !keep.isEmpty then keep ++ l else lstrip l)
    else
      let l := line.drop 7
      if !keep.isEmpty then (keep ++ rstrip l) :: joinLines rest []
      else strip l :: joinLines rest []

structure P3Mol where
  title : Option Str
  atoms : List PAtom
  bonds : List (Int × Int × Int)
  stereo : List (Int × Int × Int)
  md : List (Str × Str)
  deriving DecidableEq, Repr, Inhabited

def dictSet (d : List (Str × Str)) (k v : Str) : List (Str × Str) :=
  if d.any (·.1 == k) then d.map (fun kv => if kv.1 == k then (k, v) else kv) else d ++ [(k, v)]

/-- the `for kv in kvs` loop of an atom line: (charge, isotope, radical) -/
def atomKvs : List Str → Int → Option Int → Bool → R (Int × Option Int × Bool)
  | [], c, i, r => pure (c, i, r)
  | kv :: rest, c, i, r =>
    match splitEq1 kv with
    | [k, v] =>
      if k == sL "CHG" then do let c' ← intE v; atomKvs rest c' i r
      else if k == sL "MASS" then do let i' ← intE v; atomKvs rest c (some i') r
      else if k == sL "RAD" then atomKvs rest c i true
      else atomKvs rest c i r
    | _ => throw .valueError    -- `k, v = …` cannot unpack

/-- one atom line (already joined and stripped); `none` would be a star atom — unsupported here -/
def parseAtom3 (line : Str) : R (Str × PAtom) :=
  match v3split line with
  | n :: a :: x :: y :: z :: m :: kvs => do
    if startsWith a ['['] || startsWith a (sL "NOT") then throw .valueError
    if a == ['*'] then throw .unsupported
    if a == sL "R#" then throw .valueError
    let (c, i, r) ← atomKvs kvs 0 none false
    let (a, i) ← if a == ['D'] then
        (if i.isSome && i != some 0 then throw (ε := Err) .valueError else pure (['H'], some (2 : Int)))
      else pure (a, i)
    let xf ← floatE x
    let yf ← floatE y
    let zf ← floatE z
    let pm ← intE m
    pure (n, { element := a, isotope := i, charge := c, delta := none, map := pm, x := xf, y := yf, z := zf, rad := r })
  | _ => throw .valueError

def parseAtoms3 : List Str → R (List (Str × PAtom))
  | [] => pure []
  | l :: ls => do let a ← parseAtom3 l; let r ← parseAtoms3 ls; pure (a :: r)

/-- `atom_map[key]` where `atom_map[n] = len(atoms)` was assigned in order (later duplicates overwrite) -/
def atomMapGet (names : List Str) (key : Str) : Option Int :=
  let idxs := (List.range names.length).filter fun i => names.getD i [] == key
  idxs.getLast?.map (fun i => (i : Int))

def bondKvs (a1 a2 : Option Int) : List Str → List (Int × Int × Int) → R (List (Int × Int × Int))
  | [], st => pure st
  | kv :: rest, st =>
    match splitEqAll kv with
    | [k, v] =>
      if k == sL "CFG" then
        if v == ['1'] then
          match a1, a2 with
          | some i, some j => bondKvs a1 a2 rest (st ++ [(i, j, 1)])
          | _, _ => throw .keyError
        else if v == ['3'] then
          match a1, a2 with
          | some i, some j => bondKvs a1 a2 rest (st ++ [(i, j, -1)])
          | _, _ => throw .keyError
        else bondKvs a1 a2 rest st
      else if k == sL "ENDPTS" then throw .unsupported
      else bondKvs a1 a2 rest st
    | _ => throw .valueError

def parseBond3 (names : List Str) (line : Str) : R ((Int × Int × Int) × List (Int × Int × Int)) :=
  match v3split line with
  | _ :: t :: a1 :: a2 :: kvs => do
    let ti ← intE t
    let ti := if ti == 9 || ti == 10 then 8 else ti
    match atomMapGet names a1, atomMapGet names a2 with
    | some i, some j => do
      let st ← bondKvs (some i) (some j) kvs []
      pure ((i, j, ti), st)
    | _, _ => throw .valueError
  | _ => throw .valueError

def parseBonds3 (names : List Str) : List Str → R (List ((Int × Int × Int) × List (Int × Int × Int)))
  | [] => pure []
  | l :: ls => do let a ← parseBond3 names l; let r ← parseBonds3 names ls; pure (a :: r)

/-- `v.strip('"')` -/
def stripQuote (s : Str) : Str :=
  ((s.dropWhile (· == '"')).reverse.dropWhile (· == '"')).reverse

def mapMOpt (f : α → Option β) : List α → Option (List β)
  | [] => some []
  | a :: as => match f a, mapMOpt f as with
    | some b, some bs => some (b :: bs)
    | _, _ => none

/-- the `for kv in kvs` loop of a `DAT` S-group line: (atoms, fieldname, fielddata) -/
def datKvs (names : List Str) : List Str → Option (List Int) → Option Str → Option Str →
    R (Option (List Int) × Option Str × Option Str)
  | [], a, f, d => pure (a, f, d)
  | kv :: rest, a, f, d =>
    match splitEq1 kv with
    | [k, v] =>
      if k == sL "ATOMS" then
        match mapMOpt (atomMapGet names) ((wsSplit (pySlice v 1 (-1))).drop 1) with
        | some as => datKvs names rest (some as) f d
        | none => throw .keyError
      else if k == sL "FIELDNAME" then datKvs names rest a (some (stripQuote v)) d
      else if k == sL "FIELDDATA" then datKvs names rest a f (some (stripQuote v))
      else datKvs names rest a f d
    | _ => throw .valueError

/-- the SGROUP section loop after the bond block (`drop` = still before `BEGIN SGROUP`) -/
def sgroupLoop (names : List Str) : List Str → Bool → List PAtom → R (List PAtom)
  | [], _, atoms => pure atoms
  | line :: rest, drop, atoms =>
    if startsWith line (sL "END CTAB") then pure atoms
    else if drop then sgroupLoop names rest (!startsWith line (sL "BEGIN SGROUP")) atoms
    else if startsWith line (sL "END SGROUP") then pure atoms
    else
      match v3split line with
      | _ :: ty :: _ :: kvs =>
        if startsWith ty (sL "DAT") then do
          let (a, f, d) ← datKvs names kvs none none none
          match a, f, d with
          | some (a0 :: _), some f, some d =>
            if f.isEmpty || d.isEmpty then sgroupLoop names rest false atoms
            else if f == sL "MRV_IMPLICIT_H" then do
              let h ← intE (d.drop 6)
              match pyIndexNat atoms.length a0 with
              | some k => sgroupLoop names rest false (setAt atoms k fun x => { x with implH := some h })
              | none => throw .indexError
            else sgroupLoop names rest false atoms
          | _, _, _ => sgroupLoop names rest false atoms
        else if startsWith ty (sL "SRU") then throw .valueError
        else sgroupLoop names rest false atoms
      | _ => throw .valueError

def countsMeta : List Str → List (Str × Str) → List (Str × Str)
  | [], d => d
  | kv :: rest, d =>
    if kv.contains '=' then
      match splitEq1 kv with
      | [k, v] => if !k.isEmpty && !v.isEmpty then countsMeta rest (dictSet d k v) else countsMeta rest d
      | _ => countsMeta rest d
    else countsMeta rest d

/-- `parse_mol_v3000(data, _header=…)` -/
def parseMol3000 (data : List Str) (header : Bool := true) : R P3Mol := do
  let (title, data) ← if header then do
      let l0 ← lineAt data 0
      let t := strip l0
      pure ((if t.isEmpty then none else some t), data.drop 4)
    else pure (none, data)
  let l1 ← lineAt data 1
  match wsSplit (l1.drop 13) with
  | ac :: bc :: kvs => do
    let atomCount ← intE ac
    if atomCount == 0 then throw .emptyMolecule
    let bondsCount ← intE bc
    let md := countsMeta kvs []
    let lines := joinLines (data.drop 3) []
    let atoms ← parseAtoms3 (pySlice lines 0 atomCount)
    let names := atoms.map (·.1)
    let bl ← parseBonds3 names (pySlice lines (2 + atomCount) (2 + atomCount + bondsCount))
    let atoms' ← sgroupLoop names (pySlice lines (3 + atomCount + bondsCount) (lines.length : Int)) true (atoms.map (·.2))
    pure { title, atoms := atoms', bonds := bl.map (·.1), stereo := (bl.map (·.2)).flatten, md }
  | _ => throw .valueError

/-! ## writer -/

def writeAtom3 (mapping : Bool) (n : Nat) (a : WAtom) : Str :=
  let m : Nat := if mapping then a.num else 0
  sL "M  V30 " ++ natDigits n ++ sL " " ++ a.sym ++ sL " " ++ f4 a.x ++ sL " " ++ f4 a.y ++ sL " 0 " ++ natDigits m ++
  (if a.charge != 0 then sL " CHG=" ++ intDigits a.charge else []) ++
  (if a.rad then sL " RAD=2" else []) ++
  (if a.iso != 0 then sL " MASS=" ++ natDigits a.iso else []) ++ sL "\n"

def writeWedge3 (atoms : List WAtom) (p : Nat × (Nat × Nat × Int)) : R Str := do
  let (i, n, m, s) := p
  let o ← bondOrder atoms n m
  let a ← atomIndex atoms n
  let b ← atomIndex atoms m
  pure (sL "M  V30 " ++ natDigits i ++ sL " " ++ natDigits o ++ sL " " ++ natDigits a ++ sL " " ++ natDigits b ++
        sL " CFG=" ++ (if s == 1 then sL "1" else sL "3") ++ sL "\n")

def writeBond3 (atoms : List WAtom) (p : Nat × (Nat × Nat × Nat)) : R Str := do
  let (i, n, m, o) := p
  let a ← atomIndex atoms n
  let b ← atomIndex atoms m
  pure (sL "M  V30 " ++ natDigits i ++ sL " " ++ natDigits o ++ sL " " ++ natDigits a ++ sL " " ++ natDigits b ++ sL "\n")

def enumFrom (start : Nat) (l : List α) : List (Nat × α) := enumFromK start l

/-- `EMOLWrite._write_molecule(g)` -/
def writeMol3000 (mapping : Bool) (g : WMol) : R (List Str) := do
  let head := [sL "M  V30 BEGIN CTAB\n",
               sL "M  V30 COUNTS " ++ natDigits g.atoms.length ++ sL " " ++ natDigits (bondsCount g.atoms) ++ sL " 0 0 0\n",
               sL "M  V30 BEGIN ATOM\n"]
  let al := (enumFrom 1 g.atoms).map fun p => writeAtom3 mapping p.1 p.2
  let wl ← mapM' (writeWedge3 g.atoms) (enumFrom 1 g.wedge)
  let rest := (bondsIter g.atoms []).filter fun b => !inWedge g.wedge b.1 b.2.1
  let bl ← mapM' (writeBond3 g.atoms) (enumFrom (g.wedge.length + 1) rest)
  pure (head ++ al ++ [sL "M  V30 END ATOM\n", sL "M  V30 BEGIN BOND\n"] ++ wl ++ bl ++
        [sL "M  V30 END BOND\n", sL "M  V30 END CTAB\n"])

def v3Header (name : Str) : List Str :=
  [name ++ sL "\n", sL "\n", sL "\n", sL "  0  0  0     0  0            999 V3000\n"]

/-- `ESDFWrite.write(mol)` -/
def esdfWrite (mapping : Bool) (g : WMol) (md : List (Str × Str)) : R Str := do
  let ml ← writeMol3000 mapping g
  pure ((v3Header g.name ++ ml ++ [sL "M  END\n"]).flatten ++
        (md.map fun kv => sL ">  <" ++ applyEscapes Gen.Mdl.esdfWriteEscape kv.1 ++ sL ">\n" ++ kv.2 ++ sL "\n\n").flatten ++ sL "$$$$\n")

/-! ## `SDFRead.read_structure` with both dialects -/

inductive AnyMol where
  | v2 (m : PMol)
  | v3 (m : P3Mol)
  deriving DecidableEq, Repr, Inhabited

def AnyMol.maps : AnyMol → List Int
  | .v2 m => m.atoms.map (·.map)
  | .v3 m => m.atoms.map (·.map)

structure Rec' where
  mol : AnyMol
  mapping : List Int
  md : List (Str × Str)
  deriving DecidableEq, Repr, Inhabited

def readStructure (b : Block) : R Rec' := do
  let data ← blockMol b
  let v3 ← isV3000 data
  let mol ← if v3 then AnyMol.v3 <$> parseMol3000 data else AnyMol.v2 <$> parseMol2000 data
  let mapping ← postprocessMapping mol.maps
  let ml ← blockMeta b
  pure { mol, mapping, md := readMeta ml }

end ChythonModel.Model.C11
