import ChythonModel.Model.C15Read
/-!
# C15 — CXSMILES radical block on READING (`|^1:…|`), reaction branch of `smiles()` (files/daylight/smiles.py)

```
cx_radicals = compile(r'\^[1-7]:[0-9]+(?:,[0-9]+)*')
...
radicals = [int(x) for x in findall(cx_radicals, cxs) for x in x[3:].split(',')]
if radicals and len(set(radicals)) != len(radicals):     # both branches (with / without an `f:` block) do the same
    radicals = []
...   (role split, fragment contraction, molecule parser on every molecule string)
if radicals:
    atom_map = dict(enumerate(a for m in chain(record['reactants'], record['reagents'], record['products'])
                              for a in m['atoms']))
    for x in radicals:
        if x not in atom_map: raise IncorrectSmiles(...)
        atom_map[x]['is_radical'] = True
```

`findall` = leftmost non-overlapping matches, scanning resumes behind a match (a match is never empty). The pattern is
deterministic for greedy matching: a digit run is always taken whole, `,` is consumed only when a digit follows.
The molecule parser enters only through the number of atoms it produces for a molecule string (`natoms`, a parameter;
the driver instantiates it with a table taken from the real parser, additive over `.`). The parser never sets
`is_radical`, so after this stage the flag of atom `i` (counted over reactants, reagents, products in this order,
after contraction) is exactly `i ∈ radicals`.
-/
namespace ChythonModel.Model.C15

/-- `(?:,[0-9]+)*` greedy: a comma is consumed only when a digit follows -/
def commaNums : Nat → Str → List Nat × Str
  | 0, s => ([], s)
  | fuel + 1, s =>
    match s with
    | c :: cs =>
      if c == chComma then
        match spanDigits cs with
        | ([], _) => ([], s)
        | (d, r) => let (ns, r') := commaNums fuel r; (toNat d :: ns, r')
      else ([], s)
    | [] => ([], s)

/-- `\^[1-7]:[0-9]+(?:,[0-9]+)*` at the start of `s`: the numbers of the match and the rest behind it -/
def matchRadical (s : Str) : Option (List Nat × Str) :=
  match s with
  | c0 :: c1 :: c2 :: rest =>
    if c0 == chCaret && (49 ≤ c1 && c1 ≤ 55) && c2 == chColon then
      match spanDigits rest with
      | ([], _) => none
      | (d, r) => let (ns, r') := commaNums r.length r; some (toNat d :: ns, r')
    else none
  | _ => none

/-- `[int(x) for x in findall(cx_radicals, s) for x in x[3:].split(',')]` -/
def findRadicals : Nat → Str → List Nat
  | 0, _ => []
  | _ + 1, [] => []
  | fuel + 1, c :: cs =>
    match matchRadical (c :: cs) with
    | some (ns, r) => ns ++ findRadicals fuel r
    | none => findRadicals fuel cs

/-- the `radicals` variable after the CXSMILES analysis: `[]` without a CXSMILES token and on collisions -/
def radicalsOf (tokens : List Str) : List Nat :=
  match tokens with
  | _ :: cxs :: _ =>
    if cxs.head? == some chBar && cxs.getLast? == some chBar then
      let r := findRadicals (cxs.length + 1) cxs
      if r.eraseDups.length != r.length then [] else r
    else []
  | _ => []

/-- flags of the `n` atoms numbered `start …` -/
def flagsFrom (rad : List Nat) (start n : Nat) : List Bool := (List.range n).map fun i => rad.contains (start + i)

/-- per molecule (atom counts `counts`, numbered consecutively from `start`) the `is_radical` flags -/
def splitFlags (rad : List Nat) : Nat → List Nat → List (List Bool)
  | _, [] => []
  | start, n :: ns => flagsFrom rad start n :: splitFlags rad (start + n) ns

/-- the `if radicals:` block: `IncorrectSmiles` when an index is no key of `atom_map` -/
def markRadicals (counts : List Nat) (rad : List Nat) : Except String (List (List Bool)) :=
  if rad.any (fun x => decide (counts.sum ≤ x)) then .error "IncorrectSmiles" else .ok (splitFlags rad 0 counts)

inductive ReadRadOut where
  | molecule
  | roles (r a p : List Str) (fr fa fp : List (List Bool))
  | error (e : String)
  deriving Repr, DecidableEq

/-- `readSmi` without the final `ReactionContainer.__init__` emptiness check (which happens after the radical stage) -/
def readSmiRaw (smi : Str) (contract : Option (List (List Nat))) : ReadOut :=
  if !smi.contains chGt then .molecule else
  match splitOn chGt smi with
  | [r, a, p] =>
    let recR := rolePieces r
    let recA := rolePieces a
    let recP := rolePieces p
    match contract with
    | some (g :: gs) =>
      match contractRoles recR recA recP (g :: gs) with
      | .ok (x, y, z) => .roles x y z
      | .error e => .error e
    | _ => .roles recR recA recP
  | _ => .error "ValueError"

/-- reaction branch of `smiles(text)` up to and including the radical stage and the emptiness check of
    `ReactionContainer.__init__`: molecule strings per role and the `is_radical` flag of every parsed atom.
    `natoms s` = number of atoms the molecule parser yields for `s`. -/
def readRxnRad (natoms : Str → Nat) (text : Str) : ReadRadOut :=
  match splitWs text with
  | [] => .error "ValueError"
  | smi :: rest =>
    match readSmiRaw smi (contractOf (smi :: rest)) with
    | .molecule => .molecule
    | .error e => .error e
    | .roles r a p =>
      match markRadicals ((r ++ a ++ p).map natoms) (radicalsOf (smi :: rest)) with
      | .error e => .error e
      | .ok fl =>
        if r.isEmpty && a.isEmpty && p.isEmpty then .error "ValueError"
        else .roles r a p (fl.take r.length) ((fl.drop r.length).take a.length) (fl.drop (r.length + a.length))

/-- `d.split('.')` of a non-empty role has an empty piece ("two dots in line") -/
def hasEmptyPiece (d : Str) : Bool := !d.isEmpty && (splitOn chDot d).any (·.isEmpty)

/-- the reader option `ignore`: with `ignore=False` an empty piece in a role is `ValueError('invalid reaction smiles.
    two dots in line')` (raised while the roles are split, i.e. before contraction, parsing and the radical stage; a wrong
    number of `>` is a `ValueError` in both modes) instead of being skipped -/
def readRxnRadOpt (ignore : Bool) (natoms : Str → Nat) (text : Str) : ReadRadOut :=
  match splitWs text with
  | [] => .error "ValueError"
  | smi :: _ =>
    if !ignore && smi.contains chGt &&
        (match splitOn chGt smi with
         | [r, a, p] => hasEmptyPiece r || hasEmptyPiece a || hasEmptyPiece p
         | _ => false) then .error "ValueError"
    else readRxnRad natoms text

/-- atom count of a molecule string from a table of its `.`-pieces (the parser's atom list is additive over `.`);
    a piece missing from the table counts 0 -/
def natomsOf (tbl : List (Str × Nat)) (s : Str) : Nat :=
  ((rolePieces s).map fun x => (tbl.lookup x).getD 0).sum

end ChythonModel.Model.C15
