import ChythonModel.Model.Iso
import ChythonModel.Model.QueryEq
/-!
# C07 — atom / bond compatibility as the matcher evaluates it (`s_atom == o_atom`, `s_bond == o_bond`)

The matcher theorems are parametric in `atomOk` / `bondOk`. For the correspondence the driver instantiates them from the
*attributes* of the atoms and bonds (never from the result of the real `__eq__`), with the executable models of
`chython/periodictable/base/query.py` and `chython/containers/bonds.py` (`Model/QueryEq.lean`, property C08) for query
patterns and the two one-line molecule comparisons below for molecule patterns:

* `Element.__eq__(Element)`: `atomic_number`, `isotope`, `charge`, `is_radical` all equal;
* `Bond.__eq__(Bond)`: equal `order`.
Core Lean only.
-/
namespace ChythonModel.Model.Iso
open ChythonModel.Model.Query

/-- a pattern atom: a molecule atom (`MoleculeContainer` pattern) or a query atom (`QueryContainer` pattern) -/
inductive PAtom
  | mol (z : Nat) (isotope : Option Nat) (charge : Int) (radical : Bool)
  | query (q : QAtom)
  deriving Repr, Inhabited

/-- a pattern bond: `Bond(order)` or `QueryBond(orders, in_ring)` -/
inductive PBond
  | mol (order : Nat)
  | query (q : QBond)
  deriving Repr, Inhabited

/-- `pattern_atom == target_atom` -/
def pAtomEq : PAtom → MAtom → Bool
  | .mol z iso ch rad, a => z == a.z && iso == a.isotope && ch == a.charge && rad == a.radical
  | .query q, a => pyEq q a

/-- `pattern_bond == target_bond` -/
def pBondEq : PBond → MBond → Bool
  | .mol o, b => o == b.order
  | .query q, b => bondEq q b

end ChythonModel.Model.Iso
