import ChythonModel.Model.Pack
import ChythonModel.Gen.PackStereoTables
/-!
# C10 — the stereo perception that the pack format relies on (`chython/algorithms/stereo.py`)

`_pack_v2.pack` writes, for every bond that carries a cis/trans mark, the pair `_stereo_cis_trans_terminals[n]`;
`MoleculeContainer.unpack` finds the bond again through `_stereo_cis_trans_centers[tn]`. Both dictionaries are built from
`stereogenic_cumulenes`, which filters `cumulenes` (the chains of cumulated double bonds). This file mirrors these four
cached properties (and `_stereo_allenes_terminals`) on the packer's view of a molecule (`List PAtom`): pure graph logic.

* `dblAdj`      = the `adj` dictionary of `cumulenes` (double bonds between atoms with `is_forming_double_bonds`)
* `terminals0`  = `terminals = [x for x, y in adj.items() if len(y) == 1]` (atom order)
* `walk`        = the inner `while m not in terminals` loop; `cumLoop` the outer `while terminals` loop
* `cumulenes`   = the cached property; `cumulenesTagged` keeps for every emitted group whether the walk ended in a terminal
                  (`chain`) or stopped at an atom with more than two neighbours (`broken`: the code then emits the double
                  bonds of the walked piece one by one)
* `stereoEnv` / `stereogenicCumulenes` = `stereogenic_cumulenes` (dict: path ↦ (n1, m1, n2?, m2?))
* `ctTerminals` / `ctCenters` / `alleneTerminals` = the three dictionaries, Python `dict` semantics (`dictSet`:
  first insertion fixes the position, later assignments overwrite the value), chained assignment left to right.

`adj` is a dict of *sets* that the code mutates (`pop`, `discard`). The model keeps the adjacency immutable and takes
"the element that is left after discarding the atom we came from": `popOnly` answers only for a one-element set
(`[] ↦ KeyError`, two or more ↦ `setOrder`: CPython's set iteration order is not modelled). On symmetric graphs no
atom is visited twice, so the mutation is never observed (validated by the correspondence on every generated molecule;
`setOrder`/`fuel` never occur there).
-/
namespace ChythonModel.Model.Pack
open ChythonModel.Gen

inductive SErr where
  | key        -- KeyError: `pop` from an empty set
  | setOrder   -- `pop` from a set with several elements: iteration order of CPython sets is not modelled
  | fuel       -- the walk did not stop within `atoms.length` steps (cannot happen on a finite chain; Python would loop)
  deriving DecidableEq, Repr, Inhabited

def SErr.toString : SErr → String
  | .key => "key" | .setOrder => "set-order" | .fuel => "fuel"

/-- `atoms[n]` -/
def atomAt (atoms : List PAtom) (n : Nat) : Option PAtom := atoms.find? fun a => a.num == n

/-- atomic number of atom `n` (0 when absent; on a symmetric graph every neighbour key is an atom) -/
def zAt (atoms : List PAtom) (n : Nat) : Nat := match atomAt atoms n with | some a => a.z | none => 0

/-- `len(bonds[n])` -/
def degAt (atoms : List PAtom) (n : Nat) : Nat := match atomAt atoms n with | some a => a.nbrs.length | none => 0

/-- `atoms[n].is_forming_double_bonds` -/
def fdb (atoms : List PAtom) (n : Nat) : Bool := formsDouble.contains (zAt atoms n)
/-- `atoms[n].is_forming_single_bonds` -/
def fsb (atoms : List PAtom) (n : Nat) : Bool := formsSingle.contains (zAt atoms n)

/-- `adj[a.num]` for an atom with `is_forming_double_bonds`: neighbours in dict order -/
def dblOfAtom (atoms : List PAtom) (a : PAtom) : List Nat :=
  (a.nbrs.filter fun nb => nb.order == dblOrder && fdb atoms nb.m).map (·.m)

/-- `adj[n]` (a `defaultdict(set)`: empty for an atom that forms no double bonds) -/
def dblAdj (atoms : List PAtom) (n : Nat) : List Nat :=
  match atomAt atoms n with
  | some a => if formsDouble.contains a.z then dblOfAtom atoms a else []
  | none => []

/-- `terminals = [x for x, y in adj.items() if len(y) == 1]` -/
def terminals0 (atoms : List PAtom) : List Nat :=
  (atoms.filter fun a => formsDouble.contains a.z && (dblOfAtom atoms a).length == 1).map (·.num)

/-- `set.pop()` answered only when the set has one element -/
def popOnly : List Nat → Except SErr Nat
  | [x] => .ok x
  | [] => .error .key
  | _ => .error .setOrder

inductive Walk where
  | chain (path : List Nat) (last : Nat)   -- reached the terminal `last`: `cumulenes.append(tuple(path))`
  | broken (path : List Nat)               -- `len(bonds[m]) > 2`: `cumulenes.extend(zip(path, path[1:]))`
  deriving DecidableEq, Repr, Inhabited

/-- the inner loop: `n` previous atom, `m` current atom, `path` ends with `m` -/
def walk (atoms : List PAtom) (terms : List Nat) : Nat → Nat → Nat → List Nat → Except SErr Walk
  | 0, _, _, _ => .error .fuel
  | f + 1, n, m, path =>
    if terms.contains m then .ok (.chain path m)
    else if degAt atoms m > cumMaxNbrs then .ok (.broken path)
    else
      match popOnly ((dblAdj atoms m).erase n) with
      | .error e => .error e
      | .ok x => walk atoms terms f m x (path ++ [x])

/-- the outer loop over the remaining terminals (`terminals.pop(0)`; `terminals.remove(m)` after a complete chain) -/
def cumLoop (atoms : List PAtom) : Nat → List Nat → Except SErr (List Walk)
  | _, [] => .ok []
  | 0, _ :: _ => .error .fuel
  | f + 1, n :: terms =>
    match popOnly (dblAdj atoms n) with
    | .error e => .error e
    | .ok m =>
      match walk atoms terms (atoms.length + 1) n m [n, m] with
      | .error e => .error e
      | .ok (.chain p l) =>
        match cumLoop atoms f (terms.erase l) with
        | .error e => .error e
        | .ok r => .ok (.chain p l :: r)
      | .ok (.broken p) =>
        match cumLoop atoms f terms with
        | .error e => .error e
        | .ok r => .ok (.broken p :: r)

/-- the cached property with the kind of every emitted group -/
def cumulenesTagged (atoms : List PAtom) : Except SErr (List Walk) :=
  cumLoop atoms (terminals0 atoms).length (terminals0 atoms)

/-- `zip(path, path[1:])` as two-atom paths -/
def pairsOf : List Nat → List (List Nat)
  | a :: b :: r => [a, b] :: pairsOf (b :: r)
  | _ => []

def Walk.paths : Walk → List (List Nat)
  | .chain p _ => [p]
  | .broken p => pairsOf p

/-- `MoleculeStereo.cumulenes` -/
def cumulenes (atoms : List PAtom) : Except SErr (List (List Nat)) :=
  match cumulenesTagged atoms with
  | .error e => .error e
  | .ok ws => .ok (ws.flatMap Walk.paths)

/-! ## `stereogenic_cumulenes` -/

/-- `any(b == 3 or not atoms[m].is_forming_single_bonds and b != 8 for m, b in env.items() if m != excl)` -/
def endBlocked (atoms : List PAtom) (env : List PNbr) (excl : Nat) : Bool :=
  env.any fun nb => nb.m != excl && (nb.order == skipOrder || (!fsb atoms nb.m && nb.order != anyOrder))

/-- `[x for x, b in env.items() if x != excl and atoms[x] != H and b != 8]` -/
def substituents (atoms : List PAtom) (env : List PNbr) (excl : Nat) : List Nat :=
  (env.filter fun nb => nb.m != excl && zAt atoms nb.m != stereoH && nb.order != anyOrder).map (·.m)

def nbrsAt (atoms : List PAtom) (n : Nat) : List PNbr := match atomAt atoms n with | some a => a.nbrs | none => []

/-- second element `nn[1] if len(nn) == 2 else None` -/
def second? : List Nat → Option Nat
  | [_, b] => some b
  | _ => none

/-- the value `stereogenic_cumulenes[path]`, `none` when the path is skipped. (`path[0], path[1], path[-2], path[-1]`:
    every path has at least two atoms; a shorter one would be an `IndexError` in Python and is `none` here.) -/
def stereoEnv (atoms : List PAtom) (path : List Nat) : Option (Nat × Nat × Option Nat × Option Nat) :=
  match path, path.reverse with
  | p0 :: n1 :: _, pl :: m1 :: _ =>
    let nf := nbrsAt atoms p0
    let nl := nbrsAt atoms pl
    if endBlocked atoms nf n1 then none
    else if endBlocked atoms nl m1 then none
    else
      match substituents atoms nf n1, substituents atoms nl m1 with
      | a :: nn, b :: mn => some (a, b, second? (a :: nn), second? (b :: mn))
      | _, _ => none
  | _, _ => none

/-- `stereogenic_cumulenes` (dict in insertion order; two equal paths are never produced) -/
def stereogenicOf (atoms : List PAtom) (paths : List (List Nat)) : List (List Nat × Nat × Nat × Option Nat × Option Nat) :=
  paths.filterMap fun p => (stereoEnv atoms p).map fun e => (p, e)

/-! ## the dictionaries -/

/-- Python `d[k] = v`: overwrite in place, or append a new key -/
def dictSet {β} (d : List (Nat × β)) (k : Nat) (v : β) : List (Nat × β) :=
  if d.any (fun e => e.1 == k) then d.map (fun e => if e.1 == k then (k, v) else e) else d ++ [(k, v)]

/-- (path[0], path[-1], path[i-1], path[i]) with `i = len(path) // 2` of an even path -/
def evenKeys (path : List Nat) : Option (Nat × Nat × Nat × Nat) :=
  if path.length % 2 != 0 then none else
  match path.head?, path.getLast?, path[path.length / 2 - 1]?, path[path.length / 2]? with
  | some n, some m, some c1, some c2 => some (n, m, c1, c2)
  | _, _, _, _ => none

/-- one iteration of `_stereo_cis_trans_terminals`:
    `terminals[n] = terminals[m] = terminals[path[i]] = terminals[path[i - 1]] = (n, m)` -/
def termStep (d : List (Nat × Nat × Nat)) (path : List Nat) : List (Nat × Nat × Nat) :=
  match evenKeys path with
  | some (n, m, c1, c2) => dictSet (dictSet (dictSet (dictSet d n (n, m)) m (n, m)) c2 (n, m)) c1 (n, m)
  | none => d

/-- one iteration of `_stereo_cis_trans_centers`: `terminals[n] = terminals[m] = (path[i - 1], path[i])` -/
def centStep (d : List (Nat × Nat × Nat)) (path : List Nat) : List (Nat × Nat × Nat) :=
  match evenKeys path with
  | some (n, m, c1, c2) => dictSet (dictSet d n (c1, c2)) m (c1, c2)
  | none => d

/-- `_stereo_cis_trans_terminals` from the keys of `stereogenic_cumulenes` -/
def ctTerminals (spaths : List (List Nat)) : List (Nat × Nat × Nat) := spaths.foldl termStep []
/-- `_stereo_cis_trans_centers` -/
def ctCenters (spaths : List (List Nat)) : List (Nat × Nat × Nat) := spaths.foldl centStep []

/-- (path[len // 2], path[0], path[-1]) of an odd path -/
def oddKeys (path : List Nat) : Option (Nat × Nat × Nat) :=
  if path.length % 2 == 0 then none else
  match path[path.length / 2]?, path.head?, path.getLast? with
  | some c, some n, some m => some (c, n, m)
  | _, _, _ => none

def alleneStep (d : List (Nat × Nat × Nat)) (path : List Nat) : List (Nat × Nat × Nat) :=
  match oddKeys path with
  | some (c, n, m) => dictSet d c (n, m)
  | none => d

/-- `_stereo_allenes_terminals`: `{path[len(path) // 2]: (path[0], path[-1]) for path in … if len(path) % 2}` -/
def alleneTerminals (spaths : List (List Nat)) : List (Nat × Nat × Nat) := spaths.foldl alleneStep []

/-- everything the packer and the unpacker read from the perception, in one go -/
structure Perceived where
  cumulenes : List (List Nat)
  stereogenic : List (List Nat × Nat × Nat × Option Nat × Option Nat)
  terminals : List (Nat × Nat × Nat)
  centers : List (Nat × Nat × Nat)
  allenes : List (Nat × Nat × Nat)
  deriving DecidableEq, Repr

def perceive (atoms : List PAtom) : Except SErr Perceived :=
  match cumulenes atoms with
  | .error e => .error e
  | .ok paths =>
    let sg := stereogenicOf atoms paths
    let sp := sg.map (·.1)
    .ok ⟨paths, sg, ctTerminals sp, ctCenters sp, alleneTerminals sp⟩

/-! ## pack / unpack with the perception inside (nothing taken from chython) -/

inductive UErr where
  | pack (e : PErr)
  | stereo (e : SErr)
  deriving DecidableEq, Repr, Inhabited

def UErr.toString : UErr → String
  | .pack e => e.toString
  | .stereo e => "stereo-" ++ e.toString

/-- `MoleculeContainer.pack(compressed=False)` on `_atoms`/`_bonds` alone: the format check, then
    `py_stereo = molecule._stereo_cis_trans_terminals` (first statement of `_pack_v2.pack`, evaluated for every molecule),
    then the encoder -/
def packFull (atoms : List PAtom) : Except UErr (List Nat) :=
  match checkLimits atoms with
  | .error e => .error (.pack e)
  | .ok _ =>
    match perceive atoms with
    | .error e => .error (.stereo e)
    | .ok p =>
      match encodeRaw ⟨atoms, p.terminals⟩ with
      | .error e => .error (.pack e)
      | .ok bytes => .ok bytes

/-- `MoleculeContainer.unpack(data, compressed=False)` complete: decoder, then the re-attachment loop with
    `mol._stereo_cis_trans_centers` perceived on the decoded molecule (evaluated only when the cis/trans list is not empty) -/
def unpackFull (data : List Nat) : Except UErr Decoded :=
  match decode data with
  | .error e => .error (.pack e)
  | .ok d =>
    match d.cisTrans with
    | [] => .ok d
    | _ :: _ =>
      match perceive d.atoms with
      | .error e => .error (.stereo e)
      | .ok p => .ok { d with atoms := attach p.centers d.atoms d.cisTrans }

/-! ## executable hypotheses of the stereo round-trip theorem (evaluated by the driver on every real molecule) -/

/-- the dictionary keys an even path writes -/
def keys4 (path : List Nat) : List Nat :=
  match evenKeys path with
  | some (n, m, c1, c2) => [n, m, c1, c2]
  | none => []

/-- no atom is a key of two different cis/trans units (fails only when two stereogenic double bonds share an atom,
    which needs an atom with more than two neighbours and two double bonds) -/
def keysDisjointb : List (List Nat) → Bool
  | [] => true
  | p :: r => (r.all fun q => (keys4 p).all fun x => !(keys4 q).contains x) && keysDisjointb r

/-- every bond that carries a cis/trans mark is the central bond of a perceived stereogenic unit (a class invariant of
    chython's molecules: marks on other bonds are dropped by `fix_stereo`) -/
def marksOKb (atoms : List PAtom) (spaths : List (List Nat)) : Bool :=
  (firstSeen [] atoms).all fun p =>
    !p.2.stereo.isSome ||
      spaths.any fun path =>
        match evenKeys path with
        | some (_, _, c1, c2) => (c1 == p.1 && c2 == p.2.m) || (c1 == p.2.m && c2 == p.1)
        | none => false

/-- no atom with more than two neighbours carries two double bonds (hypothesis `NoHyperDouble` of the theorems that need no
    `KeysDisjoint`): executable form -/
def noHyperDoubleb (atoms : List PAtom) : Bool :=
  atoms.all fun a => !(decide (a.nbrs.length > cumMaxNbrs)) || decide ((dblAdj atoms a.num).length < 2)

end ChythonModel.Model.Pack
