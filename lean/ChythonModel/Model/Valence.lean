import ChythonModel.Gen.PeriodicTable
import ChythonModel.Model.Graph
/-!
# C04 — valence rules, implicit hydrogens, valence check, derived totals (executable model, core Lean only)

Mirrors, statement by statement,

* `Element._compiled_valence_rules`, `Element.valence_rules`        (chython/periodictable/base/element.py)
* `MoleculeContainer.calc_implicit`, `check_implicit`,
  `molecular_charge`, `is_radical`, `molecular_mass`, `brutto`, `fix_structure` (hydrogen part)
                                                                      (chython/containers/molecule.py)
* `Standardize.check_valence`                                        (chython/algorithms/standardize/molecule.py)

over the element rows regenerated from /repo (`Gen.periodicTable`).

Python → Lean conventions used here
* `dict`/`defaultdict` → insertion-ordered association list; `defaultdict(int)[k]` on a missing key reads 0
  (`cnt`), `defaultdict(list)[k].append` creates the key at the end (`appendRule`).
* `set` of `(order, Z)` pairs → duplicate-free list (`setAdd`); only membership is ever observed.
* a Python `raise`/`KeyError`/`IndexError`/`TypeError` is an `Except`/`Option` failure, never a default value.
* `atom._implicit_hydrogens = None` is `none : Option Nat`.
* masses: every tabulated literal has ≤ 6 decimals and is stored ×10⁶ (`Gen`), so
  `sum(x * mass[i])` is an exact natural number of 10⁻¹² units (`pico`).

One Python subtlety is *not* reproduced operationally: `explicit_dict[k] >= c` on the `defaultdict` inserts a
missing key `k` (value 0) and so could influence the `s.issubset(explicit_dict)` test of *later* rules. It can
only happen when a rule's `d` has a key that is not in its `s`; `Props.C04.compiled_set_eq_dict_keys` proves that
for every compiled rule of every element `s` is exactly the key set of `d`, so the insertion never happens.
-/
namespace ChythonModel.Model.Valence
open ChythonModel.Gen ChythonModel.Model

/-- `(bond order, atomic number)` — the keys of `explicit_dict` / members of `explicit_set`. -/
abbrev BE := Nat × Nat

/-- one compiled rule `(explicit_set, explicit_dict, implicit H)` -/
structure Rule where
  set : List BE
  dict : List (BE × Nat)
  h : Nat
  deriving Repr, DecidableEq, Inhabited

/-- key `(charge, is_radical, sum of explicit bond orders)` -/
abbrev Key := Int × Bool × Nat
/-- the compiled table: insertion-ordered `dict` of rule lists -/
abbrev Rules := List (Key × List Rule)

inductive PyErr where
  | indexError            -- `_common_valences[0]` on an empty tuple
  | keyError (s : String) -- `elements_classes[e]` for an unknown symbol
  | atomKeyError (n : Nat) -- `self._atoms[n]` / `self._bonds[n]` for a missing atom
  | typeError             -- `None * float`, `int + None`
  deriving Repr, DecidableEq

/-! ## `_compiled_valence_rules` -/

/-- `rules[k].append(r)` on a `defaultdict(list)` -/
def appendRule : Rules → Key → Rule → Rules
  | [], k, r => [(k, [r])]
  | (k', rs) :: tl, k, r => if k' == k then (k', rs ++ [r]) :: tl else (k', rs) :: appendRule tl k r

/-- `explicit_dict[k] += 1` on a `defaultdict(int)` -/
def dictIncr : List (BE × Nat) → BE → List (BE × Nat)
  | [], k => [(k, 1)]
  | (k', c) :: tl, k => if k' == k then (k', c + 1) :: tl else (k', c) :: dictIncr tl k

/-- `explicit_set.add(k)` -/
def setAdd (s : List BE) (k : BE) : List BE := if s.contains k then s else s ++ [k]

/-- `elements_classes = {x.__name__: x.atomic_number for x in Element.__subclasses__()}` then `[e]`:
    a dict comprehension keeps the *last* value of a repeated key. -/
def symZ (table : List ElemRow) (s : String) : Option Nat :=
  (table.reverse.find? (·.sym == s)).map (·.z)

/-- the loop `for b, e in environment:` building `(explicit_set, explicit_dict)` -/
def compileEnv (table : List ElemRow) : List (Nat × String) → List BE → List (BE × Nat) →
    Except PyErr (List BE × List (BE × Nat))
  | [], s, d => .ok (s, d)
  | (b, e) :: tl, s, d =>
    match symZ table e with
    | none => .error (.keyError e)
    | some z => compileEnv table tl (setAdd s (b, z)) (dictIncr d (b, z))

/-- `for h in range(n + 1): rules[(c, r, valence - h)].append((s, d, h))`, `h` counting up from `h0` -/
def appendRange (t : Rules) (c : Int) (r : Bool) (valence : Nat) (s : List BE) (d : List (BE × Nat)) :
    (fuel : Nat) → (h0 : Nat) → Rules
  | 0, _ => t
  | fuel + 1, h0 => appendRange (appendRule t (c, r, valence - h0) ⟨s, d, h0⟩) c r valence s d fuel (h0 + 1)

/-- `for valence in vs: rules[(0, False, valence)].append((set(), {}, 0))` -/
def appendCommon (t : Rules) : List Nat → Rules
  | [] => t
  | v :: vs => appendCommon (appendRule t (0, false, v) ⟨[], [], 0⟩) vs

/-- the loop over `_valences_exceptions` -/
def appendExceptions (table : List ElemRow) (t : Rules) :
    List (Int × Bool × Nat × List (Nat × String)) → Except PyErr Rules
  | [] => .ok t
  | (charge, rad, implicit, env) :: tl =>
    match compileEnv table env [] [] with
    | .error e => .error e
    | .ok (s, d) =>
      let explicit := (env.map (·.1)).sum
      if implicit != 0 then
        appendExceptions table (appendRange t charge rad (explicit + implicit) s d (implicit + 1) 0) tl
      else
        appendExceptions table (appendRule t (charge, rad, explicit) ⟨s, d, 0⟩) tl

/-- `Element._compiled_valence_rules` of the element described by row `r`. -/
def compileRules (table : List ElemRow) (r : ElemRow) : Except PyErr Rules :=
  match r.common with
  | [] => .error .indexError
  | v0 :: rest =>
    let base : Rules :=
      if v0 != 0 && r.z != 1 then
        appendCommon (appendRange [] 0 false v0 [] [] (v0 + 1) 0) rest
      else
        appendCommon [] (v0 :: rest)
    appendExceptions table base r.exc

/-- `Element.from_atomic_number`: dict comprehension, last row with that number wins. -/
def rowOfZ (table : List ElemRow) (z : Nat) : Option ElemRow := table.reverse.find? (·.z == z)

/-! ## `calc_implicit` / `check_implicit` on one atom context -/

/-- what `calc_implicit(n)` reads: the atom's number/charge/radical and, in `_bonds[n]` order, the
    `(bond order, neighbour atomic number)` pairs. -/
structure Ctx where
  z : Nat
  charge : Int
  radical : Bool
  bonds : List BE
  deriving Repr, DecidableEq, Inhabited

/-- bonds that enter `explicit_sum` / `explicit_dict`: neither aromatic (4) nor special (8) -/
def counted (bs : List BE) : List BE := bs.filter fun b => b.1 != 4 && b.1 != 8

/-- `explicit_sum` -/
def explicitSum (bs : List BE) : Nat := ((counted bs).map (·.1)).sum

/-- `explicit_dict` (insertion ordered) -/
def explicitDict (bs : List BE) : List (BE × Nat) := (counted bs).foldl dictIncr []

/-- `explicit_dict[k]` of a `defaultdict(int)`: 0 when absent -/
def cnt (d : List (BE × Nat)) (k : BE) : Nat := (d.lookup k).getD 0

/-- `k in explicit_dict` -/
def hasKey (d : List (BE × Nat)) (k : BE) : Bool := d.any (·.1 == k)

/-- `s.issubset(explicit_dict) and all(explicit_dict[k] >= c for k, c in d.items())` -/
def ruleMatches (ed : List (BE × Nat)) (r : Rule) : Bool :=
  r.set.all (hasKey ed) && r.dict.all fun kc => cnt ed kc.1 ≥ kc.2

/-- number of aromatic bonds -/
def aromaCount (bs : List BE) : Nat := (bs.filter (·.1 == 4)).length

/-- `atom.valence_rules(v)`: `none` is `ValenceError` (a `KeyError` of the compiled dict) -/
def valenceRules (t : Rules) (c : Int) (r : Bool) (v : Nat) : Option (List Rule) := t.lookup (c, r, v)

/-- the final loop of `calc_implicit`: first matching rule gives the count -/
def firstRule (ed : List (BE × Nat)) : List Rule → Option Nat
  | [] => none
  | r :: rs => if ruleMatches ed r then some r.h else firstRule ed rs

/-- `calc_implicit` given the element's compiled table. Result = the new `_implicit_hydrogens`. -/
def calcWith (t : Rules) (c : Ctx) : Option Nat :=
  if c.z == 1 then some 0
  else
    let aroma := aromaCount c.bonds
    if aroma != 0 && !(c.charge == 0 && !c.radical && c.z == 6) then none
    else
      let es := explicitSum c.bonds
      if aroma == 2 then (if es == 0 then some 1 else if es == 1 then some 0 else none)
      else if aroma == 3 then (if es != 0 then none else some 0)
      else if aroma != 0 then none
      else
        match valenceRules t c.charge c.radical es with
        | none => none
        | some rules => firstRule (explicitDict c.bonds) rules

/-- `check_implicit` given the element's compiled table. -/
def checkWith (t : Rules) (c : Ctx) (h : Nat) : Bool :=
  if c.z == 1 then h == 0
  else if aromaCount c.bonds != 0 then false
  else
    match valenceRules t c.charge c.radical (explicitSum c.bonds) with
    | none => false
    | some rules => rules.any fun r => h == r.h && ruleMatches (explicitDict c.bonds) r

/-- The compiled table of the element with number `z` in the regenerated periodic table.
    `none` when the number is unknown or compilation raises (never happens: `Props.C04.compile_total`). -/
def tableOf (z : Nat) : Option Rules :=
  match rowOfZ periodicTable z with
  | none => none
  | some r => match compileRules periodicTable r with
    | .ok t => some t
    | .error _ => none

/-- `calc_implicit` for an atom context over the real tables; outer `none` = Python raised. -/
def calcImplicit (c : Ctx) : Option (Option Nat) := (tableOf c.z).map (calcWith · c)

def checkImplicit (c : Ctx) (h : Nat) : Option Bool := (tableOf c.z).map (checkWith · c h)

/-! ## molecule level -/

/-- `(bond.order, self._atoms[m].atomic_number)` for one item of `_bonds[n]`; `none` = `KeyError` -/
def nbrEntry (atoms : List (Nat × Atom)) (kb : Nat × Bond) : Option BE :=
  (atoms.lookup kb.1).map fun (x : Atom) => (kb.2.order, x.z)

/-- the context `calc_implicit(n)` reads from `_atoms` / `_bonds`; `none` = `KeyError` -/
def ctxOf (m : Mol) (n : Nat) : Option Ctx :=
  match m.atoms.lookup n, m.adj.lookup n with
  | some a, some nb => (nb.mapM (nbrEntry m.atoms)).map fun bs => ⟨a.z, a.charge, a.radical, bs⟩
  | _, _ => none

/-- new `_implicit_hydrogens` of atom `n` -/
def calcImplicitMol (m : Mol) (n : Nat) : Option (Option Nat) := (ctxOf m n).bind calcImplicit

def checkImplicitMol (m : Mol) (n : Nat) (h : Nat) : Option Bool := (ctxOf m n).bind (checkImplicit · h)

/-- `atom._implicit_hydrogens = h` -/
def withH (a : Atom) (h : Option Nat) : Atom := { a with implH := h }

def setHEntry (n : Nat) (h : Option Nat) (p : Nat × Atom) : Nat × Atom :=
  if p.1 == n then (p.1, withH p.2 h) else p

/-- assignment `self._atoms[n]._implicit_hydrogens = h` -/
def setH (m : Mol) (n : Nat) (h : Option Nat) : Mol := { m with atoms := m.atoms.map (setHEntry n h) }

/-- `for n in self._atoms: self.calc_implicit(n)` (the hydrogen part of `fix_structure`, `_changed` empty) -/
def fixLoop : List Nat → Mol → Option Mol
  | [], m => some m
  | n :: ns, m => match calcImplicitMol m n with
    | none => none
    | some h => fixLoop ns (setH m n h)

def fixStructure (m : Mol) : Option Mol := fixLoop m.ids m

/-- `check_valence`: `[n for n, a in self.atoms() if a.implicit_hydrogens is None]` -/
def checkValence (m : Mol) : List Nat := (m.atoms.filter (·.2.implH.isNone)).map (·.1)

/-- `molecular_charge` -/
def molecularCharge (m : Mol) : Int := (m.atoms.map (·.2.charge)).sum

/-- `is_radical` -/
def isRadical (m : Mol) : Bool := m.atoms.any (·.2.radical)

/-- `Counter` update `c[k] += v` (insertion ordered) -/
def counterAdd : List (String × Nat) → String → Nat → List (String × Nat)
  | [], k, v => [(k, v)]
  | (k', c) :: tl, k, v => if k' == k then (k', c + v) :: tl else (k', c) :: counterAdd tl k v

/-- `c[k]` of a `Counter`: 0 when absent -/
def counterGet (c : List (String × Nat)) (k : String) : Nat := (c.lookup k).getD 0

/-- `sum(...)` of a generator whose terms may fail (`None` in arithmetic raises `TypeError`): `none` as soon as
    one term is `none`, otherwise the sum. -/
def optSum : List (Option Nat) → Option Nat
  | [] => some 0
  | x :: tl => match x, optSum tl with
    | some h, some s => some (h + s)
    | _, _ => none

/-- `sum(a.implicit_hydrogens for _, a in self.atoms())`; `none` = `TypeError` (`int + None`) -/
def implicitTotal (atoms : List (Nat × Atom)) : Option Nat := optSum (atoms.map (·.2.implH))

/-- `atomic_symbol` through the regenerated table; `none` if the number is unknown -/
def symOf (z : Nat) : Option String := (rowOfZ periodicTable z).map (·.sym)

/-- `Counter(a.atomic_symbol for _, a in self.atoms())` -/
def symbolCounter : List (Nat × Atom) → List (String × Nat) → Option (List (String × Nat))
  | [], acc => some acc
  | (_, a) :: tl, acc => match symOf a.z with
    | none => none
    | some s => symbolCounter tl (counterAdd acc s 1)

/-- `brutto`: `c = Counter(symbols); c['H'] += sum(implicit); dict(c)` -/
def brutto (m : Mol) : Except PyErr (List (String × Nat)) :=
  match symbolCounter m.atoms [] with
  | none => .error .typeError
  | some c => match implicitTotal m.atoms with
    | none => .error .typeError
    | some h => .ok (counterAdd c "H" h)

/-- `atomic_mass` in 10⁻¹² units: `sum(x * mass[i] for i, x in distribution.items())` or `mass[isotope]`.
    `none` = `KeyError` of the mass table. -/
def atomicMassPico (r : ElemRow) : Option Nat → Option Nat
  | some i => (r.mass.lookup i).map (· * 1000000)
  | none => r.dist.foldl (fun acc (ix : Nat × Nat) => match acc, r.mass.lookup ix.1 with
      | some s, some mv => some (s + ix.2 * mv)
      | _, _ => none) (some 0)

/-- one term `a.atomic_mass + a.implicit_hydrogens * h` (10⁻¹² units); `none` = the term raises -/
def massTerm (hm : Nat) (a : Atom) : Option Nat :=
  match (rowOfZ periodicTable a.z).bind (atomicMassPico · a.isotope), a.implH with
  | some am, some h => some (am + h * hm)
  | _, _ => none

/-- `_H().atomic_mass` -/
def hydrogenMassPico : Option Nat := (rowOfZ periodicTable 1).bind (atomicMassPico · none)

/-- `molecular_mass` in 10⁻¹² units: `sum(a.atomic_mass + a.implicit_hydrogens * h for _, a in self.atoms())` -/
def molecularMassPico (m : Mol) : Except PyErr Nat :=
  match hydrogenMassPico with
  | none => .error .typeError
  | some hm => match optSum (m.atoms.map fun p => massTerm hm p.2) with
    | none => .error .typeError
    | some s => .ok s

/-! ## `implicify_hydrogens` / `explicify_hydrogens` (the operations that *write* hydrogen counts besides `calc_implicit`) -/

/-- bonds entering `explicit_sum`/`explicit_dict` inside `implicify_hydrogens`: only special bonds (8) are skipped —
    an aromatic bond contributes its order 4 there ("aromatic rings don't match any rule") -/
def counted8 (bs : List BE) : List BE := bs.filter fun b => b.1 != 8

inductive ScanStep where
  | stop            -- `valence_rules` raised `ValenceError`: `break`
  | found (h : Nat) -- a rule matches with `h >= i`
  | next            -- no such rule: `continue` with one explicit hydrogen fewer
  deriving Repr, DecidableEq

/-- one iteration of `for i in range(len_h, 0, -1)`: `bs` are the bonds of the atom except those to `hs[:i]` -/
def scanStep (t : Rules) (c : Int) (r : Bool) (bs : List BE) (i : Nat) : ScanStep :=
  match valenceRules t c r (((counted8 bs).map (·.1)).sum) with
  | none => .stop
  | some rules =>
    match rules.find? fun q => ruleMatches ((counted8 bs).foldl dictIncr []) q && decide (q.h ≥ i) with
    | some q => .found q.h
    | none => .next

/-- the scan of `implicify_hydrogens` for one heavy atom: `others` = its bonds to atoms that are not removable
    hydrogens, `lenH` = number of removable hydrogens; tries to remove `i = lenH, lenH-1, …, 1` of them.
    `some (i, h)`: the first `i` hydrogens are removed and the atom's count becomes `h`. -/
def implicifyScan (t : Rules) (c : Int) (r : Bool) (others : List BE) (lenH : Nat) : Nat → Option (Nat × Nat)
  | 0 => none
  | i + 1 =>
    match scanStep t c r (others ++ List.replicate (lenH - (i + 1)) (1, 1)) (i + 1) with
    | .stop => none
    | .found h => some (i + 1, h)
    | .next => implicifyScan t c r others lenH i

/-- `explicit[m].append(n)` on a `defaultdict(list)` -/
def listDictAppend : List (Nat × List Nat) → Nat → Nat → List (Nat × List Nat)
  | [], k, v => [(k, [v])]
  | (k', vs) :: tl, k, v => if k' == k then (k', vs ++ [v]) :: tl else (k', vs) :: listDictAppend tl k v

inductive OpErr where
  | valenceError   -- chython.exceptions.ValenceError
  | keyError       -- a missing atom / element (malformed structure)
  deriving Repr, DecidableEq

/-- first loop of `implicify_hydrogens`: heavy atom ↦ its removable explicit hydrogens (protium or unlabelled,
    single bonded, not H–H); raises `ValenceError` for a hydrogen with two bonds or a multiple bond. -/
def collectExplicit (m : Mol) : List (Nat × Atom) → List (Nat × List Nat) → Except OpErr (List (Nat × List Nat))
  | [], acc => .ok acc
  | (n, a) :: tl, acc =>
    if a.z == 1 && (a.isotope == none || a.isotope == some 1) then
      match m.adj.lookup n with
      | none => .error .keyError
      | some nb =>
        if nb.length > 1 then .error .valenceError
        else
          let rec go : List (Nat × Bond) → List (Nat × List Nat) → Except OpErr (List (Nat × List Nat))
            | [], acc => .ok acc
            | (k, b) :: rest, acc =>
              if b.order == 1 then
                match m.atoms.lookup k with
                | none => .error .keyError
                | some x => if x.z != 1 then go rest (listDictAppend acc k n) else go rest acc
              else if b.order != 8 then .error .valenceError
              else go rest acc
          match go nb acc with
          | .error e => .error e
          | .ok acc' => collectExplicit m tl acc'
    else collectExplicit m tl acc

/-- second loop: for every heavy atom with removable hydrogens run the scan; returns (`to_remove`, `fixed`) -/
def scanAll (m : Mol) : List (Nat × List Nat) → List Nat → List (Nat × Nat) → Except OpErr (List Nat × List (Nat × Nat))
  | [], rem, fixed => .ok (rem, fixed)
  | (n, hs) :: tl, rem, fixed =>
    match m.atoms.lookup n, m.adj.lookup n with
    | some a, some nb =>
      match (nb.filter fun kb => !hs.contains kb.1).mapM (nbrEntry m.atoms), tableOf a.z with
      | some others, some t =>
        match implicifyScan t a.charge a.radical others hs.length hs.length with
        | some (i, h) => scanAll m tl (rem ++ hs.take i) (fixed ++ [(n, h)])
        | none => scanAll m tl rem fixed
      | _, _ => .error .keyError
    | _, _ => .error .keyError

/-- `implicify_hydrogens` on the atom/bond tables (labels and stereo are outside this model) -/
def implicify (m : Mol) : Except OpErr Mol :=
  match collectExplicit m m.atoms [] with
  | .error e => .error e
  | .ok ex =>
    match scanAll m ex [] [] with
    | .error e => .error e
    | .ok (rem, fixed) =>
      let atoms := (m.atoms.filter fun p => !rem.contains p.1).map fun p =>
        match fixed.lookup p.1 with
        | some h => (p.1, withH p.2 (some h))
        | none => p
      let adj := (m.adj.filter fun p => !rem.contains p.1).map fun p =>
        (p.1, p.2.filter fun kb => !rem.contains kb.1)
      .ok ⟨atoms, adj⟩

/-- `[n] * a.implicit_hydrogens` for every atom; `none` = `TypeError` → `ValenceError` -/
def toAdd : List (Nat × Atom) → Option (List Nat)
  | [] => some []
  | (n, a) :: tl => match a.implH, toAdd tl with
    | some h, some rest => some (List.replicate h n ++ rest)
    | _, _ => none

/-- the loop of `explicify_hydrogens`: new hydrogens numbered from `nxt` upwards -/
def addHydrogens : List Nat → Nat → Mol → Mol
  | [], _, m => m
  | n :: tl, nxt, m =>
    let b : Bond := ⟨1, none⟩
    let atoms := (m.atoms.map (setHEntry n (some 0))) ++ [(nxt, { z := 1, implH := some 0 })]
    let adj := (m.adj.map fun p => if p.1 == n then (p.1, p.2 ++ [(nxt, b)]) else p) ++ [(nxt, [(n, b)])]
    addHydrogens tl (nxt + 1) ⟨atoms, adj⟩

/-- `explicify_hydrogens()` (default `start_map`) -/
def explicify (m : Mol) : Except OpErr Mol :=
  match toAdd m.atoms with
  | none => .error .valenceError
  | some [] => .ok m
  | some l => .ok (addHydrogens l (m.ids.foldl max 0 + 1) m)

/-- total number of hydrogens of a molecule: explicit H atoms + Σ implicit; `none` if a mark is missing -/
def totalHydrogens (m : Mol) : Option Nat :=
  (implicitTotal m.atoms).map (· + (m.atoms.filter (·.2.z == 1)).length)


end ChythonModel.Model.Valence
