import ChythonModel.Py.Wire
/-!
# C12 — the SMILES parser's stereo bookkeeping (`chython/files/daylight/parser.py`), SMILES token types only

Mirrors `parser(tokens, strong_cycle)` for the token types the SMILES tokenizer produces:
`0` atom, `8` aromatic atom, `1` bond (order), `2` `(`, `3` `)`, `4` `.`, `6` ring-closure number, `9` `/` `\`.
(Query-bond types 10/12 only occur in SMARTS and are outside this model.)

Accept/reject behaviour and bond orders belong to property C03 and are mirrored here only as far as needed to run; the
correspondence compares `order`, `stereo_atoms`, `stereo_bonds` and `starts` on inputs the real parser accepts.

Modelled state: `order` (text-order neighbour lists with the reserved ring-closure slot), `stereo_atoms`, `stereo_bonds`
(dict of dicts, insertion order kept because the reader uses `popitem()`), `starts`, `bonds`, the `cycles` table, branch
stack, `previous` bond, and every `IncorrectSmiles` exit.  Atom payloads are reduced to (aromatic?, stereo mark).
-/
namespace ChythonModel.Model.StereoParse

inductive Tok
  | atom (aromatic : Bool) (stereo : Option Bool)
  | bond (order : Nat)
  | dir (up : Bool)
  | dot
  | lpar
  | rpar
  | ring (n : Nat)
  deriving Repr, DecidableEq

/-- `previous`: the pending bond token -/
inductive Prev
  | bond (order : Nat)      -- token type 1
  | dir (up : Bool)         -- token type 9
  | dot                     -- token type 4
  deriving Repr, DecidableEq

/-- `d[k]` lookup on an insertion-ordered association list -/
def aget {κ ν} [DecidableEq κ] : List (κ × ν) → κ → Option ν
  | [], _ => none
  | (k, v) :: tl, c => if c = k then some v else aget tl c

/-- `d[k] = v`: update in place, or append a new key at the end (CPython dict order) -/
def aset {κ ν} [DecidableEq κ] : List (κ × ν) → κ → ν → List (κ × ν)
  | [], a, v => [(a, v)]
  | (k, w) :: tl, a, v => if k = a then (a, v) :: tl else (k, w) :: aset tl a v

abbrev SB := List (Nat × List (Nat × Bool))

/-- `stereo_bonds[a][b] = v` on a `defaultdict(dict)` -/
def sbSet (sb : SB) (a b : Nat) (v : Bool) : SB := aset sb a (aset ((aget sb a).getD []) b v)

def sbGet (sb : SB) (a b : Nat) : Option Bool := (aget sb a).bind (aget · b)

structure St where
  nAtoms : Nat := 0
  arom : List Bool := []                       -- atoms_types[i] == 8
  bonds : List (Nat × Nat × Nat) := []
  order : List (List (Option Nat)) := []       -- order[i]
  stereoAtoms : List (Nat × Bool) := []
  stereoBonds : SB := []
  starts : List Nat := []
  lastNum : Nat := 0
  stack : List Nat := []
  cycles : List (Nat × (Nat × Option Prev × Nat)) := []
  previous : Option Prev := none
  opened : Bool := false                       -- `(` seen and no atom of the side chain yet
  log : Nat := 0
  deriving Repr

def orderAppend (o : List (List (Option Nat))) (i : Nat) (v : Option Nat) : List (List (Option Nat)) :=
  -- defaultdict(list): index i exists for every created atom (we create the slot with the atom)
  o.mapIdx fun j l => if j = i then l ++ [v] else l

def orderSet (o : List (List (Option Nat))) (i ind : Nat) (v : Nat) : List (List (Option Nat)) :=
  o.mapIdx fun j l => if j = i then l.mapIdx (fun k x => if k = ind then some v else x) else l

def isArom (s : St) (i : Nat) : Bool := s.arom.getD i false

inductive Err
  | notAtomStarted | bondBeforeSideChain | bondBeforeClosure | closeMoreThanOpen | twoBonds | startedFromBond
  | dotCycle | notEqualCycleBonds | unbalanced | cycleNotFinished | bondOnTheEnd
  deriving Repr, DecidableEq

def implicitOrder (s : St) (a b : Nat) : Nat := if isArom s a && isArom s b then 4 else 1

/-- closing a ring bond: the big `else` branch of the `token_type == 6` case. Returns the new state. -/
def closeRing (s : St) (strong : Bool) (tok : Nat) (a : Nat) (ob : Option Prev) (ind : Nat) : Except Err St :=
  let last := s.lastNum
  -- (b, stereo_bonds', log')
  let r : Except Err (Nat × SB × Nat × Option Prev) :=
    match ob, s.previous with
    | some (.dir o), none => .ok (1, sbSet (sbSet s.stereoBonds a last o) last a (!o), s.log, none)
    | some (.bond o), none => if strong then .error .notEqualCycleBonds else .ok (o, s.stereoBonds, s.log + 1, none)
    | some .dot, none => .error .dotCycle    -- not reachable: a dot is never stored with an opened closure
    | some obv, some pv =>
      match pv with
      | .dir b =>
        match obv with
        | .dir o => .ok (1, sbSet (sbSet s.stereoBonds a last o) last a b, s.log, none)
        | .bond 1 => .ok (1, sbSet (sbSet s.stereoBonds a last (!b)) last a b, s.log, none)
        | _ => .error .notEqualCycleBonds
      | .bond b =>
        match obv with
        | .dir o => if b != 1 then .error .notEqualCycleBonds
                    else .ok (b, sbSet (sbSet s.stereoBonds a last o) last a (!o), s.log, none)
        | .bond o => if b != o then .error .notEqualCycleBonds else .ok (b, s.stereoBonds, s.log, none)
        | .dot => .error .notEqualCycleBonds
      | .dot => .error .dotCycle
    | none, some pv =>
      match pv with
      | .dir b => .ok (1, sbSet (sbSet s.stereoBonds last a b) a last (!b), s.log, none)
      | .bond b => if strong then .error .notEqualCycleBonds else .ok (b, s.stereoBonds, s.log + 1, none)
      | .dot => .error .dotCycle
    | none, none => .ok (implicitOrder s last a, s.stereoBonds, s.log, none)
  match r with
  | .error e => .error e
  | .ok (b, sb, lg, pv) =>
    .ok { s with bonds := s.bonds ++ [(last, a, b)], stereoBonds := sb, log := lg, previous := pv,
                 order := orderAppend (orderSet s.order a ind last) last (some a),
                 cycles := s.cycles.filter (·.1 != tok) }

def step (strong : Bool) (s : St) : Tok → Except Err St
  | .lpar =>
    match s.previous with
    | some _ => .error .bondBeforeSideChain
    | none => .ok { s with stack := s.lastNum :: s.stack, opened := true }
  | .rpar =>
    match s.previous with
    | some _ => .error .bondBeforeClosure
    | none =>
      match s.stack with
      | [] => .error .closeMoreThanOpen
      | x :: tl => .ok { s with lastNum := x, stack := tl }
  | .bond o =>
    if s.previous.isSome then .error .twoBonds
    else if s.nAtoms = 0 then .error .startedFromBond
    else .ok { s with previous := some (.bond o) }
  | .dir u =>
    if s.previous.isSome then .error .twoBonds
    else if s.nAtoms = 0 then .error .startedFromBond
    else .ok { s with previous := some (.dir u) }
  | .dot =>
    if s.previous.isSome then .error .twoBonds
    else if s.nAtoms = 0 then .error .startedFromBond
    else .ok { s with previous := some .dot }
  | .ring n =>
    if s.previous = some .dot then .error .dotCycle
    else if s.opened then .error .bondBeforeSideChain      -- `(=1`: cycle number right after `(`
    else
      match aget s.cycles n with
      | none =>
        let ind := (s.order.getD s.lastNum []).length
        .ok { s with cycles := s.cycles ++ [(n, (s.lastNum, s.previous, ind))],
                     order := orderAppend s.order s.lastNum none, previous := none }
      | some (a, ob, ind) => closeRing s strong n a ob ind
  | .atom ar st =>
    let i := s.nAtoms
    let s1 : St := { s with order := s.order ++ [[]], arom := s.arom ++ [ar] }
    let link (b : Nat) (s : St) : St :=
      { s with bonds := s.bonds ++ [(i, s.lastNum, b)],
               order := orderAppend (orderAppend s.order s.lastNum (some i)) i (some s.lastNum) }
    let s2 : St :=
      if s.nAtoms = 0 then { s1 with starts := s1.starts ++ [i] }
      else
        match s.previous with
        | none => link (if ar && isArom s s.lastNum then 4 else 1) s1
        | some (.dir b) =>
          let s' := link (if ar && isArom s s.lastNum then 4 else 1) s1
          { s' with stereoBonds := sbSet (sbSet s'.stereoBonds s.lastNum i b) i s.lastNum (!b), previous := none }
        | some (.bond b) => { link b s1 with previous := none }
        | some .dot => { s1 with starts := s1.starts ++ [i], previous := none }
    let s3 : St := match st with
      | some m => { s2 with stereoAtoms := s2.stereoAtoms ++ [(i, m)] }
      | none => s2
    .ok { s3 with nAtoms := i + 1, lastNum := i, opened := false }

/-- the initial check `tokens[0]` is an atom (or `(` followed by an atom) -/
def startsWithAtom : List Tok → Bool
  | .atom _ _ :: _ => true
  | .lpar :: .atom _ _ :: _ => true
  | _ => false

def run (strong : Bool) (toks : List Tok) : Except Err St :=
  if !startsWithAtom toks then .error .notAtomStarted
  else
    match toks.foldlM (step strong) ({} : St) with
    | .error e => .error e
    | .ok s =>
      if !s.stack.isEmpty then .error .unbalanced
      else if !s.cycles.isEmpty then .error .cycleNotFinished
      else if s.previous.isSome then .error .bondOnTheEnd
      else .ok s

/-! ## reader: direction marks → `add_cis_trans_stereo` calls (`postprocess_molecule`) -/

/-- `dict.popitem()`: the last inserted item; `none` = `KeyError` on an empty dict -/
def popitem (l : List (Nat × Bool)) : Option (Nat × Bool) := l.getLast?

/-- the loop over `stereo_bonds` in `postprocess_molecule`: one call `(n, m, n1, n2, s1 == s2)` per labelled double
bond; `ctc` = `_stereo_cis_trans_counterpart`. `none` = a `KeyError` from `popitem` on an emptied dict. -/
def readerCisTransCalls (sb : SB) (ctc : List (Nat × Nat)) : Option (List (Nat × Nat × Nat × Nat × Bool)) :=
  let rec go (rest : SB) (seen : List Nat) (acc : List (Nat × Nat × Nat × Nat × Bool)) :
      Option (List (Nat × Nat × Nat × Nat × Bool)) :=
    match rest with
    | [] => some acc
    | (n, ns) :: tl =>
      if seen.contains n then go tl seen acc
      else
        match aget ctc n with
        | none => go tl seen acc
        | some m =>
          match aget sb m with
          | none => go tl seen acc
          | some ms =>
            match popitem ms, popitem ns with
            | some (n2, s2), some (n1, s1) => go tl (m :: seen) (acc ++ [(n, m, n1, n2, s1 == s2)])
            | _, _ => none
  go sb [] []

end ChythonModel.Model.StereoParse
