import ChythonModel.Model.Morgan
import ChythonModel.Model.Stereo
/-!
# `MoleculeStereo._chiral_morgan` for tetrahedral labels  (C01; `chython/algorithms/stereo.py`)

Modelled: `tetrahedrons`, `stereogenic_tetrahedrons`, `_chiral_morgan` and `__differentiation` for molecules whose
stereo labels are all on tetrahedral carbon atoms (no labelled double bond, no labelled allene centre), as long as the
"ring group" branch (`atoms_groups`, where the code negates half of a group *in set iteration order* — the recorded
gap of the property) is not entered. Everything else is answered `notModelled`, never guessed.

```python
morgan = self.atoms_order.copy()
atoms_stereo = stereo_atoms.intersection(self.tetrahedrons); allenes_stereo = stereo_atoms - atoms_stereo
while True:
    morgan, atoms_stereo, …, atoms_groups, … = self.__differentiation(morgan, atoms_stereo, …)
    if not atoms_groups and …: break
    …negate half of each group (set order)…; morgan = _morgan(morgan, self.int_adjacency)
return morgan

def __differentiation(self, morgan, atoms_stereo, …):
    while True:
        morgan_update = {}; atoms_groups = []
        if atoms_stereo:
            grouped_stereo = defaultdict(list)
            for n in atoms_stereo: grouped_stereo[morgan[n]].append(n)
            for group in grouped_stereo.values():
                if not len(group) % 2:
                    if len(env := tetrahedrons[group[0]]) == len({morgan[x] for x in env}):
                        s = [n for n in group if translate_tetrahedron(n, sorted(tetrahedrons[n], key=morgan.get))]
                        if 0 < len(s) < len(group):
                            for m in s: morgan_update[m] = -morgan[m]
                        for n in group: atoms_stereo.discard(n)
                    else: atoms_groups.append(group)
        if not morgan_update: break
        morgan = _morgan({**morgan, **morgan_update}, bonds)
    return morgan, atoms_stereo, …, atoms_groups, …
```
`atoms_stereo` is a Python `set`; the model keeps it as a duplicate-free list (dict order of the atoms). On the modelled
path the result does not depend on the iteration order of that set: groups are processed independently, updates go to
distinct keys, and `group[0]` is only used for a test that is the same for all members of a class on real molecules;
the correspondence check compares with the real code on every labelled molecule.
-/
namespace ChythonModel.Model.ChiralMorgan
open ChythonModel.Model ChythonModel.Model.Morgan ChythonModel.Model.Stereo

inductive Outcome where
  | ranks (r : List (Nat × Nat))
  | err (e : PyErr)
  | notModelled
  | fuelOut                          -- never returned when the caller gives enough fuel (theorem in Props/C01.lean)
  deriving Repr, DecidableEq

/-- `self._bonds[n]` -/
def nbrsOf (m : MolView) (n : Nat) : Except PyErr (List (Nat × Bond)) := getKey m.bonds n

/-- body of the `tetrahedrons` loop for one atom -/
def isTetra (m : MolView) (na : Nat × HAtom) : Except PyErr Bool :=
  if na.2.z == 6 && na.2.charge == 0 && !na.2.radical then
    match nbrsOf m na.1 with
    | .error e => .error e
    | .ok env =>
      if env.all (fun mb => mb.2.order == 1) then
        .ok (!((env.map fun mb => mb.2.order).foldl (· + ·) 0 > 4))
      else .ok false
  else .ok false

def exFilterM {α : Type} (p : α → Except PyErr Bool) : List α → Except PyErr (List α)
  | [] => pure []
  | a :: tl => do
    let b ← p a
    let r ← exFilterM p tl
    pure (if b then a :: r else r)

/-- `MoleculeStereo.tetrahedrons` -/
def tetrahedrons (m : MolView) : Except PyErr (List Nat) :=
  match exFilterM (isTetra m) m.atoms with
  | .error e => .error e
  | .ok l => .ok (l.map (·.1))

def exMapM {α β : Type} (f : α → Except PyErr β) : List α → Except PyErr (List β)
  | [] => pure []
  | a :: tl => do
    let b ← f a
    let r ← exMapM f tl
    pure (b :: r)

def exAllM {α : Type} (p : α → Except PyErr Bool) : List α → Except PyErr Bool
  | [] => pure true
  | a :: tl => do
    let b ← p a
    if b then exAllM p tl else pure false

/-- `atoms[x].is_forming_single_bonds` for a neighbour; `single z` = the flag of the element with atomic number `z` -/
def nbrSingle (single : Nat → Bool) (m : MolView) (mb : Nat × Bond) : Except PyErr Bool :=
  match getKey m.atoms mb.1 with
  | .error e => .error e
  | .ok a => .ok (single a.z)

/-- `atoms[x] != H` -/
def nbrHeavy (m : MolView) (mb : Nat × Bond) : Except PyErr Bool :=
  match getKey m.atoms mb.1 with
  | .error e => .error e
  | .ok a => .ok (a.z != 1)

/-- `stereogenic_tetrahedrons`, one atom of `tetrahedrons` -/
def stereogenicOne (single : Nat → Bool) (m : MolView) (n : Nat) : Except PyErr (Option (Nat × List Nat)) :=
  match nbrsOf m n with
  | .error e => .error e
  | .ok nb =>
    -- `any(not atoms[x].is_forming_single_bonds for x in bonds[n])`
    match exAllM (nbrSingle single m) nb with
    | .error e => .error e
    | .ok okAll =>
      if !okAll then .ok none else
      match exFilterM (nbrHeavy m) nb with
      | .error e => .error e
      | .ok env =>
        if (env.map (·.1)).length == 3 || (env.map (·.1)).length == 4 then .ok (some (n, env.map (·.1))) else .ok none

def stereogenicFrom (single : Nat → Bool) (m : MolView) : List Nat → Except PyErr (List (Nat × List Nat))
  | [] => .ok []
  | n :: tl =>
    match stereogenicOne single m n with
    | .error e => .error e
    | .ok x =>
      match stereogenicFrom single m tl with
      | .error e => .error e
      | .ok r => .ok (match x with | some e => e :: r | none => r)

def stereogenicTetrahedrons (single : Nat → Bool) (m : MolView) : Except PyErr (List (Nat × List Nat)) :=
  match tetrahedrons m with
  | .error e => .error e
  | .ok t => stereogenicFrom single m t

/-! ## one pass of `__differentiation` over the groups -/

/-- `morgan[x]` -/
def mget (morgan : Weights) (x : Nat) : Except PyErr Int := getKey morgan x

/-- first occurrences, in order (keys of `grouped_stereo`) -/
def dedupInts : List Int → List Int
  | [] => []
  | x :: tl => x :: (dedupInts tl).filter (· != x)

def keyOf (morgan : Weights) (n : Nat) : Except PyErr (Nat × Int) :=
  match mget morgan n with
  | .error e => .error e
  | .ok v => .ok (n, v)

/-- `sorted(env, key=morgan.get)` — stable; a missing key would compare `None` with `int` (TypeError): modelled as KeyError -/
def sortEnv (morgan : Weights) (env : List Nat) : Except PyErr (List Nat) :=
  match exMapM (keyOf morgan) env with
  | .error e => .error e
  | .ok keyed => .ok ((sortBy byValue keyed).map (·.1))

structure PassState where
  update : List (Nat × Int)        -- `morgan_update` (insertion order)
  discard : List Nat               -- atoms removed from `atoms_stereo`
  groups : List (List Nat)         -- `atoms_groups`
  deriving Repr

/-- `translate_tetrahedron(n, sorted(tetrahedrons[n], key=morgan.get))` -/
def signOf (tetra : List (Nat × List Nat)) (labels : List (Nat × Bool)) (morgan : Weights) (n : Nat) :
    Except PyErr Bool :=
  match getKey tetra n with
  | .error e => .error e
  | .ok order =>
    match sortEnv morgan order with
    | .error e => .error e
    | .ok env => translateTetra order env (fun _ => false) (labels.lookup n) none

/-- `morgan_update[m] = -morgan[m]` -/
def negOf (morgan : Weights) (n : Nat) : Except PyErr (Nat × Int) :=
  match mget morgan n with
  | .error e => .error e
  | .ok v => .ok (n, -v)

/-- `if 0 < len(s) < len(group): for m in s: morgan_update[m] = -morgan[m]` -/
def updatesOf (morgan : Weights) (s group : List Nat) : Except PyErr (List (Nat × Int)) :=
  if 0 < s.length && s.length < group.length then exMapM (negOf morgan) s else .ok []

/-- the body of `for group in grouped_stereo.values()` -/
def processGroup (tetra : List (Nat × List Nat)) (labels : List (Nat × Bool)) (morgan : Weights)
    (st : PassState) (group : List Nat) : Except PyErr PassState :=
  if group.length % 2 != 0 then .ok st else
  match group with
  | [] => .ok st
  | g0 :: _ =>
    match getKey tetra g0 with
    | .error e => .error e
    | .ok env0 =>
      match exMapM (mget morgan) env0 with
      | .error e => .error e
      | .ok vals =>
        if env0.length == numDistinct vals then
          match exFilterM (signOf tetra labels morgan) group with
          | .error e => .error e
          | .ok s =>
            match updatesOf morgan s group with
            | .error e => .error e
            | .ok upd => .ok { st with update := st.update ++ upd, discard := st.discard ++ group }
        else .ok { st with groups := st.groups ++ [group] }

def processGroups (tetra : List (Nat × List Nat)) (labels : List (Nat × Bool)) (morgan : Weights) :
    PassState → List (List Nat) → Except PyErr PassState
  | st, [] => .ok st
  | st, g :: tl =>
    match processGroup tetra labels morgan st g with
    | .error e => .error e
    | .ok st' => processGroups tetra labels morgan st' tl

/-- `grouped_stereo.values()`: atoms of `S` grouped by current weight, groups in first-occurrence order -/
def groupsOf (morgan : Weights) (S : List Nat) : Except PyErr (List (List Nat)) :=
  match exMapM (keyOf morgan) S with
  | .error e => .error e
  | .ok keyed =>
    let ks := dedupInts (keyed.map (·.2))
    .ok (ks.map fun k => (keyed.filter (fun nv => nv.2 == k)).map (·.1))

/-- one pass over all groups -/
def pass (tetra : List (Nat × List Nat)) (labels : List (Nat × Bool)) (morgan : Weights) (S : List Nat) :
    Except PyErr PassState :=
  match groupsOf morgan S with
  | .error e => .error e
  | .ok gs => processGroups tetra labels morgan ⟨[], [], []⟩ gs

/-- `{**morgan, **morgan_update}` (all updated keys are already present: order kept) -/
def applyUpdate (morgan : Weights) (upd : List (Nat × Int)) : Weights :=
  morgan.map fun nv => match upd.lookup nv.1 with | some v => (nv.1, v) | none => nv

def toWeights (r : List (Nat × Nat)) : Weights := r.map fun nv => (nv.1, (nv.2 : Int))

/-- result of `__differentiation`: final `morgan`, remaining `atoms_stereo`, `atoms_groups` -/
inductive DiffResult where
  | done (morgan : List (Nat × Nat)) (S : List Nat) (groups : List (List Nat))
  | err (e : PyErr)
  | fuelOut

/-- the `while True` loop of `__differentiation`; `morgan` is always an output of `_morgan` (positive ranks) -/
def differentiation (h : TupleHash) (bonds : IntAdj) (tetra : List (Nat × List Nat)) (labels : List (Nat × Bool)) :
    Nat → List (Nat × Nat) → List Nat → DiffResult
  | 0, _, _ => .fuelOut
  | fuel + 1, morgan, S =>
    let w := toWeights morgan
    match pass tetra labels w S with
    | .error e => .err e
    | .ok st =>
      let S' := S.filter (fun n => !st.discard.contains n)
      if st.update.isEmpty then .done morgan S' st.groups
      else
        match Morgan.morgan h (applyUpdate w st.update) bonds with
        | none => .err .keyError
        | some morgan' => differentiation h bonds tetra labels fuel morgan' S'

/-- `_chiral_morgan`. `labels` = atoms with `stereo is not None` and their stored sign (dict order);
    `bondLabelled` = some bond carries a label. -/
def chiralMorgan (h : TupleHash) (single : Nat → Bool) (m : MolView) (labels : List (Nat × Bool)) : Outcome :=
  if labels.isEmpty && (stereoBondAtoms m.bonds).isEmpty then
    match atomsOrder h m with
    | some r => .ranks r
    | none => .err .keyError
  else if !(stereoBondAtoms m.bonds).isEmpty then .notModelled          -- labelled double bonds
  else
    match atomsOrder h m with
    | none => .err .keyError
    | some r0 =>
      match tetrahedrons m with
      | .error e => .err e
      | .ok tet =>
        let S := (labels.map (·.1)).filter tet.contains
        if S.length != labels.length then .notModelled                   -- a labelled allene centre
        else
          match stereogenicTetrahedrons single m with
          | .error e => .err e
          | .ok tetra =>
            match differentiation h (intAdjacency m.bonds) tetra labels (S.length + 1) r0 S with
            | .err e => .err e
            | .fuelOut => .fuelOut
            | .done morgan _ groups =>
              if groups.isEmpty then .ranks morgan
              else .notModelled                                          -- the set-order "negate half of the group" branch

end ChythonModel.Model.ChiralMorgan
