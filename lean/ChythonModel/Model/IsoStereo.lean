import ChythonModel.Model.Iso
import ChythonModel.Model.Stereo
/-!
# C07 — executable model of the stereo post-filter of `QueryIsomorphism.get_mapping` and of `get_fast_mapping`

`chython/algorithms/isomorphism.py`:

* the body of `for mapping in self._get_mapping(...)` in `QueryIsomorphism.get_mapping` (the `for n, a in self.atoms()` loop with its
  `break`s, the `else:` bond loop, the lazily built `reverse` dict, the `next(x for x in self._bonds[t] if x in env)` neighbour choice)
  → `atomStep`, `bondStep`, `atomsPass`, `bondsPass`, `keepMapping`, `stereoFilter`, `queryGetMapping`;
* `MoleculeIsomorphism.get_fast_mapping` → `getFastMapping` (the two SMILES atom orders and the result of `self != other` are inputs);
* the `match_stereo=True` branch of `MoleculeIsomorphism.get_mapping` → `matchStereo` (per mapping of the underlying search the
  result of `get_fast_mapping(sub)` and the automorphisms of `sub` are inputs).

The sign translation itself (`_translate_tetrahedron_sign`, `_translate_cis_trans_sign`, `_translate_allene_sign`) is property C12's
model `Model/Stereo.lean`, imported.  The target's stereo tables (`stereogenic_tetrahedrons`, `stereogenic_allenes`,
`_stereo_allenes_terminals`, `stereogenic_cis_trans`, `_stereo_cis_trans_terminals`, `_stereo_cis_trans_centers`) are inputs read from the
real target.  Python exceptions are `Except PyErr` (a `StopIteration` escaping `next(...)` inside the generator surfaces as `RuntimeError`
to the caller: PEP 479); nothing is defaulted.  A generator that raises after some yields is modelled by the error alone (what
`list(...)` shows).  Core Lean only.
-/
namespace ChythonModel.Model.Iso
open ChythonModel.Model.Stereo

/-- the stereo marks of the query: `a.stereo` for `ExtendedQuery` atoms (else `None`), `b.stereo` per bond -/
structure QMarks where
  atom : Nat → Option Bool
  bond : Nat → Nat → Option Bool

/-- what the filter reads of the target -/
structure TLabels where
  atom : Nat → Option Bool                      -- `other.atom(m).stereo`
  bond : Nat → Nat → Option (Option Bool)       -- `other.bond(n, m).stereo`; outer `none` = no such bond (KeyError)
  tetra : List (Nat × List Nat)                 -- `stereogenic_tetrahedrons`
  allenes : List (Nat × Ends)                   -- `stereogenic_allenes`
  alleneTerm : List (Nat × Nat × Nat)           -- `_stereo_allenes_terminals`
  cisTrans : List ((Nat × Nat) × Ends)          -- `stereogenic_cis_trans`
  ctTerm : List (Nat × Nat × Nat)               -- `_stereo_cis_trans_terminals`
  ctCenter : List (Nat × Nat × Nat)             -- `_stereo_cis_trans_centers`
  isH : Nat → Bool                              -- `atoms[x] == H`

/-- `Graph.bonds()`: `seen.add(n)` then every neighbour not yet seen -/
def bondsGo : List (Nat × List Nat) → List Nat → List (Nat × Nat)
  | [], _ => []
  | (n, ms) :: rest, seen =>
    ((ms.filter fun m => !(n :: seen).contains m).map fun m => (n, m)) ++ bondsGo rest (n :: seen)

def bondsOf (g : Graph) : List (Nat × Nat) := bondsGo g.adj []

/-- `reverse = {m: n for n, m in mapping.items()}` -/
def reverseDict (mapping : Dict) : Dict := mapping.foldl (fun acc p => acc.set p.2 p.1) []

/-- `reverse.get(k)` where `k` may be `None` (never a key) -/
def optGet (rev : Dict) : Option Nat → Option Nat
  | none => none
  | some k => rev.lookup k

/-- `next(x for x in adj if x in env)`; an exhausted generator raises `StopIteration` -/
def firstInEnv (adj : List Nat) (env : List (Option Nat)) : Except PyErr Nat :=
  match adj.find? fun x => env.contains (some x) with
  | some x => .ok x
  | none => .error .stopIteration

/-- the lines shared by the allene and the cis-trans branch:
```
t1, t2 = reverse[ot1], reverse[ot2]
env = (reverse.get(on1), reverse.get(om1), reverse.get(on2), reverse.get(om2))
n1 = mapping[next(x for x in self._bonds[t1] if x in env)]
m1 = mapping[next(x for x in self._bonds[t2] if x in env)]
``` -/
def pickNeighbours (q : Graph) (mapping rev : Dict) (e : Ends) (ot1 ot2 : Nat) : Except PyErr (Nat × Nat) := do
  let t1 ← getKey rev ot1
  let t2 ← getKey rev ot2
  let env := [rev.lookup e.n0, rev.lookup e.n1, optGet rev e.n2, optGet rev e.n3]
  let x1 ← firstInEnv (q.nbrs t1) env
  let n1 ← getKey mapping x1
  let x2 ← firstInEnv (q.nbrs t2) env
  let m1 ← getKey mapping x2
  pure (n1, m1)

/-- `[mapping[x] for x in self._bonds[n]]` -/
def imagesOf (mapping : Dict) : List Nat → Except PyErr (List Nat)
  | [] => .ok []
  | x :: xs => do
    let y ← getKey mapping x
    let ys ← imagesOf mapping xs
    pure (y :: ys)

/-- one iteration of `for n, a in self.atoms()` for an atom carrying mark `mark`.
`ok true` = fall through to the next atom, `ok false` = `break` (mapping rejected). -/
def atomStep (q : Graph) (tl : TLabels) (mapping : Dict) (n : Nat) (mark : Bool) : Except PyErr Bool := do
  let m ← getKey mapping n
  match tl.atom m with
  | none => pure false                                   -- stereo in query should match only stereo atom
  | some _ =>
    match tl.tetra.lookup m with
    | some order => do
      let env ← imagesOf mapping (q.nbrs n)
      let s ← translateTetra order env tl.isH (tl.atom m) none
      pure (s == mark)
    | none => do                                         -- allene case
      let rev := reverseDict mapping
      let (ot1, ot2) ← getKey tl.alleneTerm m
      let e ← getKey tl.allenes m
      let (n1, m1) ← pickNeighbours q mapping rev e ot1 ot2
      let s ← translateAllene (some e) tl.isH n1 m1 (tl.atom m) none
      pure (s == mark)

/-- `_stereo_cis_trans_centers[n]` then `self._bonds[i][j].stereo` (every way of not finding a label is a `KeyError`) -/
def centralLabel (tl : TLabels) (n : Nat) : Option Bool :=
  match tl.ctCenter.lookup n with
  | none => none
  | some (i, j) =>
    match tl.bond i j with
    | some (some b) => some b
    | _ => none

/-- one iteration of `for n, m, b in self.bonds()` for a bond carrying mark `mark` -/
def bondStep (q : Graph) (tl : TLabels) (mapping : Dict) (n m : Nat) (mark : Bool) : Except PyErr Bool := do
  let on ← getKey mapping n
  let om ← getKey mapping m
  match tl.bond on om with
  | none => .error .keyError                             -- `other.bond(on, om)` of two atoms that are not bonded
  | some none => pure false                              -- chiral query bond matches only chiral molecule bond
  | some (some _) => do
    let rev := reverseDict mapping
    let (ot1, ot2) ← getKey tl.ctTerm on
    let e ← getKey tl.cisTrans (ot1, ot2)
    let (n1, m1) ← pickNeighbours q mapping rev e ot1 ot2
    let s ← translateCisTrans tl.cisTrans tl.isH ot1 ot2 n1 m1 (centralLabel tl ot1) none
    pure (s == mark)

/-- the `for n, a in self.atoms(): …` loop: `ok true` = the loop ended without `break` (its `else:` runs) -/
def atomsPass (q : Graph) (qm : QMarks) (tl : TLabels) (mapping : Dict) : List Nat → Except PyErr Bool
  | [] => .ok true
  | n :: rest =>
    match qm.atom n with
    | none => atomsPass q qm tl mapping rest                -- non-chiral atom matches any atom
    | some mark =>
      match atomStep q tl mapping n mark with
      | .error e => .error e
      | .ok false => .ok false
      | .ok true => atomsPass q qm tl mapping rest

/-- the `for n, m, b in self.bonds(): …` loop: `ok true` = ended without `break` (`yield mapping`) -/
def bondsPass (q : Graph) (qm : QMarks) (tl : TLabels) (mapping : Dict) : List (Nat × Nat) → Except PyErr Bool
  | [] => .ok true
  | (n, m) :: rest =>
    match qm.bond n m with
    | none => bondsPass q qm tl mapping rest
    | some mark =>
      match bondStep q tl mapping n m mark with
      | .error e => .error e
      | .ok false => .ok false
      | .ok true => bondsPass q qm tl mapping rest

/-- is `mapping` yielded? -/
def keepMapping (q : Graph) (qm : QMarks) (tl : TLabels) (mapping : Dict) : Except PyErr Bool :=
  match atomsPass q qm tl mapping q.atoms with
  | .error e => .error e
  | .ok false => .ok false
  | .ok true => bondsPass q qm tl mapping (bondsOf q)

/-- the post-filter over the mappings of the underlying search, in their order; the first raising mapping ends the generator -/
def stereoFilter (q : Graph) (qm : QMarks) (tl : TLabels) : List Dict → Except PyErr (List Dict)
  | [] => .ok []
  | m :: ms =>
    match keepMapping q qm tl m with
    | .error e => .error e
    | .ok b =>
      match stereoFilter q qm tl ms with
      | .error e => .error e
      | .ok r => .ok (if b then m :: r else r)

/-- `QueryIsomorphism.get_mapping(other, automorphism_filter=…, searching_scope=…, _cython=False)`.
Outer `none` = the underlying search crashed (never, by `get_mapping_exact`). The `seen` filter of the underlying search runs
BEFORE the stereo test (as in the code). -/
def queryGetMapping (p : Problem) (qm : QMarks) (tl : TLabels) : Option (Except PyErr (List Dict)) :=
  match isoGetMapping p with
  | none => none
  | some r => some (stereoFilter p.q qm tl r)

/-! ## `get_fast_mapping`, `match_stereo` -/

/-- `MoleculeIsomorphism.get_fast_mapping(self, other)`: `so`/`oo` = the two `smiles_atoms_order`s, `equal` = `not (self != other)` -/
def getFastMapping (lenSelf lenOther : Nat) (so oo : List Nat) (equal : Bool) : Option Dict :=
  if lenSelf != lenOther then none
  else if !equal then none
  else some ((so.zip oo).foldl (fun acc p => acc.set p.1 p.2) [])      -- `dict(zip(so, oo))`

/-- `{n: auto[m] for n, m in fm.items()}` (`none` = KeyError) -/
def composeDict (fm auto : Dict) : Option Dict :=
  fm.foldlM (fun acc p => do let y ← auto.lookup p.2; pure (acc.set p.1 y)) []

/-- the `match_stereo=True` branch of `MoleculeIsomorphism.get_mapping`: for every mapping of the underlying search (run with
`automorphism_filter or match_stereo` = `True`) the pair (`get_fast_mapping(sub)`, automorphisms of `sub`);
`if not fm: continue` (an empty dict is falsy too). -/
def matchStereo (autoFilter : Bool) : List (Option Dict × List Dict) → Option (List Dict)
  | [] => some []
  | (fm?, autos) :: rest => do
    let tl ← matchStereo autoFilter rest
    match fm? with
    | none => pure tl
    | some fm =>
      if fm.isEmpty then pure tl
      else if autoFilter then pure (fm :: tl)
      else do
        let more ← autos.mapM (composeDict fm)
        pure (fm :: more ++ tl)


/-- executable test (applied to the REAL output of `get_fast_mapping`): the dict maps the whole pattern one-to-one ONTO the whole
target, atoms match, and two pattern atoms are bonded iff their images are, with matching bonds.  `getD 0` is never reached: the
first conjunct demands an image for every pattern atom. -/
def isoCheck (p : Problem) (d : Dict) : Bool :=
  let f := fun u => (d.lookup u).getD 0
  p.q.atoms.all (fun u => (d.lookup u).isSome) &&
  (p.q.atoms.map f).Nodup &&
  p.q.atoms.all (fun u => p.t.atoms.contains (f u)) &&
  p.t.atoms.all (fun x => p.q.atoms.any fun u => f u == x) &&
  p.q.atoms.all (fun u => p.atomOk u (f u)) &&
  p.q.atoms.all (fun u => p.q.atoms.all fun v =>
    (p.q.hasBond u v == p.t.hasBond (f u) (f v)) && (!p.q.hasBond u v || p.bondOk u v (f u) (f v)))

end ChythonModel.Model.Iso
