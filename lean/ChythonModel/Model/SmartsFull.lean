import ChythonModel.Model.SmartsParse
import ChythonModel.Model.C03Tokenize
/-!
# C08 — `smarts()` on the full text syntax (organic-subset atoms, branches, ring closures, `%nn`) — executable model

The character state machine `_tokenize` is property C03's model (`Model/C03Tokenize.lean: tokenizeRaw`, complete, incl. the query-bond
token types 10 / 11 / 12); this file adds what `smarts()` does with its raw tokens:
`smarts_tokenize` (bracket tokens through `_query_parse`, plain atoms as `{'element': token}`), `parser.parser` with
`strong_cycle=False` in full (branch stack, ring-closure table incl. the comparison `b != ob` of the two bond specifications with
Python's `==` of int / list / `QueryBond`, direction marks, the `opened` flag) and the construction of the query graph
(`buildAtoms` / `buildBonds` of `Model/SmartsParse.lean`).
-/
namespace ChythonModel.Model.Query
open ChythonModel.Gen.Query

/-- tokens as `smarts_tokenize` hands them to `parser` -/
inductive FTok
  | atom (p : Parsed)
  | bond (b : PBond)
  | updown (up : Bool)
  | dot
  | lpar
  | rpar
  | cyc (n : Nat)
  | flag                       -- `(12, True)`: dangling `;!`
  | junk                       -- any other `(type, value)`: treated by `parser` as an atom token ⇒ `AttributeError` / `TypeError`
  deriving Repr, DecidableEq, Inhabited

def errOfC03 : ChythonModel.Model.C03.Err → PyErr
  | .lib "IncorrectSmarts" _ => .incorrectSmarts
  | .lib "IncorrectSmiles" _ => .incorrectSmiles
  | .lib "ValueError" _ => .valueError
  | .lib _ _ => .valueError
  | .crash "IndexError" => .indexError
  | .crash "KeyError" => .keyError
  | .crash _ => .typeError

def strChars (s : List Nat) : List Char := s.map Char.ofNat

/-- `smarts_tokenize` on one raw token -/
def convRaw (t : ChythonModel.Model.C03.RTok) : Except PyErr FTok :=
  match t.ty, t.val with
  | 0, .str s => .ok (.atom { element := .one (.sym (strChars s)) })
  | 8, .str s => .ok (.atom { element := .one (.sym (strChars s)) })
  | 5, .str s => (queryParse (strChars s)).map .atom
  | 1, .int o => .ok (.bond (.order o))
  | 10, .ints l => .ok (.bond (.orders l))
  | 12, .qbond os r => .ok (.bond (.query { orders := os, inRing := some r }))
  | 12, .bool _ => .ok .flag
  | 9, .bool b => .ok (.updown b)
  | 4, _ => .ok .dot
  | 2, _ => .ok .lpar
  | 3, _ => .ok .rpar
  | 6, .int n => .ok (.cyc n)
  | _, _ => .ok .junk

def convRaws : List ChythonModel.Model.C03.RTok → Except PyErr (List FTok)
  | [] => .ok []
  | t :: ts => do let x ← convRaw t; let r ← convRaws ts; .ok (x :: r)

/-- Python `b != ob` for the two specifications of a ring-closure bond: int / list / `QueryBond` compared with `==`
    (`QueryBond == int` is membership, `QueryBond == list` is `False`, lists compare elementwise) -/
def pbNe (b ob : PBond) : Bool :=
  match b, ob with
  | .order x, .order y => x != y
  | .orders x, .orders y => x != y
  | .query q, .query r => !(q.orders == r.orders && q.inRing == r.inRing)
  | .order x, .query q => !q.orders.contains x
  | .query q, .order x => !q.orders.contains x
  | _, _ => true

/-- the opening half of a ring closure: `cycles[token] = (last_num, previous, …)` -/
structure Cyc where
  num : Nat
  atom : Nat
  prev : Prev
  deriving Repr, DecidableEq, Inhabited

structure FState where
  atoms : List Parsed := []                -- reversed
  bonds : List (Nat × Nat × PBond) := []   -- reversed
  sb : StereoBonds := []
  prev : Prev := .none
  last : Nat := 0
  stack : List Nat := []
  cycles : List Cyc := []
  opened : Bool := false
  deriving Repr, Inhabited

def sbSet2 (sb : StereoBonds) (a b : Nat) (v : Bool) : StereoBonds := sbSet (sbSet sb a b v) b a (!v)

def fullStep (st : FState) : FTok → Except PyErr FState
  | .lpar =>
    if st.prev != .none then .error .incorrectSmiles
    else .ok { st with stack := st.last :: st.stack, opened := true }
  | .rpar =>
    if st.prev != .none then .error .incorrectSmiles
    else match st.stack with
      | [] => .error .incorrectSmiles
      | l :: rest => .ok { st with last := l, stack := rest }
  | .cyc n =>
    if st.prev == .dot then .error .incorrectSmiles
    else if st.opened then .error .incorrectSmiles
    else
      match st.cycles.find? (·.num == n) with
      | none => .ok { st with cycles := st.cycles ++ [⟨n, st.last, st.prev⟩], prev := .none }
      | some c =>
        let a := c.atom
        let rest := st.cycles.filter (·.num != n)
        -- returns (bond, stereo bonds)
        let r : Except PyErr (PBond × StereoBonds) :=
          match c.prev, st.prev with
          | .none, .none => .ok (.order 1, st.sb)
          | .none, .updown b => .ok (.order 1, sbSet (sbSet st.sb st.last a b) a st.last (!b))
          | .none, .bond b => .ok (b, st.sb)                       -- 'ignored difference in cycle bonds'
          | .updown ob, .none => .ok (.order 1, sbSet (sbSet st.sb a st.last ob) st.last a (!ob))
          | .bond ob, .none => .ok (ob, st.sb)
          | .updown ob, .updown b => .ok (.order 1, sbSet (sbSet st.sb a st.last ob) st.last a b)
          | .bond ob, .updown b =>
            if pbNe ob (.order 1) then .error .incorrectSmiles
            else .ok (.order 1, sbSet (sbSet st.sb a st.last (!b)) st.last a b)
          | .updown ob, .bond b =>
            if pbNe b (.order 1) then .error .incorrectSmiles
            else .ok (b, sbSet (sbSet st.sb a st.last ob) st.last a (!ob))
          | .bond ob, .bond b => if pbNe b ob then .error .incorrectSmiles else .ok (b, st.sb)
          | _, _ => .error .typeError        -- dot / flag as a stored closure bond: unreachable (rejected when opened)
        match r with
        | .error e => .error e
        | .ok (b, sb') => .ok { st with bonds := (st.last, a, b) :: st.bonds, sb := sb', cycles := rest, prev := .none }
  | .atom p =>
    let n := st.atoms.length
    if n == 0 then .ok { st with atoms := [p], last := 0, opened := false }
    else
      match st.prev with
      | .none => .ok { st with atoms := p :: st.atoms, bonds := (n, st.last, .order 1) :: st.bonds, last := n, opened := false }
      | .updown b => .ok { st with atoms := p :: st.atoms, bonds := (n, st.last, .order 1) :: st.bonds,
                                   sb := sbSet (sbSet st.sb st.last n b) n st.last (!b), prev := .none, last := n, opened := false }
      | .bond b => .ok { st with atoms := p :: st.atoms, bonds := (n, st.last, b) :: st.bonds, prev := .none, last := n,
                                 opened := false }
      | .flag => .error .typeError       -- unreachable: the flag token only exists at the very end
      | .dot => .ok { st with atoms := p :: st.atoms, prev := .none, last := n, opened := false }
  | .junk => .error .typeError           -- `token.get` on a non-dict
  | t =>
    if st.prev != .none then .error .incorrectSmiles
    else if st.atoms.isEmpty then .error .incorrectSmiles
    else match t with
      | .bond b => .ok { st with prev := .bond b }
      | .updown b => .ok { st with prev := .updown b }
      | .dot => .ok { st with prev := .dot }
      | .flag => .ok { st with prev := .flag }
      | _ => .ok st

def fullLoop : FState → List FTok → Except PyErr FState
  | st, [] => .ok st
  | st, t :: ts => do let st' ← fullStep st t; fullLoop st' ts

/-- `smarts(text)` before the error wrapping, full syntax; the text is a list of code points (as C03's tokenizer takes it) -/
def smartsFullInner (text : List Nat) (radicals : List Nat) : Outcome :=
  match ChythonModel.Model.C03.tokenizeRaw text with
  | .error e => .err (errOfC03 e)
  | .ok raw =>
    match convRaws raw with
    | .error e => .err e
    | .ok toks =>
      -- `t1 = tokens[0][0]` …
      let startOk : Except PyErr Unit :=
        match toks with
        | [] => .error .indexError
        | .atom _ :: _ => .ok ()
        | .lpar :: .atom _ :: _ => .ok ()
        | _ => .error .incorrectSmiles
      match startOk with
      | .error e => .err e
      | .ok () =>
        match fullLoop {} toks with
        | .error e => .err e
        | .ok st =>
          if !st.stack.isEmpty then .err .incorrectSmiles
          else if !st.cycles.isEmpty then .err .incorrectSmiles
          else if st.prev != .none then .err .incorrectSmiles
          else
            let atoms := st.atoms.reverse
            if radicals.any (· ≥ atoms.length) then .err .indexError
            else
              let maxMap := atoms.foldl (fun a p => max a (p.mapping.getD 0)) 0
              let nums := numberAtoms atoms (maxMap + 1) 1
              match buildAtoms atoms nums 0 radicals [] with
              | .error e => .err e
              | .ok qa =>
                match buildBonds st.bonds.reverse st.sb (fun i => nums.getD i 0) with
                | .error e => .err e
                | .ok qb => .ok ⟨qa, qb⟩

def smartsFull (text : List Nat) (radicals : List Nat) : Outcome :=
  match smartsFullInner text radicals with
  | .err _ => .err .incorrectSmarts
  | o => o

end ChythonModel.Model.Query
