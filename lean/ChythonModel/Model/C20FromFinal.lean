import ChythonModel.Model.C20Bridge
import ChythonModel.Model.StereoFix
/-!
# C20 — `from_rdkit_molecule` to its RETURN value (core Lean only)

`Model/C20Bridge.lean: fromRd` stops where the code calls `fix_structure`.  The rest of the function is

    mol.fix_structure(recalculate_hydrogens=False)        -- `calc_labels()` only: no field of `CMol` changes
    if tetrahedron_stereo or cis_trans_stereo:
        mol.fix_stereo()

and `fix_stereo` is C12's model (`Model/StereoFix.lean`: collection pass + restore rounds over an oracle for the three `chiral_*`
sets).  Here its inputs are computed from the molecule `fromRd` built — `stereogenic_tetrahedrons`, `stereogenic_allenes`,
`_stereo_cis_trans_terminals` by this file's mirror of `chython/algorithms/stereo.py` — and its result is written back, so that
`fromRdFinal` is the whole of `from_rdkit_molecule` (the oracle `ch` = what `chiral_tetrahedrons / chiral_allenes /
chiral_cis_trans` report when exactly the given labels are present; the driver gets it as a table answered by the real code).
-/
namespace ChythonModel.Model.C20
open ChythonModel.Model ChythonModel.Model.Stereo ChythonModel.Model.StereoFix

/-- `_stereo_cis_trans_terminals`: `terminals[n] = terminals[m] = terminals[path[i]] = terminals[path[i - 1]] = (n, m)` for
every even chain (assignment targets left to right) -/
def terminalsOf (sc : List Cumulene) : List (Nat × (Nat × Nat)) :=
  (sc.filter (fun c => c.len % 2 == 0)).foldl (fun d c =>
    let v := (c.first, c.last)
    dictSet (dictSet (dictSet (dictSet d c.first v) c.last v) c.mid.2 v) c.mid.1 v) []

/-- keys of `stereogenic_allenes`: `path[len(path) // 2]` of every odd chain -/
def allenesOf (sc : List Cumulene) : List Nat :=
  (sc.filter (fun c => c.len % 2 == 1)).map (·.mid.2)

/-- the first loops of `fix_stereo` take every label off -/
def clearLabels (m : Mol) : Mol :=
  { atoms := m.atoms.map fun (n, a) => (n, { a with stereo := none }),
    adj := m.adj.map fun (x, nb) => (x, nb.map fun (y, b) => (y, { b with stereo := none })) }

/-- `a._stereo = s` / `b._stereo = s` of the restore round. A cis-trans unit is written on the bond between its two terminal
atoms: in `from_rdkit_molecule` a bond label only ever stands on a bond whose ends are a key of `stereogenic_cis_trans`
(`moveCisTrans`), i.e. on that very bond. -/
def applyLabel (m : Mol) : Label → Mol
  | (⟨.tetra, a, _⟩, s) => setAtomStereo m a s
  | (⟨.allene, a, _⟩, s) => setAtomStereo m a s
  | (⟨.cisTrans, a, b⟩, s) => setBondLabel m a b s

/-- the `self.atoms()` items `fix_stereo` looks at -/
def fixAtomsIn (m : Mol) (env : StereoEnv) (al : List Nat) : List AtomIn :=
  m.atoms.map fun (n, a) => ⟨n, a.stereo, (env.stet.lookup n).isSome, al.contains n⟩

/-- the `self.bonds()` items `fix_stereo` looks at -/
def fixBondsIn (m : Mol) (term : List (Nat × (Nat × Nat))) : List BondIn :=
  m.bonds.map fun (n, k, b) => ⟨n, k, b.order, b.stereo, term.lookup n, term.lookup k⟩

/-- `mol.fix_stereo()` on a molecule with its stereo dictionaries -/
def fixStereoMol (ch : List Label → SUnit → Bool) (m : Mol) (env : StereoEnv) (sc : List Cumulene) : Mol × Out :=
  let out := fixStereo ch (fixAtomsIn m env (allenesOf sc)) (fixBondsIn m (terminalsOf sc))
  (out.labels.foldl applyLabel (clearLabels m), out)

/-- `from_rdkit_molecule(data)`, whole: the returned molecule and, when `fix_stereo` ran, its trace -/
def fromRdFinal (r : RMol) (nbrs : List (List Nat)) (ch : List Label → SUnit → Bool) : Except BErr (CMol × Option Out) := do
  let (c0, tet, ct) ← fromGraph r nbrs
  let sc ← liftPy (stereogenicCumulenes c0.mol)
  let env ← liftPy (stereoEnvOf c0.mol)
  let c ← fromRdWith r nbrs env
  if tet.isEmpty && ct.isEmpty then pure (c, none)          -- `if tetrahedron_stereo or cis_trans_stereo:`
  else
    let (m, out) := fixStereoMol ch c.mol env sc
    pure ({ c with mol := m }, some out)

end ChythonModel.Model.C20
