import ChythonModel.Model.C11Fmt
import ChythonModel.Gen.MdlTables
/-!
# C11 — V2000 MOL block: `MOLWrite._write_molecule` and `parse_mol_v2000`, statement by statement

Python exceptions are `Err` constructors (never defaulted); `unsupported` marks input that leaves the modelled
subset (S-group lines, exotic float spellings) — the harness skips such cases and counts them.
-/
namespace ChythonModel.Model.C11
open ChythonModel.Gen.Mdl

/-- exception class raised by the real code -/
inductive Err where
  | valueError | invalidCharge | emptyMolecule | invalidV2000 | invalidMolBlock | emptyReaction
  | indexError | keyError | eof | bufferOverflow | unsupported
  deriving DecidableEq, Repr, Inhabited

def Err.name : Err → String
  | .valueError => "ValueError" | .invalidCharge => "InvalidCharge" | .emptyMolecule => "EmptyMolecule"
  | .invalidV2000 => "InvalidV2000" | .invalidMolBlock => "InvalidMolBlock" | .emptyReaction => "EmptyReaction"
  | .indexError => "IndexError" | .keyError => "KeyError" | .eof => "EOFError"
  | .bufferOverflow => "BufferOverflow" | .unsupported => "unsupported"

/-- is the exception an instance of `ValueError` (what `MDLRead.__iter__` swallows)? -/
def Err.isValueError : Err → Bool
  | .valueError | .invalidCharge | .emptyMolecule | .invalidV2000 | .invalidMolBlock | .emptyReaction => true
  | _ => false

/-- is the exception swallowed by `MDLRead.__iter__` (`except (ValueError, LookupError)` since fix 075882e)? -/
def Err.isSkipped (e : Err) : Bool := e.isValueError || e == .indexError || e == .keyError

abbrev R := Except Err

instance [DecidableEq ε] [DecidableEq α] : DecidableEq (Except ε α)
  | .ok a, .ok b => if h : a = b then isTrue (by rw [h]) else isFalse (by intro h'; cases h'; exact h rfl)
  | .error a, .error b => if h : a = b then isTrue (by rw [h]) else isFalse (by intro h'; cases h'; exact h rfl)
  | .ok _, .error _ => isFalse (by intro h; cases h)
  | .error _, .ok _ => isFalse (by intro h; cases h)

/-- Python `l[a:b]` with possibly negative indices -/
def pySlice (l : List α) (a b : Int) : List α :=
  let n : Int := l.length
  let norm (i : Int) : Nat := (if i < 0 then (if i + n < 0 then 0 else i + n) else if i > n then n else i).toNat
  slice l (norm a) (norm b)

/-- Python `l[i]` with possibly negative index; `none` = IndexError -/
def pyIndex (l : List α) (i : Int) : Option α :=
  let n : Int := l.length
  if i < 0 then (if i + n < 0 then none else l[(i + n).toNat]?) else l[i.toNat]?

def intE (s : Str) : R Int := match pyInt? s with | some v => pure v | none => throw .valueError
def floatE (s : Str) : R Dec := match pyFloat? s with
  | .ok d => pure d | .valueError => throw .valueError | .unsupported => throw .unsupported
def lineAt (data : List Str) (i : Nat) : R Str := match data[i]? with | some l => pure l | none => throw .indexError

/-! ## reader -/

structure PAtom where
  element : Str
  charge : Int
  isotope : Option Int
  delta : Option Int
  map : Int
  x : Dec
  y : Dec
  z : Dec
  rad : Bool := false
  implH : Option Int := none
  deriving DecidableEq, Repr, Inhabited

structure PMol where
  title : Option Str
  atoms : List PAtom
  bonds : List (Int × Int × Int)
  stereo : List (Int × Int × Int)
  deriving DecidableEq, Repr, Inhabited

/-- `_charge_map[code]` -/
def readCharge (code : Str) : R Int :=
  match readChargeMap.find? (fun kv => kv.1.toList == code) with
  | some kv => pure kv.2
  | none => throw .invalidCharge

/-- `element in 'AL'` (substring test on a `str`) -/
def inAL (e : Str) : Bool := e == [] || e == ['A'] || e == ['L'] || e == ['A', 'L']

/-- the body of the atom loop on the seven column slices of one atom line -/
def atomOfFields (code elemRaw isotope mapping xs ys zs : Str) : R PAtom := do
  let charge ← readCharge code
  let element := strip elemRaw
  if inAL element then throw .valueError
  let (element, iso, delta) ←
    if element == ['D'] then
      if isotope != [' ', '0'] then throw (ε := Err) .valueError
      else pure (['H'], some (2 : Int), (none : Option Int))
    else if isotope != [' ', '0'] then do
      let d ← intE isotope
      pure (element, none, some d)
    else pure (element, none, none)
  let pm ← if mapping.isEmpty then pure 0 else intE mapping
  let x ← floatE xs
  let y ← floatE ys
  let z ← floatE zs
  pure { element, charge, isotope := iso, delta, map := pm, x, y, z }

/-- one atom line of the atom block -/
def parseAtomLine (line : Str) : R PAtom :=
  atomOfFields (slice line 36 39) (slice line 31 34) (slice line 34 36) (slice line 60 63)
    (slice line 0 10) (slice line 10 20) (slice line 20 30)

/-- one bond line: `((a1, a2, order), stereo?)` -/
def parseBondLine (line : Str) : R ((Int × Int × Int) × Option (Int × Int × Int)) := do
  let a1 := (← intE (slice line 0 3)) - 1
  let a2 := (← intE (slice line 3 6)) - 1
  let s := slice line 9 12
  let st := if s == "  1".toList then some (a1, a2, (1 : Int))
            else if s == "  6".toList then some (a1, a2, (-1 : Int)) else none
  let b ← intE (slice line 6 9)
  let b := if b == 9 then 8 else b
  pure ((a1, a2, b), st)

def setAt (l : List α) (i : Nat) (f : α → α) : List α := l.modify i f

/-- `atoms[i]` assignment target with Python negative-index semantics -/
def pyIndexNat (len : Nat) (i : Int) : Option Nat :=
  if i < 0 then (if i + len < 0 then none else some (i + len).toNat) else if i < len then some i.toNat else none

/-- the `for i in range(int(line[6:9]))` loop of an `M  ISO/RAD/CHG` line; `kind` is `line[3]` -/
def applyCtf (kind : Char) (line : Str) : Nat → Nat → List PAtom → R (List PAtom)
  | 0, _, atoms => pure atoms
  | cnt + 1, i, atoms => do
    let i8 := i * 8
    let atom ← intE (slice line (10 + i8) (13 + i8))
    if atom == 0 || atom > atoms.length then throw .invalidV2000
    let idx ← match pyIndexNat atoms.length (atom - 1) with
      | some k => pure k | none => throw .indexError
    let v ← intE (slice line (14 + i8) (17 + i8))
    let atoms := setAt atoms idx fun a =>
      if kind == 'C' then { a with charge := v }
      else if kind == 'I' then { a with isotope := some v }
      else { a with rad := true }
    applyCtf kind line cnt (i + 1) atoms

def sgroupPrefixes : List Str := ["M  STY", "M  SAL", "M  SDT", "M  SED", "M  SMT"].map String.toList

/-- the property-block loop -/
def parseProps : List Str → List PAtom → R (List PAtom)
  | [], atoms => pure atoms
  | line :: rest, atoms =>
    if startsWith line "M  END".toList then pure atoms
    else if startsWith line "M  ALS".toList then throw .valueError
    else if startsWith line "M  ISO".toList || startsWith line "M  RAD".toList || startsWith line "M  CHG".toList then do
      let cnt ← intE (slice line 6 9)
      let kind := (line[3]?).getD ' '   -- the prefix test guarantees index 3 exists
      let atoms ← applyCtf kind line cnt.toNat 0 atoms
      parseProps rest atoms
    else if sgroupPrefixes.any (startsWith line) then throw .unsupported
    else parseProps rest atoms

def mapM' (f : α → R β) : List α → R (List β)
  | [] => pure []
  | a :: as => do let b ← f a; let bs ← mapM' f as; pure (b :: bs)

/-! ### S-group data (`M  STY / SAL / SDT / SED / SMT`): Marvin's implicit-hydrogen annotation -/

structure SDat where
  type : Option Str := none
  atoms : Option (List Int) := none
  value : Option Str := none
  deriving DecidableEq, Repr, Inhabited

/-- `dat[k] = v` on an insertion-ordered dict -/
def datSet (d : List (Int × SDat)) (k : Int) (v : SDat) : List (Int × SDat) :=
  if d.any (·.1 == k) then d.map (fun kv => if kv.1 == k then (k, v) else kv) else d ++ [(k, v)]

def datUpdate (d : List (Int × SDat)) (k : Int) (f : SDat → SDat) : List (Int × SDat) :=
  d.map (fun kv => if kv.1 == k then (kv.1, f kv.2) else kv)

def asciiLower (s : Str) : Str := s.map fun c => if 65 ≤ c.toNat && c.toNat ≤ 90 then Char.ofNat (c.toNat + 32) else c

/-- whitespace split used by `line.split()` -/
def wsTokens (s : Str) : List Str :=
  let rec go : Str → List Str → Str → List Str
    | [], acc, cur => if cur.isEmpty then acc else acc ++ [cur]
    | c :: cs, acc, cur =>
      if isSpace c then (if cur.isEmpty then go cs acc cur else go cs (acc ++ [cur]) []) else go cs acc (cur ++ [c])
  go s [] []

/-- the `for i in range(int(line[6:9]))` loop of an `M  STY` line -/
def styLoop (line : Str) : Nat → Nat → List (Int × SDat) → R (List (Int × SDat))
  | 0, _, d => pure d
  | cnt + 1, i, d => do
    let i8 := i * 8
    let st := slice line (14 + i8) (17 + i8)
    if st == "DAT".toList then do
      let k ← intE (slice line (10 + i8) (13 + i8))
      styLoop line cnt (i + 1) (datSet d k {})
    else if st == "SUP".toList then do
      let k ← intE (slice line (10 + i8) (13 + i8))
      styLoop line cnt (i + 1) (datSet d k { type := some "MDL_SUP".toList })
    else styLoop line cnt (i + 1) d

/-- `tuple(int(line[14 + 4 * i:17 + 4 * i]) - 1 for i in range(n))` -/
def salAtoms (line : Str) : Nat → Nat → R (List Int)
  | 0, _ => pure []
  | cnt + 1, i => do
    let a ← intE (slice line (14 + 4 * i) (17 + 4 * i))
    let r ← salAtoms line cnt (i + 1)
    pure ((a - 1) :: r)

/-- the property-block loop including S-group lines -/
def parsePropsS : List Str → List PAtom → List (Int × SDat) → R (List PAtom × List (Int × SDat))
  | [], atoms, d => pure (atoms, d)
  | line :: rest, atoms, d =>
    if startsWith line "M  END".toList then pure (atoms, d)
    else if startsWith line "M  ALS".toList then throw .valueError
    else if startsWith line "M  ISO".toList || startsWith line "M  RAD".toList || startsWith line "M  CHG".toList then do
      let cnt ← intE (slice line 6 9)
      let kind := (line[3]?).getD ' '
      let atoms ← applyCtf kind line cnt.toNat 0 atoms
      parsePropsS rest atoms d
    else if startsWith line "M  STY".toList then do
      let cnt ← intE (slice line 6 9)
      let d ← styLoop line cnt.toNat 0 d
      parsePropsS rest atoms d
    else if startsWith line "M  SAL".toList then do
      let i ← intE (slice line 7 10)
      if d.any (·.1 == i) then do
        let n ← intE (slice line 10 13)
        let as ← salAtoms line n.toNat 0
        parsePropsS rest atoms (datUpdate d i fun x => { x with atoms := some as })
      else parsePropsS rest atoms d
    else if startsWith line "M  SDT".toList then do
      let i ← intE (slice line 7 10)
      if d.any (·.1 == i) then
        match (wsTokens line).getLast? with
        | some t => parsePropsS rest atoms (datUpdate d i fun x => { x with type := some (asciiLower t) })
        | none => throw .indexError
      else parsePropsS rest atoms d
    else if startsWith line "M  SED".toList then do
      let i ← intE (slice line 7 10)
      if d.any (·.1 == i) then
        let v := asciiLower ((strip (line.drop 10)).filter (· != '/'))
        parsePropsS rest atoms (datUpdate d i fun x => { x with value := some v })
      else parsePropsS rest atoms d
    else if startsWith line "M  SMT".toList then do
      let i ← intE (slice line 7 10)
      if d.any (·.1 == i) then
        parsePropsS rest atoms (datUpdate d i fun x => { x with value := some (strip (line.drop 10)) })
      else parsePropsS rest atoms d
    else parsePropsS rest atoms d

/-- the `for x in dat.values()` post-processing -/
def applyDat : List (Int × SDat) → List PAtom → R (List PAtom)
  | [], atoms => pure atoms
  | (_, x) :: rest, atoms =>
    match x.type with
    | none => throw .invalidV2000
    | some t =>
      if t == "mrv_implicit_h".toList then
        match x.atoms, x.value with
        | some as, some v =>
          if as.length != 1 || as.head? == some (-1) || v.isEmpty then throw .invalidV2000
          else do
            let h ← intE (v.drop 6)                    -- the right-hand side is evaluated before the subscript
            match pyIndexNat atoms.length (as.headD 0) with
            | some k => applyDat rest (setAt atoms k fun a => { a with implH := some h })
            | none => throw .indexError
        | _, _ => throw .invalidV2000
      else applyDat rest atoms

/-- does the property section (up to `M  END`) contain an S-group line? -/
def hasSgroupLine : List Str → Bool
  | [] => false
  | l :: ls => if startsWith l "M  END".toList then false else sgroupPrefixes.any (startsWith l) || hasSgroupLine ls

/-- `parse_mol_v2000(data)`; `data` = the lines of the block up to and including the first `M  END` -/
def parseMol2000 (data : List Str) : R PMol := do
  let line ← lineAt data 3
  let atomsCount ← intE (slice line 0 3)
  let bondsCount ← intE (slice line 3 6)
  if atomsCount == 0 then throw .emptyMolecule
  let l0 ← lineAt data 0    -- cannot fail after data[3] succeeded
  let t := strip l0
  let title := if t.isEmpty then none else some t
  let atoms ← mapM' parseAtomLine (pySlice data 4 (4 + atomsCount))
  let bl ← mapM' parseBondLine (pySlice data (4 + atomsCount) (4 + atomsCount + bondsCount))
  let propLines := pySlice data (4 + atomsCount + bondsCount) (data.length : Int)
  -- one loop in the code; split here so that blocks without S-group lines keep the simple state
  let atoms ← if hasSgroupLine propLines then do
      let (atoms, d) ← parsePropsS propLines atoms []
      applyDat d atoms
    else parseProps propLines atoms
  pure { title, atoms, bonds := bl.map (·.1), stereo := bl.filterMap (·.2) }

/-! ## `postprocess_parsed_molecule(data)` with `remap=False, ignore=True` -/

/-- `max(x.get('parsed_mapping') or 0 for x in atoms) + 1`, then the remapping loop -/
def remapLoop : List Int → List Int → Int → List Int
  | [], _, _ => []
  | m :: ms, used, next =>
    if m == 0 then next :: remapLoop ms used (next + 1)
    else if used.contains m then next :: remapLoop ms used (next + 1)
    else m :: remapLoop ms (m :: used) next

def pyMax : List Int → Option Int
  | [] => none
  | a :: as => some (as.foldl (fun m x => if x > m then x else m) a)

/-- `data['mapping']`; `none` = `max()` of an empty sequence (`ValueError`) -/
def postprocessMapping (maps : List Int) : R (List Int) :=
  match pyMax maps with
  | none => throw .valueError
  | some mx => pure (remapLoop maps [] (mx + 1))

/-! ## writer -/

structure WAtom where
  num : Nat                      -- atom number (`m`, the mapping written in columns 61–63)
  sym : Str                      -- `a.atomic_symbol`
  x : Int                        -- `a.x`, `a.y` in 1/10000
  y : Int
  charge : Int
  iso : Nat                      -- `a.isotope`, 0 = `None`
  rad : Bool
  nbrs : List (Nat × Nat)        -- `_bonds[n]` in dict order: (neighbour, order)
  deriving DecidableEq, Repr, Inhabited

structure WMol where
  name : Str
  atoms : List WAtom
  wedge : List (Nat × Nat × Int)   -- `_wedge_map`
  deriving DecidableEq, Repr, Inhabited

/-- `charge_map[c]` -/
def writeCharge (c : Int) : R Str :=
  match writeChargeMap.find? (fun kv => kv.1 == c) with
  | some kv => pure kv.2.toList
  | none => throw .keyError

/-- `{m: n for n, m in enumerate(g, start=1)}[k]` -/
def atomIndex (atoms : List WAtom) (k : Nat) : R Nat :=
  match atoms.findIdx? (·.num == k) with
  | some i => pure (i + 1)
  | none => throw .keyError

/-- `bonds[n][m].order` -/
def bondOrder (atoms : List WAtom) (n m : Nat) : R Nat :=
  match atoms.find? (·.num == n) with
  | none => throw .keyError
  | some a => match a.nbrs.lookup m with
    | some o => pure o
    | none => throw .keyError

/-- `Graph.bonds()`: each bond once in dict-iteration order -/
def bondsIter : List WAtom → List Nat → List (Nat × Nat × Nat)
  | [], _ => []
  | a :: tl, seen =>
    let seen' := a.num :: seen
    (a.nbrs.filterMap fun (mb : Nat × Nat) => if seen'.contains mb.1 then none else some (a.num, mb.1, mb.2))
      ++ bondsIter tl seen'

def bondsCount (atoms : List WAtom) : Nat := (atoms.map (·.nbrs.length)).sum / 2

def sL (s : String) : Str := s.toList

def writeAtomLine (mapping : Bool) (a : WAtom) : R Str := do
  let c ← writeCharge a.charge
  let m : Int := if mapping then a.num else 0
  pure (fmtF4 10 a.x ++ fmtF4 10 a.y ++ fmtF4 10 0 ++ sL " " ++ padRight 3 a.sym ++ sL " 0" ++ c ++
        sL "  0  0  0  0  0  0  0" ++ fmtD 3 m ++ sL "  0  0\n")

/-- a wedge bond line: `{i:3d}{j:3d}  {order}  {1|6}  0  0  0` -/
def wedgeText (i j o : Nat) (s : Int) : Str :=
  fmtD 3 i ++ fmtD 3 j ++ sL "  " ++ natDigits o ++ sL "  " ++ (if s == 1 then sL "1" else sL "6") ++ sL "  0  0  0\n"

/-- a plain bond line: `{i:3d}{j:3d}  {order}  0  0  0  0` -/
def bondText (i j o : Nat) : Str :=
  fmtD 3 i ++ fmtD 3 j ++ sL "  " ++ natDigits o ++ sL "  0  0  0  0\n"

def writeWedgeLine (atoms : List WAtom) (w : Nat × Nat × Int) : R Str := do
  let (n, m, s) := w
  let i ← atomIndex atoms n
  let j ← atomIndex atoms m
  let o ← bondOrder atoms n m
  pure (wedgeText i j o s)

def inWedge (wedge : List (Nat × Nat × Int)) (n m : Nat) : Bool :=
  wedge.any fun w => (w.1 == n && w.2.1 == m) || (w.1 == m && w.2.1 == n)

def writeBondLine (atoms : List WAtom) (b : Nat × Nat × Nat) : R Str := do
  let (n, m, o) := b
  let i ← atomIndex atoms n
  let j ← atomIndex atoms m
  pure (bondText i j o)

/-- the `M  ISO / M  RAD / M  CHG` lines of atom number `n` (1-based position) -/
def writePropLines (n : Nat) (a : WAtom) : List Str :=
  (if a.iso != 0 then [sL "M  ISO  1 " ++ fmtD 3 n ++ sL " " ++ fmtD 3 a.iso ++ sL "\n"] else []) ++
  (if a.rad then [sL "M  RAD  1 " ++ fmtD 3 n ++ sL "   2\n"] else []) ++
  (if a.charge == -4 || a.charge == 4 then [sL "M  CHG  1 " ++ fmtD 3 n ++ sL " " ++ fmtD 3 a.charge ++ sL "\n"] else [])

/-- `enumerate(l, start=k)` -/
def enumFromK : Nat → List α → List (Nat × α)
  | _, [] => []
  | k, a :: as => (k, a) :: enumFromK (k + 1) as

def enumFrom1 (l : List α) : List (Nat × α) := enumFromK 1 l

/-- `MOLWrite._write_molecule(g)` as a list of written chunks (one per `file.write` line; the first chunk is
`name\n\n\n<counts>\n`, split here into its four lines). -/
def writeMol2000 (mapping : Bool) (g : WMol) : R (List Str) := do
  if g.atoms.isEmpty then throw .valueError            -- max() of an empty sequence
  if g.atoms.any (·.num > 999) then throw .valueError  -- 'MOL file support only small molecules'
  let header := [g.name ++ sL "\n", sL "\n", sL "\n",
                 fmtD 3 g.atoms.length ++ fmtD 3 (bondsCount g.atoms) ++ sL "  0  0  0  0            999 V2000\n"]
  let al ← mapM' (writeAtomLine mapping) g.atoms
  let wl ← mapM' (writeWedgeLine g.atoms) g.wedge
  let bl ← mapM' (writeBondLine g.atoms) ((bondsIter g.atoms []).filter fun b => !inWedge g.wedge b.1 b.2.1)
  let pl := ((enumFrom1 g.atoms).map fun (p : Nat × WAtom) => writePropLines p.1 p.2).flatten
  pure (header ++ al ++ wl ++ bl ++ pl ++ [sL "M  END\n"])

end ChythonModel.Model.C11
