import ChythonModel.Model.Cache
/-!
# C13 — static analysis of the regenerated event lists (`TablesOK`)

An abstract interpretation of the flattened event list of one public operation.  The abstract state says, per kind of
memoised value, whether the cache **may contain** an entry of that kind (`p`) and whether such an entry **may be stale**
(`d`), whether the stored labels may be stale (`lab`), and the shape of the two transaction slots.  `Proofs/C13.lean`
proves the analysis sound for `interp`; `Props/C13.lean` discharges it on today's table by kernel evaluation.
Executable (core only) so that the driver could run it too.
-/
namespace ChythonModel.Model.C13
open ChythonModel.Model ChythonModel.Gen.CacheEffects ChythonModel.Spec.Deps

inductive BkA where | unset | none | set
  deriving DecidableEq, Repr, Inhabited

/-- one Boolean per kind, stored strictly (a function-valued field would be re-evaluated exponentially often) -/
structure K3 where
  skel : Bool
  conn : Bool
  full : Bool
  deriving DecidableEq, Repr, Inhabited

def K3.get (x : K3) : Kind → Bool
  | .skel => x.skel
  | .conn => x.conn
  | .full => x.full

def K3.of (f : Kind → Bool) : K3 := ⟨f .skel, f .conn, f .full⟩

@[simp] theorem K3.get_of (f : Kind → Bool) (K : Kind) : (K3.of f).get K = f K := by cases K <;> rfl

structure Abs where
  p : K3                   -- an entry of this kind may be present
  d : K3                   -- an entry of this kind may be stale
  lab : Bool               -- stored labels may be stale
  bk : BkA                 -- shape of `_backup`
  chgSet : Bool            -- `_changed` has been assigned
  deriving DecidableEq, Repr, Inhabited

def Abs.join (A B : Abs) : Option Abs :=
  if A.bk = B.bk then
    some { p := K3.of fun K => A.p.get K || B.p.get K, d := K3.of fun K => A.d.get K || B.d.get K, lab := A.lab || B.lab, bk := A.bk,
           chgSet := A.chgSet && B.chgSet }
  else none

def anyDirty (A : Abs) : Bool := A.d.skel || A.d.conn || A.d.full

/-- computing `x` now may read a stale memoised value -/
def poison (T : Tables) (A : Abs) (x : String) : Bool := (closure T.keyReads x).any fun y => A.d.get (kindOf y)

/-- a memoised read: entries of the kinds of `k` and of everything it may populate appear; each is poisoned only if
one of the values it is computed from (its own dependency closure) may already be stale -/
def absRead (T : Tables) (A : Abs) (k : String) : Abs :=
  let xs := k :: closure T.keyReads k
  { A with p := K3.of fun K => A.p.get K || xs.any (fun x => kindOf x == K),
           d := K3.of fun K => A.d.get K || xs.any (fun x => kindOf x == K && poison T A x) }

def keepOK (T : Tables) : Bool :=
  T.flushKeepSssr.all (fun k => kindOf k == .skel) && T.flushKeepComponents.all (fun k => kindOf k == .conn) &&
  T.copyKeepSssr.all (fun k => kindOf k == .skel) && T.copyKeepComponents.all (fun k => kindOf k == .conn)

def absEv (T : Tables) (A : Abs) : Ev → Option Abs
  | .edit => some { A with d := K3.of fun K => A.d.get K || A.p.get K, lab := true }
  | .call _ _ => none
  | .flushAll => some { A with p := ⟨false, false, false⟩, d := ⟨false, false, false⟩ }
  | .flush a b =>
      match flagBool a, flagBool b with
      | some kS, some kC =>
          let keep (K : Kind) : Bool := match K with
            | .skel => kS
            | .conn => kC
            | .full => false
          some { A with p := K3.of fun K => A.p.get K && keep K, d := K3.of fun K => A.d.get K && keep K }
      | _, _ => none
  | .pop _ => some A
  | .dictSet k => some (absRead T A k)
  | .readC k => some (absRead T A k)
  | .changedAdd => if A.chgSet then some A else none
  | .changedDiscard => if A.chgSet then some A else none
  | .changedAttr => if A.chgSet && A.bk == .set then some A else none
  | .changedNone => some { A with chgSet := true }
  | .changedRead => if A.chgSet then some A else none
  | .backupRead => if A.bk = .set then some A else none
  | .backupCopy a b =>
      match flagBool a, flagBool b with
      | some kS, some kC =>
          -- the snapshot must be coherent: what it keeps must not be stale
          if (!kS || !A.d.skel) && (!kC || !A.d.conn) then some { A with bk := .set } else none
      | _, _ => none
  | .backupNone => some { A with bk := .none }
  | .restore slots =>
      if A.bk = .set && slots.contains "_atoms" && slots.contains "_bonds" && slots.contains "__dict__" then
        some { A with p := ⟨true, true, true⟩, d := ⟨false, false, false⟩, lab := true }
      else none
  | .hcalc => if A.chgSet then some { A with d := { A.d with full := A.d.full || A.p.full } } else none
  | .labelsWrite =>
      if !A.lab && !A.d.skel then some A
      else some { A with d := { A.d with full := A.d.full || A.p.full }, lab := A.d.skel }
  | .stereoWrite => some A

inductive GMode where | skip | run (opt : Bool) | bad
  deriving DecidableEq, Repr

/-- static decision of the guards (the transaction slot shape is tracked, so `ifCalc` is decided) -/
def absGuards (skip special : Bool) (A : Abs) : List Guard → GMode
  | [] => .run false
  | g :: gs =>
    match g with
    | .ifCalc =>
        if skip then .skip else
        match A.bk with
        | .unset => .bad
        | .set => .skip
        | .none => absGuards skip special A gs
    | .ifParam _ _ => .bad
    | .notSpecial => if special then .skip else absGuards skip special A gs
    | .isSpecial => if special then absGuards skip special A gs else .skip
    | .inLoop | .cond =>
        match absGuards skip special A gs with
        | .run _ => .run true
        | m => m

def optOK : Ev → Bool
  | .flush _ _ | .flushAll | .backupCopy _ _ | .backupNone | .restore _ | .changedNone => false
  | _ => true

def absRun (T : Tables) (skip special : Bool) : List GEv → Abs → Option Abs
  | [], A => some A
  | ge :: rest, A =>
    match absGuards skip special A ge.gs with
    | .bad => none
    | .skip => absRun T skip special rest A
    | .run false => (absEv T A ge.e).bind (absRun T skip special rest)
    | .run true =>
        if optOK ge.e then
          ((absEv T A ge.e).bind (Abs.join A)).bind (absRun T skip special rest)
        else none

/-- entry state of a public operation: unknown cache, both transaction slots assigned.  Outside a transaction nothing
is stale; inside, values that may depend on atom attributes (`full`) may be stale (the block may have written
`atom.charge` / `atom.is_radical`), ring and component values are not.
`labKnown`: the stored labels are known to be fresh (only assumed where an operation needs it). -/
def entryAbs (inTxn labKnown : Bool) : Abs :=
  { p := ⟨true, true, true⟩, d := ⟨false, false, inTxn⟩, lab := !labKnown, bk := if inTxn then .set else .none,
    chgSet := true }

/-- a freshly created object (substructure): empty cache -/
def newAbs : Abs := { p := ⟨false, false, false⟩, d := ⟨false, false, false⟩, lab := true, bk := .none, chgSet := true }

def cleanAbs (A : Abs) : Bool := !anyDirty A
/-- what must hold at the end of an operation: outside a transaction nothing stale; inside, ring/component values fresh -/
def endOK (inTxn : Bool) (A : Abs) : Bool := !A.d.skel && !A.d.conn && (inTxn || !A.d.full)

structure Entry13 where
  fn : String
  env : List (String × Bool)
  needsLabels : Bool      -- coherence is claimed only when the stored labels are fresh on entry
  relabels : Bool         -- outside a transaction the stored labels are fresh afterwards
  deriving DecidableEq, Repr, Inhabited

/-- the self-mutating public entry points with the boolean keyword arguments the model passes -/
def entryPoints : List Entry13 :=
  [⟨"MoleculeContainer.add_atom", [], false, true⟩, ⟨"MoleculeContainer.add_bond", [], false, true⟩,
   ⟨"MoleculeContainer.delete_atom", [], false, true⟩, ⟨"MoleculeContainer.delete_bond", [], false, true⟩,
   ⟨"Graph.remap", [], false, false⟩,
   ⟨"MoleculeContainer.union", [("copy", false), ("remap", true)], false, false⟩,
   ⟨"MoleculeContainer.union", [("copy", false), ("remap", false)], false, false⟩,
   ⟨"MoleculeContainer.fix_structure", [("recalculate_hydrogens", true)], false, true⟩,
   ⟨"MoleculeContainer.fix_structure", [("recalculate_hydrogens", false)], true, true⟩,
   ⟨"MoleculeContainer.calc_labels", [], true, true⟩,
   ⟨"MoleculeStereo.fix_stereo", [], false, false⟩, ⟨"MoleculeStereo.clean_stereo", [], false, false⟩]

/-- analysis result of one entry point in one context; `none` = rejected -/
def analyse (T : Tables) (f : String) (env : List (String × Bool)) (skip special inTxn labKnown : Bool) : Option Abs :=
  absRun T skip special (expand T.fns expandFuel f env) (entryAbs inTxn labKnown)

def accepts (T : Tables) (e : Entry13) (special inTxn : Bool) : Bool :=
  match analyse T e.fn e.env false special inTxn e.needsLabels with
  | some A => endOK inTxn A && (inTxn || !e.relabels || !A.lab) && A.chgSet && (A.bk == if inTxn then .set else .none)
  | none => false

/-- every public mutator, in and outside a transaction, for ordinary and special bonds: no memoised value may be stale
afterwards, and outside a transaction the relabelling operations leave fresh labels -/
def mutatorsOK (T : Tables) : Bool :=
  entryPoints.all fun e => [false, true].all fun special => [false, true].all fun inTxn => accepts T e special inTxn

def enterOK (T : Tables) : Bool :=
  match analyse T "MoleculeContainer.__enter__" [] false false false false with
  | some A => cleanAbs A && A.bk == .set && A.chgSet
  | none => false

def exitOK (T : Tables) : Bool :=
  (match analyse T "MoleculeContainer.__exit__#ok" [] false false true false with
   | some A => cleanAbs A && A.bk == .none && !A.lab && A.chgSet
   | none => false) &&
  (match analyse T "MoleculeContainer.__exit__#exc" [] false false true false with
   | some A => cleanAbs A && A.bk == .none && A.chgSet
   | none => false)

/-- the two calls `substructure` makes on the object it creates, analysed from an empty cache -/
def subRun (T : Tables) (recalc : Bool) : Option Abs :=
  (absRun T false false (expand T.fns expandFuel "MoleculeContainer.fix_structure" [("recalculate_hydrogens", recalc)]) newAbs).bind
    fun A => absRun T false false (expand T.fns expandFuel "MoleculeStereo.fix_stereo" []) A

def subOK (T : Tables) : Bool :=
  (T.subCalls == ["fix_structure", "fix_stereo"]) &&
  [false, true].all fun recalc => match subRun T recalc with
    | some A => cleanAbs A && A.bk == .none && A.chgSet
    | none => false

/-- a public memoised read never makes a ring / component value stale, and outside a transaction no value at all -/
def readOK (T : Tables) : Bool :=
  T.keys.all fun k => [false, true].all fun tx => endOK tx (absRead T (entryAbs tx false) k)

def slotsOK (T : Tables) : Bool :=
  T.copySlots.contains "_changed" && T.copySlots.contains "_backup" && T.subSlots.contains "_changed" &&
  T.subSlots.contains "_backup" && T.copySlots.contains "_name" && T.copySlots.contains "_meta" &&
  T.copyAtomsDeep && T.copyBondsDeep && T.subAtomsDeep && T.subBondsDeep && !T.elementCopySharesXY

/-- shape of the abort path: unconditional events; one `restore` of all five slots; afterwards nothing touches the
molecule; `_changed` reset; `_backup` dropped after the restore.  Flags: restored, `_changed` reset, backup dropped. -/
def abortShape : Bool → Bool → Bool → List GEv → Bool
  | r, n, b, [] => r && n && b
  | r, n, b, ge :: rest =>
    ge.gs.isEmpty &&
    match ge.e with
    | .restore slots =>
        !b && ["_atoms", "_bonds", "_meta", "_name", "__dict__"].all slots.contains && abortShape true n b rest
    | .changedNone => abortShape r true b rest
    | .backupRead => !b && abortShape r n b rest
    | .changedRead | .stereoWrite => abortShape r n b rest
    | .backupNone => r && !b && abortShape r n true rest
    | _ => false

def abortOK (T : Tables) : Bool :=
  abortShape false false false (expand T.fns expandFuel "MoleculeContainer.__exit__#exc" [])

def TablesOK (T : Tables) : Bool :=
  keepOK T && mutatorsOK T && enterOK T && exitOK T && subOK T && readOK T && slotsOK T && abortOK T

end ChythonModel.Model.C13
