import ChythonModel.Model.Graph
/-!
# C15 — condensed graph of reaction (CGR): `MoleculeContainer.compose`, `ReactionContainer.compose`,
# `DynamicElement`, `DynamicBond`, `CGRContainer.center_atoms`

Mirrors `/repo/chython/containers/molecule.py:compose`, `containers/reaction.py:compose`,
`containers/graph.py:union/remap`, `periodictable/base/dynamic.py`, `containers/bonds.py:DynamicBond`,
`containers/cgr.py:center_atoms`.

Python `set` iteration order is *not* modelled: the three sets the code iterates over
(`self._atoms.keys() - common`, `other._atoms.keys() - common`, `common`) are *parameters* `ls fs cs` of
`composeWith`; every theorem in `Props/C15.lean` is quantified over all admissible orders. `compose` fixes the
dict order for them. The harness also passes the orders it observes on the real interpreter, so that the exact
dict order of the result (`_atoms`, `_bonds[n]`) is compared too (secondary stream).

Python `dict` → insertion-ordered association list. `_bonds[n]` is a dict, so its keys are unique; the closed
forms below (`adjRow`, `adjOf`) are the insertion-ordered result of the dict updates for unique keys.
-/
namespace ChythonModel.Model.C15
open ChythonModel.Model

/-- `DynamicElement` slots (`_isotope _charge _is_radical _p_charge _p_is_radical`) + the class (atomic number). -/
structure DynAtom where
  z : Nat
  isotope : Option Nat
  charge : Int
  pCharge : Int
  radical : Bool
  pRadical : Bool
  deriving Repr, DecidableEq, Inhabited

/-- `DynamicBond` slots (`_order`, `_p_order`), `None` = no bond on that side. -/
structure DynBond where
  order : Option Nat
  pOrder : Option Nat
  deriving Repr, DecidableEq, Inhabited

/-- `DynamicElement.is_dynamic` -/
def DynAtom.isDynamic (a : DynAtom) : Bool := a.charge != a.pCharge || a.radical != a.pRadical
/-- `DynamicBond.is_dynamic` -/
def DynBond.isDynamic (b : DynBond) : Bool := b.order != b.pOrder

structure CGR where
  atoms : List (Nat × DynAtom)
  adj : List (Nat × List (Nat × DynBond))
  deriving Repr, DecidableEq, Inhabited

namespace CGR
def ids (h : CGR) : List Nat := h.atoms.map (·.1)
def atom? (h : CGR) (n : Nat) : Option DynAtom := h.atoms.lookup n
/-- `h._bonds[n].get(m)`; `none` when `n` is no key of `_bonds` or `m` no key of `_bonds[n]` -/
def bond? (h : CGR) (n m : Nat) : Option DynBond := (h.adj.lookup n).bind (·.lookup m)

/-- `CGRContainer.center_atoms` (a tuple made from a set: order not modelled, duplicates removed). -/
def centerAtoms (h : CGR) : List Nat :=
  let c1 := h.atoms.filterMap fun na => if na.2.isDynamic then some na.1 else none
  let c2 := h.adj.filterMap fun nm => if nm.2.any (·.2.isDynamic) then some nm.1 else none
  (c1 ++ c2).eraseDups
end CGR

/-- `DynamicElement.from_atom` -/
def fromAtom (a : Atom) : DynAtom := ⟨a.z, a.isotope, a.charge, a.charge, a.radical, a.radical⟩

/-- `DynamicElement.from_atoms`: `ValueError` when element or isotope differ. -/
def fromAtoms (a b : Atom) : Except String DynAtom :=
  if a.z != b.z then .error "ValueError"
  else if a.isotope != b.isotope then .error "ValueError"
  else .ok ⟨a.z, a.isotope, a.charge, b.charge, a.radical, b.radical⟩

def validOrder : Option Nat → Bool
  | none => true
  | some o => o == 1 || o == 4 || o == 2 || o == 3 || o == 8

/-- `DynamicBond.__init__(order, p_order)` with int-or-None arguments. -/
def mkDynBond (o p : Option Nat) : Except String DynBond :=
  if o.isNone && p.isNone then .error "TypeError"
  else if !(validOrder o && validOrder p) then .error "ValueError"
  else .ok ⟨o, p⟩

/-- `DynamicBond(bond.order, None)` (cleaved) / `DynamicBond(None, bond.order)` (formed); the constructor check
    cannot fail there for orders of `Bond` objects, it is not re-done by `from_bond`. -/
def oneSided (formed : Bool) (o : Nat) : DynBond := if formed then ⟨none, some o⟩ else ⟨some o, none⟩
/-- `DynamicBond.from_bond` -/
def unchanged (o : Nat) : DynBond := ⟨some o, some o⟩

/-- Common shape of the three bond-collecting loops of `compose`; `ha` = keys of `h._atoms` so far:
    ```
    for n in <set>:
        ha[n] = ...; hb[n] = {}
        for m, x in row(n):
            if m not in ha: bonds.append((n, m, x))
    ``` -/
def pairLoop {β : Type} (row : Nat → List (Nat × β)) : List Nat → List Nat → List (Nat × Nat × β)
  | _, [] => []
  | ha, n :: rest =>
    ((row n).filterMap fun e => if (n :: ha).contains e.1 then none else some (n, e.1, e.2))
    ++ pairLoop row (n :: ha) rest

/-- Inner iteration of the first two loops (cleavage atoms: `formed = false`, `g = self`; coupling atoms:
    `formed = true`, `g = other`):
    `for m, bond in g._bonds[n].items(): bond = DynamicBond(bond.order, None) if m in common else DynamicBond.from_bond(bond)` -/
def sideRow (g : Mol) (common : List Nat) (formed : Bool) (n : Nat) : List (Nat × DynBond) :=
  (g.nbrs n).map fun mb =>
    (mb.1, if common.contains mb.1 then oneSided formed mb.2.order else unchanged mb.2.order)

/-- `adj[n]` after the third loop: insertion-ordered dict `m ↦ [o1, o2]`:
    ```
    for m, bond in self._bonds[n].items():  if m in common: an[m][0] = bond.order
    for m, bond in other._bonds[n].items(): if m in common: an[m][1] = bond.order
    ``` -/
def adjRow (r p : Mol) (common : List Nat) (n : Nat) : List (Nat × Option Nat × Option Nat) :=
  let rn := (r.nbrs n).filter fun mb => common.contains mb.1
  let pn := (p.nbrs n).filter fun mb => common.contains mb.1
  rn.map (fun mb => (mb.1, some mb.2.order, (pn.lookup mb.1).map (·.order)))
  ++ (pn.filter fun mb => !(rn.any (·.1 == mb.1))).map (fun mb => (mb.1, none, some mb.2.order))

/-- `for n, m, bond in bonds: hb[n][m] = hb[m][n] = bond` on `hb = {k: {} for k in keys}`: the insertion-ordered
    result when each unordered pair occurs once in `bonds` (the `m not in ha` tests of the loops): proved as
    `Props.C15.compose_is_dict`, and compared with the real dict order by the stream `composeWith`. -/
def adjOf (keys : List Nat) (bonds : List (Nat × Nat × DynBond)) : List (Nat × List (Nat × DynBond)) :=
  keys.map fun k => (k, bonds.filterMap fun t =>
    if t.1 == k then some (t.2.1, t.2.2) else if t.2.1 == k then some (t.1, t.2.2) else none)

/-- `[f(x) for x in l]` where `f` may raise: first error wins. -/
def mapE {α β : Type} (f : α → Except String β) : List α → Except String (List β)
  | [] => .ok []
  | a :: l =>
    match f a with
    | .error e => .error e
    | .ok b =>
      match mapE f l with
      | .error e => .error e
      | .ok bs => .ok (b :: bs)

/-- `ha[n] = DynamicElement.from_atom(g._atoms[n])` -/
def sideAtom (g : Mol) (n : Nat) : Except String (Nat × DynAtom) :=
  match g.atom? n with
  | some a => .ok (n, fromAtom a)
  | none => .error "KeyError"

/-- `ha[n] = DynamicElement.from_atoms(self._atoms[n], other._atoms[n])` -/
def commonAtom (r p : Mol) (n : Nat) : Except String (Nat × DynAtom) :=
  match r.atom? n, p.atom? n with
  | some a, some b =>
    match fromAtoms a b with
    | .ok d => .ok (n, d)
    | .error e => .error e
  | _, _ => .error "KeyError"

/-- `DynamicBond(o1, o2)` of the fourth loop -/
def commonBond (t : Nat × Nat × Option Nat × Option Nat) : Except String (Nat × Nat × DynBond) :=
  match mkDynBond t.2.2.1 t.2.2.2 with
  | .ok d => .ok (t.1, t.2.1, d)
  | .error e => .error e

/-- `MoleculeContainer.compose(self=r, other=p)` with the iteration orders of the three sets given:
    `ls` = `self._atoms.keys() - common`, `fs` = `other._atoms.keys() - common`, `cs` = `common`.
    Exceptions: the atoms of all three loops are built before the bonds here; in the code atom and bond
    construction interleave, but `h` is local, every reachable exception is a `ValueError` and only the class of the
    exception is observable. -/
def composeWith (ls fs cs : List Nat) (r p : Mol) : Except String CGR :=
  match mapE (sideAtom r) ls with
  | .error e => .error e
  | .ok la =>
    match mapE (sideAtom p) fs with
    | .error e => .error e
    | .ok fa =>
      match mapE (commonAtom r p) cs with
      | .error e => .error e
      | .ok ca =>
        match mapE commonBond (pairLoop (adjRow r p cs) (fs.reverse ++ ls.reverse) cs) with
        | .error e => .error e
        | .ok b3 =>
          let b1 := pairLoop (sideRow r cs false) [] ls
          let b2 := pairLoop (sideRow p cs true) ls.reverse fs
          .ok ⟨la ++ fa ++ ca, adjOf (ls ++ fs ++ cs) (b1 ++ b2 ++ b3)⟩

def cleavedIds (r p : Mol) : List Nat := r.ids.filter fun n => !p.hasAtom n
def formedIds (r p : Mol) : List Nat := p.ids.filter fun n => !r.hasAtom n
def commonIds (r p : Mol) : List Nat := r.ids.filter fun n => p.hasAtom n

/-- `r ^ p` with the sets iterated in dict order -/
def compose (r p : Mol) : Except String CGR :=
  composeWith (cleavedIds r p) (formedIds r p) (commonIds r p) r p

/-! ## `Graph.union(remap=True)` / `Graph.remap`, `ReactionContainer.compose` -/

def rename (f : Nat → Nat) (m : Mol) : Mol :=
  ⟨m.atoms.map fun na => (f na.1, na.2), m.adj.map fun nl => (f nl.1, nl.2.map fun kb => (f kb.1, kb.2))⟩

def maxId (m : Mol) : Nat := m.ids.foldl max 0

/-- `{n: i for i, n in enumerate(other, start=max(self._atoms) + 1)}` as a function (`mapping.get(n, n)`) -/
def remapFun (start : Nat) (keys : List Nat) (n : Nat) : Nat :=
  match keys.idxOf? n with
  | some i => start + i
  | none => n

/-- `a | b` = `a.union(b, remap=True)`: atoms of `b` are renumbered above `max(a)` when the numberings collide. -/
def union (a b : Mol) : Mol :=
  let b' := if a.ids.any (fun n => b.hasAtom n) then rename (remapFun (maxId a + 1) b.ids) b else b
  ⟨a.atoms ++ b'.atoms, a.adj ++ b'.adj⟩

/-- `reduce(or_, ms)` or `MoleculeContainer()` when `ms` is empty -/
def unionAll : List Mol → Mol
  | [] => Mol.empty
  | m :: ms => ms.foldl union m

/-- `ReactionContainer.compose`: reagents are put on the reactant side. -/
def rxnCompose (reactants reagents products : List Mol) : Except String CGR :=
  compose (unionAll (reagents ++ reactants)) (unionAll products)

end ChythonModel.Model.C15
