import ChythonModel.Model.C03Front
import ChythonModel.Model.Valence
/-!
# C03 — hydrogens after graph construction (`chython/files/_convert.py:create_molecule`, second half)

What `smiles()` does to every atom once atoms and bonds are in place (keyword values of `smiles()`:
`keep_implicit=False, keep_radicals=False, ignore_aromatic_radicals=True, ignore_carbon_radicals=False, ignore=True`):

* an atom written without brackets (`implicit_hydrogens is None`) gets `calc_implicit(n)`;
* a bracket atom carries its written count `h`; `calc_implicit(n)` is run and compared:
  equal → kept; no valence state and aromatic → `h` restored; no valence state, not aromatic → try the radical form
  (`check_implicit(n, h)` with `is_radical = True`), else the count stays `None`; different count → aromatic: the
  `c[c]c` radical special case or the calculated count stays; not aromatic: `check_implicit(n, h)`, then the radical
  form, else the calculated count stays (and the written one goes to `meta['chython_implicit_mismatch']`).

`calc_implicit` / `check_implicit` are C04's executable model (`Model/Valence.lean`: `calcWith`, `checkWith`) over the
compiled valence tables of the regenerated periodic table (`tableOf`).  The context of an atom is read from the built
container exactly as `calc_implicit` reads it: `(bond order, neighbour atomic number)` in `_bonds[n]` insertion order.
-/
namespace ChythonModel.Model.C03
open ChythonModel.Model.Valence

/-- `not h and not a.charge and not a.is_radical and a in (B, C, N, P) and sum(b != 8 for b in bonds[n].values()) == 2` -/
def aromRadicalCase (c : Ctx) (h : Nat) : Bool :=
  h == 0 && c.charge == 0 && !c.radical && (c.z == 5 || c.z == 6 || c.z == 7 || c.z == 15) &&
    (c.bonds.filter (·.1 != 8)).length == 2

/-- `a.hybridization == 4` as `calc_labels` computes it: some bond of order 4 -/
def isAromaticAtom (c : Ctx) : Bool := aromaCount c.bonds != 0

/-- the per-atom branch of the hydrogen loop of `create_molecule`, given the element's `calc_implicit` and
    `check_implicit`; result = (new `_implicit_hydrogens`, new `_is_radical`) -/
def assignWith (calcF : Ctx → Option Nat) (checkF : Ctx → Nat → Bool) (c : Ctx) (hyd : Option Nat) : Option Nat × Bool :=
  match hyd with
  | none => (calcF c, c.radical)
  | some h =>
    match calcF c with
    | none =>
      if isAromaticAtom c then (some h, c.radical)
      else if !c.radical then
        (if checkF { c with radical := true } h then (some h, true) else (none, false))
      else (none, true)
    | some k =>
      if h == k then (some k, c.radical)
      else if isAromaticAtom c then
        (if aromRadicalCase c h then (some 0, true) else (some k, c.radical))
      else if checkF c h then (some h, c.radical)
      else if !c.radical then
        (if checkF { c with radical := true } h then (some h, true) else (some k, false))
      else (some k, true)

/-- over the compiled table of the atom's element; `none` = no table (Python would raise) -/
def assignH (c : Ctx) (hyd : Option Nat) : Option (Option Nat × Bool) :=
  (tableOf c.z).map fun t => assignWith (calcWith t) (checkWith t) c hyd

/-- atomic number of atom `n` of the built molecule -/
def zOfAtom (m : MolOut) (n : Nat) : Option Nat := (m.atoms.find? (·.1 == n)).map (·.2.1)

/-- what `calc_implicit(n)` reads for one atom entry of the built molecule; `none` = `KeyError` -/
def hCtx (m : MolOut) (a : Nat × Nat × Option Nat × Int × Bool × Option Nat) : Option Ctx :=
  match lookupNat a.1 m.adj with
  | none => none
  | some nb =>
    (nb.mapM fun (kb : Nat × Nat) => (zOfAtom m kb.1).map fun z => (kb.2, z)).map fun bs =>
      ⟨a.2.1, a.2.2.2.1, a.2.2.2.2.1, bs⟩

/-- the hydrogen loop over all atoms (`for n, a in atoms.items()`): (atom number, hydrogens, radical) -/
def hydLoop (m : MolOut) : List (Nat × Nat × Option Nat × Int × Bool × Option Nat) →
    Except Err (List (Nat × Option Nat × Bool))
  | [] => .ok []
  | a :: tl =>
    match hCtx m a with
    | none => .error (.crash "KeyError")
    | some c =>
      match assignH c a.2.2.2.2.2 with
      | none => .error (.crash "ValenceTable")
      | some r =>
        match hydLoop m tl with
        | .error e => .error e
        | .ok rest => .ok ((a.1, r.1, r.2) :: rest)

def molHydrogens (m : MolOut) : Except Err (List (Nat × Option Nat × Bool)) := hydLoop m m.atoms

/-! ## the keyword arguments of `smiles()` that only act inside the hydrogen loop -/

/-- `keep_implicit`, `ignore_aromatic_radicals`, `ignore_carbon_radicals` as `smiles()` forwards them to
    `create_molecule` / `create_reaction` (defaults of `smiles()`) -/
structure HOpts where
  keepImplicit : Bool := false
  ignoreAromaticRadicals : Bool := true
  ignoreCarbonRadicals : Bool := false
  deriving Repr, DecidableEq, Inhabited

/-- the per-atom branch with the options; third component: the atom was appended to `radicalized` -/
def assignOptCore (o : HOpts) (calcF : Ctx → Option Nat) (checkF : Ctx → Nat → Bool) (c : Ctx) (hyd : Option Nat) :
    Option Nat × Bool × Bool :=
  match hyd with
  | none => (calcF c, c.radical, false)
  | some h =>
    if o.keepImplicit then (some h, c.radical, false)
    else
    match calcF c with
    | none =>
      if isAromaticAtom c then
        (if !o.ignoreAromaticRadicals && aromRadicalCase c h then (some h, true, true) else (some h, c.radical, false))
      else if !c.radical then
        (if checkF { c with radical := true } h then (some h, true, true) else (none, false, false))
      else (none, true, false)
    | some k =>
      if h == k then (some k, c.radical, false)
      else if isAromaticAtom c then
        (if aromRadicalCase c h then (some 0, true, true) else (some k, c.radical, false))
      else if checkF c h then (some h, c.radical, false)
      else if !c.radical then
        (if checkF { c with radical := true } h then (some h, true, true) else (some k, false, false))
      else (some k, true, false)

/-- … followed by the `ignore_carbon_radicals` pass over `radicalized` (`a == C`: radical off, one more hydrogen) -/
def assignOpt (o : HOpts) (calcF : Ctx → Option Nat) (checkF : Ctx → Nat → Bool) (c : Ctx) (hyd : Option Nat) :
    Option Nat × Bool :=
  let r := assignOptCore o calcF checkF c hyd
  if o.ignoreCarbonRadicals && r.2.2 && c.z == 6 then (r.1.map (· + 1), false) else (r.1, r.2.1)

def assignHOpt (o : HOpts) (c : Ctx) (hyd : Option Nat) : Option (Option Nat × Bool) :=
  (tableOf c.z).map fun t => assignOpt o (calcWith t) (checkWith t) c hyd

def hydLoopOpt (o : HOpts) (m : MolOut) : List (Nat × Nat × Option Nat × Int × Bool × Option Nat) →
    Except Err (List (Nat × Option Nat × Bool))
  | [] => .ok []
  | a :: tl =>
    match hCtx m a with
    | none => .error (.crash "KeyError")
    | some c =>
      match assignHOpt o c a.2.2.2.2.2 with
      | none => .error (.crash "ValenceTable")
      | some r =>
        match hydLoopOpt o m tl with
        | .error e => .error e
        | .ok rest => .ok ((a.1, r.1, r.2) :: rest)

def molHydrogensOpt (o : HOpts) (m : MolOut) : Except Err (List (Nat × Option Nat × Bool)) := hydLoopOpt o m m.atoms

end ChythonModel.Model.C03
