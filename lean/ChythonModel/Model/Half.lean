/-!
# C10 — half-precision conversion of the pack format on dyadic rationals (no `Float`)

`toF16` = `double_to_float16` of `_pack_v2.pyx`, `ofF16` = `double_from_bytes` of `_unpack_v0v2.pyx`.
A finite double is `±m·2^e`; `frexp`, `*2`, `ldexp`, `-1`, `*1024` are exact on doubles in the accepted range
(recorded assumption), the final cast truncates toward zero.
-/
namespace ChythonModel.Model.Pack

/-- store into `unsigned char` -/
@[inline] def u8 (n : Nat) : Nat := n % 256
/-- store into `unsigned short` -/
@[inline] def u16 (n : Nat) : Nat := n % 65536

/-! ## half precision on dyadic rationals -/

/-- a finite double `±m·2^e` -/
structure Dy where
  neg : Bool
  m : Nat
  e : Int
  deriving DecidableEq, Repr, Inhabited

/-- `⌊m·2^k⌋` -/
def scale2 (m : Nat) (k : Int) : Nat := if k ≥ 0 then m <<< k.toNat else m >>> (-k).toNat

/-- `double_to_float16`: the 16 bits written big-endian into `p[0], p[1]`.
    `frexp` gives `x = f·2^E`, `f ∈ [½,1)`, `E = bitlength m + e`; all later steps (`*2`, `ldexp`, `-1`, `*1024`)
    are exact on doubles in the accepted range, the cast `<unsigned short> f` truncates toward zero. -/
def toF16 (x : Dy) : Nat :=
  if x.m = 0 then 0 else                       -- `if x == 0.` (also −0.0)
  let sign := if x.neg then 1 else 0
  let e : Int := ((Nat.log2 x.m + 1 : Nat) : Int) + x.e - 1   -- `f = frexp(x, &e); e -= 1`
  if e ≥ 16 ∨ e < -25 then 0 else              -- ignore big (and tiny) values
  if e < -14 then                              -- subnormal: f = ldexp(2f, 14 + e) = x·2^14 ; e = 0
    u16 (scale2 x.m (x.e + 24) ||| (sign <<< 15))
  else                                         -- e += 15 ; f = 2f − 1 ; f *= 1024
    u16 ((scale2 x.m (x.e - e + 10) - 1024) ||| ((e + 15).toNat <<< 10) ||| (sign <<< 15))

/-- `double_from_bytes(a, b)` with `bits = a·256 + b`. -/
def ofF16 (bits : Nat) : Dy :=
  let a := bits >>> 8
  let b := bits &&& 0xff
  let sign := (a >>> 7) != 0
  let e := (a >>> 2) &&& 0x1f
  let f := ((a &&& 0x03) <<< 8) ||| b
  if e != 0 then ⟨sign, 1024 + f, (e : Int) - 15 - 10⟩     -- (f/1024 + 1)·2^(e−15)
  else ⟨sign, f, -24⟩                                       -- (f/1024)·2^(−14)

end ChythonModel.Model.Pack
