import ChythonModel.Model.C15Compose
import ChythonModel.Gen.C15Strings
import ChythonModel.Gen.PeriodicTable
/-!
# C15 — tokens of the CGR signature: `CGRSmiles._format_atom`, `CGRSmiles._format_bond` (algorithms/smiles.py)

The string tables (`dyn_order_str`, `dyn_charge_str`, `dyn_radical_str`, `organic_set`) and the element symbols are
regenerated from /repo on every run (`Gen/C15Strings.lean`, `Gen/PeriodicTable.lean`). A dict lookup that would raise
`KeyError` is an `Except` error.
-/
namespace ChythonModel.Model.C15
open ChythonModel.Gen ChythonModel.Gen.C15

/-- `atom.atomic_symbol` of the `Dynamic<Symbol>` class with this atomic number -/
def symbolOf (z : Nat) : Option String := (periodicTable.find? (·.z == z)).map (·.sym)

/-- `CGRSmiles._format_bond`: `dyn_order_str[(bond.order, bond.p_order)]` -/
def cgrBondToken (b : DynBond) : Except String String :=
  match dynOrderStr.lookup (b.order, b.pOrder) with
  | some s => .ok s
  | none => .error "KeyError"

/-- `CGRSmiles._format_atom` -/
def cgrAtomToken (a : DynAtom) : Except String String :=
  match symbolOf a.z with
  | none => .error "KeyError"
  | some sym =>
    let iso : List String := match a.isotope with
      | some i => if i != 0 then [toString i] else []
      | none => []
    let charge : Except String (List String) :=
      if a.charge != 0 || a.pCharge != 0 then
        match dynChargeStr.lookup (a.charge, a.pCharge) with
        | some s => .ok [s]
        | none => .error "KeyError"
      else .ok []
    let radical : Except String (List String) :=
      if a.radical || a.pRadical then
        match dynRadicalStr.lookup (a.radical, a.pRadical) with
        | some s => .ok [s]
        | none => .error "KeyError"
      else .ok []
    match charge, radical with
    | .error e, _ => .error e
    | _, .error e => .error e
    | .ok c, .ok r =>
      let smi := iso ++ [sym] ++ c ++ r
      if smi.length != 1 || !organicSet.contains sym then .ok ("[" ++ String.join smi ++ "]")
      else .ok (String.join smi)

end ChythonModel.Model.C15
