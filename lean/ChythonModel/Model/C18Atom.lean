import ChythonModel.Gen.PeriodicTable
import ChythonModel.Model.Valence
import ChythonModel.Model.BitLayout
/-!
# C18 — executable model of the element lookups, of one live atom object, and of the isotope/radical/charge part of the
matcher bit layout (core Lean only; run by `Drivers/C18.lean`, theorems in `Props/C18.lean`)

Mirrors `chython/periodictable/base/element.py`:
* `Element.from_symbol`, `Element.from_atomic_number`            → `fromSymbol`, `fromNumber`
* `Element.__init__` (isotope, charge, is_radical in this order) → `new`
* `isotope.setter`, `charge.setter`, `is_radical.setter`          → `setIsotope`, `setCharge`, `setRadical`
* `atomic_mass`                                                  → `massOf` (exact, in units of 10⁻¹²: the tables are micro-units)
* `copy()` (the three true atomic properties)                    → `Obj` is a value: the copy is the object
* `valence_rules(v)`                                              → C04's `compileRules` / `valenceRules` at the object's state
and, for the matcher clause, the third 64-bit word of a one-atom molecule (`_cython_compiled_structure`) and of the query atom
describing the same state (`_cython_compiled_query`) through C09's `Bits.atomV3` / `Bits.qWords`, with the two acceptance tests
(`mask3 & bits3 == bits3`; `QueryElement.__eq__`).

An object is its state: the model has no hidden field, so "what is observed depends only on the current state" is how the
model is built; the correspondence check is what ties the real object (which may carry more) to it.
-/
namespace ChythonModel.Model.C18
open ChythonModel.Gen ChythonModel.Model

/-! ## lookups as the code performs them -/

/-- `Element.from_symbol`: first subclass with that name. -/
def fromSymbol (s : String) : Option ElemRow := periodicTable.find? (·.sym == s)

/-- `Element.from_atomic_number`: `{x.atomic_number: x for x in subclasses}[n]` — the *last* row wins. -/
def fromNumber (n : Nat) : Option ElemRow := periodicTable.reverse.find? (·.z == n)

def keys (l : List (Nat × Nat)) : List Nat := l.map (·.1)

/-! ## one atom object -/

/-- a Python value handed to a setter -/
inductive PyVal
  | none
  | int (i : Int)
  | bool (b : Bool)     -- `isinstance(True, int)` holds: an isotope / charge setter treats it as 1 / 0
  | other               -- float, str, …
  deriving Repr, DecidableEq, Inhabited

inductive Err
  | valueError | typeError | keyError
  deriving Repr, DecidableEq, Inhabited

def Err.name : Err → String
  | .valueError => "ValueError" | .typeError => "TypeError" | .keyError => "KeyError"

/-- the true atomic properties of an `Element` instance -/
structure Obj where
  isotope : Option Nat
  charge : Int
  radical : Bool
  deriving Repr, DecidableEq, Inhabited

def asInt? : PyVal → Option Int
  | .int i => some i
  | .bool b => some (if b then 1 else 0)
  | _ => Option.none

/-- `isotope.setter`: an int must be a key of `isotopes_distribution` (`ValueError`), `None` clears, anything else `TypeError` -/
def setIsotope (r : ElemRow) (o : Obj) (v : PyVal) : Except Err Obj :=
  match asInt? v with
  | some i => if 0 ≤ i && (keys r.dist).contains i.toNat then .ok { o with isotope := some i.toNat } else .error .valueError
  | Option.none => match v with
    | .none => .ok { o with isotope := Option.none }
    | _ => .error .typeError

/-- `charge.setter` -/
def setCharge (o : Obj) (v : PyVal) : Except Err Obj :=
  match asInt? v with
  | some i => if i > 4 || i < -4 then .error .valueError else .ok { o with charge := i }
  | Option.none => .error .typeError

/-- `is_radical.setter` -/
def setRadical (o : Obj) (v : PyVal) : Except Err Obj :=
  match v with
  | .bool b => .ok { o with radical := b }
  | _ => .error .typeError

/-- `Element.__init__(isotope, charge=…, is_radical=…)` -/
def new (r : ElemRow) (iso c rad : PyVal) : Except Err Obj :=
  match setIsotope r ⟨Option.none, 0, false⟩ iso with
  | .error e => .error e
  | .ok o1 =>
    match setCharge o1 c with
    | .error e => .error e
    | .ok o2 => setRadical o2 rad

/-- `sum(x * mass[i] for i, x in isotopes_distribution.items())` in units of 10⁻¹² (`KeyError` when a key has no mass) -/
def naturalMass (mass : List (Nat × Nat)) : List (Nat × Nat) → Except Err Nat
  | [] => .ok 0
  | (i, x) :: tl =>
    match mass.lookup i with
    | Option.none => .error .keyError
    | some m =>
      match naturalMass mass tl with
      | .error e => .error e
      | .ok s => .ok (x * m + s)

/-- `atomic_mass` as a function of the row and the isotope label only -/
def massIso (r : ElemRow) : Option Nat → Except Err Nat
  | Option.none => naturalMass r.mass r.dist
  | some i => match r.mass.lookup i with
    | Option.none => .error .keyError
    | some m => .ok (m * 1000000)

def massOf (r : ElemRow) (o : Obj) : Except Err Nat := massIso r o.isotope

/-- `valence_rules(v)`: `none` = `ValenceError` (also when the table does not compile) -/
def rulesOf (r : ElemRow) (o : Obj) (v : Nat) : Option (List Valence.Rule) :=
  match Valence.compileRules periodicTable r with
  | .ok t => Valence.valenceRules t o.charge o.radical v
  | .error _ => Option.none

/-! ## histories -/

inductive Op
  | iso (v : PyVal)
  | charge (v : PyVal)
  | rad (v : PyVal)
  | read
  | copy
  | rules (v : Nat)
  deriving Repr, DecidableEq, Inhabited

/-- what one step shows -/
inductive Obs
  | done                          -- assignment accepted / copy made
  | raised (e : Err)
  | mass (m : Except Err Nat)
  | rules (r : Option (List Valence.Rule))
  deriving Repr, Inhabited

def stepSet (o : Obj) : Except Err Obj → Obj × Obs
  | .ok o' => (o', .done)
  | .error e => (o, .raised e)

/-- one step on the live object: a rejected assignment leaves it as it was, reads do not change it -/
def step (r : ElemRow) (o : Obj) : Op → Obj × Obs
  | .iso v => stepSet o (setIsotope r o v)
  | .charge v => stepSet o (setCharge o v)
  | .rad v => stepSet o (setRadical o v)
  | .read => (o, .mass (massOf r o))
  | .copy => (o, .done)
  | .rules v => (o, .rules (rulesOf r o v))

def run (r : ElemRow) (o : Obj) : List Op → Obj × List Obs
  | [] => (o, [])
  | op :: ops =>
    let p := step r o op
    let q := run r p.1 ops
    (q.1, p.2 :: q.2)

/-- the final object alone -/
def runObj (r : ElemRow) (o : Obj) (ops : List Op) : Obj := (run r o ops).1

/-! ## matcher bit layout at a state (one-atom molecule, own query atom) -/

def mAtom (r : ElemRow) (o : Obj) (h : Option Nat) (nb het : Nat) : Query.MAtom :=
  { z := r.z, isotope := o.isotope, charge := o.charge, radical := o.radical, neighbors := nb, hybridization := 1,
    ringSizes := [], implH := h, heteroatoms := het }

/-- the query atom `QueryX(isotope, charge=…, is_radical=…[, implicit_hydrogens=qh])` -/
def qAtom (r : ElemRow) (q : Obj) (qh : Option Nat) : Query.QAtom :=
  { kind := .element r.z q.isotope, charge := q.charge, radical := q.radical, implH := qh.toList }

/-- bits3 of the molecule atom, or the encoder's exception -/
def molV3 (r : ElemRow) (o : Obj) (h : Option Nat) (nb het : Nat) : Except Bits.EncErr Nat :=
  (Bits.encAtom r.mdl (mAtom r o h nb het)).map (·.v3)

/-- mask3 of a query atom of the same element -/
def queryV3 (r : ElemRow) (q : Obj) (qh : Option Nat) : Except Bits.EncErr Nat :=
  match r.qmdl with
  | Option.none => .error .keyError
  | some qmdl => (Bits.encQAtom qmdl (qAtom r q qh) Option.none).map (·.v3)

/-- the accelerated root test on all four words (one-atom molecule, one-atom query); `none` when an encoder raises -/
def accelFound (r : ElemRow) (q : Obj) (qh : Option Nat) (o : Obj) (h : Option Nat) (nb het : Nat) : Option Bool :=
  match r.qmdl with
  | Option.none => Option.none
  | some qmdl =>
    match Bits.encQAtom qmdl (qAtom r q qh) Option.none, Bits.encAtom r.mdl (mAtom r o h nb het) with
    | .ok m, .ok b =>
      some (Bits.rootOk ⟨m.v1, m.v2, m.v3, m.v4, 0, 0, 0, 0, 1⟩ ⟨b.v1, b.v2, b.v3, b.v4, 0, 0, 1⟩)
    | _, _ => Option.none

/-- reference acceptance: `QueryElement.__eq__` (C08's model) -/
def pyFound (r : ElemRow) (q : Obj) (qh : Option Nat) (o : Obj) (h : Option Nat) (nb het : Nat) : Bool :=
  Query.pyEq (qAtom r q qh) (mAtom r o h nb het)

/-- what the documentation says a query atom selects among atoms of its element: isotope unspecified or equal, charge and
    radical flag equal, hydrogen count unspecified or equal -/
def selects (q : Obj) (qh : Option Nat) (o : Obj) (h : Option Nat) : Bool :=
  (match q.isotope with | Option.none => true | some i => o.isotope == some i) && q.charge == o.charge && q.radical == o.radical
    && (match qh with | Option.none => true | some k => h == some k)

end ChythonModel.Model.C18
