import ChythonModel.Model.C11Mol2000
/-!
# C11 — SDF framing: `SDFWrite.write`, `SDFRead._read_block/_read_mol/_read_metadata/read_metadata`,
`MDLRead.__iter__` (skip on `ValueError`/`LookupError`, stop on `EOFError`), `reset_index` (grep) + `seek` + `__getitem__`.

A *file* is the list of its lines (each with its `'\n'`), i.e. what `for line in self._file` yields.
-/
namespace ChythonModel.Model.C11
open ChythonModel.Gen.Mdl

/-- `str.replace(old, new)` for non-empty `old`: leftmost, non-overlapping. `skip` = chars of a match still to drop. -/
def replaceGo (old new : Str) : Nat → Str → Str
  | _, [] => []
  | skip + 1, _ :: cs => replaceGo old new skip cs
  | 0, c :: cs =>
    if old.isPrefixOf (c :: cs) then new ++ replaceGo old new (old.length - 1) cs
    else c :: replaceGo old new 0 cs

def replace (old new : Str) (s : Str) : Str := if old.isEmpty then s else replaceGo old new 0 s

/-- `for e, s in escape_map.items(): k = k.replace(e, s)` -/
def applyEscapes (m : List (String × String)) (k : Str) : Str :=
  m.foldl (fun k es => replace es.1.toList es.2.toList k) k

def joinWith (sep : Str) : List Str → Str
  | [] => []
  | [a] => a
  | a :: b :: t => a ++ sep ++ joinWith sep (b :: t)

/-- `re.match(r'^>([^<]+)<([^>]+)>([^><]*)$', line)`: the three groups, or `none`.
Hand transcription of the pattern whose source text is regenerated as `Gen.Mdl.metaPattern`. -/
def matchMeta (line : Str) : Option (Str × Str × Str) :=
  match line with
  | '>' :: rest =>
    let g1 := rest.takeWhile (· != '<')
    match rest.dropWhile (· != '<') with
    | '<' :: r2 =>
      let g2 := r2.takeWhile (· != '>')
      match r2.dropWhile (· != '>') with
      | '>' :: r3 =>
        if g1.isEmpty || g2.isEmpty then none
        else if r3.any (fun c => c == '>' || c == '<') then none
        else some (g1, g2, r3)
      | _ => none
    | _ => none
  | _ => none

/-- the pattern text this file transcribes -/
def metaPatternModelled : String := "^>([^<]+)<([^>]+)>([^><]*)$"

/-- `defaultdict(list)[k].append(v)` on an insertion-ordered association list -/
def dictAppend (d : List (Str × List Str)) (k v : Str) : List (Str × List Str) :=
  if d.any (·.1 == k) then d.map (fun kv => if kv.1 == k then (kv.1, kv.2 ++ [v]) else kv)
  else d ++ [(k, [v])]

def unparsedKey : Str := "chython_unparsed_metadata".toList

/-- the loop of `SDFRead.read_metadata` -/
def readMetaLoop : List Str → Option Str → List (Str × List Str) → List (Str × List Str)
  | [], _, d => d
  | line :: rest, mkey, d =>
    match matchMeta line with
    | some (g1, g2, g3) =>
      let parts := ([g1, g2, g3].map strip).filter (fun y => !y.isEmpty)
      let k := applyEscapes sdfReadEscape (joinWith [' '] parts)
      readMetaLoop rest (some k) d
    | none =>
      match mkey with
      | some k =>
        if !k.isEmpty then
          let l := strip line
          readMetaLoop rest mkey (if l.isEmpty then d else dictAppend d k l)
        else readMetaLoop rest mkey (dictAppend d unparsedKey (strip line))
      | none => readMetaLoop rest mkey (dictAppend d unparsedKey (strip line))

/-- `SDFRead.read_metadata` on the metadata lines of a block -/
def readMeta (lines : List Str) : List (Str × Str) :=
  (readMetaLoop lines none []).map fun kv => (kv.1, joinWith ['\n'] kv.2)

/-- the metadata chunks `SDFWrite.write` emits: `>  <{k}>\n{v}\n\n` -/
def writeMetaChunk (kv : Str × Str) : Str :=
  sL ">  <" ++ applyEscapes sdfWriteEscape kv.1 ++ sL ">\n" ++ kv.2 ++ sL "\n\n"

/-- `SDFWrite.write(mol)`: the text appended to the file -/
def sdfWrite (mapping : Bool) (g : WMol) (md : List (Str × Str)) : R Str := do
  let ml ← writeMol2000 mapping g
  pure (ml.flatten ++ (md.map writeMetaChunk).flatten ++ sL "$$$$\n")

/-! ## reader: blocks -/

structure Block where
  buf : List Str
  mEnd : Option Nat
  deriving DecidableEq, Repr, Inhabited

/-- `line.startswith('$$$$')` -/
def isSep (l : Str) : Bool := startsWith l (sL "$$$$")

/-- `line.startswith('M  END')` -/
def isMEnd (l : Str) : Bool := startsWith l (sL "M  END")

/-- the loop of `SDFRead._read_block`; returns the block and the lines left in the file -/
def readBlockGo (bufSize : Nat) : Nat → List Str → Option Nat → List Str → R (Block × List Str)
  | _, buf, mEnd, [] => pure (⟨buf, mEnd⟩, [])
  | n, buf, mEnd, line :: rest =>
    if isSep line then pure (⟨buf, mEnd⟩, rest)
    else if n == bufSize then throw .bufferOverflow
    else
      let buf' := buf ++ [line]
      let mEnd' := if mEnd.isNone && isMEnd line then some buf'.length else mEnd
      readBlockGo bufSize (n + 1) buf' mEnd' rest

/-- `_read_block(current=False)`: `EOFError` when nothing was collected -/
def readBlock (bufSize : Nat) (file : List Str) : R (Block × List Str) := do
  let (b, rest) ← readBlockGo bufSize 0 [] none file
  if b.buf.isEmpty then throw .eof else pure (b, rest)

/-- `_read_mol` -/
def blockMol (b : Block) : R (List Str) :=
  match b.mEnd with
  | some k => pure (b.buf.take k)
  | none => throw .invalidMolBlock

/-- `_read_metadata` -/
def blockMeta (b : Block) : R (List Str) :=
  match b.mEnd with
  | some k => pure (b.buf.drop k)
  | none => throw .invalidMolBlock

structure Rec where
  mol : PMol
  mapping : List Int
  md : List (Str × Str)
  deriving DecidableEq, Repr, Inhabited

/-- the modelled part of `SDFRead.read_structure` on a V2000 block (V3000 blocks are dispatched by the caller;
`create_molecule` and the stereo post-processing are outside this model) -/
def isV3000 (data : List Str) : R Bool := do
  let l4 ← lineAt data 4
  pure (startsWith l4 (sL "M  V30 BEGIN CTAB"))

def readStructure2000 (b : Block) : R Rec := do
  let data ← blockMol b
  let v3 ← isV3000 data
  if v3 then throw .unsupported
  let mol ← parseMol2000 data
  let mapping ← postprocessMapping (mol.atoms.map (·.map))
  let ml ← blockMeta b
  pure { mol, mapping, md := readMeta ml }

/-- `MDLRead.__iter__`: records yielded, and the exception that ended the iteration if it was not `EOFError`.
`fuel` bounds the number of blocks (any value ≥ number of lines + 1 suffices). -/
def iterate (rs : Block → R ρ) (bufSize : Nat) : Nat → List Str → List ρ × Option Err
  | 0, _ => ([], none)
  | fuel + 1, file =>
    match readBlock bufSize file with
    | .error .eof => ([], none)
    | .error e => ([], some e)     -- `BufferOverflow` from `_read_block` is not a ValueError: it propagates
    | .ok (b, rest) =>
      match rs b with
      | .ok r => let (out, e) := iterate rs bufSize fuel rest; (r :: out, e)
      | .error .eof => ([], none)
      | .error e =>
        if e.isSkipped then iterate rs bufSize fuel rest else ([], some e)

/-! ## index -/

def hasInfix (p : Str) : Str → Bool
  | [] => p.isEmpty
  | c :: cs => p.isPrefixOf (c :: cs) || hasInfix p cs

/-- positions (line numbers) following each line accepted by `hit`, scanning from line number `i` -/
def positionsAfter (hit : Str → Bool) : Nat → List Str → List Nat
  | _, [] => []
  | i, l :: ls => if hit l then (i + 1) :: positionsAfter hit (i + 1) ls else positionsAfter hit (i + 1) ls

/-- line indices at which records start according to `reset_index`: `grep -bE '^\$\$\$\$'` reports every line
*starting with* `$$$$` (since the `fix:` commit a10377d; before, every line *containing* `$$$$` — `indexStartsOld`);
a record starts after each such line; the last entry is popped. -/
def indexStarts (file : List Str) : List Nat := (0 :: positionsAfter isSep 0 file).dropLast

def indexStartsOld (file : List Str) : List Nat := (0 :: positionsAfter (hasInfix (sL "$$$$")) 0 file).dropLast

/-- the byte offset of line `i` (ASCII text), as stored in `_shifts`; a last line without `'\n'` counts one more
because grep prints it with a newline -/
def lineOffset (file : List Str) (i : Nat) : Nat :=
  ((file.take i).map fun l => if l.getLast? == some '\n' then l.length else l.length + 1).sum

def indexShifts (file : List Str) : List Nat := (indexStarts file).map (lineOffset file)

/-- `reader[i]` for `0 ≤ i`: `seek(i)` then `read_structure()` -/
def getItem (rs : Block → R ρ) (bufSize : Nat) (file : List Str) (i : Nat) : R ρ :=
  match (indexStarts file)[i]? with
  | none => throw .indexError
  | some s => do
    let (b, _) ← readBlock bufSize (file.drop s)
    rs b

end ChythonModel.Model.C11
