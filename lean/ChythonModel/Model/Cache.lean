import ChythonModel.Model.Graph
import ChythonModel.Gen.CacheEffects
import ChythonModel.Spec.Deps
/-!
# C13 — executable model of chython's cache / pending-change / transaction discipline

The *control skeleton* of every self-mutating public method (what is flushed with which keep flags, what is popped,
which memoised values are read, when `_changed` / `_backup` are read and written, when hydrogens and labels are
recomputed) is **not** written here: it is the event list regenerated from the source text on every run
(`Gen/CacheEffects.lean`), inlined by `expand` and executed by `interp`.  Hand-written here are only the data
semantics the events are bound to: the raw graph edits of `add_atom/add_bond/delete_atom/delete_bond/remap/union`
(dict order preserved, Python's raise order), object creation by `copy/substructure/union`, and the canonical values
of memoised attributes.

Values are *canonical*: a memoised value is represented by the view of the molecule it is allowed to depend on
(`Spec/Deps.lean`) at the moment it was computed, plus a poison flag if it was computed from a stale memoised value.
An entry is stale iff poisoned or its view differs from the current one.  Stored hydrogen counts are represented by the
environment (`envOf`) they were computed from, stored labels by the graph and ring data they were computed from.
Python exceptions leave the partially updated object behind, exactly as the code does (`Res.err`).
-/
namespace ChythonModel.Model.C13
open ChythonModel.Model ChythonModel.Gen.CacheEffects ChythonModel.Spec.Deps

/-! ## canonical values -/

abbrev Env := List Int

/-- what `calc_implicit(n)` looks at: own element/charge/radical and, per non-special bond in dict order,
(order, neighbour element) -/
def envOf (m : Mol) (n : Nat) : Env :=
  match m.atom? n with
  | none => []
  | some a => [(a.z : Int), a.charge, if a.radical then 1 else 0] ++
      ((m.nbrs n).filter (·.2.order != 8)).flatMap fun kb => [(kb.2.order : Int), (((m.atom? kb.1).map (·.z)).getD 0 : Nat)]

/-- what `calc_labels` looks at besides the ring data: per atom the bonds (neighbour, order, neighbour element) -/
def labelView (m : Mol) : List (Nat × List (Nat × Nat × Nat)) :=
  m.adj.map fun p => (p.1, p.2.map fun kb => (kb.1, kb.2.order, ((m.atom? kb.1).map (·.z)).getD 0))

structure LSnap where
  g : List (Nat × List (Nat × Nat × Nat))
  rings : AdjView
  ringsBad : Bool
  deriving DecidableEq, Repr, Inhabited

structure FullView where
  atoms : List (Nat × Nat × Option Nat × Int × Bool)
  adj : List (Nat × List (Nat × Nat))
  hs : List (Nat × Env)
  labels : Option LSnap
  deriving DecidableEq, Repr, Inhabited

inductive Val where
  | adj (v : AdjView)
  | full (v : FullView)
  deriving DecidableEq, Repr, Inhabited

structure Entry where
  key : String
  val : Val
  bad : Bool
  deriving DecidableEq, Repr, Inhabited

/-- everything of a molecule object except the two transaction slots (this is also what a backup copy holds) -/
structure Core where
  mol : Mol
  xy : List (Nat × Nat)              -- atom → address of its Vector object
  hs : List (Nat × Env)              -- atom → environment its stored hydrogen count was computed from
  labels : Option LSnap              -- what the stored labels were computed from (`none`: never computed)
  cache : List Entry                 -- `__dict__`
  name : Option (Option Nat)         -- slot: unset | None | a string (abstract)
  info : Option (Option (List (Nat × Nat)))
  deriving DecidableEq, Repr, Inhabited

structure Obj extends Core where
  changed : Option (Option (List Nat))   -- slot `_changed`: unset | None | set
  backup : Option (Option Core)          -- slot `_backup`: unset | None | snapshot
  deriving DecidableEq, Repr, Inhabited

def fullView (c : Core) : FullView :=
  { atoms := c.mol.atoms.map fun p => (p.1, p.2.z, p.2.isotope, p.2.charge, p.2.radical)
    adj := c.mol.adj.map fun p => (p.1, p.2.map fun kb => (kb.1, kb.2.order))
    hs := c.hs, labels := c.labels }

def viewOf (k : Kind) (c : Core) : Val :=
  match k with
  | .skel => .adj (skelView c.mol)
  | .conn => .adj (connView c.mol)
  | .full => .full (fullView c)

def Entry.fresh (c : Core) (e : Entry) : Bool := !e.bad && e.val == viewOf (kindOf e.key) c

/-- every memoised value equals what would be computed now -/
def coherent (c : Core) : Bool := c.cache.all (Entry.fresh c)

def labelsFresh (c : Core) : Bool := c.labels == some ⟨labelView c.mol, skelView c.mol, false⟩
def hFresh (c : Core) (n : Nat) : Bool := c.hs.lookup n == some (envOf c.mol n)
def hStale (c : Core) : List Nat := c.mol.ids.filter fun n => !hFresh c n
def staleKeys (c : Core) : List String := (c.cache.filter fun e => !e.fresh c).map (·.key)

/-- labels and all hydrogen counts are up to date (what holds between public operations outside a transaction) -/
def settled (c : Core) : Bool := labelsFresh c && (hStale c).isEmpty

/-! ## errors and results -/

inductive Err where
  | attr (slot : String)        -- AttributeError: slot never assigned
  | key                         -- KeyError
  | lib (name : String)         -- chython exception class (MappingError, AtomNotFound, …) or ValueError of a guard
  | model (what : String)       -- the regenerated table contains something the model has no semantics for
  deriving DecidableEq, Repr, Inhabited

def Err.render : Err → String
  | .attr s => s!"crash:AttributeError:{s}"
  | .key => "crash:KeyError"
  | .lib n => s!"lib:{n}"
  | .model w => s!"model:{w}"

/-! ## the regenerated tables as one value (so that theorems quantify over tables and findings can name old ones) -/

structure Tables where
  fns : List Fn
  keys : List String
  keyReads : List (String × List String)
  flushKeepSssr : List String
  flushKeepComponents : List String
  copyKeepSssr : List String
  copyKeepComponents : List String
  copySlots : List String
  subSlots : List String
  subCalls : List String
  copyAtomsDeep : Bool
  copyBondsDeep : Bool
  subAtomsDeep : Bool
  subBondsDeep : Bool
  elementCopySharesXY : Bool
  deriving Repr, Inhabited

/-- today's source, as regenerated by `gen_effects` -/
def current : Tables :=
  { fns := fns, keys := cachedKeys, keyReads := keyReads, flushKeepSssr := flushKeepSssr, flushKeepComponents := flushKeepComponents,
    copyKeepSssr := copyKeepSssr, copyKeepComponents := copyKeepComponents, copySlots := copySlots, subSlots := subSlots,
    subCalls := subCalls, copyAtomsDeep := copyAtomsDeep, copyBondsDeep := copyBondsDeep, subAtomsDeep := subAtomsDeep,
    subBondsDeep := subBondsDeep, elementCopySharesXY := elementCopySharesXY }

/-! ## raw graph edits (hand-written data semantics; dict order and raise order as in the code) -/

def listMax (l : List Nat) : Nat := l.foldl max 0

def insertNbr (adj : List (Nat × List (Nat × Bond))) (n k : Nat) (b : Bond) : List (Nat × List (Nat × Bond)) :=
  adj.map fun p => if p.1 == n then (p.1, p.2 ++ [(k, b)]) else p

def eraseNbr (adj : List (Nat × List (Nat × Bond))) (n k : Nat) : List (Nat × List (Nat × Bond)) :=
  adj.map fun p => if p.1 == n then (p.1, p.2.filter (·.1 != k)) else p

/-- `Graph.add_atom` (number chosen as `max+1` when absent) -/
def gAddAtom (m : Mol) (z : Nat) (n? : Option Nat) : Except Err (Mol × Nat) :=
  let n := n?.getD (listMax m.ids + 1)
  if m.hasAtom n then .error (.lib "MappingError")
  else .ok (⟨m.atoms ++ [(n, { z := z })], m.adj ++ [(n, [])]⟩, n)

/-- `MoleculeContainer.add_bond` → `Bond(order)` → `Graph.add_bond` -/
def gAddBond (m : Mol) (a b order : Nat) : Except Err Mol :=
  if !([1, 2, 3, 4, 8].contains order) then .error (.lib "ValueError")
  else if a == b then .error (.lib "MappingError")
  else if !(m.adj.any (·.1 == a)) || !(m.adj.any (·.1 == b)) then .error (.lib "AtomNotFound")
  else if (m.nbrs b).any (·.1 == a) then .error (.lib "MappingError")
  else .ok ⟨m.atoms, insertNbr (insertNbr m.adj a b { order := order }) b a { order := order }⟩

/-- `delete_atom`: `del self._atoms[n]` raises KeyError first -/
def gDelAtom (m : Mol) (n : Nat) : Except Err Mol :=
  if !m.hasAtom n then .error .key
  else .ok ⟨m.atoms.filter (·.1 != n), (m.adj.filter (·.1 != n)).map fun p => (p.1, p.2.filter (·.1 != n))⟩

def gDelBond (m : Mol) (a b : Nat) : Except Err Mol :=
  if !(m.adj.any (·.1 == a)) || !((m.nbrs a).any (·.1 == b)) then .error .key
  else if !(m.adj.any (·.1 == b)) || !((m.nbrs b).any (·.1 == a)) then .error .key
  else .ok ⟨m.atoms, eraseNbr (eraseNbr m.adj a b) b a⟩

def mapId (mp : List (Nat × Nat)) (n : Nat) : Nat := (mp.lookup n).getD n

/-- `Graph.remap` guard: values unique, unmapped atoms disjoint from the new numbers -/
def remapOk (m : Mol) (mp : List (Nat × Nat)) : Bool :=
  (mp.map (·.2)).Nodup && (m.ids.filter fun n => !(mp.any (·.1 == n))).all fun n => !(mp.any (·.2 == n))

def gRemap (m : Mol) (mp : List (Nat × Nat)) : Except Err Mol :=
  if !remapOk m mp then .error (.lib "ValueError")
  else .ok ⟨m.atoms.map fun p => (mapId mp p.1, p.2),
            m.adj.map fun p => (mapId mp p.1, p.2.map fun kb => (mapId mp kb.1, kb.2))⟩

def remapKeys {α} (mp : List (Nat × Nat)) (l : List (Nat × α)) : List (Nat × α) := l.map fun p => (mapId mp p.1, p.2)

def LSnap.remap (mp : List (Nat × Nat)) (s : LSnap) : LSnap :=
  { g := s.g.map fun p => (mapId mp p.1, p.2.map fun q => (mapId mp q.1, q.2))
    rings := s.rings.map fun p => (mapId mp p.1, p.2.map (mapId mp)), ringsBad := s.ringsBad }

/-- labels of a disjoint union: each part keeps the labels it had (what they were computed from is the concatenation) -/
def LSnap.merge (a b : LSnap) : LSnap := ⟨a.g ++ b.g, a.rings ++ b.rings, a.ringsBad || b.ringsBad⟩

def mergeLabels : Option LSnap → Option LSnap → Option LSnap
  | some a, some b => some (a.merge b)
  | _, _ => none

/-! ## inlining the regenerated event lists -/

def resolveFlag (penv : List (String × Bool)) : Flag → Flag
  | .param p => match penv.lookup p with
      | some true => .yes
      | some false => .no
      | none => .param p
  | f => f

/-- `none`: statically false (event dropped); otherwise the guards that remain to be decided at run time -/
def resolveGuards (penv : List (String × Bool)) : List Guard → Option (List Guard)
  | [] => some []
  | .ifParam p neg :: gs =>
      match penv.lookup p with
      | some v => if v != neg then resolveGuards penv gs else none
      | none => (resolveGuards penv gs).map (Guard.ifParam p neg :: ·)
  | g :: gs => (resolveGuards penv gs).map (g :: ·)

def flagArgs (penv : List (String × Bool)) (args : List (String × Flag)) : List (String × Bool) :=
  args.filterMap fun a => match resolveFlag penv a.2 with
    | .yes => some (a.1, true)
    | .no => some (a.1, false)
    | .param _ => none

/-- flatten method `f` called with boolean keyword arguments `env` into a guard-tagged event list (calls inlined) -/
def expand (tbl : List Fn) : Nat → String → List (String × Bool) → List GEv
  | 0, f, _ => [⟨[], .call f []⟩]
  | fuel + 1, f, env =>
    match tbl.find? (·.name == f) with
    | none => [⟨[], .call f []⟩]
    | some fn =>
      let penv := fn.params.map fun pd => (pd.1, (env.lookup pd.1).getD pd.2)
      fn.evs.flatMap fun ge =>
        match resolveGuards penv ge.gs with
        | none => []
        | some gs =>
          match ge.e with
          | .call g args => (expand tbl fuel g (flagArgs penv args)).map fun x => ⟨gs ++ x.gs, x.e⟩
          | .flush a b => [⟨gs, .flush (resolveFlag penv a) (resolveFlag penv b)⟩]
          | .backupCopy a b => [⟨gs, .backupCopy (resolveFlag penv a) (resolveFlag penv b)⟩]
          | e => [⟨gs, e⟩]

def expandFuel : Nat := 6

/-! ## primitive actions -/

/-- transitive closure of `keyReads` (keys that computing `k` may populate) -/
def closureStep (reads : List (String × List String)) (acc : List String) : List String :=
  acc.foldl (fun a k => ((reads.lookup k).getD []).foldl (fun a d => if a.contains d then a else a ++ [d]) a) acc

def closure (reads : List (String × List String)) (k : String) : List String :=
  ((List.range 8).foldl (fun acc _ => closureStep reads acc) [k]).filter (· != k)

def hasKey (c : Core) (k : String) : Bool := c.cache.any (·.key == k)

def flushKeep (T : Tables) (kS kC : Bool) (cache : List Entry) : List Entry :=
  cache.filter fun e => (kS && T.flushKeepSssr.contains e.key) || (kC && T.flushKeepComponents.contains e.key)

def copyKeep (T : Tables) (kS kC : Bool) (cache : List Entry) : List Entry :=
  cache.filter fun e => (kS && T.copyKeepSssr.contains e.key) || (kC && T.copyKeepComponents.contains e.key)

/-- the entry a miss on `x` stores: the value computed now, poisoned iff one of the memoised values it is computed from
(its dependency closure) is present and stale -/
def newEntry (T : Tables) (c : Core) (x : String) : Entry :=
  ⟨x, viewOf (kindOf x) c, c.cache.any fun e => (closure T.keyReads x).contains e.key && !e.fresh c⟩

/-- a memoised read: hit returns the stored (possibly stale) value; miss computes the value now and also stores the
dependencies that `obs` shows were populated -/
def readKey (T : Tables) (o : Obj) (k : String) (obs : List String) (optional : Bool) : Obj :=
  if hasKey o.toCore k then o
  else
    let deps := closure T.keyReads k
    let self := if optional && !obs.contains k then [] else [k]
    let newKeys := self ++ deps.filter fun d => obs.contains d && !hasKey o.toCore d
    { o with cache := o.cache ++ newKeys.map (newEntry T o.toCore) }

def unionNat (a b : List Nat) : List Nat := b.foldl (fun acc x => if acc.contains x then acc else acc ++ [x]) a

def setHs (hs : List (Nat × Env)) (n : Nat) (e : Env) : List (Nat × Env) :=
  if hs.any (·.1 == n) then hs.map fun p => if p.1 == n then (n, e) else p else hs ++ [(n, e)]

/-- configuration the interpreter threads: the object, the heap of Vector objects, the atoms whose hydrogens were recomputed -/
structure Cfg where
  o : Obj
  vecs : List (Int × Int)
  recalc : List Nat := []
  edited : Bool := false
  deriving Repr, Inhabited

/-- per-operation context: hand-bound data of the raw edit and the harness-observed resolution of data-dependent reads -/
structure Ctx where
  skip : Bool := false               -- `_skip_calculation`
  special : Bool := false            -- the bond concerned has order 8
  touched : List Nat := []           -- atoms added to `_changed`
  removed : List Nat := []           -- atoms discarded from `_changed`
  editMol : Option Mol := none       -- result of the raw graph edit (guards already passed)
  editMap : Option (List (Nat × Nat)) := none  -- remap: per-atom attributes travel with their atom
  editExtra : Option Core := none    -- union: per-atom attributes (Vector, hydrogens, labels) of the atoms coming from the other graph
  obs : List String := []            -- `__dict__` keys observed after the operation
  deriving Inhabited

inductive Res where
  | ok (c : Cfg)
  | err (c : Cfg) (e : Err)
  deriving Inhabited

def Res.cfg : Res → Cfg
  | .ok c => c
  | .err c _ => c

/-- allocate fresh Vector objects with the same coordinates (what a non-sharing `Element.copy` does) -/
def copyXY (T : Tables) (vecs : List (Int × Int)) (xy : List (Nat × Nat)) : List (Nat × Nat) × List (Int × Int) :=
  if T.elementCopySharesXY then (xy, vecs)
  else xy.foldl (fun acc p => (acc.1 ++ [(p.1, acc.2.length)], acc.2 ++ [vecs.getD p.2 (0, 0)])) ([], vecs)

/-- `MoleculeContainer.copy(keep_sssr, keep_components)` as a Core (the two transaction slots are handled by the caller) -/
def copyCore (T : Tables) (c : Core) (vecs : List (Int × Int)) (kS kC : Bool) : Core × List (Int × Int) :=
  let (xy, vecs') := copyXY T vecs c.xy
  ({ mol := c.mol, xy := xy, hs := c.hs, labels := c.labels, cache := copyKeep T kS kC c.cache,
     name := if T.copySlots.contains "_name" then c.name else none,
     info := if T.copySlots.contains "_meta" then c.info else none }, vecs')

def applyEdit (cx : Ctx) (c : Cfg) : Cfg :=
  if c.edited then c else
  match cx.editMol with
  | none => { c with edited := true }
  | some m' =>
    let o := c.o
    let ids := m'.ids
    let (xy, hs, labels) := match cx.editMap with
      | some mp => (remapKeys mp o.xy, remapKeys mp o.hs, o.labels.map (LSnap.remap mp))
      | none => (o.xy, o.hs, o.labels)
    -- union: the atoms coming from the other graph bring their Vector, hydrogen count and labels with them
    let (xy, hs, labels) := match cx.editExtra with
      | some ex => (xy ++ ex.xy, hs ++ ex.hs, mergeLabels labels ex.labels)
      | none => (xy, hs, labels)
    -- new atoms get a fresh Vector; deleted atoms drop their per-atom data
    let newIds := ids.filter fun n => !(xy.any (·.1 == n))
    let xy' := (xy.filter fun p => ids.contains p.1) ++ newIds.zipIdx.map fun p => (p.1, c.vecs.length + p.2)
    let vecs' := c.vecs ++ newIds.map fun _ => ((0, 0) : Int × Int)
    { c with o := { o with mol := m', xy := xy', hs := hs.filter fun p => ids.contains p.1, labels := labels },
             vecs := vecs', edited := true }

def flagBool : Flag → Option Bool
  | .yes => some true
  | .no => some false
  | .param _ => none

/-- one event (guards already decided; `opt` = under a data-dependent guard) -/
def stepEv (T : Tables) (cx : Ctx) (opt : Bool) (c : Cfg) : Ev → Res
  | .edit => .ok (applyEdit cx c)
  | .call f _ => .err c (.model s!"unexpanded call {f}")
  | .flushAll => .ok { c with o := { c.o with cache := [] } }
  | .flush a b =>
      match flagBool a, flagBool b with
      | some kS, some kC =>
          if opt then .err c (.model "data-dependent flush") else .ok { c with o := { c.o with cache := flushKeep T kS kC c.o.cache } }
      | _, _ => .err c (.model "unresolved keep flag")
  | .pop k =>
      if opt && cx.obs.contains k then .ok c else .ok { c with o := { c.o with cache := c.o.cache.filter (·.key != k) } }
  | .dictSet k => .ok { c with o := readKey T c.o k cx.obs opt }
  | .readC k => .ok { c with o := readKey T c.o k cx.obs opt }
  | .changedAdd =>
      if opt && cx.touched.isEmpty then .ok c else
      match c.o.changed with
      | none => .err c (.attr "_changed")
      | some none => .ok { c with o := { c.o with changed := some (some (unionNat [] cx.touched)) } }
      | some (some s) => .ok { c with o := { c.o with changed := some (some (unionNat s cx.touched)) } }
  | .changedDiscard =>
      match c.o.changed with
      | none => .err c (.attr "_changed")
      | some none => .ok c
      | some (some s) => .ok { c with o := { c.o with changed := some (some (s.filter fun x => !cx.removed.contains x)) } }
  | .changedAttr =>
      -- transaction exit: atoms whose charge / radical state differs from the snapshot join an existing pending set
      match c.o.changed with
      | none => .err c (.attr "_changed")
      | some none => .ok c
      | some (some s) =>
          match c.o.backup with
          | some (some bk) =>
              let diff := (c.o.mol.atoms.filter fun p => match bk.mol.atom? p.1 with
                | some a => a.charge != p.2.charge || a.radical != p.2.radical
                | none => false).map (·.1)
              .ok { c with o := { c.o with changed := some (some (unionNat s diff)) } }
          | _ => .err c (.attr "_backup")
  | .changedNone => .ok { c with o := { c.o with changed := some none } }
  | .changedRead => match c.o.changed with
      | none => .err c (.attr "_changed")
      | some _ => .ok c
  | .backupRead => match c.o.backup with
      | some (some _) => .ok c
      | _ => .err c (.attr "_backup")
  | .backupCopy a b =>
      match flagBool a, flagBool b with
      | some kS, some kC =>
          let (bk, vecs') := copyCore T c.o.toCore c.vecs kS kC
          .ok { c with o := { c.o with backup := some (some bk) }, vecs := vecs' }
      | _, _ => .err c (.model "unresolved keep flag")
  | .backupNone => .ok { c with o := { c.o with backup := some none } }
  | .restore slots =>
      match c.o.backup with
      | some (some bk) =>
          let o := c.o
          let atomsBack := slots.contains "_atoms"
          let mol : Mol := ⟨if atomsBack then bk.mol.atoms else o.mol.atoms, if slots.contains "_bonds" then bk.mol.adj else o.mol.adj⟩
          .ok { c with o := { o with mol := mol
                                     xy := if atomsBack then bk.xy else o.xy
                                     hs := if atomsBack then bk.hs else o.hs
                                     labels := if atomsBack then bk.labels else o.labels
                                     cache := if slots.contains "__dict__" then bk.cache else o.cache
                                     name := if slots.contains "_name" then bk.name else o.name
                                     info := if slots.contains "_meta" then bk.info else o.info } }
      | _ => .err c (.attr "_backup")
  | .hcalc =>
      match c.o.changed with
      | none => .err c (.attr "_changed")
      | some ch =>
          let targets := match ch with
            | some (x :: xs) => x :: xs
            | _ => c.o.mol.ids
          let present := targets.filter c.o.mol.hasAtom
          let hs := present.foldl (fun hs n => setHs hs n (envOf c.o.mol n)) c.o.hs
          let c' := { c with o := { c.o with hs := hs }, recalc := unionNat c.recalc present }
          if present.length == targets.length then .ok c' else .err c' .key
  | .labelsWrite =>
      let o := c.o
      let snap : LSnap := match o.cache.find? (·.key == "atoms_rings_sizes") with
        | some e => (match e.val with
            | .adj v => ⟨labelView o.mol, v, e.bad⟩
            | .full _ => ⟨labelView o.mol, [], true⟩)
        | none => ⟨labelView o.mol, skelView o.mol, false⟩
      .ok { c with o := { o with labels := some snap } }
  | .stereoWrite => .ok c

/-- decide the guards of an event: `none` = skip, `some opt` = execute (opt: under a data-dependent guard) -/
def decideGuards (cx : Ctx) (o : Obj) : List Guard → Except Err (Option Bool)
  | [] => .ok (some false)
  | g :: gs =>
    match g with
    | .ifCalc =>
        if cx.skip then .ok none else
        match o.backup with
        | none => .error (.attr "_backup")
        | some (some _) => .ok none
        | some none => decideGuards cx o gs
    | .ifParam p _ => .error (.model s!"unresolved parameter {p}")
    | .notSpecial => if cx.special then .ok none else decideGuards cx o gs
    | .isSpecial => if cx.special then decideGuards cx o gs else .ok none
    | .inLoop | .cond => (decideGuards cx o gs).map fun r => r.map fun _ => true

/-- run a flattened event list; the first Python exception stops it and leaves the partial state -/
def interp (T : Tables) (cx : Ctx) : List GEv → Cfg → Res
  | [], c => .ok c
  | ge :: rest, c =>
    match decideGuards cx c.o ge.gs with
    | .error e => .err c e
    | .ok none => interp T cx rest c
    | .ok (some opt) =>
      match stepEv T cx opt c ge.e with
      | .ok c' => interp T cx rest c'
      | .err c' e => .err c' e

/-! ## the world and the public operations -/

structure World where
  objs : List Obj
  vecs : List (Int × Int)
  deriving DecidableEq, Repr, Inhabited

inductive Op where
  | addAtom (o z : Nat) (n : Option Nat) (skip : Bool)
  | addBond (o a b order : Nat) (skip : Bool)
  | delAtom (o n : Nat) (skip : Bool)
  | delBond (o a b : Nat) (skip : Bool)
  | remap (o : Nat) (mp : List (Nat × Nat))
  | copy (o : Nat) (kS kC : Bool)
  | substructure (o : Nat) (atoms : List Nat) (recalc : Bool)
  | union (o p : Nat) (remap copy : Bool)
  | fixStructure (o : Nat) (recalc : Bool)
  | calcLabels (o : Nat) | fixStereo (o : Nat) | cleanStereo (o : Nat)
  | flush (o : Nat) (kS kC : Bool)
  | enter (o : Nat) | exitOk (o : Nat) | exitExc (o : Nat)
  | setCharge (o n : Nat) (c : Int) | setRadical (o n : Nat) (r : Bool)
  | setXY (o n : Nat) (x y : Int)
  | setMeta (o k v : Nat)
  | read (o : Nat) (key : String)
  deriving Repr, Inhabited, DecidableEq

def Op.target : Op → Nat
  | .addAtom o .. | .addBond o .. | .delAtom o .. | .delBond o .. | .remap o .. | .copy o .. | .substructure o ..
  | .union o .. | .fixStructure o .. | .calcLabels o | .fixStereo o | .cleanStereo o | .flush o .. | .enter o
  | .exitOk o | .exitExc o | .setCharge o .. | .setRadical o .. | .setXY o .. | .setMeta o .. | .read o .. => o

structure Out where
  w : World
  err : Option Err := none
  created : Option Nat := none       -- index of a newly created object
  recalc : List Nat := []
  deriving Inhabited

def setObj (w : World) (i : Nat) (o : Obj) : World := { w with objs := w.objs.set i o }

/-- run method `f` of object `i` through the regenerated event lists -/
def runFn (T : Tables) (w : World) (i : Nat) (o : Obj) (cx : Ctx) (f : String) (env : List (String × Bool)) : Out :=
  match interp T cx (expand T.fns expandFuel f env) { o := o, vecs := w.vecs } with
  | .ok c => { w := setObj { w with vecs := c.vecs } i c.o, recalc := c.recalc }
  | .err c e => { w := setObj { w with vecs := c.vecs } i c.o, err := some e, recalc := c.recalc }

def nbrsNotSpecial (m : Mol) (n : Nat) : List Nat := ((m.nbrs n).filter (·.2.order != 8)).map (·.1)

/-- atoms of `other` renumbered the way `Graph.union(remap=True)` does on a collision -/
def unionMap (self other : Mol) : List (Nat × Nat) :=
  other.ids.zipIdx.map fun p => (p.1, listMax self.ids + 1 + p.2)

/-- new object from `copy()`: slots assigned are exactly `copySlots` -/
def copyObj (T : Tables) (o : Obj) (vecs : List (Int × Int)) (kS kC : Bool) : Obj × List (Int × Int) :=
  let (c, vecs') := copyCore T o.toCore vecs kS kC
  ({ c with changed := if T.copySlots.contains "_changed" then some none else none,
            backup := if T.copySlots.contains "_backup" then some none else none }, vecs')

def restrictAdj (adj : List (Nat × List (Nat × Bond))) (keep : List Nat) : List (Nat × List (Nat × Bond)) :=
  (adj.filter fun p => keep.contains p.1).map fun p => (p.1, p.2.filter fun kb => keep.contains kb.1)

/-- the object `substructure` creates, before it calls `fix_structure` / `fix_stereo` on it: atoms in the original order,
induced bonds, hydrogens copied unless they are to be recalculated, labels not copied, slots as the source assigns them -/
def subObj (T : Tables) (o : Obj) (vecs : List (Int × Int)) (atoms : List Nat) (recalc : Bool) : Obj × List (Int × Int) :=
  let keep := o.mol.ids.filter atoms.contains
  let xv := copyXY T vecs (o.xy.filter fun p => keep.contains p.1)
  ({ mol := ⟨o.mol.atoms.filter fun p => keep.contains p.1, restrictAdj o.mol.adj keep⟩
     xy := xv.1, hs := if recalc then [] else o.hs.filter fun p => keep.contains p.1
     labels := none, cache := []
     name := if T.subSlots.contains "_name" then some none else none
     info := if T.subSlots.contains "_meta" then some none else none
     changed := if T.subSlots.contains "_changed" then some none else none
     backup := if T.subSlots.contains "_backup" then some none else none }, xv.2)

def step (T : Tables) (w : World) (op : Op) (obs : List String) : Out :=
  let i := op.target
  match w.objs[i]? with
  | none => { w := w, err := some (.model "no such object") }
  | some o =>
  match op with
  | .addAtom _ z n skip =>
      match gAddAtom o.mol z n with
      | .error e => { w := w, err := some e }
      | .ok (m', k) => runFn T w i o { skip := skip, touched := [k], editMol := some m', obs := obs } "MoleculeContainer.add_atom" []
  | .addBond _ a b order skip =>
      match gAddBond o.mol a b order with
      | .error e => { w := w, err := some e }
      | .ok m' =>
          let sp : Bool := order == 8
          let tc : List Nat := if sp then [] else [a, b]
          runFn T w i o { skip := skip, special := sp, touched := tc, editMol := some m', obs := obs } "MoleculeContainer.add_bond" []
  | .delAtom _ n skip =>
      match gDelAtom o.mol n with
      | .error e => { w := w, err := some e }
      | .ok m' => runFn T w i o { skip := skip, touched := nbrsNotSpecial o.mol n, removed := [n], editMol := some m', obs := obs }
                    "MoleculeContainer.delete_atom" []
  | .delBond _ a b skip =>
      match gDelBond o.mol a b with
      | .error e => { w := w, err := some e }
      | .ok m' =>
          let sp : Bool := ((o.mol.bond? a b).map (·.order)) == some 8
          let tc : List Nat := if sp then [] else [a, b]
          runFn T w i o { skip := skip, special := sp, touched := tc, editMol := some m', obs := obs }
            "MoleculeContainer.delete_bond" []
  | .remap _ mp =>
      match gRemap o.mol mp with
      | .error e => { w := w, err := some e }
      | .ok m' => runFn T w i o { editMol := some m', editMap := some mp, obs := obs } "Graph.remap" []
  | .copy _ kS kC =>
      if !(T.copyAtomsDeep && T.copyBondsDeep) then { w := w, err := some (.model "shallow copy") } else
      let (c, vecs') := copyObj T o w.vecs kS kC
      { w := { objs := w.objs ++ [c], vecs := vecs' }, created := some w.objs.length }
  | .substructure _ atoms recalc =>
      if atoms.isEmpty then { w := w, err := some (.lib "ValueError") }
      else if !(atoms.all o.mol.hasAtom) then { w := w, err := some (.lib "ValueError") }
      else if !(T.subAtomsDeep && T.subBondsDeep) then { w := w, err := some (.model "shallow substructure") }
      else
        let sv := subObj T o w.vecs atoms recalc
        let sub := sv.1
        let j := w.objs.length
        let w1 : World := { objs := w.objs ++ [sub], vecs := sv.2 }
        -- sub.fix_structure(recalculate_hydrogens=…); sub.fix_stereo()  (checked against the calls the source makes)
        if T.subCalls != ["fix_structure", "fix_stereo"] then { w := w, err := some (.model "substructure calls") } else
        let r1 := runFn T w1 j sub { obs := obs } "MoleculeContainer.fix_structure" [("recalculate_hydrogens", recalc)]
        match r1.err, r1.w.objs[j]? with
        | none, some s1 =>
            let r2 := runFn T r1.w j s1 { obs := obs } "MoleculeStereo.fix_stereo" []
            { r2 with recalc := unionNat r1.recalc r2.recalc, created := some j }
        | _, _ => { r1 with created := some j }
  | .union _ p rmp cp =>
      match w.objs[p]? with
      | none => { w := w, err := some (.model "no such object") }
      | some other =>
        let overlap := o.mol.ids.any other.mol.hasAtom
        if overlap && !rmp then { w := w, err := some (.lib "MappingError") }
        else if !(T.copyAtomsDeep && T.copyBondsDeep) then { w := w, err := some (.model "shallow copy") } else
        -- other = other.copy() [; other.remap(...)]
        let (oc, vecs1) := copyObj T other w.vecs false false
        let mp := if overlap then unionMap o.mol other.mol else []
        let omol : Mol := ⟨remapKeys mp oc.mol.atoms, oc.mol.adj.map fun q => (mapId mp q.1, q.2.map fun kb => (mapId mp kb.1, kb.2))⟩
        let extra : Core := { oc.toCore with mol := omol, xy := remapKeys mp oc.xy, hs := remapKeys mp oc.hs,
                                             labels := oc.labels.map (LSnap.remap mp) }
        let merged (m : Mol) : Mol := ⟨m.atoms ++ omol.atoms, m.adj ++ omol.adj⟩
        if cp then
          let (u, vecs2) := copyObj T o vecs1 false false
          let u' : Obj := { u with mol := merged u.mol, xy := u.xy ++ extra.xy, hs := u.hs ++ extra.hs,
                                   labels := mergeLabels u.labels extra.labels }
          { w := { objs := w.objs ++ [u'], vecs := vecs2 }, created := some w.objs.length }
        else
          runFn T { w with vecs := vecs1 } i o { editMol := some (merged o.mol), editExtra := some extra, obs := obs }
            "MoleculeContainer.union" [("copy", false), ("remap", rmp)]
  | .fixStructure _ r => runFn T w i o { obs := obs } "MoleculeContainer.fix_structure" [("recalculate_hydrogens", r)]
  | .calcLabels _ => runFn T w i o { obs := obs } "MoleculeContainer.calc_labels" []
  | .fixStereo _ => runFn T w i o { obs := obs } "MoleculeStereo.fix_stereo" []
  | .cleanStereo _ => runFn T w i o { obs := obs } "MoleculeStereo.clean_stereo" []
  | .flush _ kS kC => { w := setObj w i { o with cache := flushKeep T kS kC o.cache } }
  | .enter _ => runFn T w i o { obs := obs } "MoleculeContainer.__enter__" []
  | .exitOk _ => runFn T w i o { obs := obs } "MoleculeContainer.__exit__#ok" []
  | .exitExc _ => runFn T w i o { obs := obs } "MoleculeContainer.__exit__#exc" []
  | .setCharge _ n c =>
      if !o.mol.hasAtom n then { w := w, err := some .key }
      else if c > 4 || c < -4 then { w := w, err := some (.lib "ValueError") }
      else { w := setObj w i { o with mol := { o.mol with atoms := o.mol.atoms.map fun p => if p.1 == n then (p.1, { p.2 with charge := c }) else p } } }
  | .setRadical _ n r =>
      if !o.mol.hasAtom n then { w := w, err := some .key }
      else { w := setObj w i { o with mol := { o.mol with atoms := o.mol.atoms.map fun p => if p.1 == n then (p.1, { p.2 with radical := r }) else p } } }
  | .setXY _ n x y =>
      match o.xy.lookup n with
      | none => { w := w, err := some .key }
      | some a => { w := { w with vecs := w.vecs.set a (x, y) } }
  | .setMeta _ k v =>
      let d := match o.info with
        | some (some d) => d
        | _ => []
      -- key 0 is not a key: `setMeta o 0 0` = a mere read of `mol.meta` (the lazy property creates the empty dict),
      -- `setMeta o 0 1` = `mol.meta.clear()`
      let d' := if k == 0 then (if v == 0 then d else [])
        else if d.any (·.1 == k) then d.map fun p => if p.1 == k then (k, v) else p else d ++ [(k, v)]
      { w := setObj w i { o with info := some (some d') } }
  | .read _ k => { w := setObj w i (readKey T o k obs false) }

/-- observable coordinates of an object (through the Vector heap) -/
def coords (w : World) (o : Obj) : List (Nat × Int × Int) := o.xy.map fun p => (p.1, w.vecs.getD p.2 (0, 0))

/-- a freshly parsed / constructed molecule: everything computed, nothing memoised, no transaction -/
def freshObj (m : Mol) (firstAddr : Nat) : Obj :=
  { mol := m, xy := m.ids.zipIdx.map fun p => (p.1, firstAddr + p.2), hs := m.ids.map fun n => (n, envOf m n),
    labels := some ⟨labelView m, skelView m, false⟩, cache := [], name := some none, info := some none,
    changed := some none, backup := some none }

def freshWorld (m : Mol) : World := { objs := [freshObj m 0], vecs := m.ids.map fun _ => (0, 0) }

end ChythonModel.Model.C13
