import ChythonModel.Gen.PackTables
import ChythonModel.Model.Half
/-!
# C10 — executable model of the binary pack format (`_pack_v2.pyx`, `_unpack_v0v2.pyx`, glue in
`molecule.py` / `reaction.py`)

Bytes are `Nat`s `< 256` (`u8` is the store into an `unsigned char`); 16-bit C variables go through `u16`.
Bit arithmetic is written with the same operators as the source (`<<<`, `>>>`, `|||`, `&&&`).

* `encode`   = `MoleculeContainer.pack(compressed=False)` : format check, header, 9-byte atom records,
               12-bit pair stream with the `b` toggle, 3-bit order stream with the 8-phase `s` machine,
               cis/trans block.  The C code writes the four blocks at offsets `atoms_shift`, `bonds_shift`,
               `order_shift`, `cis_trans_shift` into one buffer of `size` bytes; the model produces the blocks
               as a concatenation and `packSize` repeats the offset arithmetic of the source
               (`Props.C10.encode_length` ties the two).
* `decode`   = `_unpack_v0v2.unpack` (version 0 and 2) behind the header test of `MoleculeContainer.unpack`.
* `attach`   = the cis/trans re-attachment loop of `MoleculeContainer.unpack` (the `_stereo_cis_trans_centers`
               dictionary is an input: stereo perception is outside this model).
* `packLen`, `rxnEncode`, `rxnDecode`, `rxnPackLen` = the length helper and the reaction framing, Python slice
  semantics written out literally (`pySlice`).
* `toF16` / `ofF16` = `double_to_float16` / `double_from_bytes` on dyadic rationals `±m·2^e` (no `Float`).

zlib is outside the model (trusted).
-/
namespace ChythonModel.Model.Pack
open ChythonModel.Gen

inductive PErr where
  | empty        -- ValueError('Empty molecules not supported')
  | big          -- ValueError('Big molecules not supported')
  | neighbors    -- ValueError('To many neighbors not supported')
  | header       -- ValueError('invalid pack header')
  | count        -- ValueError: byte must be in range(0, 256)  (reaction header)
  | overread     -- IndexError on the bytes object (C: read past the buffer)
  | key          -- KeyError (dictionary lookup)
  | table        -- index outside `common_isotopes` / `elements`, or `elements[0]` (None)
  deriving DecidableEq, Repr, Inhabited

def PErr.toString : PErr → String
  | .empty => "empty" | .big => "big" | .neighbors => "neighbors" | .header => "header" | .count => "count"
  | .overread => "overread" | .key => "key" | .table => "table"

/-! ## molecules at the level the packer sees them -/

structure PNbr where
  m : Nat                -- neighbour atom number (key of `_bonds[n]`)
  order : Nat            -- `Bond._order` (1,2,3,4,8)
  stereo : Option Bool   -- `Bond._stereo`
  deriving DecidableEq, Repr, Inhabited

structure PAtom where
  num : Nat              -- key of `_atoms`
  z : Nat                -- `atomic_number`
  iso : Option Int       -- `_isotope`
  stereo : Option Bool   -- `_stereo`
  x : Nat                -- half bits of `x` (after `double_to_float16`)
  y : Nat
  h : Option Nat         -- `_implicit_hydrogens`
  charge : Int           -- `_charge`
  radical : Bool         -- `_is_radical`
  nbrs : List PNbr       -- `_bonds[n]` in dict order
  deriving DecidableEq, Repr, Inhabited

/-- `_atoms`/`_bonds` in dict order plus `_stereo_cis_trans_terminals` (atom ↦ (tn, tm)) -/
structure PMol where
  atoms : List PAtom
  terminals : List (Nat × Nat × Nat) := []
  deriving DecidableEq, Repr, Inhabited

def commonAt (t : List Int) (z : Nat) : Option Int := t[z]?

/-! ## encoder -/

/-- `2 bit tetrahedron | 2 bit allene | 0000` -/
def stereoNibble (st : Option Bool) (deg : Nat) : Nat :=
  match st with
  | none => 0
  | some true => if deg == 2 then 0x30 else 0xc0
  | some false => if deg == 2 then 0x20 else 0x80

/-- `isotope = <short> py_nan_int - common_isotopes[atomic_number]` stored into an `unsigned char` -/
def isoField (z : Nat) (iso : Option Int) : Option Nat :=
  match iso with
  | none => some 0
  | some i => (commonAt packCommon z).map fun c => ((i - c) % 256).toNat

/-- `hcr`: 3 bit hydrogens | 4 bit charge | 1 bit radical -/
def hcrByte (h : Option Nat) (charge : Int) (radical : Bool) : Nat :=
  let hb := match h with
    | none => 0xe0
    | some k => u8 (u8 k <<< 5)
  let cb := (((charge + 4) * 2) % 256).toNat       -- `(charge + 4) << 1`, two's complement low byte
  u8 (hb ||| cb ||| (if radical then 1 else 0))

def atomRecord (a : PAtom) : Option (List Nat) :=
  let n := u16 a.num
  let deg := u8 a.nbrs.length
  (isoField a.z a.iso).map fun iso =>
    [u8 (n >>> 4), u8 (n <<< 4 ||| deg), u8 (stereoNibble a.stereo deg ||| iso >>> 1), u8 (iso <<< 7 ||| u8 a.z),
     u8 (a.x >>> 8), u8 a.x, u8 (a.y >>> 8), u8 a.y, hcrByte a.h a.charge a.radical]

def atomBlock : List PAtom → Option (List Nat)
  | [] => some []
  | a :: r => do
      let x ← atomRecord a
      let y ← atomBlock r
      pure (x ++ y)

/-- connection table: the `b` toggle (`8+4 | 4+8`), `buf` is `buffer_b` -/
def pairEnc : Bool → Nat → List Nat → List Nat
  | _, _, [] => []
  | true, _, m :: rest => u8 (m >>> 4) :: pairEnc false (u8 (m <<< 4)) rest
  | false, buf, m :: rest => u8 (buf ||| m >>> 8) :: u8 m :: pairEnc true buf rest

/-- bond orders: the 8-phase `s` machine (`3 3 2 | 1 3 3 1 | 2 3 3`), `buf` is `buffer_o`; the final
    `if s: data[order_shift] = buffer_o` flush is the `[]` case. -/
def orderEnc : Nat → Nat → List Nat → List Nat
  | s, buf, [] => if s != 0 then [buf] else []
  | 0, _, o :: r => orderEnc 1 (u8 (o <<< 5)) r
  | 1, buf, o :: r => orderEnc 2 (u8 (buf ||| o <<< 2)) r
  | 2, buf, o :: r => u8 (buf ||| o >>> 1) :: orderEnc 3 (u8 (o <<< 7)) r
  | 3, buf, o :: r => orderEnc 4 (u8 (buf ||| o <<< 4)) r
  | 4, buf, o :: r => orderEnc 5 (u8 (buf ||| o <<< 1)) r
  | 5, buf, o :: r => u8 (buf ||| o >>> 2) :: orderEnc 6 (u8 (o <<< 6)) r
  | 6, buf, o :: r => orderEnc 7 (u8 (buf ||| o <<< 3)) r
  | _, buf, o :: r => u8 (buf ||| o) :: orderEnc 0 buf r

/-- the bonds whose order is emitted: neighbour `m` of atom `n` with `not seen[m]` (`seen[n] = 1` first) -/
def firstSeen (seen : List Nat) : List PAtom → List (Nat × PNbr)
  | [] => []
  | a :: rest =>
    ((a.nbrs.filter fun nb => !(a.num :: seen).contains nb.m).map fun nb => (a.num, nb)) ++
      firstSeen (a.num :: seen) rest

/-- flattened connection table -/
def flatNbrs (atoms : List PAtom) : List Nat := atoms.flatMap fun a => a.nbrs.map fun nb => u16 nb.m

/-- `bond = <unsigned char> py_bond._order - 1` -/
def orderCodes (atoms : List PAtom) : List Nat := (firstSeen [] atoms).map fun p => u8 (u8 p.2.order + 255)

def ctEntry (terminals : List (Nat × Nat × Nat)) (n : Nat) (s : Bool) : Except PErr (List Nat) :=
  match terminals.lookup n with
  | none => .error .key
  | some (tn, tm) =>
    let tn := u16 tn
    let tm := u16 tm
    .ok [u8 (tn >>> 4), u8 (tn <<< 4 ||| tm >>> 8), u8 tm, if s then 1 else 0]

def ctBlock (terminals : List (Nat × Nat × Nat)) : List (Nat × PNbr) → Except PErr (List Nat)
  | [] => .ok []
  | (n, nb) :: rest =>
    match nb.stereo with
    | none => ctBlock terminals rest
    | some s => do
        let e ← ctEntry terminals n s
        let r ← ctBlock terminals rest
        pure (e ++ r)

/-- `molecule._cis_trans_count` -/
def ctCount (atoms : List PAtom) : Nat := ((firstSeen [] atoms).filter fun p => p.2.stereo.isSome).length

/-- `bonds_count` (`unsigned short`, halved with C division) -/
def bondsCount (atoms : List PAtom) : Nat := u16 ((atoms.map fun a => a.nbrs.length).sum) / 2

/-- offsets exactly as `pack` computes them: (bonds_shift, order_shift, cis_trans_shift, size) -/
def packOffsets (atoms : List PAtom) : Nat × Nat × Nat × Nat :=
  let bc := bondsCount atoms
  let size := bc * 3
  let size := if size % 8 != 0 then size / 8 + 1 else size / 8
  let bondsShift := 4 + 9 * u16 atoms.length
  let orderShift := bondsShift + 3 * bc
  let ctShift := size + orderShift
  (bondsShift, orderShift, ctShift, ctShift + 4 * u16 (ctCount atoms))

def packSize (atoms : List PAtom) : Nat := (packOffsets atoms).2.2.2

def header (atoms : List PAtom) : List Nat :=
  let ac := u16 atoms.length
  let cc := u16 (ctCount atoms)
  [2, u8 (ac >>> 4), u8 (ac <<< 4 ||| cc >>> 8), u8 cc]

/-- the `check=True` tests of `MoleculeContainer.pack` -/
def checkLimits (atoms : List PAtom) : Except PErr Unit :=
  if atoms.isEmpty then .error .empty
  else if atoms.any (fun a => a.num > 4095) then .error .big
  else if atoms.any (fun a => a.nbrs.length > 15) then .error .neighbors
  else .ok ()

/-- `_pack_v2.pack` -/
def encodeRaw (m : PMol) : Except PErr (List Nat) := do
  let ab ← match atomBlock m.atoms with
    | some x => pure x
    | none => .error .table
  let ct ← ctBlock m.terminals (firstSeen [] m.atoms)
  pure (header m.atoms ++ ab ++ pairEnc true 0 (flatNbrs m.atoms) ++ orderEnc 0 0 (orderCodes m.atoms) ++ ct)

/-- `MoleculeContainer.pack(compressed=False)` -/
def encode (m : PMol) : Except PErr (List Nat) := do
  checkLimits m.atoms
  encodeRaw m

/-! ## decoder -/

/-- the four stereo bits of an atom record -/
def stereoOfNibble (st : Nat) : Option Bool :=
  if st == 0 then none else if st == 2 then some false else if st == 3 then some true
  else if st == 8 then some false else some true

/-- 9-byte atom record → atom without neighbours, and its neighbour count -/
def decodeAtom : List Nat → Except PErr (PAtom × Nat)
  | [b0, b1, b2, b3, b4, b5, b6, b7, b8] =>
    let n := u16 (b0 <<< 4 ||| b1 >>> 4)
    let deg := b1 &&& 0x0f
    let stereo := stereoOfNibble (b2 >>> 4)
    let z := b3 &&& 0x7f
    let isotope := u8 ((b2 &&& 0x0f) <<< 1 ||| b3 >>> 7)
    if z == 0 ∨ z ≥ unpackElems.length then .error .table else
    match commonAt unpackCommon z with
    | none => .error .table
    | some c =>
      let iso : Option Int := if isotope != 0 then some (c + (isotope : Int)) else none
      let hyd := b8 >>> 5
      .ok ({ num := n, z := z, iso := iso, stereo := stereo, x := b4 * 256 + b5, y := b6 * 256 + b7,
             h := if hyd == 7 then none else some hyd,
             charge := (((b8 >>> 1) &&& 0x0f : Nat) : Int) - 4, radical := (b8 &&& 1) != 0, nbrs := [] }, deg)
  | _ => .error .overread

/-- read `k` atom records from the front -/
def decodeAtoms : Nat → List Nat → Except PErr (List (PAtom × Nat) × List Nat)
  | 0, data => .ok ([], data)
  | k + 1, data =>
    if data.length < 9 then .error .overread else do
      let a ← decodeAtom (data.take 9)
      let (r, rest) ← decodeAtoms k (data.drop 9)
      pure (a :: r, rest)

/-- connection table: `connections[i] = a << 4 | b >> 4 ; connections[i+1] = (b & 0x0f) << 8 | c` -/
def pairDec : List Nat → List Nat
  | a :: b :: c :: rest => (a <<< 4 ||| b >>> 4) :: ((b &&& 0x0f) <<< 8 ||| c) :: pairDec rest
  | _ => []

/-- version 2 order bytes → flat order codes (3-phase machine, `buf` is `buffer_b`) -/
def orderDec : Nat → Nat → List Nat → List Nat
  | _, _, [] => []
  | 1, buf, a :: r =>
    (buf ||| a >>> 7) :: ((a >>> 4) &&& 0x7) :: ((a >>> 1) &&& 0x7) :: orderDec 2 ((a &&& 1) <<< 2) r
  | 2, buf, a :: r => (buf ||| a >>> 6) :: ((a >>> 3) &&& 0x7) :: (a &&& 0x7) :: orderDec 0 buf r
  | _, _, a :: r => (a >>> 5) :: ((a >>> 2) &&& 0x7) :: orderDec 1 ((a &&& 0x3) <<< 1) r

/-- version 0 order bytes (`0 3 3 1 | 2 3 3`, two bytes per five bonds) -/
def orderDecV0 : List Nat → List Nat
  | a :: b :: r =>
    (a >>> 4) :: ((a >>> 1) &&& 0x7) :: u8 ((a &&& 0x1) <<< 2 ||| b >>> 6) :: ((b >>> 3) &&& 0x7) :: (b &&& 0x7) ::
      orderDecV0 r
  | _ => []

/-- neighbours of atom `n`: back-connection through `py_bonds[m][n]` when `seen[m]`, else a new bond with the
    next order code. Returns the neighbour list and the remaining order codes. -/
def nbrsOf (n : Nat) (seen : List Nat) (done : List PAtom) : List Nat → List Nat → Except PErr (List PNbr × List Nat)
  | [], os => .ok ([], os)
  | m :: ms, os =>
    if seen.contains m then
      match (done.find? fun a => a.num == m).bind fun a => a.nbrs.find? fun nb => nb.m == n with
      | some nb => do
          let (r, os') ← nbrsOf n seen done ms os
          pure (⟨m, nb.order, nb.stereo⟩ :: r, os')
      | none => .error .key
    else
      match os with
      | o :: os' => do
          let (r, os'') ← nbrsOf n seen done ms os'
          pure (⟨m, u8 o + 1, none⟩ :: r, os'')
      | [] => .error .overread

/-- the adjacency reconstruction loop (`seen[n] = 1` before the neighbours are visited) -/
def rebuild (seen : List Nat) (done : List PAtom) :
    List (PAtom × Nat) → List Nat → List Nat → Except PErr (List PAtom)
  | [], _, _ => .ok []
  | (a, deg) :: rest, conns, os =>
    if conns.length < deg then .error .overread else do
      let (nb, os') ← nbrsOf a.num (a.num :: seen) done (conns.take deg) os
      let a' := { a with nbrs := nb }
      let r ← rebuild (a.num :: seen) (done ++ [a']) rest (conns.drop deg) os'
      pure (a' :: r)

def ctDec : Nat → List Nat → Except PErr (List (Nat × Nat × Bool))
  | 0, _ => .ok []
  | k + 1, a :: b :: c :: d :: rest => do
      let r ← ctDec k rest
      pure ((a <<< 4 ||| b >>> 4, (b &&& 0x0f) <<< 8 ||| c, d != 0) :: r)
  | _ + 1, _ => .error .overread

/-- bytes `data[j]` for `j in range(lo, lo + cnt)` (`j`, `order_shift`, `cis_trans_shift` are `unsigned int`) -/
def readRange (data : List Nat) : Nat → Nat → Except PErr (List Nat)
  | _, 0 => .ok []
  | lo, cnt + 1 =>
    match data[lo]? with
    | some b => do
        let r ← readRange data (lo + 1) cnt
        pure (b :: r)
    | none => .error .overread

structure Decoded where
  atoms : List PAtom
  cisTrans : List (Nat × Nat × Bool)
  size : Nat
  deriving DecidableEq, Repr

/-- size in bytes of the bond-order block as `unpack` computes it (`order_count`, an `unsigned int`:
    `bonds_count < 2^15`, so nothing can wrap) -/
def orderCountOf (version bc : Nat) : Nat :=
  if version == 2 then
    let oc := bc * 3
    if oc % 8 != 0 then oc / 8 + 1 else oc / 8
  else
    let oc := bc / 5
    let oc := if bc % 5 != 0 then oc + 1 else oc
    oc * 2

/-- version 0: `for j in range(order_shift, cis_trans_shift, 2): a, b = data[j], data[j + 1]` — the bytes read by `n`
    iterations starting at `lo`, in reading order (`data[j]` first; either read past the end is the `IndexError`) -/
def readPairsV0 (data : List Nat) : Nat → Nat → Except PErr (List Nat)
  | _, 0 => .ok []
  | lo, n + 1 =>
    match data[lo]?, data[lo + 1]? with
    | some a, some b => do
        let r ← readPairsV0 data (lo + 2) n
        pure (a :: b :: r)
    | _, _ => .error .overread

/-- the bytes the flat-bond-order loop reads: version 2 `for j in range(order_shift, cis_trans_shift)` one byte per
    iteration; version 0 `range(order_shift, cis_trans_shift, 2)` = `⌈order_count / 2⌉` iterations of two reads each
    (`Proofs.C10.readOrderBytes_eq`: for the `order_count` the decoder computes both are the contiguous block) -/
def readOrderBytes (data : List Nat) (version orderShift orderCount : Nat) : Except PErr (List Nat) :=
  if version == 2 then readRange data orderShift orderCount
  else readPairsV0 data orderShift ((orderCount + 1) / 2)

/-- the `if bonds_count:` block of `unpack`: connection table, flat order list, adjacency reconstruction. -/
def decodeBonds (data : List Nat) (version bc orderShift orderCount : Nat) (recs : List (PAtom × Nat))
    (afterAtoms : List Nat) : Except PErr (List PAtom) :=
  if afterAtoms.length < 3 * bc then .error .overread else do
    let bytes ← readOrderBytes data version orderShift orderCount
    rebuild [] [] recs (pairDec (afterAtoms.take (3 * bc)))
      (if version == 2 then orderDec 0 0 bytes else orderDecV0 bytes)

/-- `_unpack_v0v2.unpack` -/
def decodeRaw (data : List Nat) : Except PErr Decoded :=
  match data with
  | version :: a :: b :: c :: body => do
    let atomsCount := u16 (a <<< 4 ||| b >>> 4)
    let ctCnt := u16 ((b &&& 0x0f) <<< 8 ||| c)
    let (recs, afterAtoms) ← decodeAtoms atomsCount body
    let bc := u16 ((recs.map (·.2)).sum) / 2
    let orderCount := orderCountOf version bc
    let orderShift := 4 + 9 * atomsCount + 3 * bc
    let ctShift := orderCount + orderShift
    let atoms ←
      if bc != 0 then decodeBonds data version bc orderShift orderCount recs afterAtoms
      else pure (recs.map (·.1))
    let ct ← ctDec ctCnt (data.drop ctShift)
    pure ⟨atoms, ct, ctShift + 4 * ctCnt⟩
  | _ => .error .overread

/-- `MoleculeContainer.unpack(data, compressed=False)` up to (not including) the stereo re-attachment -/
def decode (data : List Nat) : Except PErr Decoded :=
  match data with
  | [] => .error .overread
  | v :: _ => if v == 0 ∨ v == 2 then decodeRaw data else .error .header

/-- the re-attachment loop: `if n in centers: mol.bond(*centers[n])._stereo = s` (both directions share the
    bond object). `centers` is `mol._stereo_cis_trans_centers`. -/
def setBondStereo (atoms : List PAtom) (p q : Nat) (s : Bool) : List PAtom :=
  atoms.map fun a =>
    if a.num == p then { a with nbrs := a.nbrs.map fun nb => if nb.m == q then { nb with stereo := some s } else nb }
    else if a.num == q then { a with nbrs := a.nbrs.map fun nb => if nb.m == p then { nb with stereo := some s } else nb }
    else a

def attach (centers : List (Nat × Nat × Nat)) : List PAtom → List (Nat × Nat × Bool) → List PAtom
  | atoms, [] => atoms
  | atoms, (n, _, s) :: rest =>
    match centers.lookup n with
    | some (p, q) => attach centers (setBondStereo atoms p q s) rest
    | none => attach centers atoms rest

/-! ## length helper -/

/-- `int.from_bytes(bs, 'big')` -/
def fromBytesBE (bs : List Nat) : Nat := bs.foldl (fun acc b => acc * 256 + b) 0

/-- Python slice `xs[lo:hi]` with literal semantics (`none` = omitted bound; negative bounds count from the
    end; **`-0` is `0`**, so `xs[-0:]` is the whole list). -/
def pySlice {α} (xs : List α) (lo hi : Option Int) : List α :=
  let n : Int := xs.length
  let norm (v : Int) : Nat := (if v < 0 then max (v + n) 0 else min v n).toNat
  let l := match lo with | none => 0 | some v => norm v
  let h := match hi with | none => xs.length | some v => norm v
  (xs.take h).drop l

/-- `MoleculeContainer.pack_len(data, compressed=False)` -/
def packLen (data : List Nat) : Except PErr Nat :=
  match data with
  | [] => .error .overread
  | v :: _ =>
    if v == 0 ∨ v == 2 then .ok (fromBytesBE (pySlice data (some 1) (some 3)) >>> 4) else .error .header

/-! ## reaction framing -/

structure PRxn where
  reactants : List PMol
  reagents : List PMol
  products : List PMol
  deriving DecidableEq, Repr, Inhabited

/-- `ReactionContainer.molecules()` order -/
def PRxn.molecules (r : PRxn) : List PMol := r.reactants ++ r.reagents ++ r.products

def encodeAll : List PMol → Except PErr (List Nat)
  | [] => .ok []
  | m :: rest => do
      let a ← encode m
      let b ← encodeAll rest
      pure (a ++ b)

/-- `ReactionContainer.pack(compressed=False)` -/
def rxnEncode (r : PRxn) : Except PErr (List Nat) :=
  if r.reactants.length > 255 ∨ r.reagents.length > 255 ∨ r.products.length > 255 then .error .count
  else do
    let body ← encodeAll r.molecules
    pure ([1, r.reactants.length, r.reagents.length, r.products.length] ++ body)

def decodeMany : Nat → List Nat → Except PErr (List Decoded)
  | 0, _ => .ok []
  | k + 1, data => do
      let d ← decode data
      let r ← decodeMany k (data.drop d.size)
      pure (d :: r)

structure RxnRoles (α : Type) where
  reactants : List α
  reagents : List α
  products : List α
  deriving DecidableEq, Repr

/-- how `unpack` / `pack_len` distribute the flat molecule list over the roles.
    Source: `molecules[:reactants]`, `molecules[reactants: reactants + reagents]`, `molecules[reactants + reagents:]`. -/
def splitRoles {α} (ms : List α) (reactants reagents : Nat) : RxnRoles α :=
  ⟨pySlice ms none (some reactants), pySlice ms (some reactants) (some ((reactants : Int) + reagents)),
   pySlice ms (some ((reactants : Int) + reagents)) none⟩

/-- the slicing the repository had before the fix (`[:r]`, `[r:-p]`, `[-p:]`), kept for `Findings/C10.lean` -/
def splitRolesLegacy {α} (ms : List α) (reactants products : Nat) : RxnRoles α :=
  ⟨pySlice ms none (some reactants), pySlice ms (some reactants) (some (-(products : Int))),
   pySlice ms (some (-(products : Int))) none⟩

/-- `ReactionContainer.unpack(data, compressed=False)` (molecules before stereo re-attachment) -/
def rxnDecode (data : List Nat) : Except PErr (RxnRoles Decoded) :=
  match data with
  | h :: r :: g :: p :: body =>
    if h != 1 then .error .header else do
      let ms ← decodeMany (r + g + p) body
      if ms.isEmpty then .error .empty      -- constructor: ValueError('At least one graph object required')
      pure (splitRoles ms r g)
  | [] => .error .overread
  | h :: _ => if h != 1 then .error .header else .error .overread

/-- `for _ in range(ac): neighbors += data[shift] & 0x0f; shift += 9` -/
def degSum (data : List Nat) : Nat → Nat → Except PErr Nat
  | _, 0 => .ok 0
  | shift, k + 1 =>
    match data[shift]? with
    | some b => do
        let s ← degSum data (shift + 9) k
        pure ((b &&& 0x0f) + s)
    | none => .error .overread

/-- one iteration of the `pack_len` scan: returns (atom count, shift after this molecule) -/
def scanMol (data : List Nat) (v shift : Nat) : Except PErr (Nat × Nat) := do
  let acs := fromBytesBE (pySlice data (some shift) (some ((shift : Int) + 3)))
  let ac := acs >>> 12
  let shift := shift + 4
  let neighbors ← degSum data shift ac
  let shift := shift + 9 * ac
  let nb := neighbors / 2
  let ct := (acs &&& 0x0fff) * 4
  if v == 2 then .ok (ac, shift + 3 * nb + (nb * 3 + 7) / 8 + ct)
  else if v == 0 then .ok (ac, shift + 3 * nb + ((nb + 4) / 5) * 2 + ct)
  else .ok (ac, shift)

def scanMols : Nat → List Nat → Nat → Nat → Except PErr (List Nat × Nat)
  | 0, _, _, shift => .ok ([], shift)
  | k + 1, data, v, shift => do
      let (ac, shift') ← scanMol data v shift
      let (r, sh) ← scanMols k data v shift'
      pure (ac :: r, sh)

/-- `ReactionContainer.pack_len(data, compressed=False)` -/
def rxnPackLen (data : List Nat) : Except PErr (RxnRoles Nat) :=
  match data with
  | [] => .error .overread
  | h :: _ =>
    if h != 1 then .error .header else
    match data[1]?, data[2]?, data[3]? with
    | some r, some g, some p =>
      match data[4]? with                       -- `v = data[4]` (IndexError for a header-only pack)
      | none => .error .overread
      | some v => do
        let (acs, shift) ← scanMols (r + g + p - 1) data v 5
        let last := fromBytesBE (pySlice data (some shift) (some ((shift : Int) + 3))) >>> 12
        pure (splitRoles (acs ++ [last]) r g)
    | _, _, _ => .error .overread


/-! ## the type-agnostic public entry point -/

inductive Unpached where
  | mol (d : Decoded)
  | rxn (r : RxnRoles Decoded)
  deriving DecidableEq, Repr

/-- `chython.unpack` / `chython.unpach` (`containers/__init__.py`): try the molecule reader; on `ValueError`
    (only the header test raises it) try the reaction reader; every other exception propagates. -/
def unpach (data : List Nat) : Except PErr Unpached :=
  match decode data with
  | .ok d => .ok (.mol d)
  | .error .header => (rxnDecode data).map .rxn
  | .error e => .error e

end ChythonModel.Model.Pack
