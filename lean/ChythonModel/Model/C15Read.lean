import ChythonModel.Model.C15Format
/-!
# C15 — reaction branch of `smiles()` (files/daylight/smiles.py): CXSMILES fragment block, role split,
# fragment contraction

What is modelled: `data.split()`, the test for a CXSMILES token, the regular expression
`cx_fragments = f:(?:[0-9]+(?:\.[0-9]+)+)(?:,(?:[0-9]+(?:\.[0-9]+)+))*` used with `search` (leftmost match, greedy —
for this pattern greedy scanning decides matchability because a digit run must be followed by a non-digit), the
collision test, `smi.split('>')`, the per-role `split('.')` with empty pieces ignored (`ignore=True`), and the
contraction of fragments into multi-component molecules with Python index semantics (negative indices, slices).
The result is the three lists of molecule *strings* handed to the molecule parser (C03).
Not modelled: the radical block `^1:` (needs atom counts of parsed fragments), `ignore=False`.
-/
namespace ChythonModel.Model.C15

def isDigit (c : Nat) : Bool := 48 ≤ c && c ≤ 57
/-- whitespace recognised by `str.split()` for the ASCII range -/
def isSpace (c : Nat) : Bool := c == 32 || (9 ≤ c && c ≤ 13) || (28 ≤ c && c ≤ 31)

/-- `s.split(sep)` for a one-character separator: always at least one piece -/
def splitOn (sep : Nat) : Str → List Str
  | [] => [[]]
  | c :: cs =>
    if c == sep then [] :: splitOn sep cs
    else match splitOn sep cs with
      | [] => [[c]]
      | hd :: tl => (c :: hd) :: tl

/-- `s.split()`: runs of whitespace separate, no empty pieces -/
def splitWs (s : Str) : List Str :=
  let rec go : Str → Str → List Str
    | [], cur => if cur.isEmpty then [] else [cur.reverse]
    | c :: cs, cur =>
      if isSpace c then (if cur.isEmpty then go cs [] else cur.reverse :: go cs [])
      else go cs (c :: cur)
  go s []

/-- `int(x)` of a digit string -/
def toNat (ds : Str) : Nat := ds.foldl (fun acc c => acc * 10 + (c - 48)) 0

/-- longest digit prefix -/
def spanDigits : Str → Str × Str
  | [] => ([], [])
  | c :: cs => if isDigit c then let (d, r) := spanDigits cs; (c :: d, r) else ([], c :: cs)

/-- `(?:\.[0-9]+)*` greedy: a dot is consumed only when a digit follows -/
def dotTail : Nat → Str → List Nat × Str
  | 0, s => ([], s)
  | fuel + 1, s =>
    match s with
    | c :: cs =>
      if c == chDot then
        match spanDigits cs with
        | ([], _) => ([], s)
        | (d, r) => let (ns, r') := dotTail fuel r; (toNat d :: ns, r')
      else ([], s)
    | [] => ([], s)

/-- `[0-9]+(?:\.[0-9]+)+` at the start of `s` -/
def matchGroup (s : Str) : Option (List Nat × Str) :=
  match spanDigits s with
  | ([], _) => none
  | (d, r) =>
    match dotTail r.length r with
    | ([], _) => none
    | (ns, r') => some (toNat d :: ns, r')

/-- `(?:,group)*` greedy -/
def commaTail : Nat → Str → List (List Nat) × Str
  | 0, s => ([], s)
  | fuel + 1, s =>
    match s with
    | c :: cs =>
      if c == chComma then
        match matchGroup cs with
        | none => ([], s)
        | some (g, r) => let (gs, r') := commaTail fuel r; (g :: gs, r')
      else ([], s)
    | [] => ([], s)

/-- `search(cx_fragments, cxs)`: groups of the leftmost match -/
def searchFragments : Str → Option (List (List Nat))
  | [] => none
  | c :: cs =>
    (if c == chF then
      match cs with
      | c2 :: rest =>
        if c2 == chColon then
          match matchGroup rest with
          | some (g, r) => some (g :: (commaTail r.length r).1)
          | none => none
        else none
      | [] => none
    else none) <|> searchFragments cs

def insertSorted (x : Nat) : List Nat → List Nat
  | [] => [x]
  | y :: ys => if x ≤ y then x :: y :: ys else y :: insertSorted x ys
/-- `sorted(c)` -/
def sortNats (l : List Nat) : List Nat := l.foldr insertSorted []

/-- the `contract` variable after the CXSMILES analysis: sorted groups, `None` on collisions or without `f:` block -/
def contractOf (tokens : List Str) : Option (List (List Nat)) :=
  match tokens with
  | _ :: cxs :: _ =>
    if cxs.head? == some chBar && cxs.getLast? == some chBar then
      match searchFragments cxs with
      | some gs =>
        let c := gs.map sortNats
        if c.flatten.eraseDups.length < c.flatten.length then none else some c
      | none => none
    else none
  | _ => none

/-- `l[i]` with Python index semantics -/
def pyGet {α : Type} (l : List α) (i : Int) : Except String α :=
  let j := if i < 0 then i + l.length else i
  if j < 0 then .error "IndexError"
  else match l[j.toNat]? with
    | some x => .ok x
    | none => .error "IndexError"

/-- `[l[x + off] for x in c]` -/
def pyGets {α : Type} (l : List α) (off : Int) : List Nat → Except String (List α)
  | [] => .ok []
  | x :: xs =>
    match pyGet l ((x : Int) + off) with
    | .error e => .error e
    | .ok a =>
      match pyGets l off xs with
      | .error e => .error e
      | .ok as => .ok (a :: as)

def subset (c s : List Nat) : Bool := c.all s.contains
def diff (s c : List Nat) : List Nat := s.filter fun x => !c.contains x

structure CState where
  reactants : List Nat
  reagents : List Nat
  products : List Nat
  new : List (Option Str)

/-- one iteration of `for c in contract:` -/
def contractStep (recR recA recP : List Str) (mc lr : Nat) (st : CState) (c : List Nat) : Except String CState :=
  match c with
  | [] => .error "IndexError"
  | c0 :: _ =>
    if subset c st.reactants then
      match pyGets recR 0 c with
      | .error e => .error e
      | .ok fr => if c0 < st.new.length then .ok { st with new := st.new.set c0 (some (join chDot fr)), reactants := diff st.reactants c }
                  else .error "IndexError"
    else if subset c st.products then
      match pyGets recP (-(mc : Int)) c with
      | .error e => .error e
      | .ok fr => if c0 < st.new.length then .ok { st with new := st.new.set c0 (some (join chDot fr)), products := diff st.products c }
                  else .error "IndexError"
    else if subset c st.reagents then
      match pyGets recA (-(lr : Int)) c with
      | .error e => .error e
      | .ok fr => if c0 < st.new.length then .ok { st with new := st.new.set c0 (some (join chDot fr)), reagents := diff st.reagents c }
                  else .error "IndexError"
    else .ok st

def contractLoop (recR recA recP : List Str) (mc lr : Nat) : CState → List (List Nat) → Except String CState
  | st, [] => .ok st
  | st, c :: cs =>
    match contractStep recR recA recP mc lr st c with
    | .error e => .error e
    | .ok st' => contractLoop recR recA recP mc lr st' cs

/-- `for x in <role set>: new_molecules[x] = record[role][x + off]` -/
def fillRest (rec : List Str) (off : Int) : List Nat → List (Option Str) → Except String (List (Option Str))
  | [], new => .ok new
  | x :: xs, new =>
    match pyGet rec ((x : Int) + off) with
    | .error e => .error e
    | .ok s => if x < new.length then fillRest rec off xs (new.set x (some s)) else .error "IndexError"

def somes {α : Type} (l : List (Option α)) : List α := l.filterMap id

/-- the `if contract:` block -/
def contractRoles (recR recA recP : List Str) (contract : List (List Nat)) : Except String (List Str × List Str × List Str) :=
  let lr := recR.length
  let lp := recP.length
  let mc := lr + recA.length + lp
  let st0 : CState := ⟨List.range lr, (List.range (mc - lp)).drop lr, (List.range mc).drop (mc - lp), List.replicate mc none⟩
  match contractLoop recR recA recP mc lr st0 contract with
  | .error e => .error e
  | .ok st =>
    match fillRest recR 0 st.reactants st.new with
    | .error e => .error e
    | .ok n1 =>
      match fillRest recP (-(mc : Int)) st.products n1 with
      | .error e => .error e
      | .ok n2 =>
        match fillRest recA (-(lr : Int)) st.reagents n2 with
        | .error e => .error e
        | .ok n3 =>
          -- new_molecules[:lr], new_molecules[mol_count - lp:], new_molecules[lr: mol_count - lp]
          .ok (somes (n3.take lr), somes ((n3.take (mc - lp)).drop lr), somes (n3.drop (mc - lp)))

/-- pieces of one role: `d.split('.')` without empty pieces (`if not d: continue` is subsumed) -/
def rolePieces (d : Str) : List Str := (splitOn chDot d).filter fun x => !x.isEmpty

inductive ReadOut where
  | molecule                                   -- no '>' in the first token: not a reaction
  | roles (r a p : List Str)
  | error (e : String)
  deriving Repr, DecidableEq

/-- `ReactionContainer.__init__`: `ValueError('At least one graph object required')` -/
def mkRxn (r a p : List Str) : ReadOut :=
  if r.isEmpty && a.isEmpty && p.isEmpty then .error "ValueError" else .roles r a p

/-- the reaction branch proper: `smi` = first token, `contract` = result of the CXSMILES analysis -/
def readSmi (smi : Str) (contract : Option (List (List Nat))) : ReadOut :=
  if !smi.contains chGt then .molecule else
  match splitOn chGt smi with
  | [r, a, p] =>
    let recR := rolePieces r
    let recA := rolePieces a
    let recP := rolePieces p
    match contract with
    | some (g :: gs) =>
      match contractRoles recR recA recP (g :: gs) with
      | .ok (x, y, z) => mkRxn x y z
      | .error e => .error e
    | _ => mkRxn recR recA recP
  | _ => .error "ValueError"

/-- reaction branch of `smiles(text)`: the molecule strings per role (reactants, reagents, products) -/
def readRxn (text : Str) : ReadOut :=
  match splitWs text with
  | [] => .error "ValueError"
  | smi :: rest => readSmi smi (contractOf (smi :: rest))

end ChythonModel.Model.C15
