import ChythonModel.Gen.AromaticRules
import ChythonModel.Model.C05Kekule
/-!
# C05 — the regenerated rule table of `aromatics/_rules.py` as the patch loop of `__fix_rings` reads it
-/
namespace ChythonModel.Model.C05
open ChythonModel.Gen.Aromatic

def FixRule.ofGen (r : Rule) : FixRule := ⟨r.atomFix, r.bondFix, r.multi⟩

/-- the table `Kekule.__fix_rings` iterates over -/
def fixRules : List FixRule := rules.map FixRule.ofGen

/-- charge a molecule atom must carry to be matched by pattern atom `n` (`none`: unconstrained or no such atom) -/
def patCharge (r : Rule) (n : Nat) : Option Int := (r.atoms.find? (·.n == n)).bind (·.charge)

/-- a mapping as the matcher yields it is *charge-faithful*: every patched pattern atom is mapped, to an atom whose
    charge is the one the pattern demands, and distinct patched pattern atoms go to distinct atoms (this is what the
    driver checks about each mapping it is handed) -/
def chargeFaithful (r : Rule) (m : Mol) (mp : List (Nat × Nat)) : Bool :=
  (r.atomFix.all fun nc =>
    match patCharge r nc.1, mapGet mp nc.1 with
    | some c, some k => (m.atom? k).map (·.charge) == some c
    | _, _ => false) &&
  decide ((r.atomFix.map fun nc => mapGet mp nc.1).Nodup)

/-- `fixMatches` with the same traversal, answering: was every *accepted* mapping charge-faithful for the molecule
    as patched so far? -/
def matchesFaithful (r : Rule) : FixState → List (List (Nat × Nat)) → Bool
  | _, [] => true
  | s, mp :: rest =>
    let mat := mp.map (·.2)
    if !r.multi && mat.any s.seen.contains then matchesFaithful r s rest
    else
      match applyPatch s.mol (FixRule.ofGen r) mp s.localized with
      | none => true
      | some (m', loc) =>
        chargeFaithful r s.mol mp &&
        matchesFaithful r ⟨m', s.seen ++ mat.filter (fun x => !s.seen.contains x),
                           s.keep && !((FixRule.ofGen r).bondFix.any fun b => b.2.2 == 8), loc⟩ rest

def loopFaithful : List Rule → List (List (List (Nat × Nat))) → FixState → Bool
  | [], _, _ => true
  | _ :: _, [], _ => true
  | r :: rs, ms :: mss, s =>
    matchesFaithful r s ms &&
    match fixMatches (FixRule.ofGen r) s ms with
    | none => true
    | some s' => loopFaithful rs mss s'

/-- every mapping the patch loop accepted was charge-faithful -/
def fixFaithful (m : Mol) (maps : List (List (List (Nat × Nat)))) : Bool := loopFaithful rules maps ⟨m, [], true, []⟩

/-- Σ (new charge − pattern charge) over a list of `atom_fix` entries (`none`: a patched atom has no fixed
    pattern charge) -/
def deltaSum (r : Rule) : List (Nat × Int) → Option Int
  | [] => some 0
  | (q, c) :: tl => match patCharge r q, deltaSum r tl with
    | some c0, some s => some ((c - c0) + s)
    | _, _ => none

/-- Σ new charges − Σ pattern charges over the patched atoms of a rule -/
def chargeDelta (r : Rule) : Option Int := deltaSum r r.atomFix

/-- every `atom_fix` key and every `bonds_fix` pair of the rule is an atom / a bond of its own pattern
    (so `mapping[n]` and `bonds[n][m]` cannot raise `KeyError` for a mapping of the whole pattern) -/
def patchWithinPattern (r : Rule) : Bool :=
  (r.atomFix.all fun nc => r.atoms.any (·.n == nc.1)) &&
  r.bondFix.all fun b => r.bonds.any fun pb => (pb.n == b.1 && pb.m == b.2.1) || (pb.n == b.2.1 && pb.m == b.1)

/-- shape of a "freak" pattern (`aromatics._rules.freak_rules`): a five-membered ring 1-2-3-4-5 of atoms that all demand
    ring size 5; atom 1 is the lone-pair atom with single bonds only (`z1`), bonded singly to 2 and 5; the bond 2–3 must
    accept **both** a double and an aromatic bond (it may belong to a ring that is still localised or to one that has
    already been aromatised); 3–4 is single; 4–5 is the aromatic bond shared with the ring aromatised before. -/
def freakShapeOk (r : Rule) : Bool :=
  let ord (a b : Nat) : Option (List Nat) :=
    (r.bonds.find? fun pb => (pb.n == a && pb.m == b) || (pb.n == b && pb.m == a)).map (·.orders)
  r.atoms.map (·.n) == [1, 2, 3, 4, 5] && r.bonds.length == 5 &&
  r.atoms.all (fun a => a.ringSizes == [5]) &&
  (r.atoms.find? (·.n == 1)).map (·.hybridization) == some [1] &&
  ord 1 2 == some [1] && ord 1 5 == some [1] && ord 3 4 == some [1] && ord 4 5 == some [4] &&
  (match ord 2 3 with
   | some os => os.contains 2 && os.contains 4 && os.all fun o => o == 2 || o == 4
   | none => false)

end ChythonModel.Model.C05
