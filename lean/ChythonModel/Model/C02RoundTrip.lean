import ChythonModel.Model.SmilesWriter
/-!
# C02 — reading the writer's output back

* `lex`       : a deterministic maximal-munch lexer for exactly the token shapes the writer emits (bracket atoms,
                organic-subset atoms with the `Cl`/`Br` two-letter rule, bond symbols, one-digit and `%nn` closures,
                parentheses, dot).  `Props/C02.lean` proves `lex (render ts) = ts`; the correspondence compares it with the
                real `_tokenize` and with the tokenizer model of C03 on every evaluated string.
* `readToks`  : the SMILES connection semantics on writer tokens (previous atom, branch stack, closure table).
* (`Model/C02ReRead.lean`: `judge` — the reader model of C03 applied to the written text, compared with the original
                under the written atom order; kept apart so that the theorems do not depend on the C03 files.)
* `checkRun`  : executable structural checkers on the intermediate results of one run (spanning tree + closures cover
                every bond once, flattening complete, closure discipline, parentheses) — the hypotheses of the partial
                round-trip theorem, evaluated on every case of the correspondence.
-/
namespace ChythonModel.Model.C02RT
open ChythonModel.Model ChythonModel.Model.SmilesWriter

/-! ## lexer -/

inductive LTok
  | bracket (inner : Str)
  | plain (sym : Str)
  | bond (c : Nat)
  | closure (n : Nat)
  | lpar
  | rpar
  | dot
  deriving Repr, DecidableEq, Inhabited

def isDigit (c : Nat) : Bool := 48 ≤ c && c ≤ 57
def bondChars : List Nat := [45, 61, 35, 58, 126, 47, 92]
/-- first letters of unbracketed atoms: `B C N O P S F I` and `b c n o p s` -/
def plainChars : List Nat := [66, 67, 78, 79, 80, 83, 70, 73, 98, 99, 110, 111, 112, 115]

/-- split at the first `]` -/
def spanBracket : Str → Option (Str × Str)
  | [] => none
  | c :: cs => if c == 93 then some ([], cs) else (spanBracket cs).map fun (a, b) => (c :: a, b)

def lexFuel : Nat → Str → Option (List LTok)
  | _, [] => some []
  | 0, _ :: _ => none
  | fuel + 1, c :: cs =>
    if c == 91 then
      match spanBracket cs with
      | some (inner, rest) => (lexFuel fuel rest).map (LTok.bracket inner :: ·)
      | none => none
    else if c == 40 then (lexFuel fuel cs).map (LTok.lpar :: ·)
    else if c == 41 then (lexFuel fuel cs).map (LTok.rpar :: ·)
    else if c == 46 then (lexFuel fuel cs).map (LTok.dot :: ·)
    else if bondChars.contains c then (lexFuel fuel cs).map (LTok.bond c :: ·)
    else if isDigit c then (lexFuel fuel cs).map (LTok.closure (c - 48) :: ·)
    else if c == 37 then
      match cs with
      | d1 :: d2 :: rest =>
        if isDigit d1 && isDigit d2 then (lexFuel fuel rest).map (LTok.closure ((d1 - 48) * 10 + (d2 - 48)) :: ·) else none
      | _ => none
    else if c == 67 then
      match cs with
      | 108 :: rest => (lexFuel fuel rest).map (LTok.plain [67, 108] :: ·)
      | _ => (lexFuel fuel cs).map (LTok.plain [67] :: ·)
    else if c == 66 then
      match cs with
      | 114 :: rest => (lexFuel fuel rest).map (LTok.plain [66, 114] :: ·)
      | _ => (lexFuel fuel cs).map (LTok.plain [66] :: ·)
    else if plainChars.contains c then (lexFuel fuel cs).map (LTok.plain [c] :: ·)
    else none

/-- every step consumes at least one character, so `length` steps suffice -/
def lex (s : Str) : Option (List LTok) := lexFuel s.length s

/-- text between the brackets of a bracket atom -/
def ATok.inner (a : ATok) : Str := (ATok.render { a with bracket := false })

def toL : WTok → Option LTok
  | .atom _ a => some (if a.bracket then .bracket (ATok.inner a) else .plain a.symbol)
  | .bond [] => none
  | .bond (c :: _) => some (.bond c)
  | .closure c => some (.closure c)
  | .lpar => some .lpar
  | .rpar => some .rpar
  | .dot => some .dot

def lexVerdict (toks : List WTok) : String :=
  if lex (renderAll toks) == some (toks.filterMap toL) then "lex-ok" else "lex-DIFF"

/-! ## connection semantics on writer tokens -/

/-- one bond read back: the two atoms (first = the earlier one), the symbol written at the first and at the second end
    (`none` = no bond token at that end; chain bonds have only a second end) -/
structure REdge where
  a : Nat
  b : Nat
  closure : Bool
  s1 : Option Str
  s2 : Option Str
  deriving Repr, DecidableEq, Inhabited

structure RState where
  prev : Option Nat := none
  stack : List Nat := []
  pending : Option Str := none
  afterDot : Bool := false
  opened : List (Nat × Nat × Option Str) := []   -- closure number → (atom, symbol)
  edges : List REdge := []                        -- reversed
  deriving Repr, Inhabited

inductive RErr
  | closureOnNothing | selfClosure | doubleBond2 | popEmpty | parenOpenAtEnd | closureOpenAtEnd | bondAtEnd | bondBeforeParen
  deriving Repr, DecidableEq, Inhabited

def rstep (st : RState) : WTok → Except RErr RState
  | .atom n _ =>
    let edges := match st.prev, st.afterDot with
      | some p, false => { a := p, b := n, closure := false, s1 := none, s2 := st.pending } :: st.edges
      | _, _ => st.edges
    .ok { st with prev := some n, pending := none, afterDot := false, edges := edges }
  | .bond s => if st.pending.isSome then .error .doubleBond2 else .ok { st with pending := some s }
  | .closure c =>
    match st.prev with
    | none => .error .closureOnNothing
    | some cur =>
      match st.opened.lookup c with
      | some (a, s1) =>
        if a == cur then .error .selfClosure
        else .ok { st with opened := st.opened.filter (·.1 != c), pending := none,
                           edges := { a := a, b := cur, closure := true, s1 := s1, s2 := st.pending } :: st.edges }
      | none => .ok { st with opened := st.opened ++ [(c, cur, st.pending)], pending := none }
  | .lpar =>
    match st.prev with
    | none => .error .popEmpty
    | some p => if st.pending.isSome then .error .bondBeforeParen else .ok { st with stack := p :: st.stack }
  | .rpar =>
    match st.stack with
    | [] => .error .popEmpty
    | p :: tl => if st.pending.isSome then .error .bondBeforeParen else .ok { st with prev := some p, stack := tl }
  | .dot => .ok { st with afterDot := true }

def rrun : RState → List WTok → Except RErr RState
  | st, [] => .ok st
  | st, t :: ts => match rstep st t with
    | .error e => .error e
    | .ok st' => rrun st' ts

/-- the bonds denoted by a writer token list -/
def readToks (ts : List WTok) : Except RErr (List REdge) :=
  match rrun {} ts with
  | .error e => .error e
  | .ok st =>
    if !st.stack.isEmpty then .error .parenOpenAtEnd
    else if !st.opened.isEmpty then .error .closureOpenAtEnd
    else if st.pending.isSome then .error .bondAtEnd
    else .ok st.edges.reverse

/-! ## chain bonds alone -/

/-- what decides the chain bonds: atoms, parentheses, dots -/
inductive SK
  | atom (n : Nat)
  | lpar
  | rpar
  | dot
  deriving Repr, DecidableEq, Inhabited

def WTok.skel : WTok → Option SK
  | .atom n _ => some (.atom n)
  | .lpar => some .lpar
  | .rpar => some .rpar
  | .dot => some .dot
  | _ => none

def FTok.skel : FTok → Option SK
  | .atom n => some (.atom n)
  | .lpar => some .lpar
  | .rpar => some .rpar
  | .bond _ _ => none

/-- the chain bonds a reader forms: the pairs (previous atom, atom); `ad` = a dot was seen since the previous atom -/
def skRead : Option Nat → Bool → List Nat → List SK → Option (List (Nat × Nat))
  | _, _, _, [] => some []
  | prev, ad, stk, .atom n :: ts =>
    (skRead (some n) false stk ts).map fun es => match prev, ad with
      | some p, false => (p, n) :: es
      | _, _ => es
  | prev, ad, stk, .lpar :: ts =>
    match prev with
    | some p => skRead prev ad (p :: stk) ts
    | none => none
  | _, ad, stk, .rpar :: ts =>
    match stk with
    | p :: tl => skRead (some p) ad tl ts
    | [] => none
  | prev, _, stk, .dot :: ts => skRead prev true stk ts

/-- chain bonds read from a writer token list (closures and bond symbols play no role) -/
def chainRead (ts : List WTok) : Option (List (Nat × Nat)) := skRead none false [] (ts.filterMap WTok.skel)

def FTok.bond? : FTok → Option (Nat × Nat)
  | .bond a b => some (a, b)
  | _ => none

/-- last atom of the main chain that starts at `tail` (where the reader's "previous atom" stands after the subtree) -/
def chainEndKids (rec : Nat → Nat) (tail : Nat) : List Nat → Nat
  | [] => tail
  | [c] => rec c
  | _ :: rest => chainEndKids rec tail rest

def chainEnd (edges : List (Nat × List Nat)) : Nat → Nat → Nat
  | 0, tail => tail
  | fuel + 1, tail => chainEndKids (chainEnd edges fuel) tail (alGet edges tail)

/-! ## closure pairing on abstract events -/

/-- the reader's closure table on events `(atom, key)`: a key that is open closes (bond first atom – this atom), any other
    key opens.  With `key` = the written number this is what `rstep` does; with `key` = the writer's cycle identity it is
    the pairing the writer intends. -/
def pairStep (opened : List (Nat × Nat)) (ev : Nat × Nat) : List (Nat × Nat) × List (Nat × Nat) :=
  match opened.lookup ev.2 with
  | some a => (opened.filter (fun p => p.1 != ev.2), [(a, ev.1)])
  | none => (opened ++ [(ev.2, ev.1)], [])

def pairAll : List (Nat × Nat) → List (Nat × Nat) → List (Nat × Nat) × List (Nat × Nat)
  | opened, [] => (opened, [])
  | opened, ev :: evs =>
    let r1 := pairStep opened ev
    let r2 := pairAll r1.1 evs
    (r2.1, r1.2 ++ r2.2)

/-- the closure events a reader meets in a token list: `(atom the digit is attached to, number)` -/
def tokenEvents : Option Nat → List Nat → List WTok → List (Nat × Nat)
  | _, _, [] => []
  | _, stk, .atom n _ :: ts => tokenEvents (some n) stk ts
  | prev, stk, .closure c :: ts =>
    (match prev with | some p => [(p, c)] | none => []) ++ tokenEvents prev stk ts
  | prev, stk, .lpar :: ts => tokenEvents prev (match prev with | some p => p :: stk | none => stk) ts
  | prev, stk, .rpar :: ts =>
    match stk with
    | p :: tl => tokenEvents (some p) tl ts
    | [] => tokenEvents prev [] ts
  | prev, stk, .bond _ :: ts => tokenEvents prev stk ts
  | prev, stk, .dot :: ts => tokenEvents prev stk ts

/-- closure events of one round in written order, keyed by cycle identity: `(atom, cycle)` -/
def cycleEvents (r : Round) : List (Nat × Nat) :=
  (closureAtoms r.smi r.tokens).flatMap fun n =>
    match sortedClosures r.castedOut r.tokens n with
    | .ok cl => cl.map fun kc => (n, kc.2)
    | .error _ => []

/-- the same keyed by the written closure number -/
def numberEvents (r : Round) : List (Nat × Nat) :=
  (cycleEvents r).map fun e => (e.1, (r.castedOut.lookup e.2).getD 0)

def closureEdges (es : List REdge) : List (Nat × Nat) := (es.filter (·.closure)).map fun e => (e.a, e.b)

/-! ## structural checkers on one run -/

def undirected (a b : Nat) : Nat × Nat := if a ≤ b then (a, b) else (b, a)

def insPair (x : Nat × Nat) : List (Nat × Nat) → List (Nat × Nat)
  | [] => [x]
  | y :: tl => if x.1 < y.1 || (x.1 == y.1 && x.2 ≤ y.2) then x :: y :: tl else y :: insPair x tl
def sortPairs (l : List (Nat × Nat)) : List (Nat × Nat) := l.foldr insPair []

/-! ## positional reader on lexer tokens (what a SMILES reader sees: atoms are numbered in order of appearance) -/

structure PState where
  count : Nat := 0                     -- atoms read so far; the next atom gets this index
  prev : Option Nat := none
  stack : List Nat := []
  pending : Bool := false
  afterDot : Bool := false
  opened : List (Nat × Nat) := []      -- closure number → atom index
  edges : List (Nat × Nat) := []       -- reversed
  deriving Repr, Inhabited

def pAtom (st : PState) : PState :=
  let edges := match st.prev, st.afterDot with
    | some p, false => (p, st.count) :: st.edges
    | _, _ => st.edges
  { st with count := st.count + 1, prev := some st.count, pending := false, afterDot := false, edges := edges }

def pstep (st : PState) : LTok → Except RErr PState
  | .bracket _ => .ok (pAtom st)
  | .plain _ => .ok (pAtom st)
  | .bond _ => if st.pending then .error .doubleBond2 else .ok { st with pending := true }
  | .closure c =>
    match st.prev with
    | none => .error .closureOnNothing
    | some cur =>
      match st.opened.lookup c with
      | some a =>
        if a == cur then .error .selfClosure
        else .ok { st with opened := st.opened.filter (·.1 != c), pending := false, edges := (a, cur) :: st.edges }
      | none => .ok { st with opened := st.opened ++ [(c, cur)], pending := false }
  | .lpar =>
    match st.prev with
    | none => .error .popEmpty
    | some p => if st.pending then .error .bondBeforeParen else .ok { st with stack := p :: st.stack }
  | .rpar =>
    match st.stack with
    | [] => .error .popEmpty
    | p :: tl => if st.pending then .error .bondBeforeParen else .ok { st with prev := some p, stack := tl }
  | .dot => .ok { st with afterDot := true }

def prun : PState → List LTok → Except RErr PState
  | st, [] => .ok st
  | st, t :: ts => match pstep st t with
    | .error e => .error e
    | .ok st' => prun st' ts

/-- number of atoms and the bonds (pairs of atom indices, first = the earlier atom) denoted by a lexed SMILES body -/
def readL (ts : List LTok) : Except RErr (Nat × List (Nat × Nat)) :=
  match prun {} ts with
  | .error e => .error e
  | .ok st =>
    if !st.stack.isEmpty then .error .parenOpenAtEnd
    else if !st.opened.isEmpty then .error .closureOpenAtEnd
    else if st.pending then .error .bondAtEnd
    else .ok (st.count, st.edges.reverse)

/-- text → lexer → positional reader: `n;i-j,…` with the pairs sorted (atom indices in reading order) -/
def readBody (body : Str) : String :=
  match lex body with
  | none => "lex-error"
  | some lt =>
    match readL lt with
    | .error _ => "read-error"
    | .ok (n, es) =>
      s!"{n};" ++ ",".intercalate ((sortPairs (es.map fun (a, b) => undirected a b)).map fun (a, b) => s!"{a}-{b}")

/-- all bonds of the molecule as sorted undirected pairs -/
def molPairs (m : Mol) : List (Nat × Nat) := sortPairs (m.bonds.map fun (a, b, _) => undirected a b)

/-- the symbols read for a bond are what `_format_bond` gives for it: a chain bond `a→b` carries `_format_bond(a, b)`;
    a closure carries `_format_bond(a, b)` at its first end and `_format_bond(b, a)` at its second end (with asymmetric
    closures the second end carries nothing) -/
def edgeSymbolOk (m : Mol) (opts : Opts) (rs : List Round) (e : REdge) : Bool :=
  match rs.find? (fun r => r.visited.contains e.a) with
  | none => false
  | some r =>
    match formatBond m opts r.sc e.a e.b, formatBond m opts r.sc e.b e.a with
    | .ok fwd, .ok bwd =>
      (if !e.closure then e.s2 == some fwd
       else match e.s1, e.s2 with
         | some s1, none => opts.asym && s1 == fwd
         | some s1, some s2 => s1 == fwd && s2 == bwd
         | none, _ => false)
    | _, _ => false

/-- Tokens of the whole run denote exactly the bonds of the molecule, each once, with the right symbols -/
def tokensDenoteMol (m : Mol) (opts : Opts) (rs : List Round) (ts : List WTok) : Bool :=
  match readToks ts with
  | .error _ => false
  | .ok es =>
    sortPairs (es.map fun e => undirected e.a e.b) == molPairs m && es.all (edgeSymbolOk m opts rs)

/-- scan of the closure numbers: never reopen an open number, never two equal numbers on one atom, all closed at a dot/end -/
structure CScan where
  opened : List Nat := []
  onAtom : List Nat := []
  ok : Bool := true
  maxOpen : Nat := 0

def cscanStep (s : CScan) : WTok → CScan
  | .atom _ _ => { s with onAtom := [] }
  | .closure c =>
    let dup := s.onAtom.contains c
    let opened := if s.opened.contains c then s.opened.filter (· != c) else c :: s.opened
    { opened := opened, onAtom := c :: s.onAtom, ok := s.ok && !dup, maxOpen := max s.maxOpen opened.length }
  | .dot => { s with ok := s.ok && s.opened.isEmpty }
  | _ => s

def closureScan (ts : List WTok) : CScan := ts.foldl cscanStep {}

def closuresOk (ts : List WTok) : Bool := let s := closureScan ts; s.ok && s.opened.isEmpty

/-- cycles open after an atom whose cycle list is `cyc`: closing ones leave, new ones enter -/
def toggle (opened cyc : List Nat) : List Nat :=
  opened.filter (fun c => !cyc.contains c) ++ cyc.filter (fun c => !opened.contains c)

/-- shape of the cycle-id lists handed to the number allocator: no id twice on one atom; an id that is not open has
    never been seen (so every id occurs on at most two atoms) -/
def cyclesWF : List Nat → List Nat → List (List Nat) → Bool
  | _, _, [] => true
  | opened, seen, cyc :: tl =>
    decide cyc.Nodup && cyc.all (fun c => opened.contains c || !seen.contains c) &&
      cyclesWF (toggle opened cyc) (seen ++ cyc) tl

/-- the cycle-id lists of one round, as `castAll` builds them -/
def roundCycles (r : Round) : List (List Nat) := (closureAtoms r.smi r.tokens).map (cycOf r.smi r.tokens)

/-- parenthesis depth never negative, zero at the end and at every dot -/
def parenDepth : Nat → List WTok → Option Nat
  | d, [] => some d
  | d, .lpar :: ts => parenDepth (d + 1) ts
  | d, .rpar :: ts => if d == 0 then none else parenDepth (d - 1) ts
  | d, .dot :: ts => if d == 0 then parenDepth 0 ts else none
  | d, _ :: ts => parenDepth d ts

def parensOk (ts : List WTok) : Bool := parenDepth 0 ts == some 0

/-- DFS result of one round is a spanning tree of its component plus one closure pair per remaining bond -/
def roundOk (m : Mol) (r : Round) : Bool :=
  let tree := r.edges.flatMap fun (p, cs) => cs.map fun c => undirected p c
  let clos := r.tokens.flatMap fun (a, l) => l.filterMap fun (b, _) => if a < b then some (a, b) else none
  let comp := (m.bonds.filterMap fun (a, b, _) => if r.visited.contains a || r.visited.contains b then some (undirected a b) else none)
  let children := r.edges.flatMap (·.2)
  r.visited.Nodup && children.Nodup && !children.contains r.start &&
  r.visited.all (fun v => v == r.start || children.contains v) && children.all r.visited.contains &&
  sortPairs (tree ++ clos) == sortPairs comp &&
  -- flattening lists every visited atom exactly once
  sortPairs ((r.smi.filterMap FTok.atom?).map fun n => (n, 0)) == sortPairs (r.visited.map fun n => (n, 0))

def checkRun (m : Mol) (env : Env) (opts : Opts) : String :=
  match smilesRounds m env opts with
  | .error e => "err " ++ e.name
  | .ok (rs, order) =>
    let ts := joinRounds rs
    let fails := (if m.WF then [] else ["wf"]) ++   -- hypothesis of the coverage theorems (Props/C02 §8)
                 (if rs.all (roundOk m) then [] else ["round"]) ++
                 (if closuresOk ts then [] else ["closures"]) ++
                 (if cyclesWF [] [] (rs.flatMap roundCycles) then [] else ["cycles"]) ++
                 (if decide (rs.flatMap fun r => closureAtoms r.smi r.tokens).Nodup then [] else ["once"]) ++
                 (if parensOk ts then [] else ["parens"]) ++
                 (if tokensDenoteMol m opts rs ts then [] else ["denote"]) ++
                 (match readToks ts with
                  | .ok es =>
                    let byNum := pairAll [] (rs.flatMap numberEvents)
                    let byCyc := pairAll [] (rs.flatMap cycleEvents)
                    if closureEdges es == byNum.2 && byNum.2 == byCyc.2 && byCyc.1.isEmpty then [] else ["pairing"]
                  | .error _ => ["pairing"]) ++
                 (if chainRead ts == some (rs.flatMap fun r => r.smi.filterMap FTok.bond?) then [] else ["chain"]) ++
                 (if sortPairs (order.map (·, 0)) == sortPairs (m.ids.map (·, 0)) then [] else ["order"]) ++
                 (if lex (renderAll ts) == some (ts.filterMap toL) then [] else ["lex"])
    if fails.isEmpty then s!"ok maxopen={(closureScan ts).maxOpen} rounds={rs.length}" else "FAIL " ++ " ".intercalate fails

end ChythonModel.Model.C02RT
