import ChythonModel.Model.Graph
/-!
# C05 — the deterministic per-ring part of `Thiele.thiele` (chython/algorithms/aromatics/thiele.py), executable

Mirrors the body of `for ring in self.sssr:` — which rings are candidates for aromatisation and of which kind —
over the labels the code reads (`hybridization` as `calc_labels` writes it, `len(bonds[n])`,
`len(not_special_connectivity[n])`, element, charge). `self.sssr` is C06's subject and arrives as an input.

The later stages (tautomer fixing, quinone deletion, pruning, the second ring search) are certified relationally
(`Spec/Kekule.lean: checkThiele`); what is modelled here functionally is

* `ringKind`: skip / benzene-like / four-membered all-sp² / pyrrole-like (with the donor atom) / "freak";
* `monoAromatic`: the complete decision for a molecule with a single ring (a candidate ring with no exocyclic
  double bond is aromatised, nothing else is);
* `eligibleBond`: a bond can only become aromatic if it lies on a candidate ring.
-/
namespace ChythonModel.Model.C05T
open ChythonModel.Model

/-- `atom._hybridization` as `calc_labels` computes it from the neighbour dict (in dict order) -/
def hybridization (m : Mol) (n : Nat) : Nat :=
  (m.nbrs n).foldl (fun h (kb : Nat × Bond) =>
    let o := kb.2.order
    if o == 8 then h
    else if o == 4 then 4
    else if h != 4 then
      (if o == 3 then 3 else if o == 2 then (if h == 1 then 2 else if h == 2 then 3 else h) else h)
    else h) 1

/-- `len(bonds[n])` -/
def nbonds (m : Mol) (n : Nat) : Nat := (m.nbrs n).length
/-- `len(not_special_connectivity[n])` -/
def nsc (m : Mol) (n : Nat) : Nat := ((m.nbrs n).filter (·.2.order != 8)).length

inductive RingKind where
  | skip
  | benzene
  | tetra
  | pyrrole (n : Nat)
  | freak
  deriving Repr, DecidableEq, Inhabited

def zOf (m : Mol) (n : Nat) : Nat := ((m.atom? n).map (·.z)).getD 0
def chargeOf (m : Mol) (n : Nat) : Int := ((m.atom? n).map (·.charge)).getD 0

/-- the `if … elif …` chain that decides whether the all-single-bonded atom `n` of a ring of `lr` atoms may act as
    the lone-pair / empty-orbital donor (`False` = `continue`) -/
def donorOk (m : Mol) (lr : Nat) (n : Nat) : Bool :=
  let z := zOf m n
  let c := chargeOf m n
  if c == -1 then !(z != 6 || lr != 5)
  else if c != 0 then false
  else if lr == 7 then z == 5
  else if z == 8 || z == 16 || z == 34 then nbonds m n == 2
  else if z == 7 then !(nbonds m n > 3)
  else if z == 5 || z == 15 then !(nbonds m n > 3)
  else false

/-- body of `for ring in self.sssr:` up to the point where the ring is recorded -/
def ringKind (m : Mol) (ring : List Nat) : RingKind :=
  let lr := ring.length
  if !(3 < lr && lr < 8) then .skip
  else if ring.any fun n => !([6, 7, 8, 16, 5, 15].contains (zOf m n)) || nsc m n > 3 then .skip
  else
    let sp2 := (ring.filter fun n => hybridization m n == 2).length
    if sp2 == lr then (if lr == 4 then .tetra else .benzene)
    else if 4 < lr && lr == sp2 + 1 then
      match ring.find? fun n => hybridization m n == 1 with
      | none => .skip
      | some n => if donorOk m lr n then .pyrrole n else .skip
    else if lr == 5 && sp2 == 3 then .freak
    else .skip

/-- ring neighbours of position `i` in a ring given as an atom list (closing pair included) -/
def ringNbrs (ring : List Nat) (n : Nat) : List Nat :=
  let pairs := (ring.zip (ring.drop 1)) ++ (match ring.head?, ring.getLast? with
    | some a, some z => [(z, a)]
    | _, _ => [])
  (pairs.filterMap fun p => if p.1 == n then some p.2 else if p.2 == n then some p.1 else none)

/-- `n` carries a double bond to an atom that is not one of its ring neighbours (thiele's `double_bonded`) -/
def exoDouble (m : Mol) (ring : List Nat) (n : Nat) : Bool :=
  (m.nbrs n).any fun kb => kb.2.order == 2 && !(ringNbrs ring n).contains kb.1

/-- complete decision of `thiele()` for a molecule whose only ring is `ring`: is the ring aromatised? -/
def monoAromatic (m : Mol) (ring : List Nat) : Bool :=
  (match ringKind m ring with
   | .benzene => true
   | .pyrrole _ => true
   | _ => false) && !(ring.any fun n => exoDouble m ring n)

/-- candidate kinds: rings whose bonds may end up aromatic -/
def candidate (k : RingKind) : Bool :=
  match k with
  | .benzene => true
  | .pyrrole _ => true
  | .freak => true
  | _ => false

def onRing (ring : List Nat) (a b : Nat) : Bool := (ringNbrs ring a).contains b

/-- the bond `a–b` lies on a candidate ring of the ring list -/
def eligibleBond (m : Mol) (sssr : List (List Nat)) (a b : Nat) : Bool :=
  sssr.any fun r => onRing r a b && candidate (ringKind m r)

/-- every bond that is aromatic in `t` but was not in `k` lies on a candidate ring of `k` -/
def aromatisedOnlyEligible (k t : Mol) (sssr : List (List Nat)) : Bool :=
  k.adj.all fun row => row.2.all fun kb =>
    match t.bond? row.1 kb.1 with
    | none => true
    | some b' => !(b'.order == 4 && kb.2.order != 4) || eligibleBond k sssr row.1 kb.1

end ChythonModel.Model.C05T

/-!
## `thiele(fix_tautomers=False)` as a function (rings without "freak" candidates)

Everything after the ring loop, given the ring list: the candidate skeleton (`defaultdict(set)` in insertion order),
`double_bonded` (atoms with a double bond leaving the skeleton), quinone deletion, the pruning loop, the cyclomatic
test, and the final assignment. The second ring search `_sssr(rings, n_sssr)` is C06's subject; it is replaced by what
any cycle basis covers: exactly the skeleton bonds that lie on a cycle (non-bridges) — a disagreement there would be
a ring-perception defect. Rings of kind `freak` need the pattern matcher (C07) and are not modelled: `thieleNoFix`
answers `none` when the ring list has one.
-/
namespace ChythonModel.Model.C05T
open ChythonModel.Model

/-- insertion-ordered `defaultdict(set)` -/
abbrev Skel := List (Nat × List Nat)

def Skel.get (g : Skel) (n : Nat) : List Nat := (g.lookup n).getD []
def Skel.hasKey (g : Skel) (n : Nat) : Bool := g.any (·.1 == n)

/-- `g[n].add(m)` on a `defaultdict(set)` -/
def Skel.add (g : Skel) (n m : Nat) : Skel :=
  if g.hasKey n then g.map fun p => if p.1 == n && !p.2.contains m then (p.1, p.2 ++ [m]) else p
  else g ++ [(n, [m])]

/-- `rings[n].add(m); rings[m].add(n)` -/
def Skel.addEdge (g : Skel) (n m : Nat) : Skel := (g.add n m).add m n

/-- `g[n].discard(m)` -/
def Skel.discard (g : Skel) (n m : Nat) : Skel := g.map fun p => if p.1 == n then (p.1, p.2.erase m) else p

/-- `g.pop(n)` (the value is read separately) -/
def Skel.pop (g : Skel) (n : Nat) : Skel := g.filter (·.1 != n)

/-- closing pair first, then consecutive pairs: the order the code adds a ring's bonds in -/
def ringEdges (ring : List Nat) : List (Nat × Nat) :=
  (match ring.head?, ring.getLast? with
   | some a, some z => [(a, z)]
   | _, _ => []) ++ ring.zip (ring.drop 1)

structure Collected where
  rings : Skel
  tetra : List (List Nat)
  pyrroles : List Nat
  freaks : List (List Nat)
  deriving Repr, DecidableEq, Inhabited

/-- `rings[n].add(m); rings[m].add(n)` for the closing pair and every consecutive pair of a ring -/
def addRing (g : Skel) (r : List Nat) : Skel := (ringEdges r).foldl (fun g e => g.addEdge e.1 e.2) g

/-- the ring loop -/
def collect (m : Mol) : List (List Nat) → Collected → Collected
  | [], c => c
  | r :: rs, c =>
    match ringKind m r with
    | .skip => collect m rs c
    | .tetra => collect m rs { c with tetra := c.tetra ++ [r] }
    | .freak => collect m rs { c with freaks := c.freaks ++ [r] }
    | .benzene => collect m rs ⟨addRing c.rings r, c.tetra, c.pyrroles, c.freaks⟩
    | .pyrrole n =>
      collect m rs ⟨addRing c.rings r, c.tetra, if c.pyrroles.contains n then c.pyrroles else c.pyrroles ++ [n], c.freaks⟩

/-- `{n for n in rings if any(m not in rings[n] and b == 2 for m, b in bonds[n].items())}` -/
def doubleBonded (m : Mol) (g : Skel) : List Nat :=
  (g.filter fun p => (m.nbrs p.1).any fun kb => !p.2.contains kb.1 && kb.2.order == 2).map (·.1)

/-- `for n in double_bonded: for m in rings.pop(n): rings[m].discard(n)` -/
def deleteAtoms (g : Skel) : List Nat → Skel
  | [] => g
  | n :: ns => deleteAtoms (((g.get n).foldl (fun g m => g.discard m n) g).pop n) ns

/-- the `while True:` pruning loop (fuel = number of keys: every round removes at least one key) -/
def prune (pyrroles : List Nat) : Nat → Skel → Skel
  | 0, g => g
  | fuel + 1, g =>
    match g.find? fun p => p.2.length == 1 with
    | none => g
    | some (n, ms) =>
      match ms with
      | [m] =>
        let g1 := g.pop n
        if pyrroles.contains n then prune pyrroles fuel (g1.discard m n)
        else
          let pm := (g1.get m).erase n
          prune pyrroles fuel (pm.foldl (fun g x => g.discard x m) (g1.pop m))
      | _ => g

/-- atoms reachable from the frontier in `g` without using the edge `a–b` (fuel = number of keys) -/
def reach (g : Skel) (a b : Nat) : Nat → List Nat → List Nat → List Nat
  | 0, _, seen => seen
  | fuel + 1, frontier, seen =>
    let next := (frontier.flatMap fun x => (g.get x).filter fun y => !((x == a && y == b) || (x == b && y == a))).eraseDups
    let new := next.filter fun y => !seen.contains y
    if new.isEmpty then seen else reach g a b fuel new (seen ++ new)

/-- the skeleton bond `a–b` lies on a cycle -/
def onCycle (g : Skel) (a b : Nat) : Bool := (reach g a b g.length [a] [a]).contains b

/-- connected components count (`len(_connected_components(rings))`) -/
def components (g : Skel) : Nat :=
  let rec go : Nat → List Nat → List Nat → Nat → Nat
    | 0, _, _, acc => acc
    | _ + 1, [], _, acc => acc
    | fuel + 1, k :: ks, seen, acc =>
      if seen.contains k then go fuel ks seen acc
      else go fuel ks (seen ++ reach g 0 0 g.length [k] [k]) (acc + 1)
  go (g.length + 1) (g.map (·.1)) [] 0

def setOrderT (m : Mol) (a b : Nat) (o : Nat) : Mol :=
  { m with adj := m.adj.map fun p =>
      if p.1 == a then (p.1, p.2.map fun q => if q.1 == b then (q.1, { q.2 with order := o }) else q)
      else if p.1 == b then (p.1, p.2.map fun q => if q.1 == a then (q.1, { q.2 with order := o }) else q)
      else p }

/-- `thiele(fix_tautomers=False)`: `(returned bool, molecule)`; `none` = the ring list has a "freak" candidate -/
def thieleNoFix (m : Mol) (sssr : List (List Nat)) : Option (Bool × Mol) :=
  let c := collect m sssr ⟨[], [], [], []⟩
  if !c.freaks.isEmpty then none
  else if c.rings.isEmpty then some (false, m)
  else
    let db := doubleBonded m c.rings
    let g : Option Skel :=
      if db.isEmpty then some c.rings
      else
        let g1 := (deleteAtoms c.rings db).filter fun p => !p.2.isEmpty
        if g1.isEmpty then none
        else
          let g2 := prune c.pyrroles g1.length g1
          if g2.isEmpty then none else some g2
    match g with
    | none => some (false, m)
    | some g =>
      let edges2 := (g.map (·.2.length)).sum
      if edges2 / 2 + components g ≤ g.length then some (false, m)   -- n_sssr == 0
      else
        let cyc : List (Nat × Nat) := g.flatMap fun p => (p.2.filter fun y => onCycle g p.1 y).map fun y => (p.1, y)
        let seen := (cyc.map (·.1)).eraseDups
        let m1 := (c.tetra.filter fun r => r.all seen.contains).foldl
          (fun m r => (ringEdges r).foldl (fun m e => setOrderT m e.1 e.2 1) m) m
        some (true, cyc.foldl (fun m e => setOrderT m e.1 e.2 4) m1)

end ChythonModel.Model.C05T
