/-!
# C07 — executable model of `chython/algorithms/isomorphism.py` and `chython/_functions.py:lazy_product`

Mirrors, function by function, the pure-Python matcher as it is in /repo:

* `compileQuery`      ≙ `_compile_query(atoms, bonds)`            (DFS linearisation, `reversed(items())`, back refs, closures)
* `getMapping`        ≙ module-level `_get_mapping(linear_query, query_closures, o_atoms, o_bonds, scope)` (explicit stack machine)
* `lazyProduct`       ≙ `lazy_product(*args)`                     (diagonal precedence, then the remaining index tuples)
* `permutations`      ≙ `itertools.permutations(iterable, r)`
* `isoGetMapping`     ≙ `Isomorphism._get_mapping` (components × target components, scope, `seen` automorphism filter)
* `automorphismMapping` ≙ `_get_automorphism_mapping`             (incl. the exhausted-generator behaviour for one component)
* `isSubstructure … opGt` ≙ `is_substructure`, `is_equal`, `__le__`, `__lt__`, `__ge__`, `__gt__`

Atoms and bonds are *identifiers only*: atom compatibility `s_atom == o_atom` and bond compatibility
`s_bond == o_bond` are parameters (`atomOk`, `bondOk`), so nothing here depends on C08.

Python → Lean conventions: `dict` = insertion-ordered association list, `set` = duplicate-free list compared with
`setEq`; a generator = the list of what it yields (the generators here share no mutable state); `deque.pop()` /
`list.pop()` = head of a list whose head is the top of the stack; a Python `KeyError/IndexError` = `none`.
Core Lean only (the driver links this file).
-/
namespace ChythonModel.Model.Iso

/-- `Graph._atoms` keys in dict order and `Graph._bonds` (neighbour keys in dict order). -/
structure Graph where
  atoms : List Nat
  adj : List (Nat × List Nat)
  deriving Repr, DecidableEq, Inhabited

/-- `bonds[n]` (keys, in order). On well-formed graphs (`Graph.WF`) the key is always present. -/
def Graph.nbrs (g : Graph) (n : Nat) : List Nat := (g.adj.lookup n).getD []

/-- `m in bonds[n]` -/
def Graph.hasBond (g : Graph) (n m : Nat) : Bool := (g.nbrs n).contains m

/-- keys unique, `_bonds` keyed by exactly the atoms (same order), neighbour keys unique, no loops,
    every neighbour is an atom, adjacency symmetric -/
def Graph.WF (g : Graph) : Bool :=
  g.atoms.Nodup && (g.adj.map (·.1) == g.atoms) &&
  g.adj.all fun (n, ms) => ms.Nodup && ms.all fun k => k != n && g.atoms.contains k && g.hasBond k n

/-- one entry `(front, back, atom, bond)` of a linearised query; atom and bond objects are identified by
    `front` and by the pair `(back, front)` -/
structure Step where
  front : Nat
  back : Option Nat
  deriving Repr, DecidableEq, Inhabited

/-- `closures : defaultdict(list)`: `front ↦ [(n, bond), …]`, bond identified by `(front, n)` -/
abbrev Closures := List (Nat × List Nat)

/-- `closures[n]` of a `defaultdict(list)` -/
def Closures.get (c : Closures) (n : Nat) : List Nat := (c.lookup n).getD []

/-! ## `_compile_query` -/

/-- the inner `while stack:` loop. `stack` head = top; entries `(front, back)`.
    `fuel` bounds the number of iterations; `none` = out of fuel (never happens with `fuelFor`, theorem `compile_total`). -/
def dfsLoop (g : Graph) : Nat → List (Nat × Nat) → List Nat → List Step → Closures →
    Option (List Nat × List Step × Closures)
  | 0, _, _, _, _ => none
  | _+1, [], seen, order, cl => some (seen, order, cl)
  | fuel+1, (front, back) :: stack, seen, order, cl =>
    if seen.contains front then dfsLoop g fuel stack seen order cl
    else
      let ns := g.nbrs front
      -- `for n, bond in reversed(bonds[front].items()): if n != back: if n not in seen: stack.append(...)`:
      -- the last appended (= first of `ns` passing the test) is popped first
      let pushed := (ns.filter fun n => n != back && !seen.contains n).map fun n => (n, front)
      -- `else: closures[front].append((n, bond))`, in reversed adjacency order
      let cls := ns.reverse.filter fun n => n != back && seen.contains n
      dfsLoop g fuel (pushed ++ stack) (front :: seen) (order ++ [⟨front, some back⟩]) (cl ++ [(front, cls)])

def degreeSum (g : Graph) : Nat := (g.adj.map (·.2.length)).sum

def fuelFor (g : Graph) : Nat := degreeSum g + 1

/-- the outer `while len(seen) < len(atoms): start = next(x for x in iter_atoms if x not in seen)` loop:
    one shared iterator over the atoms, already seen atoms are skipped -/
def compileLoop (g : Graph) (fuel : Nat) : List Nat → List Nat → List (List Step) → Closures →
    Option (List (List Step) × Closures)
  | [], _, comps, cl => some (comps, cl)
  | x :: rest, seen, comps, cl =>
    if seen.contains x then compileLoop g fuel rest seen comps cl
    else
      match dfsLoop g fuel ((g.nbrs x).map fun n => (n, x)) (x :: seen) [⟨x, none⟩] cl with
      | none => none
      | some (seen', order, cl') => compileLoop g fuel rest seen' (comps ++ [order]) cl'

/-- `_compile_query(atoms, bonds)` → `(components, closures)` -/
def compileQuery (g : Graph) : Option (List (List Step) × Closures) :=
  compileLoop g (fuelFor g) g.atoms [] [] []

/-! ## `_get_mapping` — the explicit stack machine -/

abbrev Dict := List (Nat × Nat)

/-- `d[k] = v` -/
def Dict.set (d : Dict) (k v : Nat) : Dict :=
  if d.any (·.1 == k) then d.map fun p => if p.1 == k then (k, v) else p else d ++ [(k, v)]

/-- `del d[k]` (`none` = KeyError) -/
def Dict.del? (d : Dict) (k : Nat) : Option Dict :=
  if d.any (·.1 == k) then some (d.filter (·.1 != k)) else none

def Dict.has (d : Dict) (k : Nat) : Bool := d.any (·.1 == k)

/-- set equality of two key collections -/
def setEq (a b : List Nat) : Bool := a.all (b.contains ·) && b.all (a.contains ·)

/-- everything `_get_mapping` reads but never writes -/
structure Env where
  lq : List Step                       -- linear_query
  cl : Closures                        -- query_closures
  oAtoms : List Nat                    -- o_atoms keys in order
  t : Graph                            -- o_bonds
  scope : Nat → Bool                   -- `n in scope`
  atomOk : Nat → Nat → Bool            -- `atoms[q] == o_atoms[x]`
  bondOk : Nat → Nat → Nat → Nat → Bool  -- pattern bond (u,v) `==` target bond (x,y)

/-- `order_depth[b]` -/
def orderDepth (lq : List Step) (b : Nat) : Option Nat := lq.findIdx? (·.front == b)

/-- `for x in path[depth:]: del mapping[reversed_mapping.pop(x)]` -/
def truncate (tail : List Nat) (mapping rmapping : Dict) : Option (Dict × Dict) :=
  match tail with
  | [] => some (mapping, rmapping)
  | x :: tl => do
    let k ← rmapping.lookup x
    let r' ← rmapping.del? x
    let m' ← mapping.del? k
    truncate tl m' r'

/-- the closure test for candidate `oN` reached from `n`:
    `o_closures = o_bonds[o_n].keys() & reversed_mapping.keys(); o_closures.discard(n)`
    `o_closures == {mapping[m] for m, _ in query_closures[s_n]}` and then
    `all(bond == obon[mapping[m]] for m, bond in query_closures[s_n])` -/
def closureOk (e : Env) (sN oN n : Nat) (mapping rmapping : Dict) : Option Bool := do
  let want ← (e.cl.get sN).mapM fun m => mapping.lookup m
  let have_ := ((e.t.nbrs oN).filter fun y => rmapping.has y).filter (· != n)
  if setEq have_ want then
    pure (((e.cl.get sN).zip want).all fun (m, y) => e.bondOk sN m oN y)
  else pure false

/-- the body of `for o_n, o_bond in o_bonds[n].items(): if …: stack.append((o_n, depth))` as a filter -/
def candidates (e : Env) (sN back n : Nat) (mapping rmapping : Dict) : List Nat → Option (List Nat)
  | [] => some []
  | oN :: rest => do
    let tl ← candidates e sN back n mapping rmapping rest
    if e.scope oN && !rmapping.has oN && e.bondOk back sN n oN then
      if e.atomOk sN oN then
        if (← closureOk e sN oN n mapping rmapping) then pure (oN :: tl) else pure tl
      else pure tl
    else pure tl

/-- `path[order_depth[m]]`: image of pattern atom `m` under the partial assignment `path` (images of `lq[0..]` in order) -/
def img (lq : List Step) (path : List Nat) (m : Nat) : Option Nat := do
  let i ← orderDepth lq m
  path[i]?

/-- the body of one iteration with `depth != size`: truncate `path`/`mapping`/`reversed_mapping` to `depth`, record
    `current ↦ n`, and compute what the `for o_n, o_bond in o_bonds[n].items()` loop pushes for the next step.
    Returns the new `(path, mapping, reversed_mapping)` and the pushed atoms in push order. `none` = KeyError/IndexError. -/
def stepDown (e : Env) (depth n current : Nat) (path : List Nat) (mapping rmapping : Dict) :
    Option (List Nat × Dict × Dict × List Nat) :=
  match (if path.length != depth then truncate (path.drop depth) mapping rmapping else some (mapping, rmapping)) with
  | none => none
  | some (mapping, rmapping) =>
    let path := path.take depth ++ [n]
    let mapping := mapping.set current n
    let rmapping := rmapping.set n current
    match e.lq[depth + 1]? with
    | none => none
    | some nxt =>
      match nxt.back with
      | none => none
      | some back =>
        -- `if back != current: n = path[order_depth[back]]`
        match (if back != current then img e.lq path back else some n) with
        | none => none
        | some n' =>
          match candidates e nxt.front back n' mapping rmapping (e.t.nbrs n') with
          | none => none
          | some cands => some (path, mapping, rmapping, cands)

/-- the `while stack:` loop; `acc` collects the yielded dicts in reverse order -/
def runLoop (e : Env) (size : Nat) : Nat → List (Nat × Nat) → List Nat → Dict → Dict → List Dict → Option (List Dict)
  | 0, _, _, _, _, _ => none
  | _+1, [], _, _, _, acc => some acc.reverse
  | fuel+1, (n, depth) :: stack, path, mapping, rmapping, acc =>
    match e.lq[depth]? with
    | none => none
    | some cur =>
      if depth == size then
        runLoop e size fuel stack path mapping rmapping (mapping.set cur.front n :: acc)   -- `yield {**mapping, current: n}`
      else
        match stepDown e depth n cur.front path mapping rmapping with
        | none => none
        | some (path, mapping, rmapping, cands) =>
          runLoop e size fuel (cands.reverse.map (·, depth + 1) ++ stack) path mapping rmapping acc

/-- potential bound on the number of iterations: `|T|·(|T|+1)^(len+1) + 1` -/
def machineFuel (e : Env) : Nat := e.oAtoms.length * (e.oAtoms.length + 1) ^ (e.lq.length + 1) + 1

/-- `for n, o_atom in o_atoms.items(): if n in scope and s_atom == o_atom: stack.append((n, 0))` (head = top) -/
def roots (e : Env) : List Nat :=
  match e.lq with
  | [] => []
  | s :: _ => e.oAtoms.filter fun n => e.scope n && e.atomOk s.front n

/-- `_get_mapping(linear_query, query_closures, o_atoms, o_bonds, scope)` as the list of yielded dicts -/
def getMapping (e : Env) : Option (List Dict) :=
  match e.lq with
  | [] => none  -- `linear_query[0]` raises IndexError
  | _ :: _ => runLoop e (e.lq.length - 1) (machineFuel e) ((roots e).reverse.map (·, 0)) [] [] [] []

/-! ## the recursive reference enumerator (same candidate tests, no explicit stack, mapping = function of the path) -/

/-- candidates for `lq[depth]` given the images `path` of `lq[0..depth-1]` — in adjacency order of the parent image -/
def children (e : Env) (depth : Nat) (path : List Nat) : List Nat :=
  match e.lq[depth]? with
  | none => []
  | some s =>
    match s.back with
    | none => []
    | some b =>
      match img e.lq path b with
      | none => []
      | some n =>
        (e.t.nbrs n).filter fun oN =>
          e.scope oN && !path.contains oN && e.bondOk b s.front n oN && e.atomOk s.front oN &&
          (match (e.cl.get s.front).mapM (img e.lq path) with
           | none => false
           | some want =>
             setEq (((e.t.nbrs oN).filter fun y => path.contains y).filter (· != n)) want &&
             ((e.cl.get s.front).zip want).all fun (m, y) => e.bondOk s.front m oN y)

/-- all complete paths extending `path`; children are visited last-first, as the stack machine pops them -/
def extend (e : Env) : Nat → List Nat → List (List Nat)
  | 0, path => [path]
  | k+1, path => (children e path.length path).reverse.flatMap fun c => extend e k (path ++ [c])

/-- the reference result, as dicts `lq[i].front ↦ path[i]` in the machine's yield order -/
def recMapping (e : Env) : List Dict :=
  ((roots e).reverse.flatMap fun r => extend e (e.lq.length - 1) [r]).map fun p => (e.lq.map (·.front)).zip p

/-! ## `lazy_product`, `itertools.permutations` -/

/-- cartesian product of index ranges / of lists, lexicographic (`itertools.product`) -/
def cartesian {α} : List (List α) → List (List α)
  | [] => [[]]
  | a :: rest => a.flatMap fun x => (cartesian rest).map (x :: ·)

/-- `tuple(p[x] for x, p in zip(ind, pools))` -/
def pick {α} : List (List α) → List Nat → Option (List α)
  | [], [] => some []
  | a :: rest, i :: is => do
    let x ← a[i]?
    let tl ← pick rest is
    pure (x :: tl)
  | _, _ => none

/-- index tuples in the order `lazy_product` yields them: first the "diagonal" rounds
    `j = 0, 1, …` (`min j (len-1)` per pool — an exhausted generator repeats its last element), then the rest of
    `product(range(len(p)) …)` skipping what was yielded -/
def lazyIndices (lens : List Nat) : List (List Nat) :=
  match lens with
  | [] => [[]]
  | [n] => (List.range n).map ([·])
  | _ =>
    if lens.any (· == 0) then []
    else
      let maxLen := lens.foldl max 0
      let diag := (List.range maxLen).map fun j => lens.map fun n => min j (n - 1)
      diag ++ (cartesian (lens.map List.range)).filter fun ind => !diag.contains ind

/-- `lazy_product(*args)` on generators given as the lists they yield -/
def lazyProduct {α} (args : List (List α)) : List (List α) :=
  (lazyIndices (args.map List.length)).filterMap (pick args)

/-- every element paired with the remaining ones (order kept) -/
def picks {α} : List α → List (α × List α)
  | [] => []
  | x :: xs => (x, xs) :: (picks xs).map fun (y, ys) => (y, x :: ys)

/-- `itertools.permutations(l, r)` -/
def permutations {α} (l : List α) : Nat → List (List α)
  | 0 => [[]]
  | r+1 => (picks l).flatMap fun (x, rest) => (permutations rest r).map (x :: ·)

/-! ## `Isomorphism._get_mapping` -/

/-- the `seen` filter: `atoms = frozenset(mapping.values()); if atoms in seen: continue; seen.add(atoms)` -/
def autoFilterGo (seen : List (List Nat)) : List Dict → List Dict
  | [] => []
  | m :: ms =>
    let key := m.map (·.2)
    if seen.any (setEq key) then autoFilterGo seen ms else m :: autoFilterGo (key :: seen) ms

def autoFilter (ms : List Dict) : List Dict := autoFilterGo [] ms

/-- `mapping = match[0].copy(); for m in match[1:]: mapping.update(m)` (`match[0]` of an empty tuple raises) -/
def mergeDicts (ms : List Dict) : Option Dict :=
  match ms with
  | [] => none
  | m :: rest => some (rest.foldl (fun acc d => d.foldl (fun a p => a.set p.1 p.2) acc) m)

/-- the static inputs of one `pattern.get_mapping(target, …)` call -/
structure Problem where
  q : Graph                            -- pattern `_atoms` order / `_bonds`
  t : Graph                            -- target
  tComps : List (List Nat)             -- `other.connected_components` in the order the property yields them
  scope : Option (List Nat)            -- `searching_scope`
  autoFilter : Bool
  atomOk : Nat → Nat → Bool
  bondOk : Nat → Nat → Nat → Nat → Bool

/-- `candidate = searching_scope.intersection(candidate)` when `if searching_scope is not None:`, else the component -/
def restrict (scope : Option (List Nat)) (cand : List Nat) : List Nat :=
  match scope with
  | none => cand
  | some s => cand.filter (s.contains ·)

/-- `searching_scope is not None` (an empty scope is a scope: fixed in /repo 487cf59, before that `if searching_scope:`) -/
def scopeActive (scope : Option (List Nat)) : Bool := scope.isSome

def mkEnv (p : Problem) (cl : Closures) (lq : List Step) (cand : List Nat) : Env :=
  { lq := lq, cl := cl, oAtoms := p.t.atoms, t := p.t, scope := fun n => cand.contains n,
    atomOk := p.atomOk, bondOk := p.bondOk }

/-- mappers for one assignment of target components to pattern components; `none` inside = crash,
    outer `none`… the `break` (an empty restricted candidate) is returned as `some none` -/
def mappersFor (p : Problem) (cl : Closures) : List (List Step) → List (List Nat) → Option (Option (List (List Dict)))
  | [], _ => some (some [])
  | _, [] => some (some [])          -- `zip` stops at the shorter
  | lq :: lqs, cand :: cands =>
    let c := restrict p.scope cand
    if scopeActive p.scope && c.isEmpty then some none
    else do
      let r ← getMapping (mkEnv p cl lq c)
      match ← mappersFor p cl lqs cands with
      | none => pure none
      | some rs => pure (some (r :: rs))

/-- all mappings before the `seen` filter, in yield order -/
def isoUnfiltered (p : Problem) (comps : List (List Step)) (cl : Closures) : Option (List Dict) :=
  match comps with
  | [lq] =>
    p.tComps.foldlM (fun acc cand =>
      let c := restrict p.scope cand
      if scopeActive p.scope && c.isEmpty then some acc
      else do
        let r ← getMapping (mkEnv p cl lq c)
        pure (acc ++ r)) []
  | _ =>
    (permutations p.tComps comps.length).foldlM (fun acc cands => do
      match ← mappersFor p cl comps cands with
      | none => pure acc
      | some mappers => do
        let ms ← (lazyProduct mappers).mapM mergeDicts
        pure (acc ++ ms)) []

/-- `Isomorphism._get_mapping(other, automorphism_filter=…, searching_scope=…)` with `components is None` -/
def isoGetMapping (p : Problem) : Option (List Dict) := do
  let (comps, cl) ← compileQuery p.q
  let r ← isoUnfiltered p comps cl
  pure (if p.autoFilter then autoFilter r else r)

/-! ## operators -/

/-- `is_substructure`: `next(self.get_mapping(other, automorphism_filter=False))` succeeds -/
def isSubstructure (r : List Dict) : Bool := !r.isEmpty
/-- `is_equal` -/
def isEqual (lenSelf lenOther : Nat) (r : List Dict) : Bool := if lenSelf != lenOther then false else !r.isEmpty
/-- `__le__` -/
def opLe (r : List Dict) : Bool := isSubstructure r
/-- `__lt__` -/
def opLt (lenSelf lenOther : Nat) (r : List Dict) : Bool := if lenSelf ≥ lenOther then false else isSubstructure r
/-- `__ge__` (`r'` = mappings of other into self) -/
def opGe (r' : List Dict) : Bool := isSubstructure r'
/-- `__gt__` -/
def opGt (lenSelf lenOther : Nat) (r' : List Dict) : Bool := if lenSelf ≤ lenOther then false else isSubstructure r'

/-! ## `_get_automorphism_mapping(atoms, bonds)` -/

/-- `any(k != v for k, v in mapping.items())` -/
def nonIdentity (m : Dict) : Bool := m.any fun p => p.1 != p.2

/-- `atoms` = morgan classes per atom (dict order = `g.atoms`), `bondCls` = bond equality classes.
    With exactly one component the first loop drains `mappers[0]`; the following `lazy_product(*mappers)` then
    iterates an exhausted generator and yields nothing. -/
def automorphismMapping (g : Graph) (cls : Nat → Nat) (bondOk : Nat → Nat → Nat → Nat → Bool) : Option (List Dict) :=
  let classes := g.atoms.map cls
  if classes.length == classes.eraseDups.length then some []
  else do
    let (comps, cl) ← compileQuery g
    let mappers ← comps.mapM fun lq =>
      let sc := lq.map (·.front)
      getMapping { lq := lq, cl := cl, oAtoms := g.atoms, t := g, scope := fun n => sc.contains n,
                   atomOk := fun u x => cls u == cls x, bondOk := bondOk }
    let first := if mappers.length == 1 then (mappers.headD []).filter nonIdentity else []
    let mappers' := if mappers.length == 1 then [[]] else mappers   -- the drained generator
    let ms ← (lazyProduct mappers').mapM mergeDicts
    pure (first ++ ms.filter nonIdentity)

end ChythonModel.Model.Iso
