import ChythonModel.Model.Graph
import ChythonModel.Gen.C02Tables
import ChythonModel.Model.Stereo
/-!
# C02 — model of the SMILES writer `Smiles._smiles` / `MoleculeSmiles._format_atom/_format_bond/_format_cxsmiles`
(`chython/algorithms/smiles.py`)

```python
def _smiles(self, weights, *, asymmetric_closures=False, ..., **kwargs):
    atoms_set = set(self._atoms); seen = {}; cycle = 0; casted_cycles = {}; string = []; order = []
    visited_bond = set(); heap = list(range(1, 100))
    groups[weights(n)] -= 1 for n in atoms_set          # non-random only
    while True:
        start = min(atoms_set, key=mod_weights_start)
        BFS distances -> seen                             # non-random only
        DFS with cycle detection -> edges, tokens, visited
        flatten edges -> smiles (atoms, (a, b) bonds, '(' , ')')
        closure numbers: heappop(heap) on first sight, delayed heappush on second
        visited[atom] += closure partners (by number) + tree children
        emit strings
        atoms_set.difference_update(visited);  '.' or stop
```

What is an *input* of the model (taken from the real run, quantified universally in the theorems):
* the atom weights (`atoms_order` / `_chiral_morgan` values) — canonical numbering is property C01, not C02;
* the iteration order of the three Python `set`s whose order can decide a tie (`atoms_set` at each round, and
  `bonds[child].keys() - {parent}` for each directed bond) — CPython's hash-table order is not modelled (DESIGN §4);
* in random mode (`'r'`), the sequence of `(atom, draw)` pairs of the seeded `random()` in call order.
Everything else (start choice, BFS distance, DFS, flattening, closure numbers, delayed release, token formatting,
CXSMILES radical block) is computed by the model.

The DFS is transcribed as the explicit stack machine of the source (one `dfsStep` per loop iteration, fuel bounded by
the number of iterator advances); the flattening loop is given in its recursive form `flat` (the source's explicit
stack implements exactly this recursion; tied by the correspondence on every evaluated molecule).
Strings are code-point lists (`List Nat`), as in the reader model of C03.
-/
namespace ChythonModel.Model.SmilesWriter
open ChythonModel.Model ChythonModel.Gen.C02

abbrev Str := List Nat

/-- keyword arguments of `_smiles` as set by `__format__` -/
structure Opts where
  asym : Bool := false       -- 'a'
  stereo : Bool := true      -- '!s' → false
  aromatic : Bool := true    -- 'A'  → false
  mapping : Bool := false    -- 'm'
  hydrogens : Bool := false  -- 'h'
  bonds : Bool := true       -- '!b' → false
  charges : Bool := true     -- '!z' → false
  random : Bool := false     -- 'r'
  cx : Bool := true          -- '!x' → false
  deriving Repr, DecidableEq, Inhabited

inductive Err
  | indexError      -- heappop from the empty heap (more than 99 simultaneously open closures)
  | keyError        -- a dict lookup the source performs without a default failed
  | script          -- the supplied iteration orders / random draws do not fit the molecule (harness error, not Python)
  | fuel            -- a fuel bound was hit (never on well-formed input; reported, not defaulted)
  | valueError      -- `_translate_tetrahedron_sign`: invalid atoms list / `tuple.index`
  | stopIteration   -- `next(x for x in adjacency[t] if x in env)` exhausted
  deriving Repr, DecidableEq, Inhabited

def Err.name : Err → String
  | .indexError => "crash:IndexError" | .keyError => "crash:KeyError" | .script => "script" | .fuel => "fuel"
  | .valueError => "crash:ValueError" | .stopIteration => "crash:StopIteration"

/-! ## small Python pieces -/

/-- decimal digits, most significant first (`fuel` > number of digits) -/
def natDigits : Nat → Nat → Str
  | 0, _ => []
  | fuel + 1, n => if n < 10 then [48 + n] else natDigits fuel (n / 10) ++ [48 + n % 10]

/-- `str(n)` for a non-negative int, as code points -/
def natStr (n : Nat) : Str := natDigits (n + 1) n

/-- `str.lower()` on ASCII letters -/
def lower (s : Str) : Str := s.map fun c => if 65 ≤ c && c ≤ 90 then c + 32 else c

/-- `d[k].append(v)` on a `defaultdict(list)`: a missing key is created at the end -/
def alAppend {α} (d : List (Nat × List α)) (k : Nat) (v : α) : List (Nat × List α) :=
  match d with
  | [] => [(k, [v])]
  | (a, l) :: tl => if a == k then (a, l ++ [v]) :: tl else (a, l) :: alAppend tl k v

def alGet {α} (d : List (Nat × List α)) (k : Nat) : List α := (d.lookup k).getD []
def alHas {α} (d : List (Nat × α)) (k : Nat) : Bool := d.any (·.1 == k)

/-- `d[k] = v` on a dict -/
def alSet {α} (d : List (Nat × α)) (k : Nat) (v : α) : List (Nat × α) :=
  match d with
  | [] => [(k, v)]
  | (a, x) :: tl => if a == k then (a, v) :: tl else (a, x) :: alSet tl k v

/-- sort keys: `(groups[w], w, seen)` in canonical mode, `(0, draw, 0)` in random mode; Python tuple order -/
abbrev Key := Int × Int × Int
def Key.le (a b : Key) : Bool :=
  a.1 < b.1 || (a.1 == b.1 && (a.2.1 < b.2.1 || (a.2.1 == b.2.1 && a.2.2 ≤ b.2.2)))
def Key.lt (a b : Key) : Bool := !Key.le b a

/-- insert `x` before the first element that is not smaller (stable insertion) -/
def insertBy {α} (le : α → α → Bool) (x : α) : List α → List α
  | [] => [x]
  | y :: tl => if le x y then x :: y :: tl else y :: insertBy le x tl

/-- Python's `sorted`: stable insertion sort (folding from the right keeps the original order of ties) -/
def sortBy {α} (le : α → α → Bool) (l : List α) : List α := l.foldr (insertBy le) []

/-- `sorted(xs, key=…)` on (element, key) pairs -/
def sortKeyed {α} (l : List (α × Key)) : List (α × Key) := sortBy (fun a b => Key.le a.2 b.2) l

/-- `min(xs, key=…)`: the first minimal element in iteration order -/
def minKeyed {α} : List (α × Key) → Option (α × Key)
  | [] => none
  | x :: tl => match minKeyed tl with
    | none => some x
    | some y => if Key.le x.2 y.2 then some x else some y

/-! ## inputs that are not computed by the model -/

structure Env where
  weights : List (Nat × Int)                 -- `weights(n)` for every atom (canonical mode)
  setOrders : List (List Nat)                -- iteration order of `atoms_set` at the start of round 0, 1, …
  front : List ((Nat × Nat) × List Nat)      -- iteration order of `bonds[child].keys() - {parent}` per (child, parent)
  draws : List (Nat × Nat)                   -- random mode: `(atom, draw)` in call order
  tetra : List (Nat × List Nat) := []        -- `stereogenic_tetrahedrons` (dict order)
  cumul : List (List Nat × Stereo.Ends) := []  -- `stereogenic_cumulenes`: path → (n0, n1, n2, n3) (dict order)
  deriving Repr, Inhabited

/-! ## the traversal state -/

structure Frame where
  parent : Nat
  depth : Nat
  children : List Nat
  deriving Repr, Inhabited

/-- variables that live across rounds (components) -/
structure Global where
  atomsSet : List Nat                        -- members of `atoms_set` (order carried for information only)
  seen : List (Nat × Int) := []
  cycle : Nat := 0
  casted : List (Nat × Nat) := []            -- casted_cycles: cycle id → closure number
  heap : List Nat                            -- ascending; `heappop` = head, `heappush` = sorted insert
  visitedBond : List (Nat × Nat) := []
  draws : List (Nat × Nat) := []
  round : Nat := 0
  deriving Repr, Inhabited

/-- per-round DFS variables -/
structure Dfs where
  stack : List Frame
  visited : List (Nat × List Nat)
  edges : List (Nat × List Nat) := []
  disconnected : List (Nat × Nat) := []
  cycle : Nat
  tokens : List (Nat × List (Nat × Nat)) := []
  draws : List (Nat × Nat)
  deriving Repr, Inhabited

/-- flattened graph tokens (`smiles` list of the source) -/
inductive FTok
  | atom (n : Nat)
  | bond (a b : Nat)
  | lpar
  | rpar
  deriving Repr, DecidableEq, Inhabited

section keys
variable (m : Mol) (env : Env) (opts : Opts)

def weightOf (n : Nat) : Except Err Int :=
  match env.weights.lookup n with
  | some w => .ok w
  | none => .error .keyError

/-- `groups[weights(x)]` (a defaultdict: a weight never counted reads as 0) -/
def groupOf (groups : List (Int × Int)) (w : Int) : Int := (groups.lookup w).getD 0

def countGroups (ws : List Int) : List (Int × Int) :=
  ws.foldl (fun g w => match g.lookup w with
    | some _ => g.map fun p => if p.1 == w then (p.1, p.2 - 1) else p
    | none => g ++ [(w, -1)]) []

/-- take the next `cands.length` draws; they must be draws for exactly the candidates (in the set's iteration order) -/
def takeDraws (draws : List (Nat × Nat)) (cands : List Nat) : Except Err (List (Nat × Key) × List (Nat × Nat)) :=
  let k := cands.length
  let got := draws.take k
  if got.length == k && got.all (fun p => cands.contains p.1) && cands.all (fun c => got.any (·.1 == c)) then
    .ok (got.map (fun p => (p.1, ((0 : Int), (p.2 : Int), (0 : Int)))), draws.drop k)
  else .error .script

/-- keys for a list of candidates already in iteration order; `useSeen = false` for `mod_weights_start` -/
def keysFor (groups : List (Int × Int)) (seen : List (Nat × Int)) (useSeen : Bool) (draws : List (Nat × Nat))
    (cands : List Nat) : Except Err (List (Nat × Key) × List (Nat × Nat)) :=
  if opts.random then takeDraws draws cands
  else do
    let ks ← cands.mapM fun n => do
      let w ← weightOf env n
      let s ← if useSeen then (match seen.lookup n with | some d => pure d | none => .error .keyError) else pure 0
      pure (n, (groupOf groups w, w, s))
    pure (ks, draws)

end keys

/-! ## BFS distances -/

/-- the `while queue` loop; `fuel` ≥ number of atoms + 1 pops -/
def bfs (m : Mol) : Nat → List (Nat × Int) → List (Nat × Int) → Except Err (List (Nat × Int))
  | _, [], seen => .ok seen
  | 0, _ :: _, _ => .error .fuel
  | fuel + 1, (n, d) :: queue, seen =>
    let fresh := (m.nbrs n).filterMap fun (k, _) => if alHas seen k then none else some k
    bfs m fuel (queue ++ fresh.map (·, d + 1)) (seen ++ fresh.map (·, d))

/-! ## DFS with cycle detection (explicit stack, one loop iteration per step) -/

def frontOf (m : Mol) (env : Env) (opts : Opts) (child parent : Nat) : Except Err (List Nat) :=
  let want := (m.nbrs child).filterMap fun (k, _) => if k == parent then none else some k
  if opts.random then .ok want   -- the iteration order is the order of the draws
  else match env.front.lookup (child, parent) with
  | some l => if l.length == want.length && want.all l.contains then .ok l else .error .script
  | none => if want.length ≤ 1 then .ok want else .error .script

def dfsStep (m : Mol) (env : Env) (opts : Opts) (groups : List (Int × Int)) (seen : List (Nat × Int)) (s : Dfs) :
    Except Err Dfs :=
  match s.stack with
  | [] => .ok s
  | f :: rest =>
    match f.children with
    | [] => .ok { s with stack := rest }
    | child :: cs =>
      let top : Frame := { f with children := cs }
      if !alHas s.visited child then
        let edges := alAppend s.edges f.parent child
        let visited := s.visited ++ [(child, [f.parent])]
        if f.depth > 1 then do
          let front ← frontOf m env opts child f.parent
          if front.isEmpty then
            pure { s with stack := top :: rest, edges := edges, visited := visited }
          else do
            let (ks, draws) ← keysFor env opts groups seen true s.draws front
            let sorted := (sortKeyed ks).map (·.1)
            pure { s with stack := { parent := child, depth := f.depth - 1, children := sorted } :: top :: rest,
                          edges := edges, visited := visited, draws := draws }
        else
          pure { s with stack := top :: rest, edges := edges, visited := visited }
      else if !s.disconnected.contains (child, f.parent) then
        let c := s.cycle + 1
        pure { s with stack := top :: rest,
                      disconnected := (child, f.parent) :: (f.parent, child) :: s.disconnected,
                      cycle := c,
                      tokens := alAppend (alAppend s.tokens f.parent (child, c)) child (f.parent, c) }
      else
        pure { s with stack := top :: rest }

def dfsRun (m : Mol) (env : Env) (opts : Opts) (groups : List (Int × Int)) (seen : List (Nat × Int)) :
    Nat → Dfs → Except Err Dfs
  | 0, s => if s.stack.isEmpty then .ok s else .error .fuel
  | fuel + 1, s =>
    if s.stack.isEmpty then .ok s
    else match dfsStep m env opts groups seen s with
      | .error e => .error e
      | .ok s' => dfsRun m env opts groups seen fuel s'

/-! ## flattening of the DFS tree -/

/-- the children of one atom: side chains in parentheses, the last child continues the chain -/
def flatKids (rec : Nat → List FTok) (tail : Nat) : List Nat → List FTok
  | [] => []
  | [c] => .bond tail c :: .atom c :: rec c
  | c :: rest => .lpar :: .bond tail c :: .atom c :: (rec c ++ .rpar :: flatKids rec tail rest)

/-- tokens that follow atom `tail` (`fuel` bounds the tree depth) -/
def flat (edges : List (Nat × List Nat)) : Nat → Nat → List FTok
  | 0, _ => []
  | fuel + 1, tail => flatKids (flat edges fuel) tail (alGet edges tail)

/-- the `smiles` list of one component -/
def flatten (edges : List (Nat × List Nat)) (fuel start : Nat) : List FTok := .atom start :: flat edges fuel start

def FTok.atom? : FTok → Option Nat
  | .atom n => some n
  | _ => none

/-! ## closure numbers -/

def insertAsc (x : Nat) : List Nat → List Nat
  | [] => [x]
  | y :: tl => if x ≤ y then x :: y :: tl else y :: insertAsc x tl

/-- position of atom `n` in the flattened list (`rings_order[n]`) -/
def posOf (smi : List FTok) (n : Nat) : Nat := smi.findIdx (· == .atom n)

/-- stable sort by a `Nat` key -/
def sortByNat {α} (key : α → Nat) (l : List α) : List α := sortBy (fun a b => key a ≤ key b) l

/-- the inner `for _, c in sorted(tokens[token], …)` loop of one atom: returns (casted, heap, released) -/
def castOne : List Nat → List (Nat × Nat) → List Nat → List Nat → Except Err (List (Nat × Nat) × List Nat × List Nat)
  | [], casted, heap, released => .ok (casted, heap, released)
  | c :: cs, casted, heap, released =>
    match casted.lookup c with
    | some num => castOne cs casted heap (released ++ [num])
    | none => match heap with
      | [] => .error .indexError
      | h :: heap' => castOne cs (casted ++ [(c, h)]) heap' released

/-- `heappush` of the released numbers after the atom (delayed release) -/
def pushAll (heap released : List Nat) : List Nat := released.foldl (fun h c => insertAsc c h) heap

/-- the `for token in rings_order:` loop on the cycle-id lists of the closure atoms in string order -/
def castSeq : List (List Nat) → List (Nat × Nat) → List Nat → Except Err (List (Nat × Nat) × List Nat)
  | [], casted, heap => .ok (casted, heap)
  | cyc :: tl, casted, heap =>
    match castOne cyc casted heap [] with
    | .error e => .error e
    | .ok (casted', heap', released) => castSeq tl casted' (pushAll heap' released)

/-- cycle ids of one closure atom, ordered as the partner atoms appear in the string -/
def cycOf (smi : List FTok) (tokens : List (Nat × List (Nat × Nat))) (a : Nat) : List Nat :=
  (sortByNat (fun (x : Nat × Nat) => posOf smi x.1) (alGet tokens a)).map (·.2)

def castAll (smi : List FTok) (tokens : List (Nat × List (Nat × Nat))) (atoms : List Nat)
    (casted : List (Nat × Nat)) (heap : List Nat) : Except Err (List (Nat × Nat) × List Nat) :=
  castSeq (atoms.map (cycOf smi tokens)) casted heap

/-- atoms of the flattened list that carry closures, in string order -/
def closureAtoms (smi : List FTok) (tokens : List (Nat × List (Nat × Nat))) : List Nat :=
  smi.filterMap fun t => match t with
    | .atom n => if alHas tokens n then some n else none
    | _ => none

/-! ## stereo marks: tables derived from `stereogenic_cumulenes`, `__ct_map`, chirality of an atom token -/

def ofPy {α} : Except Stereo.PyErr α → Except Err α
  | .ok a => .ok a
  | .error .keyError => .error .keyError
  | .error .valueError => .error .valueError
  | .error .stopIteration => .error .stopIteration

/-- the cached tables of `MoleculeStereo` the writer reads, derived from `stereogenic_cumulenes` exactly as the properties do -/
structure SEnv where
  tetra : List (Nat × List Nat) := []
  sct : List ((Nat × Nat) × Stereo.Ends) := []     -- stereogenic_cis_trans
  ctc : List (Nat × (Nat × Nat)) := []              -- _stereo_cis_trans_centers
  ctt : List (Nat × (Nat × Nat)) := []              -- _stereo_cis_trans_terminals
  ctcp : List (Nat × Nat) := []                     -- _stereo_cis_trans_counterpart
  allenes : List (Nat × Stereo.Ends) := []          -- stereogenic_allenes
  allTerm : List (Nat × (Nat × Nat)) := []          -- _stereo_allenes_terminals
  deriving Repr, Inhabited

def sEnvOf (env : Env) : SEnv :=
  env.cumul.foldl (fun (se : SEnv) (pe : List Nat × Stereo.Ends) =>
    let path := pe.1
    match path.head?, path.getLast? with
    | some n, some m =>
      let i := path.length / 2
      if path.length % 2 == 1 then
        match path[i]? with
        | some c => { se with allenes := alSet se.allenes c pe.2, allTerm := alSet se.allTerm c (n, m) }
        | none => se
      else
        match path[i - 1]?, path[i]? with
        | some a, some b =>
          { se with sct := se.sct.filter (·.1 != (n, m)) ++ [((n, m), pe.2)],
                    ctc := alSet (alSet se.ctc n (a, b)) m (a, b),
                    ctt := alSet (alSet (alSet (alSet se.ctt n (n, m)) m (n, m)) b (n, m)) a (n, m),
                    ctcp := alSet (alSet se.ctcp n m) m n }
        | _, _ => se
    | _, _ => se) { tetra := env.tetra }

/-- `adjacency['cache']`: pair keys `(n, m) → bool` and atom keys `n → m` of the one Python dict -/
structure CtMap where
  pair : List ((Nat × Nat) × Bool) := []
  atom : List (Nat × Nat) := []
  deriving Repr, Inhabited

def pairSet (d : List ((Nat × Nat) × Bool)) (k : Nat × Nat) (v : Bool) : List ((Nat × Nat) × Bool) :=
  match d with
  | [] => [(k, v)]
  | (a, x) :: tl => if a == k then (a, v) :: tl else (a, x) :: pairSet tl k v

def isHAtom (m : Mol) (x : Nat) : Bool := match m.atom? x with | some a => a.z == 1 | none => false

/-- atoms with at least one stereo-labelled bond (`stereo_bonds` of `__ct_map`) -/
def stereoBondAtoms (m : Mol) : List Nat := m.adj.filterMap fun (n, ms) => if ms.any (·.2.stereo.isSome) then some n else none

/-- `if y := ctc.get(v): ct_map[v] = k; seen.add(y)` -/
def markDiene (se : SEnv) (k v : Nat) (ct : CtMap) (seen : List (Nat × Nat)) : CtMap × List (Nat × Nat) :=
  match se.ctc.lookup v with
  | some y => ({ ct with atom := alSet ct.atom v k }, y :: seen)
  | none => (ct, seen)

/-- body of `for v in vs:` for a terminal `k` whose centre pair is `cs` -/
def ctInner (m : Mol) (se : SEnv) (k : Nat) (cs : Nat × Nat) (e : Stereo.Ends) :
    List Nat → CtMap → List (Nat × Nat) → Except Err (CtMap × List (Nat × Nat))
  | [], ct, seen => .ok (ct, seen)
  | v :: vs, ct, seen =>
    if !e.contains v then ctInner m se k cs e vs ct seen
    else if (ct.pair.lookup (k, v)).isSome then ctInner m se k cs e vs ct seen
    else match ct.atom.lookup k with
      | some x =>   -- second substituent of C=
        match ct.pair.lookup (k, x) with
        | none => .error .keyError
        | some s =>
          let ct1 : CtMap := { ct with pair := pairSet (pairSet ct.pair (k, v) (!s)) (v, k) s }
          let (ct2, seen2) := markDiene se k v ct1 seen
          ctInner m se k cs e vs ct2 seen2
      | none =>
        if seen.contains cs then
          match se.ctcp.lookup k with
          | none => .error .keyError
          | some o =>
            match ct.atom.lookup o with
            | none => .error .keyError
            | some on =>
              match ct.pair.lookup (o, on) with
              | none => .error .keyError
              | some s0 =>
                let stored := (m.bond? cs.1 cs.2).bind (·.stereo)
                match ofPy (Stereo.translateCisTrans se.sct (isHAtom m) k o v on stored none) with
                | .error er => .error er
                | .ok t =>
                  let s := if !t then !s0 else s0
                  let ct1 : CtMap := { pair := pairSet (pairSet ct.pair (k, v) s) (v, k) (!s), atom := alSet ct.atom k v }
                  let (ct2, seen2) := markDiene se k v ct1 seen
                  ctInner m se k cs e vs ct2 seen2
        else
          let (ct1, seen1) := markDiene se k v ct seen
          let ct2 : CtMap := { pair := pairSet (pairSet ct1.pair (v, k) true) (k, v) false, atom := alSet ct1.atom k v }
          ctInner m se k cs e vs ct2 seen1

/-- `for k, vs in adjacency.items():` -/
def ctOuter (m : Mol) (se : SEnv) (sb : List Nat) :
    List (Nat × List Nat) → CtMap → List (Nat × Nat) → Except Err CtMap
  | [], ct, _ => .ok ct
  | (k, vs) :: tl, ct, seen =>
    match se.ctc.lookup k with
    | some cs =>
      if sb.contains cs.1 && sb.contains cs.2 then
        match se.ctt.lookup k with
        | none => .error .keyError
        | some term =>
          match se.sct.lookup term with
          | none => .error .keyError
          | some e =>
            match ctInner m se k cs e vs ct seen with
            | .error er => .error er
            | .ok (ct', seen') => ctOuter m se sb tl ct' (cs :: seen')
      else ctOuter m se sb tl ct (cs :: seen)
    | none => ctOuter m se sb tl ct seen

/-- `wrong(marks)`: the labelled double bonds (keys of `stereogenic_cis_trans`, dict order) whose marks at the two ends do
    not agree with the stored label -/
def ctWrong (m : Mol) (se : SEnv) (ct : CtMap) : List ((Nat × Nat) × Stereo.Ends) → Except Err (List (Nat × Nat))
  | [] => .ok []
  | (term, _) :: tl =>
    match ctWrong m se ct tl with
    | .error e => .error e
    | .ok rest =>
      -- `labeled`: only double bonds whose centre bond carries a label
      let stored := match se.ctc.lookup term.1 with
        | some cs => (m.bond? cs.1 cs.2).bind (·.stereo)
        | none => none
      if stored.isNone then .ok rest
      else match ct.atom.lookup term.1, ct.atom.lookup term.2 with
      | some nn, some nm =>
        match ct.pair.lookup (term.1, nn), ct.pair.lookup (term.2, nm) with
        | some a, some b =>
          match ofPy (Stereo.translateCisTrans se.sct (isHAtom m) term.1 term.2 nn nm stored none) with
          | .error e => .error e
          | .ok t => .ok (if (a == b) != t then term :: rest else rest)
        | _, _ => .error .keyError
      | _, _ => .ok rest

/-- `for v in adjacency[k]:` of the turning-over loop -/
def ctFlipNbrs (se : SEnv) (k : Nat) (done : List Nat) :
    List Nat → List ((Nat × Nat) × Bool) → List Nat → List ((Nat × Nat) × Bool) × List Nat
  | [], pair, todo => (pair, todo)
  | v :: vs, pair, todo =>
    match pair.lookup (k, v), pair.lookup (v, k) with
    | some a, some b =>
      if done.contains v then ctFlipNbrs se k done vs pair todo
      else
        let pair' := pairSet (pairSet pair (k, v) (!a)) (v, k) (!b)
        match se.ctcp.lookup v with
        | some o => ctFlipNbrs se k done vs pair' (todo ++ [v, o])   -- `todo.append(v); todo.append(ctcp[v])`
        | none => ctFlipNbrs se k done vs pair' todo
    | _, _ => ctFlipNbrs se k done vs pair todo

/-- the `while todo:` loop (`todo.pop()` takes the last element) -/
def ctFlipLoop (se : SEnv) (adjacency : List (Nat × List Nat)) :
    Nat → List Nat → List Nat → List ((Nat × Nat) × Bool) → Except Err (List ((Nat × Nat) × Bool))
  | 0, todo, _, pair => if todo.isEmpty then .ok pair else .error .fuel
  | fuel + 1, todo, done, pair =>
    match todo.getLast? with
    | none => .ok pair
    | some k =>
      let todo' := todo.dropLast
      if done.contains k then ctFlipLoop se adjacency fuel todo' done pair
      else match adjacency.lookup k with
        | none => .error .keyError
        | some vs =>
          let r := ctFlipNbrs se k (k :: done) vs pair todo'
          ctFlipLoop se adjacency fuel r.2 (k :: done) r.1

/-- the check-and-turn-over pass at the end of `__ct_map` -/
def ctRepair (m : Mol) (se : SEnv) (adjacency : List (Nat × List Nat)) :
    List ((Nat × Nat) × Stereo.Ends) → CtMap → Except Err CtMap
  | [], ct => .ok ct
  | (term, _) :: tl, ct =>
    match ctWrong m se ct se.sct with
    | .error e => .error e
    | .ok before =>
      if !before.contains term then ctRepair m se adjacency tl ct
      else
        let fuel := 4 * ((adjacency.map (·.2.length)).sum + adjacency.length) + 4
        match ctFlipLoop se adjacency fuel [term.1] [term.2] ct.pair with
        | .error e => .error e
        | .ok pair' =>
          let fixed : CtMap := { ct with pair := pair' }
          match ctWrong m se fixed se.sct with
          | .error e => .error e
          | .ok after =>
            if after.length < before.length && after.all before.contains then ctRepair m se adjacency tl fixed
            else ctRepair m se adjacency tl ct

/-- `MoleculeSmiles.__ct_map(adjacency)` -/
def ctMap (m : Mol) (se : SEnv) (adjacency : List (Nat × List Nat)) : Except Err CtMap :=
  let sb := stereoBondAtoms m
  if sb.isEmpty then .ok {}
  else match ctOuter m se sb adjacency {} [] with
    | .error e => .error e
    | .ok ct => ctRepair m se adjacency se.sct ct

/-- what `_format_atom/_format_bond` receive as `adjacency` (with the lazily filled `'cache'` entry) -/
structure SCtx where
  first : Nat := 0                               -- `next(x for x in adjacency)`
  adjacency : List (Nat × List Nat) := []
  senv : SEnv := {}
  ct : Except Err CtMap := .ok {}
  deriving Inhabited

/-- the chirality slot of `_format_atom`: `some true` = `@`, `some false` = `@@` -/
def stereoMark (m : Mol) (opts : Opts) (sc : SCtx) (n : Nat) (atom : Atom) : Except Err (Option Bool) :=
  if atom.stereo.isSome && opts.stereo then
    match sc.senv.allTerm.lookup n with
    | some (t1, t2) =>
      match sc.senv.allenes.lookup n, sc.adjacency.lookup t1, sc.adjacency.lookup t2 with
      | some e, some a1, some a2 => (ofPy (Stereo.writerAlleneMark e a1 a2 (isHAtom m) atom.stereo)).map some
      | _, _, _ => .error .keyError
    | none =>
      match sc.senv.tetra.lookup n, sc.adjacency.lookup n with
      | some order, some adj =>
        (ofPy (Stereo.writerTetraMark order adj (isHAtom m) atom.stereo (atom.implH.getD 0) (sc.first == n))).map some
      | _, _ => .error .keyError
  else .ok none

/-! ## atom, bond and closure strings -/

def hybridization (m : Mol) (n : Nat) : Nat :=
  (m.nbrs n).foldl (fun h (p : Nat × Bond) =>
    let b := p.2.order
    if b == 8 then h
    else if b == 4 then 4
    else if h != 4 then
      (if b == 3 then 3 else if b == 2 then (if h == 1 then 2 else if h == 2 then 3 else h) else h)
    else h) 1

/-- `not self.not_special_connectivity[n]`: no neighbour through a non-special (≠ 8) bond -/
def noOrdinaryNeighbour (m : Mol) (n : Nat) : Bool := (m.nbrs n).all fun p => p.2.order == 8

def symbolOf (z : Nat) : Except Err Str :=
  match symbols.lookup z with
  | some s => .ok s
  | none => .error .keyError

/-- the eight slots of `smi` in `_format_atom` that can be non-empty -/
structure ATok where
  bracket : Bool
  isotope : Option Nat      -- written when truthy
  symbol : Str              -- already lower-cased when aromatic
  stereo : Option Bool      -- some true = '@', some false = '@@'
  hcount : Nat              -- 0 = no H token
  charge : Str
  map : Option Nat
  deriving Repr, DecidableEq, Inhabited

def ATok.render (a : ATok) : Str :=
  (if a.bracket then [91] else []) ++
  (match a.isotope with | some i => natStr i | none => []) ++
  a.symbol ++
  (match a.stereo with | some true => [64] | some false => [64, 64] | none => []) ++
  (if a.hcount == 0 then [] else if a.hcount == 1 then [72] else 72 :: natStr a.hcount) ++
  a.charge ++
  (match a.map with | some k => 58 :: natStr k | none => []) ++
  (if a.bracket then [93] else [])

/-- the charge slot: `charge_str[atom.charge]` when the atom is charged and charges are shown -/
def chargeText (opts : Opts) (atom : Atom) : Except Err Str :=
  if atom.charge != 0 && opts.charges then
    match chargeStr.lookup atom.charge with
    | some s => .ok s
    | none => .error .keyError
  else .ok []

/-- brackets? and the hydrogen count written: the `if any(smi) or … elif … elif … elif …` cascade of `_format_atom` -/
def bracketH (m : Mol) (opts : Opts) (n : Nat) (atom : Atom) (sym : Str) (anySmi : Bool) : Bool × Nat :=
  let h : Nat := atom.implH.getD 0    -- truthiness of `implicit_hydrogens`: None and 0 are both falsy
  let hyb := hybridization m n
  if anySmi || !organicSet.contains sym || atom.radical || opts.hydrogens then (true, h)
  else if hyb == 4 && h != 0 && (atom.z == zB || atom.z == zN || atom.z == zP) then (true, h)
  else if h == 0 && (atom.z == zB || atom.z == zC || atom.z == zP || atom.z == zS) && noOrdinaryNeighbour m n then (true, 0)
  else if h != 0 && atom.z == zP && hyb != 1 then (true, h)
  else (false, 0)

def isoSlot (atom : Atom) : Option Nat := match atom.isotope with | some i => if i != 0 then some i else none | none => none
def mapSlot (opts : Opts) (n : Nat) : Option Nat := if opts.mapping then some n else none

/-- the decision table of `_format_atom` once the slots are known -/
def mkATok (m : Mol) (opts : Opts) (n : Nat) (atom : Atom) (sym : Str) (mark : Option Bool) (charge : Str) : ATok :=
  let iso := isoSlot atom
  let mp := mapSlot opts n
  let anySmi := iso.isSome || mark.isSome || !charge.isEmpty || mp.isSome
  let brhc := bracketH m opts n atom sym anySmi
  { bracket := brhc.1, isotope := iso, symbol := if opts.aromatic && hybridization m n == 4 then lower sym else sym,
    stereo := mark, hcount := brhc.2, charge := charge, map := mp }

/-- `MoleculeSmiles._format_atom(n, adjacency, **kwargs)` -/
def formatAtom (m : Mol) (opts : Opts) (sc : SCtx) (n : Nat) : Except Err ATok :=
  match m.atom? n with
  | none => .error .keyError
  | some atom =>
    match symbolOf atom.z with
    | .error e => .error e
    | .ok sym =>
      match stereoMark m opts sc n atom with
      | .error e => .error e
      | .ok mark =>
        match chargeText opts atom with
        | .error e => .error e
        | .ok charge => .ok (mkATok m opts n atom sym mark charge)

/-- `MoleculeSmiles._format_bond(n, m, adjacency, **kwargs)` -/
def formatBond (m : Mol) (opts : Opts) (sc : SCtx) (a b : Nat) : Except Err Str :=
  if !opts.bonds then .ok []
  else match m.bond? a b with
    | none => .error .keyError
    | some bd =>
      if bd.order == 4 then .ok (if opts.aromatic then [] else [58])
      else if bd.order == 1 then
        if opts.aromatic && hybridization m a == 4 && hybridization m b == 4 then .ok [45]
        else if opts.stereo then
          match sc.ct with
          | .error e => .error e
          | .ok ct => match ct.pair.lookup (a, b) with
            | some x => .ok (if x then [47] else [92])
            | none => .ok []
        else .ok []
      else if bd.order == 2 then .ok [61]
      else if bd.order == 3 then .ok [35]
      else .ok [126]

/-- `_format_closure(c)` -/
def formatClosure (c : Nat) : Str := if c < closurePercentFrom then natStr c else closurePrefix ++ natStr c

/-- one element of the `string` list -/
inductive WTok
  | atom (n : Nat) (a : ATok)
  | bond (s : Str)
  | closure (c : Nat)
  | lpar
  | rpar
  | dot
  deriving Repr, DecidableEq, Inhabited

def WTok.render : WTok → Str
  | .atom _ a => a.render
  | .bond s => s
  | .closure c => formatClosure c
  | .lpar => [40]
  | .rpar => [41]
  | .dot => [46]

def renderAll (ts : List WTok) : Str := (ts.map WTok.render).flatten

/-- the bond token in front of a closure number; with `asymmetric_closures` only at the first of the two ends -/
def closureBond (m : Mol) (opts : Opts) (sc : SCtx) (n k : Nat) (vb : List (Nat × Nat)) : Except Err (List WTok × List (Nat × Nat)) :=
  if opts.asym then
    if vb.contains (n, k) then .ok ([], vb)
    else match formatBond m opts sc n k with
      | .error e => .error e
      | .ok b => .ok ([WTok.bond b], (k, n) :: vb)
  else match formatBond m opts sc n k with
    | .error e => .error e
    | .ok b => .ok ([WTok.bond b], vb)

/-- closures of one atom: `for m, c in tokens[token]` after sorting by closure number -/
def emitClosures (m : Mol) (opts : Opts) (sc : SCtx) (casted : List (Nat × Nat)) (n : Nat) :
    List (Nat × Nat) → List (Nat × Nat) → Except Err (List WTok × List (Nat × Nat))
  | [], vb => .ok ([], vb)
  | (k, c) :: tl, vb =>
    match casted.lookup c with
    | none => .error .keyError
    | some num =>
      match closureBond m opts sc n k vb with
      | .error e => .error e
      | .ok (bt, vb1) =>
        match emitClosures m opts sc casted n tl vb1 with
        | .error e => .error e
        | .ok (rest, vb2) => .ok (bt ++ WTok.closure num :: rest, vb2)

/-- `tokens[token].sort(key=lambda x: casted_cycles[x[1]])` -/
def sortedClosures (casted : List (Nat × Nat)) (tokens : List (Nat × List (Nat × Nat))) (n : Nat) :
    Except Err (List (Nat × Nat)) :=
  match (alGet tokens n).mapM (fun (kc : Nat × Nat) => (casted.lookup kc.2).map fun x => (kc, x)) with
  | none => .error .keyError
  | some l => .ok ((sortByNat (fun (x : (Nat × Nat) × Nat) => x.2) l).map (·.1))

def emit (m : Mol) (opts : Opts) (sc : SCtx) (casted : List (Nat × Nat)) (tokens : List (Nat × List (Nat × Nat))) :
    List FTok → List (Nat × Nat) → Except Err (List WTok × List Nat × List (Nat × Nat))
  | [], vb => .ok ([], [], vb)
  | .atom n :: tl, vb =>
    match formatAtom m opts sc n with
    | .error e => .error e
    | .ok a =>
      match sortedClosures casted tokens n with
      | .error e => .error e
      | .ok cl =>
        match emitClosures m opts sc casted n cl vb with
        | .error e => .error e
        | .ok (cts, vb1) =>
          match emit m opts sc casted tokens tl vb1 with
          | .error e => .error e
          | .ok (rest, order, vb2) => .ok (WTok.atom n a :: (cts ++ rest), n :: order, vb2)
  | .bond a b :: tl, vb =>
    match formatBond m opts sc a b with
    | .error e => .error e
    | .ok s =>
      match emit m opts sc casted tokens tl vb with
      | .error e => .error e
      | .ok (rest, order, vb') => .ok (WTok.bond s :: rest, order, vb')
  | .lpar :: tl, vb =>
    match emit m opts sc casted tokens tl vb with
    | .error e => .error e
    | .ok (rest, order, vb') => .ok (WTok.lpar :: rest, order, vb')
  | .rpar :: tl, vb =>
    match emit m opts sc casted tokens tl vb with
    | .error e => .error e
    | .ok (rest, order, vb') => .ok (WTok.rpar :: rest, order, vb')

/-! ## one round (component) and the whole loop -/

/-- what one round produced, kept for the checkers and theorems -/
structure Round where
  start : Nat
  visited : List Nat
  edges : List (Nat × List Nat)
  tokens : List (Nat × List (Nat × Nat))
  smi : List FTok
  out : List WTok
  sc : SCtx := {}
  castedIn : List (Nat × Nat) := []     -- `casted_cycles` / `heap` before and after this round's numbering
  heapIn : List Nat := []
  castedOut : List (Nat × Nat) := []
  heapOut : List Nat := []
  vbIn : List (Nat × Nat) := []
  deriving Inhabited

def hasStereo (m : Mol) : Bool :=
  m.atoms.any (fun p => p.2.stereo.isSome) || m.adj.any fun p => p.2.any fun q => q.2.stereo.isSome

def degreeSum (m : Mol) : Nat := (m.adj.map (·.2.length)).sum

def initialHeap : List Nat := (List.range heapHi).filter (heapLo ≤ ·)

/-- first half of one `while True:` iteration: start atom, BFS distances, DFS -/
def traverse (m : Mol) (env : Env) (opts : Opts) (groups : List (Int × Int)) (g : Global) :
    Except Err (Nat × List (Nat × Int) × Dfs) := do
  -- iteration order of atoms_set for this round
  let iter ← if opts.random then pure g.atomsSet else match env.setOrders[g.round]? with
    | some l => if l.length == g.atomsSet.length && g.atomsSet.all l.contains then pure l else .error .script
    | none => if g.atomsSet.length ≤ 1 then pure g.atomsSet else .error .script
  let (ks, draws1) ← keysFor env opts groups g.seen false g.draws iter
  let start ← match minKeyed ks with | some p => pure p.1 | none => .error .keyError
  let nAtoms := m.atoms.length
  let seen ← if opts.random then pure g.seen
             else bfs m (nAtoms + 1) [(start, 1)] (alSet g.seen start 0)
  let (ks0, draws2) ← keysFor env opts groups seen true draws1 ((m.nbrs start).map (·.1))
  let d0 : Dfs := { stack := [{ parent := start, depth := g.atomsSet.length, children := (sortKeyed ks0).map (·.1) }],
                    visited := [(start, [])], cycle := g.cycle, draws := draws2 }
  let d ← dfsRun m env opts groups seen (2 * (degreeSum m + nAtoms) + 2) d0
  pure (start, seen, d)

/-- `visited[atom] += closure partners (by number) + tree children` -/
def adjacencyOf (casted : List (Nat × Nat)) (d : Dfs) : Except Err (List (Nat × List Nat)) :=
  d.visited.mapM fun (p : Nat × List Nat) =>
    match sortedClosures casted d.tokens p.1 with
    | .error e => .error e
    | .ok cl => .ok (p.1, p.2 ++ cl.map (·.1) ++ alGet d.edges p.1)

/-- second half: flatten, number the closures, complete the neighbour lists, emit -/
def finishRound (m : Mol) (env : Env) (opts : Opts) (g : Global) (start : Nat) (seen : List (Nat × Int)) (d : Dfs) :
    Except Err (Round × List Nat × Global) :=
  let smi := flatten d.edges (m.atoms.length + 1) start
  match castAll smi d.tokens (closureAtoms smi d.tokens) g.casted g.heap with
  | .error e => .error e
  | .ok (casted, heap) =>
    match adjacencyOf casted d with
    | .error e => .error e
    | .ok adjacency =>
      let se := sEnvOf env
      let sc : SCtx := { first := start, adjacency := adjacency, senv := se, ct := ctMap m se adjacency }
      match emit m opts sc casted d.tokens smi g.visitedBond with
      | .error e => .error e
      | .ok (out, order, vb) =>
        let vis := d.visited.map (·.1)
        .ok ({ start := start, visited := vis, edges := d.edges, tokens := d.tokens, smi := smi, out := out, sc := sc,
               castedIn := g.casted, heapIn := g.heap, castedOut := casted, heapOut := heap, vbIn := g.visitedBond },
             order,
             { g with atomsSet := g.atomsSet.filter (fun n => !vis.contains n), seen := seen, cycle := d.cycle,
                      casted := casted, heap := heap, visitedBond := vb, draws := d.draws, round := g.round + 1 })

def oneRound (m : Mol) (env : Env) (opts : Opts) (groups : List (Int × Int)) (g : Global) :
    Except Err (Round × List Nat × Global) :=
  match traverse m env opts groups g with
  | .error e => .error e
  | .ok (start, seen, d) => finishRound m env opts g start seen d

def rounds (m : Mol) (env : Env) (opts : Opts) (groups : List (Int × Int)) :
    Nat → Global → Except Err (List Round × List Nat)
  | 0, _ => .error .fuel
  | fuel + 1, g =>
    match oneRound m env opts groups g with
    | .error e => .error e
    | .ok (r, order, g') =>
      if g'.atomsSet.isEmpty then .ok ([r], order)
      else match rounds m env opts groups fuel g' with
        | .error e => .error e
        | .ok (rs, order') => .ok (r :: rs, order ++ order')

/-- `_smiles(weights, _return_order=True, **kwargs)`: the rounds (one per component, in written order) and `order` -/
def groupsOf (m : Mol) (env : Env) (opts : Opts) : Except Err (List (Int × Int)) :=
  if opts.random then .ok [] else
    match m.ids.mapM (weightOf env) with
    | .error e => .error e
    | .ok ws => .ok (countGroups ws)

def initialGlobal (m : Mol) (env : Env) : Global := { atomsSet := m.ids, heap := initialHeap, draws := env.draws }

def smilesRounds (m : Mol) (env : Env) (opts : Opts) : Except Err (List Round × List Nat) :=
  if m.atoms.isEmpty then .ok ([], [])
  else match groupsOf m env opts with
    | .error e => .error e
    | .ok groups => rounds m env opts groups (m.atoms.length + 1) (initialGlobal m env)

/-- the `string` list: component strings separated by the `delimiter` token -/
def joinRounds : List Round → List WTok
  | [] => []
  | [r] => r.out
  | r :: rs => r.out ++ WTok.dot :: joinRounds rs

/-- `_format_cxsmiles(order)` -/
def formatCx (m : Mol) (order : List Nat) : Option Str :=
  if m.atoms.any (·.2.radical) then
    let idx := (order.zipIdx.filter fun (a, _) => match m.atom? a with | some x => x.radical | none => false).map (·.2)
    let body := (idx.map natStr).intersperse [44] |>.flatten
    some ([124, 94, 49, 58] ++ body ++ [124])
  else none

/-- `format(mol, spec)` (and `str(mol)` for the empty spec): the written text and `smiles_atoms_order` -/
def write (m : Mol) (env : Env) (opts : Opts) : Except Err (Str × List Nat) := do
  let (rs, order) ← smilesRounds m env opts
  let body := renderAll (joinRounds rs)
  let text := if opts.cx then (match formatCx m order with | some cx => body ++ 32 :: cx | none => body) else body
  pure (text, order)

end ChythonModel.Model.SmilesWriter
