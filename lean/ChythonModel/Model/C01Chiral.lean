import ChythonModel.Model.ChiralMorgan
/-!
# `MoleculeStereo._chiral_morgan`: tetrahedral, cis/trans **and** allene labels  (C01; `chython/algorithms/stereo.py`)

Extends `Model/ChiralMorgan.lean` (tetrahedral labels only) to the whole of `__differentiation`:

* `cumulenes` (the walk over chains of double bonds with its mutable `adj`/`terminals`), `stereogenic_cumulenes`,
  `stereogenic_allenes`, `stereogenic_cis_trans`, `_stereo_cis_trans_centers`, `_stereo_cis_trans_terminals`;
* the cis/trans block and the allene block of `__differentiation` (grouping by the smaller terminal weight, the
  "truly stereogenic" test on `group[0]`, `min(n1, n2, key=morgan.get)`, `_translate_cis_trans_sign` /
  `_translate_allene_sign` from the C12 model `Model/Stereo.lean`, the R/S-pair update, the `discard`s);
* `_chiral_morgan` itself (`atoms_stereo`, `allenes_stereo`, `cis_trans_stereo`).

Python `set`s are duplicate-free lists and no commitment to CPython's iteration order is made:

* `set.pop()` is modelled only for a set with exactly one element (`popOnly`; empty ⇒ `KeyError`, more ⇒ `notModelled`).
  In `cumulenes` every `pop` is on such a set (a terminal has one double-bond neighbour, an inner atom with ≤ 2 bonds has
  one neighbour left after `discard`).
* In the cis/trans and allene blocks the code decides "truly stereogenic" on `group[0]` (set iteration order). The model
  evaluates the same test on every member of the group and answers `notModelled` unless all members agree.
* The outer "negate half of the group in set order" branch of `_chiral_morgan` (recorded gap (i)) is `notModelled`.

```python
while True:
    morgan_update = {}; atoms_groups = []; cis_trans_groups = []; allenes_groups = []
    if atoms_stereo: …                                    # Model/ChiralMorgan.lean `pass`
    if cis_trans_stereo:
        grouped_stereo = defaultdict(list)
        for nm in cis_trans_stereo:
            n, m = nm
            if (mn := morgan[n]) <= (mm := morgan[m]): grouped_stereo[mn].append((n, nm))
            else: grouped_stereo[mm].append((m, nm))
        for group in grouped_stereo.values():
            if not len(group) % 2:
                n1, m1, n2, m2 = cis_trans[group[0][1]]
                if morgan[n1] != morgan.get(n2, 0) and morgan[m1] != morgan.get(m2, 0):
                    s = []
                    for x, nm in group:
                        n, m = nm
                        n1, m1, n2, m2 = cis_trans[nm]
                        a = n1 if n2 is None else min(n1, n2, key=morgan.get)
                        b = m1 if m2 is None else min(m1, m2, key=morgan.get)
                        if translate_cis_trans(n, m, a, b): s.append(x)
                    if 0 < len(s) < len(group):
                        for n in s: morgan_update[n] = -morgan[n]
                        for _, nm in group: cis_trans_stereo.discard(nm)
                else: cis_trans_groups.append(group)
    if allenes_stereo: …same with `allenes[c]`, `translate_allene(c, a, b)`, key `morgan[c]`…
    if not morgan_update: break
    morgan = _morgan({**morgan, **morgan_update}, bonds)
```
-/
namespace ChythonModel.Model.ChiralFull
open ChythonModel.Model ChythonModel.Model.Morgan ChythonModel.Model.Stereo ChythonModel.Model.ChiralMorgan

/-- why a computation stopped without a value -/
inductive Stop where
  | err (e : PyErr)
  | notModelled
  | fuelOut
  deriving Repr, DecidableEq

abbrev R := Except Stop

def liftE {α : Type} : Except PyErr α → R α
  | .ok a => .ok a
  | .error e => .error (.err e)

/-! ## `cumulenes` -/

/-- `adj`: atom ↦ set of double-bond neighbours (rows in dict order of the atoms) -/
abbrev DAdj := List (Nat × List Nat)

/-- `for m, bond in bonds[n].items(): if bond == 2 and atoms[m].is_forming_double_bonds: adj_n(m)` -/
def dblNbrs (dbl : Nat → Bool) (m : MolView) : List (Nat × Bond) → Except PyErr (List Nat)
  | [] => .ok []
  | xb :: tl =>
    if xb.2.order == 2 then
      match getKey m.atoms xb.1 with
      | .error e => .error e
      | .ok a =>
        match dblNbrs dbl m tl with
        | .error e => .error e
        | .ok r => .ok (if dbl a.z then xb.1 :: r else r)
    else dblNbrs dbl m tl

/-- `for n, atom in atoms.items(): if atom.is_forming_double_bonds: …` -/
def dblAdj (dbl : Nat → Bool) (m : MolView) : List (Nat × HAtom) → Except PyErr DAdj
  | [] => .ok []
  | na :: tl =>
    if dbl na.2.z then
      match nbrsOf m na.1 with
      | .error e => .error e
      | .ok row =>
        match dblNbrs dbl m row with
        | .error e => .error e
        | .ok ys =>
          match dblAdj dbl m tl with
          | .error e => .error e
          | .ok r => .ok ((na.1, ys) :: r)
    else dblAdj dbl m tl

/-- `adj[k]` of a `defaultdict(set)` -/
def rowOf (adj : DAdj) (k : Nat) : List Nat := (adj.lookup k).getD []

/-- the set `adj[k]` becomes `row` -/
def setRow (adj : DAdj) (k : Nat) (row : List Nat) : DAdj :=
  adj.map fun r => if r.1 == k then (k, row) else r

/-- `set.pop()` of a set with exactly one element -/
def popOnly : List Nat → R Nat
  | [x] => .ok x
  | [] => .error (.err .keyError)
  | _ => .error .notModelled

inductive WalkEnd where
  | closed (path : List Nat) (last : Nat) (adj : DAdj)       -- `m in terminals`: the `else` branch of the `while`
  | broke (path : List Nat) (adj : DAdj)                     -- `len(bonds[m]) > 2`: `break`
  deriving Repr

/-- `while m not in terminals: …` -/
def walk (mol : MolView) (terminals : List Nat) : Nat → DAdj → Nat → Nat → List Nat → R WalkEnd
  | 0, _, _, _, _ => .error .fuelOut
  | fuel + 1, adj, n, m, path =>
    if terminals.contains m then .ok (.closed path m adj)
    else
      match nbrsOf mol m with
      | .error e => .error (.err e)
      | .ok row =>
        if row.length > 2 then .ok (.broke path adj)
        else
          match popOnly ((rowOf adj m).filter (· != n)) with       -- `adj_m.discard(n); adj_m.pop()`
          | .error s => .error s
          | .ok m2 => walk mol terminals fuel (setRow adj m []) m m2 (path ++ [m2])

/-- total number of entries of `adj` -/
def adjSize (adj : DAdj) : Nat := (adj.map (·.2.length)).foldr (· + ·) 0

/-- `zip(path, path[1:])` -/
def pairsOf : List Nat → List (List Nat)
  | a :: b :: tl => [a, b] :: pairsOf (b :: tl)
  | _ => []

/-- `while terminals: n = terminals.pop(0); m = adj[n].pop(); …` -/
def cumLoop (mol : MolView) : Nat → List Nat → DAdj → List (List Nat) → R (List (List Nat))
  | _, [], _, acc => .ok acc
  | 0, _ :: _, _, _ => .error .fuelOut
  | fuel + 1, n :: terminals, adj, acc =>
    match popOnly (rowOf adj n) with
    | .error s => .error s
    | .ok m =>
      let adj1 := setRow adj n []
      match walk mol terminals (adjSize adj1 + 1) adj1 n m [n, m] with
      | .error s => .error s
      | .ok (.broke path adj2) => cumLoop mol fuel terminals adj2 (acc ++ pairsOf path)
      | .ok (.closed path last adj2) =>
        match popOnly (rowOf adj2 last) with                       -- `adj[m].pop()`
        | .error s => .error s
        | .ok _ => cumLoop mol fuel (terminals.erase last) (setRow adj2 last []) (acc ++ [path])

/-- `MoleculeStereo.cumulenes` -/
def cumulenes (dbl : Nat → Bool) (mol : MolView) : R (List (List Nat)) :=
  match dblAdj dbl mol mol.atoms with
  | .error e => .error (.err e)
  | .ok adj =>
    if adj.isEmpty then .ok []
    else
      let terminals := (adj.filter fun r => r.2.length == 1).map (·.1)
      cumLoop mol terminals.length terminals adj []

/-! ## `stereogenic_cumulenes` and the dicts derived from it -/

/-- `d[k] = v` -/
def dictSet {κ ν : Type} [BEq κ] (d : List (κ × ν)) (k : κ) (v : ν) : List (κ × ν) :=
  if d.any (·.1 == k) then d.map fun kv => if kv.1 == k then (kv.1, v) else kv else d ++ [(k, v)]

def exAnyM {α : Type} (p : α → Except PyErr Bool) : List α → Except PyErr Bool
  | [] => pure false
  | a :: tl => do
    let b ← p a
    if b then pure true else exAnyM p tl

/-- `b == 3 or not atoms[m].is_forming_single_bonds and b != 8`, for `m != skip` -/
def badNbr (single : Nat → Bool) (mol : MolView) (skip : Nat) (xb : Nat × Bond) : Except PyErr Bool :=
  if xb.1 == skip then .ok false
  else if xb.2.order == 3 then .ok true
  else
    match getKey mol.atoms xb.1 with
    | .error e => .error e
    | .ok a => .ok (!single a.z && xb.2.order != 8)

/-- `x != skip and atoms[x] != H and b != 8` -/
def heavyNbr (mol : MolView) (skip : Nat) (xb : Nat × Bond) : Except PyErr Bool :=
  if xb.1 == skip then .ok false
  else
    match getKey mol.atoms xb.1 with
    | .error e => .error e
    | .ok a => .ok (a.z != 1 && xb.2.order != 8)

/-- `nn[1] if len(nn) == 2 else None` -/
def second? : List Nat → Option Nat
  | [_, b] => some b
  | _ => none

/-- the body of `for path in self.cumulenes` in `stereogenic_cumulenes` for `path[0], path[1], path[-1], path[-2]` -/
def stereogenicEnds (single : Nat → Bool) (mol : MolView) (p0 p1 l0 l1 : Nat) : Except PyErr (Option Ends) :=
  match nbrsOf mol p0 with
  | .error e => .error e
  | .ok nf =>
    match nbrsOf mol l0 with
    | .error e => .error e
    | .ok nl =>
      match exAnyM (badNbr single mol p1) nf with
      | .error e => .error e
      | .ok true => .ok none
      | .ok false =>
        match exAnyM (badNbr single mol l1) nl with
        | .error e => .error e
        | .ok true => .ok none
        | .ok false =>
          match exFilterM (heavyNbr mol p1) nf with
          | .error e => .error e
          | .ok nn =>
            match exFilterM (heavyNbr mol l1) nl with
            | .error e => .error e
            | .ok mn =>
              match nn.map (·.1), mn.map (·.1) with
              | a :: as, b :: bs => .ok (some ⟨a, b, second? (a :: as), second? (b :: bs)⟩)
              | _, _ => .ok none

/-- `path[1]` of a one-atom path would be an `IndexError`; `cumulenes` only builds paths of ≥ 2 atoms (shown as KeyError) -/
def stereogenicPath (single : Nat → Bool) (mol : MolView) (path : List Nat) : Except PyErr (Option Ends) :=
  match path, path.reverse with
  | p0 :: p1 :: _, l0 :: l1 :: _ => stereogenicEnds single mol p0 p1 l0 l1
  | _, _ => .error .keyError

/-- `stereogenic_cumulenes` (dict keyed by the path) -/
def stereogenicCumulenes (single : Nat → Bool) (mol : MolView) :
    List (List Nat) → Except PyErr (List (List Nat × Ends))
  | [] => .ok []
  | path :: tl =>
    match stereogenicPath single mol path with
    | .error e => .error e
    | .ok x =>
      match stereogenicCumulenes single mol tl with
      | .error e => .error e
      | .ok r => .ok (match x with | some e => (path, e) :: r | none => r)

/-- `path[len(path) // 2]` (paths are non-empty) -/
def midOf (path : List Nat) : Nat := path.getD (path.length / 2) 0

def firstOf (path : List Nat) : Nat := path.headD 0
def lastOf (path : List Nat) : Nat := path.getLastD 0

/-- `{path[len(path) // 2]: env for path, env in sc.items() if len(path) % 2}` -/
def stereogenicAllenes (sc : List (List Nat × Ends)) : List (Nat × Ends) :=
  sc.foldl (fun d pe => if pe.1.length % 2 == 1 then dictSet d (midOf pe.1) pe.2 else d) []

/-- `stereo[(path[0], path[-1])] = env` for the paths of even length -/
def stereogenicCisTrans (sc : List (List Nat × Ends)) : List ((Nat × Nat) × Ends) :=
  sc.foldl (fun d pe => if pe.1.length % 2 == 1 then d else dictSet d (firstOf pe.1, lastOf pe.1) pe.2) []

/-- `_stereo_cis_trans_centers`: `terminals[n] = terminals[m] = (path[i - 1], path[i])` -/
def cisTransCenters (sc : List (List Nat × Ends)) : List (Nat × (Nat × Nat)) :=
  sc.foldl (fun d pe =>
    if pe.1.length % 2 == 1 then d
    else
      let c := (pe.1.getD (pe.1.length / 2 - 1) 0, midOf pe.1)
      dictSet (dictSet d (firstOf pe.1) c) (lastOf pe.1) c) []

/-- `_stereo_cis_trans_terminals`: `terminals[n] = terminals[m] = terminals[path[i]] = terminals[path[i - 1]] = (n, m)` -/
def cisTransTerminals (sc : List (List Nat × Ends)) : List (Nat × (Nat × Nat)) :=
  sc.foldl (fun d pe =>
    if pe.1.length % 2 == 1 then d
    else
      let t := (firstOf pe.1, lastOf pe.1)
      dictSet (dictSet (dictSet (dictSet d t.1 t) t.2 t) (midOf pe.1) t) (pe.1.getD (pe.1.length / 2 - 1) 0) t) []

/-- everything `__differentiation` reads besides `morgan` and the three sets -/
structure Tables where
  tetra : List (Nat × List Nat)                 -- `stereogenic_tetrahedrons`
  labels : List (Nat × Bool)                    -- atoms with `stereo is not None`
  sct : List ((Nat × Nat) × Ends)               -- `stereogenic_cis_trans`
  sal : List (Nat × Ends)                       -- `stereogenic_allenes`
  centers : List (Nat × (Nat × Nat))            -- `_stereo_cis_trans_centers`
  mol : MolView
  deriving Repr, DecidableEq

/-- `atoms[x] == H` (only asked about neighbours whose atom `stereogenic_cumulenes` has already looked up) -/
def isHOf (mol : MolView) (x : Nat) : Bool :=
  match mol.atoms.lookup x with
  | some a => a.z == 1
  | none => false

/-- `self._bonds[i][j].stereo` -/
def bondStereo (mol : MolView) (i j : Nat) : Except PyErr (Option Bool) :=
  match getKey mol.bonds i with
  | .error e => .error e
  | .ok row =>
    match getKey row j with
    | .error e => .error e
    | .ok b => .ok b.stereo

/-! ## the cis/trans and allene blocks of `__differentiation` -/

/-- `morgan.get(n2, 0)` (`n2` may be `None`) -/
def getOr0 (morgan : Weights) : Option Nat → Int
  | none => 0
  | some k => (morgan.lookup k).getD 0

/-- `morgan[n1] != morgan.get(n2, 0) and morgan[m1] != morgan.get(m2, 0)` -/
def endsDistinct (morgan : Weights) (e : Ends) : Except PyErr Bool :=
  match mget morgan e.n0 with
  | .error er => .error er
  | .ok v0 =>
    if v0 != getOr0 morgan e.n2 then
      match mget morgan e.n1 with
      | .error er => .error er
      | .ok v1 => .ok (v1 != getOr0 morgan e.n3)
    else .ok false

/-- `n1 if n2 is None else min(n1, n2, key=morgan.get)` (a missing key compares `None` with `int`: shown as KeyError) -/
def pickMin (morgan : Weights) (a : Nat) : Option Nat → Except PyErr Nat
  | none => .ok a
  | some b =>
    match mget morgan a with
    | .error e => .error e
    | .ok va =>
      match mget morgan b with
      | .error e => .error e
      | .ok vb => .ok (if vb < va then b else a)

/-- one member of a cis/trans group: `(x, nm)`; of an allene group: the centre -/
abbrev CTItem := Nat × (Nat × Nat)

/-- the grouping key of a labelled double bond: the terminal with the smaller weight (the first on a tie) -/
def ctKey (morgan : Weights) (nm : Nat × Nat) : Except PyErr (CTItem × Int) :=
  match mget morgan nm.1 with
  | .error e => .error e
  | .ok mn =>
    match mget morgan nm.2 with
    | .error e => .error e
    | .ok mm => .ok (if mn ≤ mm then ((nm.1, nm), mn) else ((nm.2, nm), mm))

/-- `grouped_stereo.values()` for any keyed list: groups in first-occurrence order of their key -/
def groupsBy {α : Type} (keyed : List (α × Int)) : List (List α) :=
  (dedupInts (keyed.map (·.2))).map fun k => (keyed.filter (fun nv => nv.2 == k)).map (·.1)

/-- the "truly stereogenic" test of the cis/trans block for one member -/
def ctTest (T : Tables) (morgan : Weights) (it : CTItem) : Except PyErr Bool :=
  match getKey T.sct it.2 with
  | .error e => .error e
  | .ok e => endsDistinct morgan e

/-- `translate_cis_trans(n, m, a, b)` for one member -/
def ctSign (T : Tables) (morgan : Weights) (it : CTItem) : Except PyErr Bool :=
  match getKey T.sct it.2 with
  | .error e => .error e
  | .ok e =>
    match pickMin morgan e.n0 e.n2 with
    | .error er => .error er
    | .ok a =>
      match pickMin morgan e.n1 e.n3 with
      | .error er => .error er
      | .ok b =>
        -- `i, j = self._stereo_cis_trans_centers[n]; s = self._bonds[i][j].stereo`
        match getKey T.centers it.2.1 with
        | .error er => .error er
        | .ok c =>
          match bondStereo T.mol c.1 c.2 with
          | .error er => .error er
          | .ok stored => translateCisTrans T.sct (isHOf T.mol) it.2.1 it.2.2 a b stored none

/-- the test of the allene block for one member -/
def alTest (T : Tables) (morgan : Weights) (c : Nat) : Except PyErr Bool :=
  match getKey T.sal c with
  | .error e => .error e
  | .ok e => endsDistinct morgan e

/-- `translate_allene(c, a, b)` for one member -/
def alSign (T : Tables) (morgan : Weights) (c : Nat) : Except PyErr Bool :=
  match getKey T.sal c with
  | .error e => .error e
  | .ok e =>
    match pickMin morgan e.n0 e.n2 with
    | .error er => .error er
    | .ok a =>
      match pickMin morgan e.n1 e.n3 with
      | .error er => .error er
      | .ok b => translateAllene (T.sal.lookup c) (isHOf T.mol) a b (T.labels.lookup c) none

/-- state of one block: `morgan_update`, what was discarded from the block's set, and whether a `…_groups` list is non-empty -/
structure BlockState (α : Type) where
  update : List (Nat × Int)
  discard : List α
  groups : Bool
  deriving Repr

def sameTest (t0 : Bool) : Except PyErr Bool → Bool
  | .ok t => t == t0
  | .error _ => false

/-- the body of `for group in grouped_stereo.values()` shared by the two blocks.
    `test`/`sign` per member, `atomOf` = the atom whose weight is negated, `keyOf'` = what is discarded from the set. -/
def processBlock {α β : Type} (test sign : α → Except PyErr Bool) (atomOf : α → Nat) (setKey : α → β) (morgan : Weights)
    (st : BlockState β) (group : List α) : R (BlockState β) :=
  if group.length % 2 != 0 then .ok st else
  match group with
  | [] => .ok st
  | g0 :: _ =>
    match test g0 with
    | .error e => .error (.err e)
    | .ok t0 =>
      if !(group.all fun it => sameTest t0 (test it)) then .error .notModelled   -- depends on the set's iteration order
      else if t0 then
        match exFilterM sign group with
        | .error e => .error (.err e)
        | .ok s =>
          if 0 < s.length && s.length < group.length then
            match exMapM (negOf morgan) (s.map atomOf) with
            | .error e => .error (.err e)
            | .ok upd => .ok { st with update := st.update ++ upd, discard := st.discard ++ group.map setKey }
          else .ok st
      else .ok { st with groups := true }

def processBlocks {α β : Type} (test sign : α → Except PyErr Bool) (atomOf : α → Nat) (setKey : α → β) (morgan : Weights) :
    BlockState β → List (List α) → R (BlockState β)
  | st, [] => .ok st
  | st, g :: tl =>
    match processBlock test sign atomOf setKey morgan st g with
    | .error s => .error s
    | .ok st' => processBlocks test sign atomOf setKey morgan st' tl

/-- the cis/trans block -/
def passCT (T : Tables) (morgan : Weights) (Sc : List (Nat × Nat)) : R (BlockState (Nat × Nat)) :=
  match exMapM (ctKey morgan) Sc with
  | .error e => .error (.err e)
  | .ok keyed =>
    processBlocks (ctTest T morgan) (ctSign T morgan) (·.1) (·.2) morgan ⟨[], [], false⟩ (groupsBy keyed)

/-- the allene block -/
def passAL (T : Tables) (morgan : Weights) (Sa : List Nat) : R (BlockState Nat) :=
  match exMapM (keyOf morgan) Sa with
  | .error e => .error (.err e)
  | .ok keyed =>
    processBlocks (alTest T morgan) (alSign T morgan) id id morgan ⟨[], [], false⟩ (groupsBy keyed)

structure FullState where
  update : List (Nat × Int)
  dT : List Nat
  dC : List (Nat × Nat)
  dA : List Nat
  groups : Bool
  deriving Repr

/-- one pass of the `while True` body: the three blocks in the order of the code -/
def passFull (T : Tables) (morgan : Weights) (St : List Nat) (Sc : List (Nat × Nat)) (Sa : List Nat) : R FullState :=
  match pass T.tetra T.labels morgan St with
  | .error e => .error (.err e)
  | .ok pt =>
    match passCT T morgan Sc with
    | .error s => .error s
    | .ok pc =>
      match passAL T morgan Sa with
      | .error s => .error s
      | .ok pa =>
        .ok ⟨pt.update ++ pc.update ++ pa.update, pt.discard, pc.discard, pa.discard,
             !pt.groups.isEmpty || pc.groups || pa.groups⟩

/-- the `while True` loop of `__differentiation`; result: final `morgan` and "some `…_groups` list is non-empty" -/
def diffFull (h : TupleHash) (bonds : IntAdj) (T : Tables) :
    Nat → List (Nat × Nat) → List Nat → List (Nat × Nat) → List Nat → R (List (Nat × Nat) × Bool)
  | 0, _, _, _, _ => .error .fuelOut
  | fuel + 1, morgan, St, Sc, Sa =>
    let w := toWeights morgan
    match passFull T w St Sc Sa with
    | .error s => .error s
    | .ok st =>
      if st.update.isEmpty then .ok (morgan, st.groups)
      else
        match Morgan.morgan h (applyUpdate w st.update) bonds with
        | none => .error (.err .keyError)
        | some morgan' =>
          diffFull h bonds T fuel morgan' (St.filter fun n => !st.dT.contains n)
            (Sc.filter fun nm => !st.dC.contains nm) (Sa.filter fun n => !st.dA.contains n)

/-- first occurrences, in order (a `set` built from a sequence) -/
def dedupPairs : List (Nat × Nat) → List (Nat × Nat)
  | [] => []
  | x :: tl => x :: (dedupPairs tl).filter (· != x)

/-- the dicts computed from the molecule -/
def tablesOf (single dbl : Nat → Bool) (mol : MolView) (labels : List (Nat × Bool)) :
    R (Tables × List (Nat × (Nat × Nat))) :=
  match cumulenes dbl mol with
  | .error s => .error s
  | .ok paths =>
    match stereogenicCumulenes single mol paths with
    | .error e => .error (.err e)
    | .ok sc =>
      match stereogenicTetrahedrons single mol with
      | .error e => .error (.err e)
      | .ok tetra =>
        .ok (⟨tetra, labels, stereogenicCisTrans sc, stereogenicAllenes sc, cisTransCenters sc, mol⟩, cisTransTerminals sc)

def outcomeOfStop : Stop → Outcome
  | .err e => .err e
  | .notModelled => .notModelled
  | .fuelOut => .fuelOut

/-- `_chiral_morgan`, all three kinds of labels. `labels` = atoms with `stereo is not None` and their stored sign (dict
    order); bond labels are read from `mol.bonds`. -/
def chiralFull (h : TupleHash) (single dbl : Nat → Bool) (mol : MolView) (labels : List (Nat × Bool)) : Outcome :=
  if labels.isEmpty && (stereoBondAtoms mol.bonds).isEmpty then
    match atomsOrder h mol with
    | some r => .ranks r
    | none => .err .keyError
  else
    match atomsOrder h mol with
    | none => .err .keyError
    | some r0 =>
      match tetrahedrons mol with
      | .error e => .err e
      | .ok tet =>
        let St := (labels.map (·.1)).filter tet.contains
        let Sa := (labels.map (·.1)).filter fun n => !tet.contains n
        match tablesOf single dbl mol labels with
        | .error s => outcomeOfStop s
        | .ok (T, terminals) =>
          -- `cis_trans_stereo = {cis_trans_terminals[n] for n in stereo_bonds}`
          match exMapM (getKey terminals) (stereoBondAtoms mol.bonds) with
          | .error e => .err e
          | .ok pairs =>
            let Sc := dedupPairs pairs
            match diffFull h (intAdjacency mol.bonds) T (St.length + Sc.length + Sa.length + 1) r0 St Sc Sa with
            | .error s => outcomeOfStop s
            | .ok (morgan, groups) =>
              if groups then .notModelled            -- the set-order "negate half of the group" branch
              else .ranks morgan

end ChythonModel.Model.ChiralFull
