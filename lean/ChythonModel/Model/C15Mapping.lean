/-!
# C15 — atom-to-atom mapping repair on reading a reaction: `postprocess_parsed_reaction` (files/_mapping.py)

Input: per role (dict order of the code: reactants, products, reagents) the parsed molecules, each as the list of the
`parsed_mapping` of its atoms (`0` = `None`/absent: the code tests `if m:`). Output: per role and molecule the final
atom numbers (`molecule['mapping']`), or `MappingError` (only with `ignore=False`).

```
for role: for molecule: used = set(); for atom: m = parsed_mapping
    if m: (if m in used: (raise if not ignore) else used.add(m)); tmp.append(m)   else: tmp.append(0)
length = count(max(max(products), max(reactants), max(reagents)) + 1)
for role (reactants, products, reagents): used = set()
    for m in tmp: 0 -> next(length); m in used -> (raise if not ignore) next(length); else m, used.add(m)
if reagents: tmp = (set(reactants) | set(products)) & set(reagents)
    if tmp: (raise if not ignore); reagents = [x if x not in tmp else next(length) for x in reagents]
if remap: lose = sorted(set(range(1, next(length))) - reactants - products - reagents, reverse=True)
    for role (if non-empty): for j in lose: role = [x if x < j else x - 1 for x in role]
for role: cut into pieces of len(molecule['atoms'])
```
-/
namespace ChythonModel.Model.C15

/-- some non-zero mapping occurs twice inside one molecule -/
def dupInMol : List Nat → Bool
  | [] => false
  | m :: ms => (m != 0 && ms.contains m) || dupInMol ms

/-- the "map unmapped atoms" loop of one role: `cnt` = next value of `length`, `used` = the set `used` -/
def assignMaps (ignore : Bool) : Nat → List Nat → List Nat → Except String (List Nat × Nat)
  | cnt, _, [] => .ok ([], cnt)
  | cnt, used, m :: ms =>
    if m == 0 then
      match assignMaps ignore (cnt + 1) used ms with
      | .ok (out, c) => .ok (cnt :: out, c)
      | .error e => .error e
    else if used.contains m then
      if !ignore then .error "MappingError" else
      match assignMaps ignore (cnt + 1) used ms with
      | .ok (out, c) => .ok (cnt :: out, c)
      | .error e => .error e
    else
      match assignMaps ignore cnt (m :: used) ms with
      | .ok (out, c) => .ok (m :: out, c)
      | .error e => .error e

/-- `[x if x not in tmp else next(length) for x in reagents]` -/
def renumberIn (bad : List Nat) : Nat → List Nat → List Nat × Nat
  | cnt, [] => ([], cnt)
  | cnt, x :: xs =>
    if bad.contains x then let (out, c) := renumberIn bad (cnt + 1) xs; (cnt :: out, c)
    else let (out, c) := renumberIn bad cnt xs; (x :: out, c)

/-- one step `[x if x < j else x - 1 for x in tmp]` -/
def closeGap (j : Nat) (l : List Nat) : List Nat := l.map fun x => if x < j then x else x - 1

/-- `sorted(set(range(1, n)) - used…, reverse=True)` -/
def loseList (n : Nat) (inUse : List Nat) : List Nat :=
  ((List.range n).filter fun j => 1 ≤ j && !inUse.contains j).reverse

/-- `tmp[shift: atom_len + shift]` for every molecule -/
def cutLike : List (List Nat) → List Nat → List (List Nat)
  | [], _ => []
  | m :: ms, l => l.take m.length :: cutLike ms (l.drop m.length)

def maxList (l : List Nat) : Nat := l.foldl max 0

structure MapOut where
  reactants : List (List Nat)
  products : List (List Nat)
  reagents : List (List Nat)
  deriving Repr, DecidableEq

/-- the three flat role lists after all repair stages (before cutting into molecules) -/
def repairFlat (remap ignore : Bool) (fR fP fA : List Nat) : Except String (List Nat × List Nat × List Nat) :=
  let start := max (max (maxList fP) (maxList fR)) (maxList fA) + 1
  match assignMaps ignore start [] fR with
  | .error e => .error e
  | .ok (mR, c1) =>
    match assignMaps ignore c1 [] fP with
    | .error e => .error e
    | .ok (mP, c2) =>
      match assignMaps ignore c2 [] fA with
      | .error e => .error e
      | .ok (mA, c3) =>
        let bad := mA.filter fun x => mR.contains x || mP.contains x
        if !bad.isEmpty && !ignore then .error "MappingError" else
        let (mA', c4) := if bad.isEmpty then (mA, c3) else renumberIn bad c3 mA
        if remap then
          let lose := loseList c4 (mR ++ mP ++ mA')
          .ok (lose.foldl (fun l j => closeGap j l) mR, lose.foldl (fun l j => closeGap j l) mP,
               lose.foldl (fun l j => closeGap j l) mA')
        else .ok (mR, mP, mA')

/-- `postprocess_parsed_reaction(data, remap=…, ignore=…)` -/
def postprocessRxn (remap ignore : Bool) (R P A : List (List Nat)) : Except String MapOut :=
  if !ignore && (R ++ P ++ A).any dupInMol then .error "MappingError" else
  match repairFlat remap ignore R.flatten P.flatten A.flatten with
  | .error e => .error e
  | .ok (mR, mP, mA) => .ok ⟨cutLike R mR, cutLike P mP, cutLike A mA⟩

end ChythonModel.Model.C15
