import ChythonModel.Model.C06Rings
/-!
# C06 — executable model of the PID-matrix stage of `chython/algorithms/rings.py`

`_sssr(bonds, n_sssr) = _rings_filter(_c_set(*_make_pid(_bfs(_skin_graph(bonds)))), n_sssr)` statement by statement:
`_bfs` (`bfsPaths`), `_make_pid` (`pidInit`, `pidLoop`), `_c_set` (`cSetEntries`, `cSet`), `_rings_filter`
(`filterLoop1`, `filterLoop2`, `ringsFilter`), `_connected_rings` (`mergeOf`, `tryMerge`, `connectedRings`),
`_get_unique_chord` (`uniqueChord`), `_is_condensed_ring` (`condExplore`, `isCondensedRing`).

**Set iteration order.** The Python iterates over `set`s of atom numbers (`atoms.pop()`, `for n in neighbors`,
`n, m = term`), i.e. in CPython hash-table order, which the property does not fix. The model fixes *ascending order*
(`sortAsc`, `pop` = minimum). The harness runs the *real* source of `rings.py` with every set-valued expression
wrapped into an ascending-order `set` subclass (mechanical AST rewrite of the file as it is in /repo on every run) and
compares `_bfs` paths, the `_c_set` candidate sequence and the `_rings_filter` result verbatim; the unmodified
`mol.sssr` is compared in addition and a difference there (with the sorted run equal to the model) is a numbering tie.

Python `dict` = insertion-ordered association list (`aset` replaces in place or appends); `defaultdict` accesses that
create an entry are modelled where the entry's position matters (`p1touch`). Exceptions: `none` / `.raised`.
`_is_condensed_ring`'s explicit-stack depth-first search is written as the equivalent recursion (the search is
exhaustive over paths and has no state shared between branches, so its Boolean result does not depend on the order in
which children are visited; the model visits them in dict order).
-/
namespace ChythonModel.Model.C06

abbrev Path := List Nat

/-- stable insertion sort (structural, so that closed terms evaluate by `decide`); `le x y` = "`x` may stand before `y`".
`x` is inserted before the first `y` with `le x y`, so equal keys keep their order: the result is what Python's stable
`sorted(..., key=…)` returns for `le a b := key a ≤ key b`. -/
def insertBy {α : Type} (le : α → α → Bool) (x : α) : List α → List α
  | [] => [x]
  | y :: ys => if le x y then x :: y :: ys else y :: insertBy le x ys

def isort {α : Type} (le : α → α → Bool) : List α → List α
  | [] => []
  | x :: xs => insertBy le x (isort le xs)

def sortAsc (l : List Nat) : List Nat := isort (fun a b => decide (a ≤ b)) l

/-! ## insertion-ordered dicts -/

def aset {α β : Type} [BEq α] (d : List (α × β)) (k : α) (v : β) : List (α × β) :=
  match d with
  | [] => [(k, v)]
  | (k', v') :: tl => if k' == k then (k', v) :: tl else (k', v') :: aset tl k v

def adel {α β : Type} [BEq α] (d : List (α × β)) (k : α) : List (α × β) := d.filter fun p => !(p.1 == k)

def ahas {α β : Type} [BEq α] (d : List (α × β)) (k : α) : Bool := d.any fun p => p.1 == k

/-! ## `_bfs` -/

structure BfsSt where
  term : List Path            -- `terminated`
  next : List (Nat × Path)    -- `next_stack`
  odd : List Nat              -- `found_odd`
  front : List Nat            -- `next_front`

/-- the block shared by both branches once `path` ends in `n`:
`if n in stack: … elif n in next_stack: … else: next_stack[n] = path` -/
def bfsEdge (stackKeys : List Nat) (tail n : Nat) (path : Path) (s : BfsSt) : BfsSt :=
  if stackKeys.contains n then { s with odd := tail :: s.odd, term := s.term ++ [path] }
  else match s.next.lookup n with
    | some q =>
      if q.length != 1 then { s with term := s.term ++ [path, q], next := aset s.next n [n] }
      else { s with term := s.term ++ [path] }
    | none => { s with next := aset s.next n path }

/-- `len(neighbors) == 1` -/
def bfsSingle (stackKeys : List Nat) (tail n : Nat) (path : Path) (s : BfsSt) : BfsSt :=
  if s.odd.contains n then
    let s := if path.length != 1 then { s with term := s.term ++ [path] } else s
    { s with next := aset s.next n [n] }
  else bfsEdge stackKeys tail n (path ++ [n]) s

/-- one `n` of `for n in neighbors:` in the `elif neighbors:` branch -/
def bfsMultiStep (stackKeys : List Nat) (tail : Nat) (s : BfsSt) (n : Nat) : BfsSt :=
  if s.odd.contains n then
    if stackKeys.contains n then { s with next := adel s.next n } else { s with next := aset s.next n [n] }
  else bfsEdge stackKeys tail n [tail, n] s

/-- body of `for tail, path in stack.items():` -/
def bfsVisit (g : Adj) (atoms stackKeys : List Nat) (s : BfsSt) (tp : Nat × Path) : BfsSt :=
  let nb := sortAsc ((nbrsOf g tp.1).filter fun x => atoms.contains x)
  let s := { s with front := tp.1 :: s.front }
  match nb with
  | [] => s
  | [n] => bfsSingle stackKeys tp.1 n tp.2 s
  | _ =>
    let s := if tp.2.length != 1 then { s with term := s.term ++ [tp.2] } else s
    nb.foldl (bfsMultiStep stackKeys tp.1) s

def bfsRound (g : Adj) (atoms : List Nat) (stack : List (Nat × Path)) (term : List Path) : BfsSt :=
  stack.foldl (bfsVisit g atoms (stack.map (·.1))) ⟨term, [], [], []⟩

/-- `{x: [tail, x] for x in …}` -/
def bfsStart (t : Nat) (xs : List Nat) : List (Nat × Path) := xs.map fun x => (x, [t, x])

/-- the `while True:` loop; `atoms` is kept ascending, so `atoms.pop()` is its head. `none` = fuel exhausted. -/
def bfsLoop (g : Adj) : Nat → List Nat → List (Nat × Path) → List Path → Option (List Path)
  | 0, _, _, _ => none
  | fuel + 1, atoms, stack, term =>
    let s := bfsRound g atoms stack term
    let atoms' := atoms.filter fun a => !s.front.contains a
    match atoms' with
    | [] => some s.term
    | t :: rest =>
      if s.next.isEmpty then
        bfsLoop g fuel rest (bfsStart t (sortAsc ((nbrsOf g t).filter fun x => rest.contains x))) s.term
      else bfsLoop g fuel atoms' s.next s.term

/-- `_bfs(bonds)`; `none` = `KeyError` of `set().pop()` on an empty graph (or fuel) -/
def bfsPaths (g : Adj) : Option (List Path) :=
  match sortAsc (keys g) with
  | [] => none
  | t :: rest => bfsLoop g (4 * g.length + 4) rest (bfsStart t (sortAsc (nbrsOf g t))) []

/-! ## `_make_pid` -/

abbrev Inner := List ((Nat × Nat) × Path)
abbrev Pid1 := List (Nat × List (Nat × Inner))
abbrev Pid2 := List ((Nat × Nat) × Inner)
abbrev Dist := List (Nat × List (Nat × Nat))

/-- the `1e9` default of `distances` -/
def INF : Nat := 1000000000

def dget? (d : Dist) (i j : Nat) : Option Nat := (d.lookup i).bind fun row => row.lookup j
def dget (d : Dist) (i j : Nat) : Nat := (dget? d i j).getD INF
def dset (d : Dist) (i j v : Nat) : Dist := aset d i (aset ((d.lookup i).getD []) j v)

def p1get (p : Pid1) (i j : Nat) : Inner := ((p.lookup i).bind fun row => row.lookup j).getD []
/-- `pid1[i][j] = v` -/
def p1set (p : Pid1) (i j : Nat) (v : Inner) : Pid1 := aset p i (aset ((p.lookup i).getD []) j v)
/-- reading `pid1[i][j]` on the `defaultdict`: creates an empty entry (at the end of row `i`) when absent -/
def p1touch (p : Pid1) (i j : Nat) : Pid1 :=
  match p.lookup i with
  | none => p ++ [(i, [(j, [])])]
  | some row => if ahas row j then p else aset p i (row ++ [(j, [])])

def p2get (p : Pid2) (i j : Nat) : Inner := (p.lookup (i, j)).getD []

/-- `d.update(new)` -/
def innerUpdate (d new : Inner) : Inner := new.foldl (fun d kv => aset d kv.1 kv.2) d

/-- `{(ni, mj): ip[:-1] + jp for ((ni, _), ip), ((_, mj), jp) in zip(a.items(), b.items())}` -/
def compose (a b : Inner) : Inner :=
  (a.zip b).foldl (fun d xy => aset d (xy.1.1.1, xy.2.1.2) (xy.1.2.dropLast ++ xy.2.2)) []

def sortByLenStable (ps : List Path) : List Path := isort (fun a b => decide (a.length ≤ b.length)) ps

/-- one chain of the first loop of `_make_pid`; `none` = IndexError (`c[1]` on a path of < 2 atoms) -/
def pidInitStep (st : Pid1 × Pid2 × Dist) (c : Path) : Option (Pid1 × Pid2 × Dist) :=
  match c with
  | [] => none
  | [_] => none
  | n :: nn :: _ =>
    let m := c.getLast?.getD n
    let mm := c.getD (c.length - 2) n
    let di := c.length - 1
    let (p1, p2, d) := st
    let toPid2 := match dget? d n m with
      | some x => x != di
      | none => false
    if toPid2 then
      let p2 := aset p2 (n, m) (aset (p2get p2 n m) (nn, mm) c)
      let p2 := aset p2 (m, n) (aset (p2get p2 m n) (mm, nn) c.reverse)
      some (p1, p2, d)
    else
      let p1 := p1set p1 n m (aset (p1get p1 n m) (nn, mm) c)
      let p1 := p1set p1 m n (aset (p1get p1 m n) (mm, nn) c.reverse)
      some (p1, p2, dset (dset d n m di) m n di)

def pidInit (paths : List Path) : Option (Pid1 × Pid2 × Dist) :=
  (sortByLenStable paths).foldlM pidInitStep ([], [], [])

/-- body of `for j in pid1:` for fixed `k`, `i`; `ndi` = the row `new_distances[i]` -/
def pidJ (k i : Nat) (dist : Dist) (st : Pid1 × Pid2 × List (Nat × Nat)) (j : Nat) :
    Pid1 × Pid2 × List (Nat × Nat) :=
  if j == k || j == i then st
  else
    let (p1, p2, ndi) := st
    let ij := dget dist i j
    let ikj := dget dist i k + dget dist k j
    if ij == ikj + 1 then         -- a new shortest path == previous shortest path - 1
      let p1 := p1touch p1 i j
      let p2 := aset p2 (i, j) (p1get p1 i j)
      let p1 := p1touch (p1touch p1 i k) k j
      (p1set p1 i j (compose (p1get p1 i k) (p1get p1 k j)), p2, aset ndi j ikj)
    else if ij > ikj then         -- a new shortest path
      let p2 := aset p2 (i, j) []
      let p1 := p1touch (p1touch p1 i k) k j
      (p1set p1 i j (compose (p1get p1 i k) (p1get p1 k j)), p2, aset ndi j ikj)
    else if ij == ikj then        -- another shortest path
      let p1 := p1touch (p1touch (p1touch p1 i j) i k) k j
      (p1set p1 i j (innerUpdate (p1get p1 i j) (compose (p1get p1 i k) (p1get p1 k j))), p2, aset ndi j ij)
    else if ikj == ij + 1 then    -- shortest+1 path
      let p1 := p1touch (p1touch p1 i k) k j
      (p1, aset p2 (i, j) (innerUpdate (p2get p2 i j) (compose (p1get p1 i k) (p1get p1 k j))), aset ndi j ij)
    else (p1, p2, aset ndi j ij)

/-- body of `for i in pid1:` for fixed `k`; `nd` = `new_distances` -/
def pidI (ks : List Nat) (k : Nat) (dist : Dist) (st : Pid1 × Pid2 × Dist) (i : Nat) : Pid1 × Pid2 × Dist :=
  if i == k then st
  else
    let (p1, p2, nd) := st
    let dik := dget dist i k
    let (p1, p2, ndi) := ks.foldl (pidJ k i dist) (p1, p2, [(k, dik)])
    (p1, p2, dset (aset nd i ndi) k i dik)

/-- body of `for k in pid1:` -/
def pidK (ks : List Nat) (st : Pid1 × Pid2 × Dist) (k : Nat) : Pid1 × Pid2 × Dist :=
  let (p1, p2, dist) := st
  ks.foldl (pidI ks k dist) (p1, p2, [])

/-- `_make_pid(paths)` -/
def makePid (paths : List Path) : Option (Pid1 × Pid2 × Dist) :=
  (pidInit paths).map fun st => (st.1.map (·.1)).foldl (pidK (st.1.map (·.1))) st

/-! ## `_c_set` -/

/-- `c1 + c2[-2:0:-1]`, kept when `len(c) == len(set(c))`, then `_canonic_ring` (`none` = it raised) -/
def closeRing (c1 c2 : Path) : List (Option Ring) :=
  let c := c1 ++ ((c2.drop 1).dropLast).reverse
  if c.Nodup then [canonicRing c] else []

/-- the entries `(c_num, p1ij, p2ij)` appended for one row `i` of `pid1`; `seen` already contains `i` -/
def cSetRow (p2 : Pid2) (d : Dist) (seen : List Nat) (i : Nat) (row : List (Nat × Inner)) :
    List (Nat × List Path × Option (List Path)) :=
  row.flatMap fun jp =>
    let j := jp.1
    if seen.contains j then []
    else
      let p1ij := jp.2.map (·.2)
      let p2ij := (p2get p2 i j).map (·.2)
      let dij := dget d i j * 2
      if p1ij.length == 1 then (if p2ij.isEmpty then [] else [(dij + 1, p1ij, some p2ij)])
      else if p2ij.isEmpty then [(dij, p1ij, none)]
      else [(dij, p1ij, none), (dij + 1, p1ij, some p2ij)]

def cSetEntries (p1 : Pid1) (p2 : Pid2) (d : Dist) : List (Nat × List Path × Option (List Path)) :=
  (List.range p1.length).flatMap fun idx =>
    match p1[idx]? with
    | none => []
    | some (i, row) => cSetRow p2 d ((p1.take (idx + 1)).map (·.1)) i row

/-- the rings one sorted entry yields; an odd `c_num` with `p2ij = None` would be a `TypeError` (`[none]`) -/
def cSetExpand (e : Nat × List Path × Option (List Path)) : List (Option Ring) :=
  if e.1 % 2 == 1 then
    match e.2.2 with
    | none => [none]
    | some p2ij => e.2.1.flatMap fun c1 => p2ij.flatMap fun c2 => closeRing c1 c2
  else (e.2.1.zip (e.2.1.drop 1)).flatMap fun cc => closeRing cc.1 cc.2

/-- `_c_set(pid1, pid2, dist)`: the generated sequence; an element `none` = the generator raises when it gets there -/
def cSet (p1 : Pid1) (p2 : Pid2) (d : Dist) : List (Option Ring) :=
  (isort (fun a b => decide (a.1 ≤ b.1)) (cSetEntries p1 p2 d)).flatMap cSetExpand

/-! ## `_get_unique_chord`, `_connected_rings` -/

def setEq (a b : List Nat) : Bool := a.all (fun x => b.contains x) && b.all fun x => a.contains x

/-- `_get_unique_chord(ring, common)`: `none` = `None`, `some []` = `()` -/
def uniqueChord (ring : Ring) (common : List Nat) : Option (List Nat) :=
  let lc := common.length
  if ring.length == lc then (if setEq common ring then some [] else none)
  else
    (List.range ring.length).findSome? fun k =>
      let rr := ring.rotateLeft k
      match rr with
      | [] => none
      | h :: _ => if setEq common (rr.take lc) then some (rr.drop (lc - 1) ++ [h]) else none

/-- `x[1:-1]` -/
def inner1 (x : List Nat) : List Nat := (x.drop 1).dropLast

/-- atoms common to two rings (`rk.keys() & ck.keys()`), ascending -/
def commonAtoms (a b : Ring) : List Nat := sortAsc (a.filter fun x => b.contains x)

/-- neighbours of `n` in the ring (`seen_rings[ring][n]`) -/
def ringNbrs (ring : Ring) (n : Nat) : List Nat := (((ringAdjacency ring).getD []).lookup n).getD []

/-- `_canonic_ring((*_ring_scissors(a, n, m), *_ring_scissors(b, m, n)[1:-1]))`; `none` = raised -/
def joinRings (a b : Ring) (n m : Nat) : Option Ring :=
  match ringScissors a n m, ringScissors b m n with
  | some x, some y => canonicRing (x ++ inner1 y)
  | _, _ => none

inductive Merge where
  | raised
  | no
  | merged (c : Ring)

/-- the merged ring must also pass `_ring_adjacency` (computed right after `_canonic_ring`) -/
def mergedOf (c : Option Ring) : Merge :=
  match c with
  | none => .raised
  | some c => if (ringAdjacency c).isSome then .merged c else .raised

/-- body of the inner `for j` loop of `_connected_rings` for the pair (`c`, `r`) -/
def mergeOf (c r : Ring) : Merge :=
  let common := commonAtoms r c
  if common.length == 2 then
    match common with
    | [n, m] =>
      if (ringNbrs c n).contains m && (ringNbrs r n).contains m then mergedOf (joinRings c r n m) else .no
    | _ => .no
  else if common.length > 2 then
    match uniqueChord c common with
    | none => .no
    | some cc =>
      match uniqueChord r common with
      | none => .no
      | some rr =>
        if !cc.isEmpty then
          if !rr.isEmpty then
            let rr := if rr.head? == cc.head? then rr.reverse else rr
            mergedOf (canonicRing (cc ++ inner1 rr))
          else mergedOf (canonicRing cc)
        else if !rr.isEmpty then mergedOf (canonicRing rr)
        else .no
  else .no

/-- the inner `for j in range(i + 1, len(rings))`: `some (some rest')` = merged into the first mergeable ring
(`break`), `some none` = the `else:` of the `for` (isolated), `none` = raised -/
def tryMerge (c : Ring) : List Ring → Option (Option (List Ring))
  | [] => some none
  | r :: rest =>
    match mergeOf c r with
    | .raised => none
    | .merged x => some (some (x :: rest))
    | .no =>
      match tryMerge c rest with
      | none => none
      | some none => some none
      | some (some rest') => some (some (r :: rest'))

/-- `_connected_rings(rings, seen_rings)` (fuel = number of rings) -/
def connectedRingsAux : Nat → List Ring → Option (List Ring)
  | _, [] => some []
  | 0, _ :: _ => none
  | fuel + 1, c :: rest =>
    match tryMerge c rest with
    | none => none
    | some (some rest') => connectedRingsAux fuel rest'
    | some none => (connectedRingsAux fuel rest).map fun out => c :: out

def connectedRings (rings : List Ring) : Option (List Ring) := connectedRingsAux rings.length rings

/-! ## `_is_condensed_ring` -/

def sharesBond (a b : Ring) : Bool := decide ((a.filter fun x => b.contains x).length > 1)

/-- the merged contour `mc` of `parent` and `child`; `some none` = `continue`, `none` = raised -/
def condMerge (parent child : Ring) : Option (Option Ring) :=
  let common := commonAtoms parent child
  if common.length > 2 then
    let term := common.filter fun n => ((ringNbrs parent n).filter fun x => common.contains x).length == 1
    match term with
    | [n, m] =>
      let rest := common.filter fun x => !term.contains x
      (joinRings (parent.filter fun x => !rest.contains x) (child.filter fun x => !rest.contains x) n m).map some
    | _ => some none
  else
    match common with
    | [n, m] => (joinRings parent child n m).map some
    | _ => some none

mutual
/-- one frame of the depth-first search: iterate `children`; `some true` = macrocycle found -/
def condExplore (c : Ring) (nb : List (Ring × List Ring)) : Nat → Ring → List Ring → List Ring → Option Bool
  | _, _, [], _ => some false
  | depth, parent, child :: more, seen =>
    if seen.contains child then condExplore c nb depth parent more seen
    else
      match condMerge parent child with
      | none => none
      | some none => condExplore c nb depth parent more seen
      | some (some mc) =>
        if c == mc then some true
        else
          match condDescend c nb depth mc child seen with
          | none => none
          | some true => some true
          | some false => condExplore c nb depth parent more seen
/-- `elif depth_now and 2 < len(mc) <= len(c) + 1: stack.append(...)` -/
def condDescend (c : Ring) (nb : List (Ring × List Ring)) : Nat → Ring → Ring → List Ring → Option Bool
  | 0, _, _, _ => some false
  | depth + 1, mc, child, seen =>
    if 2 < mc.length && mc.length ≤ c.length + 1 then
      if (ringAdjacency mc).isSome then condExplore c nb depth mc ((nb.lookup child).getD []) (child :: seen)
      else none
    else some false
end

/-- the `for start, nbrs in neighbors.items():` loop -/
def condStarts (c : Ring) (nb : List (Ring × List Ring)) (depth : Nat) : List (Ring × List Ring) → Option Bool
  | [] => some false
  | (start, nbrs) :: more =>
    if nbrs.isEmpty then condStarts c nb depth more
    else
      match condExplore c nb depth start nbrs [start] with
      | none => none
      | some true => some true
      | some false => condStarts c nb depth more

/-- `_is_condensed_ring(c, sssr, seen_rings)` -/
def isCondensedRing (c : Ring) (sssr : List Ring) : Option Bool :=
  let keys := sssr.filter fun x => sharesBond x c
  if keys.length > 1 then
    let nb := keys.map fun x => (x, keys.filter fun y => y != x && sharesBond x y)
    condStarts c nb (keys.length - 1) nb
  else some false

/-! ## `_rings_filter`, `_sssr` -/

inductive SssrRes where
  | ok (rings : List Ring)
  | notReached              -- `ImplementationError('SSSR count not reached')`
  | raised                  -- any other exception
  deriving Repr, DecidableEq

inductive Loop1 where
  | done (sssr : List Ring)
  | more (seen sssr hold : List Ring)
  | raised

/-- the first `for c in rings:` loop -/
def filterLoop1 (n : Nat) : List (Option Ring) → List Ring → List Nat → List Ring → List Ring → Loop1
  | [], seen, _, sssr, hold => .more seen sssr hold
  | none :: _, _, _, _, _ => .raised
  | some c :: rest, seen, atoms, sssr, hold =>
    if seen.contains c then filterLoop1 n rest seen atoms sssr hold
    else if c.all fun x => atoms.contains x then filterLoop1 n rest (seen ++ [c]) atoms sssr (hold ++ [c])
    else if (sssr ++ [c]).length == n then .done (sssr ++ [c])
    else filterLoop1 n rest (seen ++ [c]) (atoms ++ c) (sssr ++ [c]) hold

/-- the `for c in hold:` loop -/
def filterLoop2 (n : Nat) : List Ring → List Ring → List Ring → SssrRes
  | [], _, _ => .notReached
  | c :: rest, cond, sssr =>
    match (if cond.contains c then some true else isCondensedRing c sssr) with
    | none => .raised
    | some true => filterLoop2 n rest cond sssr
    | some false =>
      match connectedRings (c :: cond) with
      | none => .raised
      | some cond' =>
        if (sssr ++ [c]).length == n then .ok (sortByLenStable (sssr ++ [c]))
        else filterLoop2 n rest cond' (sssr ++ [c])

/-- `_rings_filter(rings, n_sssr)` -/
def ringsFilter (rings : List (Option Ring)) (n : Nat) : SssrRes :=
  match rings with
  | [] => .raised                   -- StopIteration of `next(rings)`
  | none :: _ => .raised
  | some c :: rest =>
    if n == 1 then .ok [c]
    else
      match filterLoop1 n rest [c] c [c] [] with
      | .raised => .raised
      | .done sssr => .ok sssr
      | .more seen sssr hold =>
        if seen.all fun r => (ringAdjacency r).isSome then
          match connectedRings sssr with
          | none => .raised
          | some cond => filterLoop2 n hold cond sssr
        else .raised

/-- the intermediate values of one `_sssr` call, as the driver prints them -/
structure SssrTrace where
  paths : Option (List Path)            -- `_bfs(_skin_graph(bonds))`; `none` = raised
  cands : Option (List (Option Ring))   -- the sequence `_c_set(*_make_pid(paths))` generates; `none` = a stage raised
  final : SssrRes

/-- `_sssr(bonds, n_sssr)` with its intermediate values -/
def sssrTrace (g : Adj) (n : Nat) : SssrTrace :=
  match skinGraph g with
  | none => ⟨none, none, .raised⟩
  | some s =>
    match bfsPaths s with
    | none => ⟨none, none, .raised⟩
    | some paths =>
      match makePid paths with
      | none => ⟨some paths, none, .raised⟩
      | some (p1, p2, d) =>
        let cands := cSet p1 p2 d
        ⟨some paths, some cands, ringsFilter cands n⟩

/-- the candidate sequence `_c_set(*_make_pid(_bfs(_skin_graph(bonds))))`; `none` = one of the stages raised -/
def pidCandidates (g : Adj) : Option (List (Option Ring)) := (sssrTrace g 0).cands

/-- `_sssr(bonds, n_sssr)` -/
def sssrPid (g : Adj) (n : Nat) : SssrRes := (sssrTrace g n).final

/-- `Rings.sssr` with the trace of its `_sssr` call (no call, empty trace, when `rings_count` is 0) -/
def sssrModelTrace (m : ChythonModel.Model.Mol) : SssrTrace :=
  match ringsCount m with
  | none => ⟨none, none, .raised⟩
  | some rc => if rc == 0 then ⟨none, none, .ok []⟩ else sssrTrace (notSpecial m) rc.toNat

/-- `Rings.sssr`: `_sssr(self.not_special_connectivity, self.rings_count) if self.rings_count else []` -/
def sssrModel (m : ChythonModel.Model.Mol) : SssrRes := (sssrModelTrace m).final

end ChythonModel.Model.C06
