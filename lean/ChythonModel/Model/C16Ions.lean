/-!
# C16 — `ReactionContainer.contract_ions()` as `Reactor.__call__` uses it ("try to keep salts"): core Lean only

`chython/algorithms/standardize/reaction.py`: `_sift_ions`, `_contract_ions`, and the per-side part of `contract_ions`.
A molecule is seen through three numbers (`Ion`): which object it is (`id`), its equality class (`cls`: `__eq__`/`__hash__`
of `MoleculeContainer`, used by `len(set(anions))`), and its total charge `int(m)`. A salt `a | b | c` is the list `[a, b, c]`
of the molecules united, in union order (`Graph.union` itself is `Model/C16Patcher.union`).

Python → Lean: `list.pop()` takes the LAST element: the two work lists are kept reversed (head = top); popping an empty list
is `Except.error .indexError`, never a default.
-/
namespace ChythonModel.Model.C16I

structure Ion where
  id : Nat
  cls : Nat
  charge : Int
  deriving DecidableEq, Repr, Inhabited

inductive Err where
  | indexError    -- `pop from empty list`
  deriving DecidableEq, Repr

/-- `_sift_ions(mols)` → `(neutral, cations, anions, total)` (each in the order of `mols`) -/
def siftIons (mols : List Ion) : List Ion × List Ion × List Ion × Int :=
  (mols.filter (fun m => m.charge == 0), mols.filter (fun m => m.charge > 0), mols.filter (fun m => m.charge < 0),
   (mols.map (·.charge)).sum)

/-- `len(set(ms))` -/
def distinct (ms : List Ion) : Nat := (ms.map (·.cls)).eraseDups.length

/-- the pairing loops at the end of `_contract_ions`, as one state machine. `an`, `ct` are `anions`, `cations` REVERSED
(head = what `pop()` returns). `cur = none`: at `while anions:`; `cur = some (salt, c)`: inside `while True:` with
`c = int(salt)`.
```python
while anions:
    ct = cations.pop(); an = anions.pop(); salt = ct | an
    while True:
        c = int(salt)
        if c > 0:   an = anions.pop();  salt = salt | an
        elif c < 0: ct = cations.pop(); salt = salt | ct
        else: break
    salts.append(salt)
return salts
``` -/
def go (cur : Option (List Ion × Int)) (an ct : List Ion) (salts : List (List Ion)) : Except Err (List (List Ion)) :=
  match cur with
  | none =>
    match an with
    | [] => .ok salts
    | a :: an' =>
      match ct with
      | [] => .error .indexError                 -- `cations.pop()` comes first
      | c :: ct' => go (some ([c, a], c.charge + a.charge)) an' ct' salts
  | some (salt, c) =>
    if c > 0 then
      match an with
      | [] => .error .indexError
      | a :: an' => go (some (salt ++ [a], c + a.charge)) an' ct salts
    else if c < 0 then
      match ct with
      | [] => .error .indexError
      | k :: ct' => go (some (salt ++ [k], c + k.charge)) an ct' salts
    else go none an ct (salts ++ [salt])
termination_by 2 * (an.length + ct.length) + (if cur.isSome then 1 else 0)
decreasing_by
  all_goals simp
  all_goals omega

/-- `_contract_ions(anions, cations, total)`: `none` = `return None` (nothing to contract / ambiguous) -/
def contractIons (anions cations : List Ion) (total : Int) : Except Err (Option (List (List Ion))) :=
  if anions.isEmpty || cations.isEmpty then .ok none
  else if total > 0 then
    if cations.length > 1 then .ok none                 -- excess of cations: anions cannot be assigned
    else .ok (some [cations ++ anions])                 -- `salt = cations[0]; for x in anions: salt = salt | x`
  else if total < 0 then
    if anions.length > 1 then .ok none
    else .ok (some [anions ++ cations])
  else if distinct anions > 1 && distinct cations > 1 then .ok none
  else
    match go none anions.reverse cations.reverse [] with
    | .error e => .error e
    | .ok salts => .ok (some salts)

/-- one side of `contract_ions()` (reagents / reactants): the new molecule list, each entry the list of molecules united -/
def contractSide (mols : List Ion) : Except Err (List (List Ion)) :=
  let (neutral, cations, anions, total) := siftIons mols
  match contractIons anions cations total with
  | .error e => .error e
  | .ok none => .ok (mols.map fun m => [m])
  | .ok (some salts) => .ok (neutral.map (fun m => [m]) ++ salts)

/-- stable sort by an integer key (`list.sort(key=…)`) -/
def sortByKey (key : Ion → Int) (l : List Ion) : List Ion := l.mergeSort fun a b => decide (key a ≤ key b)

/-- the products side: when there are both cations and anions they are first sorted (stably) by the position their atom set
had among the reactants' ions (`-1` when it was not there) -/
def contractProducts (ankey ctkey : Ion → Int) (mols : List Ion) : Except Err (List (List Ion)) :=
  let (neutral, cations, anions, total) := siftIons mols
  let (cations', anions') :=
    if !cations.isEmpty && !anions.isEmpty then (sortByKey ctkey cations, sortByKey ankey anions) else (cations, anions)
  match contractIons anions' cations' total with
  | .error e => .error e
  | .ok none => .ok (mols.map fun m => [m])
  | .ok (some salts) => .ok (neutral.map (fun m => [m]) ++ salts)

end ChythonModel.Model.C16I
