import ChythonModel.Model.C15Compose
import ChythonModel.Py.Hash
/-!
# C15 — the invariants behind the canonical numbering of a CGR: `DynamicBond.__hash__`, `DynamicElement.__hash__`

`Morgan.atoms_order` seeds every atom with `hash(atom)` and every bond with `hash(bond)` (`int_adjacency`); two states with
the same hash are indistinguishable for the canonical numbering, so `str(cgr)` falls back to atom numbers.
`hash` of ints / tuples of ints is CPython's (`Py/Hash.lean`, seed free; `hash(-1) == hash(-2) == -2`).
-/
namespace ChythonModel.Model.C15
open ChythonModel.Py

/-- `hash((self.order or 0, self.p_order or 0))` -/
def dynBondHash (b : DynBond) : Int := pyHashTuple [((b.order.getD 0 : Nat) : Int), ((b.pOrder.getD 0 : Nat) : Int)]

/-- `hash((self.isotope or 0, self.atomic_number, self.charge, self.p_charge, self.is_radical, self.p_is_radical))` -/
def dynAtomHash (a : DynAtom) : Int :=
  pyHashTuple [((a.isotope.getD 0 : Nat) : Int), (a.z : Int), a.charge, a.pCharge, pyHashBool a.radical, pyHashBool a.pRadical]

def bondOrders : List (Option Nat) := [none, some 1, some 2, some 3, some 4, some 8]

/-- all states a dynamic bond can be in -/
def bondStates : List DynBond :=
  (bondOrders.flatMap fun o => bondOrders.map fun p => (⟨o, p⟩ : DynBond)).filter fun b => !(b.order.isNone && b.pOrder.isNone)

/-- charge / radical states of a dynamic atom of element `z`, charges taken from `cs` -/
def atomStates (z : Nat) (cs : List Int) : List DynAtom :=
  cs.flatMap fun c => cs.flatMap fun pc => [false, true].flatMap fun r => [false, true].map fun pr => ⟨z, none, c, pc, r, pr⟩

end ChythonModel.Model.C15
