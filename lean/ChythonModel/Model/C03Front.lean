import ChythonModel.Model.C03Parser
/-!
# C03 — model of the `smiles()` front end (`chython/files/daylight/smiles.py`), atom numbering
(`chython/files/_mapping.py`) and the structural part of `create_molecule` / `create_reaction`
(`chython/files/_convert.py`: element lookup, isotope check, loop / duplicate-bond checks, dropped molecules).

Default keyword arguments only (`ignore=True, remap=False`).  Hydrogen reconciliation (`calc_implicit`, radical
guessing) and stereo assignment (`postprocess_molecule`) are outside this model (C04 / C12); under `ignore=True`
they have no `raise` that escapes, which the correspondence checks on every generated input.
-/
namespace ChythonModel.Model.C03
open ChythonModel.Gen.C03

/-! ## string helpers -/

/-- ASCII characters `str.split()` treats as whitespace -/
def isSpace (c : Nat) : Bool := c == 32 || (9 ≤ c && c ≤ 13) || (28 ≤ c && c ≤ 31)

/-- `str.split()` -/
def splitWs (s : Str) : List Str :=
  let rec go : Str → Str → List Str
    | [], cur => if cur.isEmpty then [] else [cur.reverse]
    | c :: cs, cur => if isSpace c then (if cur.isEmpty then go cs [] else cur.reverse :: go cs []) else go cs (c :: cur)
  go s []

/-- `str.split(sep)` for a one-character separator: always at least one part -/
def splitOn (sep : Nat) (s : Str) : List Str :=
  let rec go : Str → Str → List Str
    | [], cur => [cur.reverse]
    | c :: cs, cur => if c == sep then cur.reverse :: go cs [] else go cs (c :: cur)
  go s []

def joinWith (sep : Nat) : List Str → Str
  | [] => []
  | [x] => x
  | x :: tl => x ++ sep :: joinWith sep tl

def takeDigits : Str → Str × Str
  | [] => ([], [])
  | c :: cs => if isDigit09 c then let (a, b) := takeDigits cs; (c :: a, b) else ([], c :: cs)

def hasDup : List Nat → Bool
  | [] => false
  | x :: tl => tl.contains x || hasDup tl

/-! ## CXSMILES: `cx_fragments` (re.search) and `cx_radicals` (re.findall), hand-written leftmost-greedy matchers -/

/-- `(?:\.[0-9]+)*` greedy: numbers and the rest -/
def dotNumbers : Nat → Str → List Nat × Str
  | 0, s => ([], s)
  | fuel+1, 46 :: cs =>
    let (d, r) := takeDigits cs
    if d.isEmpty then ([], 46 :: cs)
    else let (ns, r') := dotNumbers fuel r; (digitsToNat d :: ns, r')
  | _, s => ([], s)

/-- `[0-9]+(?:\.[0-9]+)+` -/
def fragGroup (s : Str) : Option (List Nat × Str) :=
  let (d, r) := takeDigits s
  if d.isEmpty then none
  else
    let (ns, r') := dotNumbers s.length r
    if ns.isEmpty then none else some (digitsToNat d :: ns, r')

/-- `(?:,group)*` greedy -/
def moreGroups : Nat → Str → List (List Nat)
  | 0, _ => []
  | fuel+1, 44 :: cs =>
    match fragGroup cs with
    | some (g, r) => g :: moreGroups fuel r
    | none => []
  | _, _ => []

/-- `search(cx_fragments, cxs)`: the groups of the leftmost match, as lists of ints -/
def findFragments : Str → Option (List (List Nat))
  | [] => none
  | 102 :: 58 :: rest =>
    match fragGroup rest with
    | some (g, r) => some (g :: moreGroups rest.length r)
    | none => findFragments (58 :: rest)
  | _ :: rest => findFragments rest

/-- `(?:,[0-9]+)*` greedy -/
def commaNumbers : Nat → Str → List Nat × Str
  | 0, s => ([], s)
  | fuel+1, 44 :: cs =>
    let (d, r) := takeDigits cs
    if d.isEmpty then ([], 44 :: cs)
    else let (ns, r') := commaNumbers fuel r; (digitsToNat d :: ns, r')
  | _, s => ([], s)

/-- after `^`: `[1-7]:[0-9]+(?:,[0-9]+)*` -/
def radMatch : Str → Option (List Nat × Str)
  | k :: 58 :: cs =>
    if 49 ≤ k && k ≤ 55 then
      let (d, r) := takeDigits cs
      if d.isEmpty then none
      else let (ns, r') := commaNumbers cs.length r; some (digitsToNat d :: ns, r')
    else none
  | _ => none

/-- `findall(cx_radicals, cxs)` flattened to the atom indices -/
def findRadicals : Nat → Str → List Nat
  | 0, _ => []
  | _, [] => []
  | fuel+1, 94 :: rest =>
    match radMatch rest with
    | some (ns, r) => ns ++ findRadicals fuel r
    | none => findRadicals fuel rest
  | fuel+1, _ :: rest => findRadicals fuel rest

def insertAsc (x : Nat) : List Nat → List Nat
  | [] => [x]
  | y :: tl => if x ≤ y then x :: y :: tl else y :: insertAsc x tl

def sortAsc (l : List Nat) : List Nat := l.foldr insertAsc []

/-- the CXSMILES block of `smiles()`: (radicals, contract) -/
def parseCx (rest : List Str) : List Nat × Option (List (List Nat)) :=
  match rest with
  | cxs :: _ =>
    if cxs.head? == some 124 && cxs.getLast? == some 124 then
      let rad0 := findRadicals cxs.length cxs
      let rad := if hasDup rad0 then [] else rad0
      match findFragments cxs with
      | some gs =>
        let contract := gs.map sortAsc
        (rad, if hasDup contract.flatten then none else some contract)
      | none => (rad, none)
    else ([], none)
  | [] => ([], none)

/-! ## records -/

structure MolRec where
  atoms : List AtomTok
  bonds : List (Nat × Nat × Nat)
  order : Order
  stereoAtoms : List (Nat × Bool)
  stereoBonds : SBonds
  starts : List Nat := []
  mapping : List Nat := []
  deriving Repr, Inhabited

def MolRec.ofState (st : PState) : MolRec :=
  { atoms := st.atoms, bonds := st.bonds, order := st.order, stereoAtoms := st.stereoAtoms, stereoBonds := st.stereoBonds,
    starts := st.starts }

/-- `parser(smiles_tokenize(x), not ignore)` with `ignore=True` -/
def readMol (s : Str) : Except Err MolRec :=
  match smilesTokenize s with
  | .error e => .error e
  | .ok toks => match parse false toks with
    | .error e => .error e
    | .ok st => .ok (MolRec.ofState st)

def setRadical : List AtomTok → Nat → Option (List AtomTok)
  | [], _ => none
  | a :: tl, 0 => some ({ a with radical := true } :: tl)
  | a :: tl, k+1 => (setRadical tl k).map (a :: ·)

def mapOr0 (a : AtomTok) : Nat := a.mapping.getD 0

def maxList (l : List Nat) : Nat := l.foldl max 0

/-- the renumbering loop shared by `postprocess_parsed_molecule` and the per-role loop of
    `postprocess_parsed_reaction`: returns (numbers, next free number) -/
def remapLoop : List Nat → List Nat → Nat → List Nat × Nat
  | [], _, next => ([], next)
  | m :: tl, used, next =>
    if m == 0 || used.contains m then
      let (r, nx) := remapLoop tl used (next + 1); (next :: r, nx)
    else
      let (r, nx) := remapLoop tl (m :: used) next; (m :: r, nx)

/-- `postprocess_parsed_molecule(data, remap=False)`; `max()` of an empty sequence is a ValueError -/
def mapMolecule (r : MolRec) : Except Err MolRec :=
  if r.atoms.isEmpty then .error (valueErr "max() arg is an empty sequence")
  else
    let ms := r.atoms.map mapOr0
    .ok { r with mapping := (remapLoop ms [] (maxList ms + 1)).1 }

/-! ## structural part of `create_molecule` -/

structure MolOut where
  atoms : List (Nat × Nat × Option Nat × Int × Bool × Option Nat)   -- id, Z, isotope, charge, CX radical, bracket H
  adj : List (Nat × List (Nat × Nat))                               -- `_bonds` in insertion order
  deriving Repr, Inhabited

def adjAdd : List (Nat × List (Nat × Nat)) → Nat → Nat → Nat → List (Nat × List (Nat × Nat))
  | [], _, _, _ => []
  | (a, l) :: tl, n, m, b => if a == n then (a, l ++ [(m, b)]) :: tl else (a, l) :: adjAdd tl n m b

def isoBad (iso : Option Nat) (isos : List Nat) : Bool :=
  match iso with
  | some i => !isos.contains i
  | none => false

/-- `Element.from_symbol(sym)(isotope, charge=…)`: the atomic number or the ValueError -/
def atomCheck (a : AtomTok) : Except Err Nat :=
  match lookupStr a.element elements with
  | none => .error (valueErr "Element with symbol not found")
  | some (z, isos) =>
    if isoBad a.isotope isos then .error (valueErr "isotope number impossible or not stable")
    else if a.charge > 4 || a.charge < -4 then .error (valueErr "formal charge should be in range [-4, 4]")
    else .ok z

def buildAtoms : List Nat → List AtomTok → Except Err (List (Nat × Nat × Option Nat × Int × Bool × Option Nat))
  | n :: ns, a :: as =>
    match atomCheck a with
    | .error e => .error e
    | .ok z =>
      match buildAtoms ns as with
      | .error e => .error e
      | .ok tl => .ok ((n, z, a.isotope, a.charge, a.radical, a.hyd) :: tl)
  | _, _ => .ok []

def buildBonds (mapping : List Nat) : List (Nat × Nat × Nat) → List (Nat × List (Nat × Nat)) →
    Except Err (List (Nat × List (Nat × Nat)))
  | [], adj => .ok adj
  | (i, j, b) :: tl, adj =>
    match mapping[i]?, mapping[j]? with
    | some n, some m =>
      if n == m then .error (valueErr "atom loops impossible")
      else match lookupNat n adj, lookupNat m adj with
        | some _, some ml =>
          if (lookupNat n ml).isSome then .error (valueErr "atoms already bonded")
          else if !validOrder b then .error (valueErr "invalid bond order")
          else buildBonds mapping tl (adjAdd (adjAdd adj n m b) m n b)
        | _, _ => .error (.crash "AtomNotFound")
    | _, _ => .error (.crash "IndexError")

def buildMol (r : MolRec) : Except Err MolOut :=
  match buildAtoms r.mapping r.atoms with
  | .error e => .error e
  | .ok atoms =>
    match buildBonds r.mapping r.bonds (atoms.map fun a => (a.1, [])) with
    | .error e => .error e
    | .ok adj => .ok { atoms := atoms, adj := adj }

/-! ## reactions -/

structure RxnRec where
  reactants : List MolRec
  reagents : List MolRec
  products : List MolRec
  deriving Repr, Inhabited

structure RxnOut where
  reactants : List MolOut
  reagents : List MolOut
  products : List MolOut
  deriving Repr, Inhabited

inductive Result
  | mol (r : MolRec) (m : MolOut)
  | rxn (r : RxnRec) (kept : RxnRec) (m : RxnOut)
  deriving Repr, Inhabited

def nonEmptyParts (d : Str) : List Str := if d.isEmpty then [] else (splitOn 46 d).filter (!·.isEmpty)

/-- Python list indexing with a possibly negative index -/
def pyIndex {α} (l : List α) (i : Int) : Option α :=
  if i < 0 then (if (-i).toNat ≤ l.length then l[l.length - (-i).toNat]? else none) else l[i.toNat]?

def allSome {α} : List (Option α) → Option (List α)
  | [] => some []
  | none :: _ => none
  | some x :: tl => (allSome tl).map (x :: ·)

def setAt {α} (l : List α) (i : Nat) (v : α) : Option (List α) := if i < l.length then some (l.set i v) else none

structure Contr where
  rs : List Nat            -- the three index sets
  gs : List Nat
  ps : List Nat
  nm : List (Option Str)   -- new_molecules
  deriving Inhabited

/-- the `for c in contract:` loop body -/
def contractOne (R G P : List Str) (molCount lr : Nat) (st : Contr) (c : List Nat) : Except Err Contr :=
  let joinSel (sel : List (Option Str)) : Except Err Str :=
    match allSome sel with
    | some l => .ok (joinWith 46 l)
    | none => .error (.crash "IndexError")
  let put (s : Str) (st : Contr) : Except Err Contr :=
    match c.head? with
    | none => .error (.crash "IndexError")
    | some c0 => match setAt st.nm c0 (some s) with
      | some nm => .ok { st with nm := nm }
      | none => .error (.crash "IndexError")
  if c.all st.rs.contains then
    match joinSel (c.map fun x => R[x]?) with
    | .error e => .error e
    | .ok s => put s { st with rs := st.rs.filter (!c.contains ·) }
  else if c.all st.ps.contains then
    match joinSel (c.map fun (x : Nat) => pyIndex P ((x : Int) - (molCount : Int))) with
    | .error e => .error e
    | .ok s => put s { st with ps := st.ps.filter (!c.contains ·) }
  else if c.all st.gs.contains then
    match joinSel (c.map fun (x : Nat) => pyIndex G ((x : Int) - (lr : Int))) with
    | .error e => .error e
    | .ok s => put s { st with gs := st.gs.filter (!c.contains ·) }
  else .ok st

def contractAll (R G P : List Str) (molCount lr : Nat) : Contr → List (List Nat) → Except Err Contr
  | st, [] => .ok st
  | st, c :: tl => match contractOne R G P molCount lr st c with
    | .error e => .error e
    | .ok st' => contractAll R G P molCount lr st' tl

def fillRest (src : List Str) (off : Int) : List Nat → List (Option Str) → Except Err (List (Option Str))
  | [], nm => .ok nm
  | x :: tl, nm =>
    match pyIndex src ((x : Int) - off), (if x < nm.length then some () else none) with
    | some s, some () => fillRest src off tl (nm.set x (some s))
    | _, _ => .error (.crash "IndexError")

/-- `if contract:` block: new (reactants, reagents, products) strings -/
def applyContract (R G P : List Str) (contract : List (List Nat)) : Except Err (List Str × List Str × List Str) :=
  let lr := R.length
  let lp := P.length
  let molCount := R.length + P.length + G.length
  let st0 : Contr := { rs := List.range lr, gs := (List.range (molCount - lp)).filter (lr ≤ ·),
                       ps := (List.range molCount).filter (molCount - lp ≤ ·), nm := List.replicate molCount none }
  match contractAll R G P molCount lr st0 contract with
  | .error e => .error e
  | .ok st =>
    match fillRest R 0 st.rs st.nm with
    | .error e => .error e
    | .ok nm1 => match fillRest P molCount st.ps nm1 with
      | .error e => .error e
      | .ok nm2 => match fillRest G lr st.gs nm2 with
        | .error e => .error e
        | .ok nm =>
          .ok ((nm.take lr).filterMap id, ((nm.drop lr).take (molCount - lp - lr)).filterMap id,
               (nm.drop (molCount - lp)).filterMap id)

def readMols : List Str → Except Err (List MolRec)
  | [] => .ok []
  | s :: tl => match readMol s with
    | .error e => .error e
    | .ok r => match readMols tl with
      | .error e => .error e
      | .ok rs => .ok (r :: rs)

/-- set `is_radical` on the x-th atom of the concatenation -/
def setRadicalMols : List MolRec → Nat → Option (List MolRec)
  | [], _ => none
  | r :: tl, x =>
    if x < r.atoms.length then (setRadical r.atoms x).map fun as => { r with atoms := as } :: tl
    else (setRadicalMols tl (x - r.atoms.length)).map (r :: ·)

def splitLens {α} : List Nat → List α → List (List α)
  | [], _ => []
  | n :: tl, l => l.take n :: splitLens tl (l.drop n)

def assignMaps (ms : List MolRec) (nums : List Nat) : List MolRec :=
  (ms.zip (splitLens (ms.map (·.atoms.length)) nums)).map fun p => { p.1 with mapping := p.2 }

/-- `postprocess_parsed_reaction(data, remap=False, ignore=True)` -/
def mapReaction (r : RxnRec) : RxnRec :=
  let flat (ms : List MolRec) : List Nat := (ms.map fun m => m.atoms.map mapOr0).flatten
  let tr := flat r.reactants
  let tp := flat r.products
  let tg := flat r.reagents
  let start := max (max (maxList tp) (maxList tr)) (maxList tg) + 1
  let (mr, n1) := remapLoop tr [] start
  let (mp, n2) := remapLoop tp [] n1
  let (mg, n3) := remapLoop tg [] n2
  let clash := mg.filter fun x => mr.contains x || mp.contains x
  let mg' : List Nat :=
    if mg.isEmpty || clash.isEmpty then mg
    else
      let rec renum : List Nat → Nat → List Nat
        | [], _ => []
        | x :: tl, nx => if clash.contains x then nx :: renum tl (nx + 1) else x :: renum tl nx
      renum mg n3
  { reactants := assignMaps r.reactants mr, products := assignMaps r.products mp, reagents := assignMaps r.reagents mg' }

/-- `create_reaction` with `ignore=True`: a molecule whose construction raises ValueError is dropped -/
def buildMols : List MolRec → Except Err (List (MolRec × MolOut))
  | [] => .ok []
  | r :: tl =>
    match buildMols tl with
    | .error e => .error e
    | .ok rest =>
      match buildMol r with
      | .ok m => .ok ((r, m) :: rest)
      | .error (.lib _ _) => .ok rest
      | .error e => .error e

/-- reactions: first crash wins in source order (reactants, products, reagents) -/
def buildRoles (r : RxnRec) : Except Err (RxnRec × RxnOut) :=
  match buildMols r.reactants with
  | .error e => .error e
  | .ok a => match buildMols r.products with
    | .error e => .error e
    | .ok p => match buildMols r.reagents with
      | .error e => .error e
      | .ok g =>
        .ok ({ reactants := a.map (·.1), reagents := g.map (·.1), products := p.map (·.1) },
             { reactants := a.map (·.2), reagents := g.map (·.2), products := p.map (·.2) })

def applyRadicalsMol (atoms : List AtomTok) : List Nat → Except Err (List AtomTok)
  | [] => .ok atoms
  | x :: tl =>
    if x ≥ atoms.length then .error (smilesErr "cxsmiles radical refers to non-existent atom")
    else match setRadical atoms x with
      | none => .error (.crash "IndexError")
      | some as => applyRadicalsMol as tl

def applyRadicalsRxn (ms : List MolRec) : List Nat → Except Err (List MolRec)
  | [] => .ok ms
  | x :: tl =>
    if x ≥ (ms.map (·.atoms.length)).sum then .error (smilesErr "cxsmiles radical refers to non-existent atom")
    else match setRadicalMols ms x with
      | none => .error (.crash "KeyError")
      | some ms' => applyRadicalsRxn ms' tl

/-- the molecule branch of `smiles()` -/
def smilesMol (smi : Str) (radicals : List Nat) : Except Err Result :=
  match readMol smi with
  | .error e => .error e
  | .ok r =>
    match applyRadicalsMol r.atoms radicals with
    | .error e => .error e
    | .ok atoms =>
      match mapMolecule { r with atoms := atoms } with
      | .error e => .error e
      | .ok r' => match buildMol r' with
        | .error e => .error e
        | .ok m => .ok (.mol r' m)

/-- parse, flag radicals, number and build the three molecule lists of a reaction -/
def finishRxn (R G P : List Str) (radicals : List Nat) : Except Err Result :=
  match readMols R with
  | .error e => .error e
  | .ok rr => match readMols P with
    | .error e => .error e
    | .ok pp => match readMols G with
      | .error e => .error e
      | .ok gg =>
        -- radicals are numbered over chain(reactants, reagents, products)
        match applyRadicalsRxn (rr ++ gg ++ pp) radicals with
        | .error e => .error e
        | .ok all =>
          let rr' := all.take rr.length
          let gg' := (all.drop rr.length).take gg.length
          let pp' := all.drop (rr.length + gg.length)
          let rec0 := mapReaction { reactants := rr', reagents := gg', products := pp' }
          match buildRoles rec0 with
          | .error e => .error e
          | .ok (kept, out) =>
            if out.reactants.isEmpty && out.products.isEmpty && out.reagents.isEmpty then
              .error (valueErr "At least one graph object required")
            else .ok (.rxn rec0 kept out)

/-- the reaction branch of `smiles()` -/
def smilesRxn (smi : Str) (radicals : List Nat) (contract : Option (List (List Nat))) : Except Err Result :=
  match splitOn 62 smi with
  | [a, b, c] =>
    let R := nonEmptyParts a
    let P := nonEmptyParts c
    let G := nonEmptyParts b
    match contract with
    | some ct =>
      match applyContract R G P ct with
      | .error e => .error e
      | .ok (R', G', P') => finishRxn R' G' P' radicals
    | none => finishRxn R G P radicals
  | _ => .error (valueErr "invalid reaction smiles")

/-- `smiles(data)` with default keyword arguments, for a `str` -/
def smiles (data : Str) : Except Err Result :=
  if data.isEmpty then .error (valueErr "Empty string")
  else match splitWs data with
  | [] => .error (valueErr "not enough values to unpack")
  | smi :: rest =>
    let cx := parseCx rest
    if smi.contains 62 then smilesRxn smi cx.1 cx.2 else smilesMol smi cx.1

end ChythonModel.Model.C03
