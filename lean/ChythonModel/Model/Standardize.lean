import ChythonModel.Model.Valence
import ChythonModel.Model.QueryEq
import ChythonModel.Model.Iso
import ChythonModel.Gen.RuleTables
/-!
# C14 — executable model of `chython/algorithms/standardize/molecule.py` (core Lean only)

Mirrors, statement by statement and as the code is in /repo:

* `Standardize.__standardize(rules, fix_tautomers)`  — `stdTable` / `ruleLoop` / `processMapping` / `atomFixLoop` / `bondsFixLoop`:
  the lazy `pattern.get_mapping(self, automorphism_filter=False)` generator is *resumed* between the mutations of the loop body
  (`resume`, the same stack machine as C07's `Iso.runLoop`, stopped at every `yield`), so candidate tests see the live charges,
  radicals and bond orders but the *cached* labels (`neighbors`, `hybridization`, `heteroatoms`, `ring_sizes`, `in_ring`,
  `implicit_hydrogens`), exactly like the Python objects; overlap skip with the any-atom exception; `atom_fix` with the
  `charge > 4` abort; `bonds_fix` incl. the new-bond branch and the `keep_sssr`/`keep_components` flags; `calc_labels`;
  `calc_implicit` for the touched atoms (C04's model).
* `Standardize.standardize` after its `fix_resonance` call — `standardizeFrom`: double rules, the second shot, single rules,
  metal rules, `standardization failed`, the log.
* `Standardize.explicify_hydrogens`, `implicify_hydrogens` — `explicify`, `implicify` (with the `h ≥ i` rule scan).
* `AcidBase._neutralize` bookkeeping — `protonate`, `deprotonate`, `neutralizeBalanced`, `neutralizeCheck`.

Query atom / bond comparison is C08's model (`Query.pyEq`, `Query.bondEq`), matching is C07's (`Iso`), valences are C04's.
Ring perception is not modelled: the SSSR and the connected components are inputs (C06 / C07 check those); when a rule sets
`keep_sssr = False` the run *pauses* after that rule (`Outcome.pause`) and the caller resumes with the rings of the new state.
Python `set` = duplicate-free list (only membership / cardinality is observed), `dict` = insertion ordered association list,
`KeyError`/`TypeError` = `none`, never a default.
-/
namespace ChythonModel.Model.Std
open ChythonModel.Model ChythonModel.Gen.Rules

/-! ## small Python containers -/

/-- `s.add(x)` -/
def setAdd (s : List Nat) (x : Nat) : List Nat := if s.contains x then s else s ++ [x]
/-- `s.update(xs)` -/
def setUnion (s xs : List Nat) : List Nat := xs.foldl setAdd s
/-- `set(xs)` -/
def toSet (xs : List Nat) : List Nat := setUnion [] xs

/-! ## molecule updates (the attribute writes of the loop body) -/

def setAtomEntry (n : Nat) (f : Atom → Atom) (p : Nat × Atom) : Nat × Atom := if p.1 == n then (p.1, f p.2) else p

/-- `a = atoms[n]; <write attributes of a>` -/
def updAtom (m : Mol) (n : Nat) (f : Atom → Atom) : Mol := { m with atoms := m.atoms.map (setAtomEntry n f) }

def setOrderRow (y bo : Nat) (row : List (Nat × Bond)) : List (Nat × Bond) :=
  row.map fun kb => if kb.1 == y then (kb.1, { kb.2 with order := bo }) else kb

/-- `bonds[x][y]._order = bo` — the `Bond` object is shared by `bonds[x][y]` and `bonds[y][x]` -/
def setOrder (m : Mol) (x y bo : Nat) : Mol :=
  { m with adj := m.adj.map fun (k, row) =>
      if k == x then (k, setOrderRow y bo row) else if k == y then (k, setOrderRow x bo row) else (k, row) }

/-- `bonds[x][y] = bonds[y][x] = Bond(bo)` for a pair that is not bonded (new keys go to the end of both dicts) -/
def addBond (m : Mol) (x y bo : Nat) : Mol :=
  { m with adj := m.adj.map fun (k, row) =>
      if k == x then (k, row ++ [(y, { order := bo })]) else if k == y then (k, row ++ [(x, { order := bo })]) else (k, row) }

/-! ## cached labels -/

/-- what `calc_labels` stores in one atom -/
structure Lab where
  neighbors : Nat
  hybridization : Nat
  heteroatoms : Nat
  ringSizes : List Nat
  deriving Repr, DecidableEq, Inhabited

/-- the label snapshot: per atom, and the bonds whose `_in_ring` is true (both directions) -/
structure Labels where
  atoms : List (Nat × Lab)
  ringBonds : List (Nat × Nat)
  deriving Repr, DecidableEq, Inhabited

/-- `calc_labels()` given the SSSR (`none` = `KeyError`) -/
def calcLabels (m : Mol) (sssr : List (List Nat)) : Option Labels := do
  let labs ← m.ids.mapM fun n => do
    let l ← Query.labelsOf m n
    pure (n, ({ neighbors := l.neighbors, hybridization := l.hybridization, heteroatoms := l.heteroatoms,
                ringSizes := Query.ringSizesOf sssr n } : Lab))
  let rb := m.adj.flatMap fun (n, row) => (row.filter fun kb => Query.bondInRing sssr n kb.1).map fun kb => (n, kb.1)
  pure ⟨labs, rb⟩

/-- the molecule atom as `QueryElement.__eq__` sees it: live charge / radical / H, cached labels -/
def liveAtom (m : Mol) (L : Labels) (n : Nat) : Option Query.MAtom := do
  let a ← m.atom? n
  let l ← L.atoms.lookup n
  pure { z := a.z, isotope := a.isotope, charge := a.charge, radical := a.radical, neighbors := l.neighbors,
         hybridization := l.hybridization, ringSizes := l.ringSizes, implH := a.implH, heteroatoms := l.heteroatoms }

def patBond (p : Pattern) (u v : Nat) : Option Query.QBond := (p.adj.lookup u).bind (·.lookup v)

/-- `s_atom == o_atoms[x]` -/
def atomOk (p : Pattern) (m : Mol) (L : Labels) (u x : Nat) : Bool :=
  match p.atoms.lookup u, liveAtom m L x with
  | some q, some a => Query.pyEq q a
  | _, _ => false

/-- `s_bond == o_bond` -/
def bondOk (p : Pattern) (m : Mol) (L : Labels) (u v x y : Nat) : Bool :=
  match patBond p u v, m.bond? x y with
  | some q, some b => Query.bondEq q { order := b.order, inRing := L.ringBonds.contains (x, y) }
  | _, _ => false

def graphOfMol (m : Mol) : Iso.Graph := ⟨m.ids, m.adj.map fun (n, row) => (n, row.map (·.1))⟩
def graphOfPattern (p : Pattern) : Iso.Graph := ⟨p.atoms.map (·.1), p.adj.map fun (n, row) => (n, row.map (·.1))⟩

/-! ## the lazy matcher: `_get_mapping` resumed between mutations -/

/-- the local variables of a suspended `_get_mapping` generator -/
structure MState where
  stack : List (Nat × Nat)
  path : List Nat
  mapping : Iso.Dict
  rmapping : Iso.Dict
  deriving Repr, DecidableEq, Inhabited

/-- what one iteration of the `while stack:` loop does after `n, depth = stack.pop()` -/
inductive Step
  | yield (d : Iso.Dict)          -- `yield {**mapping, current: n}`; the local variables are unchanged
  | next (ms : MState)            -- the new local variables (candidates pushed)
  deriving Repr, DecidableEq, Inhabited

/-- one iteration of the `while stack:` loop for the popped `(n, depth)`; `none` = crash. Built from the same pieces as one
    iteration of `Iso.runLoop` (C07: `Iso.stepDown`) — `Proofs/C14Lazy.lean: runLoop_step`. -/
def step (e : Iso.Env) (size n depth : Nat) (stack : List (Nat × Nat)) (path : List Nat) (mapping rmapping : Iso.Dict) :
    Option Step :=
  match e.lq[depth]? with
  | none => none
  | some cur =>
    if depth == size then some (.yield (mapping.set cur.front n))
    else
      match Iso.stepDown e depth n cur.front path mapping rmapping with
      | none => none
      | some (path, mapping, rmapping, cands) =>
        some (.next ⟨cands.reverse.map (·, depth + 1) ++ stack, path, mapping, rmapping⟩)

/-- run the `while stack:` loop until the next `yield`: `some (some (mapping, state'))`; `some none` = the generator is
    exhausted; `none` = crash / out of fuel. -/
def resume (e : Iso.Env) (size : Nat) : Nat → MState → Option (Option (Iso.Dict × MState))
  | 0, _ => none
  | _+1, ⟨[], _, _, _⟩ => some none
  | fuel+1, ⟨(n, depth) :: stack, path, mapping, rmapping⟩ =>
    match step e size n depth stack path mapping rmapping with
    | none => none
    | some (.yield d) => some (some (d, ⟨stack, path, mapping, rmapping⟩))
    | some (.next ms) => resume e size fuel ms

/-! ## one rule -/

inductive LogKind | applied | badCharge
  deriving Repr, DecidableEq, Inhabited

/-- `(tuple(match), r, text)` -/
structure LogEntry where
  matched : List Nat
  rule : Nat
  kind : LogKind
  deriving Repr, DecidableEq, Inhabited

/-- the variables of `__standardize` that live across the mappings of one rule -/
structure RState where
  mol : Mol
  hs : List Nat := []
  seen : List Nat := []
  log : List LogEntry := []
  keepSssr : Bool := true
  keepComp : Bool := true
  deriving Repr, DecidableEq, Inhabited

/-- `for n, (ch, ir) in atom_fix.items(): …`; the flag is `true` when the loop left through `break` -/
def atomFixLoop (mp : Iso.Dict) : List (Nat × Int × Option Bool) → Mol → List Nat → Option (Mol × List Nat × Bool)
  | [], m, hs => some (m, hs, false)
  | (n, ch, ir) :: rest, m, hs => do
    let x ← mp.lookup n
    let a ← m.atom? x
    let hs := setAdd hs x
    if a.charge + ch > 4 then
      pure (m, hs, true)                       -- `a._charge += ch; if a.charge > 4: a._charge -= ch; …; break`
    else
      atomFixLoop mp rest
        (updAtom m x fun a => { a with charge := a.charge + ch, radical := match ir with | some b => b | none => a.radical }) hs

/-- `for n, m, bo in bonds_fix: …` (the `else` branch of the atom loop) -/
def bondsFixLoop (mp : Iso.Dict) : List (Nat × Nat × Nat) → Mol → List Nat → Bool → Bool → Option (Mol × List Nat × Bool × Bool)
  | [], m, hs, ks, kc => some (m, hs, ks, kc)
  | (n, k, bo) :: rest, m, hs, ks, kc => do
    let x ← mp.lookup n
    let y ← mp.lookup k
    let hs := setAdd (setAdd hs x) y
    let row ← m.adj.lookup x
    match row.lookup y with
    | some b => bondsFixLoop mp rest (setOrder m x y bo) hs (if b.order == 8 || bo == 8 then false else ks) kc
    | none =>
      let _ ← m.adj.lookup y
      bondsFixLoop mp rest (addBond m x y bo) hs false false

/-- the body of `for mapping in pattern.get_mapping(...)` -/
def processMapping (r : StdRule) (ri : Nat) (st : RState) (mp : Iso.Dict) : Option RState := do
  let matched := toSet (mp.map (·.2))
  if matched.any (st.seen.contains ·) then pure st        -- `if not match.isdisjoint(seen): continue`
  else
    let anyImgs ← r.anyAtoms.mapM (mp.lookup ·)
    let seen := if r.anyAtoms.isEmpty then setUnion st.seen matched
                else setUnion st.seen (matched.filter fun x => !anyImgs.contains x)
    let (m1, hs1, aborted) ← atomFixLoop mp r.atomFix st.mol st.hs
    if aborted then
      pure { st with mol := m1, hs := hs1, seen := seen, log := st.log ++ [⟨matched, ri, .badCharge⟩] }
    else
      let (m2, hs2, ks, kc) ← bondsFixLoop mp r.bondsFix m1 hs1 st.keepSssr st.keepComp
      pure { mol := m2, hs := hs2, seen := seen, log := st.log ++ [⟨matched, ri, .applied⟩], keepSssr := ks, keepComp := kc }

/-- everything one suspended generator needs that is not the molecule -/
structure GenCtx where
  pat : Pattern
  lq : List Iso.Step
  cl : Iso.Closures
  labels : Labels
  cand : List Nat          -- the connected component (`scope`)

def envOf (g : GenCtx) (m : Mol) : Iso.Env :=
  { lq := g.lq, cl := g.cl, oAtoms := m.ids, t := graphOfMol m, scope := fun n => g.cand.contains n,
    atomOk := atomOk g.pat m g.labels, bondOk := bondOk g.pat m g.labels }

/-- `for mapping in get_mapping(components[0], scope=candidate): <body>`: resume, process, repeat -/
def drain (r : StdRule) (ri : Nat) (g : GenCtx) : Nat → RState → MState → Option RState
  | 0, _, _ => none
  | fuel+1, st, ms =>
    let e := envOf g st.mol
    match resume e (g.lq.length - 1) (Iso.machineFuel e) ms with
    | none => none
    | some none => some st
    | some (some (mp, ms')) =>
      match processMapping r ri st mp with
      | none => none
      | some st' => drain r ri g fuel st' ms'

/-- `for candidate in other.connected_components: for mapping in get_mapping(...)`.  The generator of a component starts
    (computes its root candidates) when the previous one is exhausted. -/
def ruleLoop (r : StdRule) (ri : Nat) (lq : List Iso.Step) (cl : Iso.Closures) (L : Labels) :
    List (List Nat) → RState → Option RState
  | [], st => some st
  | cand :: rest, st =>
    let g : GenCtx := ⟨r.toPattern, lq, cl, L, cand⟩
    let e := envOf g st.mol
    match lq with
    | [] => none                                           -- `linear_query[0]`
    | _ :: _ =>
      match drain r ri g (Iso.machineFuel e) st ⟨(Iso.roots e).reverse.map (·, 0), [], [], []⟩ with
      | none => none
      | some st' => ruleLoop r ri lq cl L rest st'

/-- `for n in hs: self.calc_implicit(n)` -/
def recalc : List Nat → Mol → Option Mol
  | [], m => some m
  | n :: ns, m => match Valence.calcImplicitMol m n with
    | none => none
    | some h => recalc ns (Valence.setH m n h)

/-- one iteration of `for r, (pattern, …) in enumerate(rules)` up to (not including) `flush_cache/calc_labels`.
    Only single-component patterns are supported (`none` otherwise; the translator checks the tables). -/
def runRule (r : StdRule) (ri : Nat) (m : Mol) (L : Labels) (comps : List (List Nat)) : Option RState :=
  match Iso.compileQuery (graphOfPattern r.toPattern) with
  | some ([lq], cl) => ruleLoop r ri lq cl L comps { mol := m }
  | _ => none

/-! ## a table -/

/-- the state of `__standardize` between two rules, plus what `calc_labels` needs -/
structure TState where
  mol : Mol
  labels : Labels
  sssr : List (List Nat)
  comps : List (List Nat)
  log : List LogEntry := []
  fixed : List Nat := []
  deriving Repr, DecidableEq, Inhabited

inductive Outcome (α : Type)
  | done (s : α)
  | pause (next : Nat) (s : α)      -- rule `next - 1` dropped the SSSR cache: labels of `s` are not recomputed yet
  | crash
  deriving Repr, Inhabited

/-- `__standardize(rules, fix_tautomers)` from rule index `ri` on -/
def stdTable (fixTaut : Bool) : List StdRule → Nat → TState → Outcome TState
  | [], _, ts => .done ts
  | r :: rest, ri, ts =>
    if !fixTaut && r.isTautomer then stdTable fixTaut rest (ri + 1) ts
    else
      match runRule r ri ts.mol ts.labels ts.comps with
      | none => .crash
      | some st =>
        if st.hs.isEmpty then stdTable fixTaut rest (ri + 1) { ts with mol := st.mol, log := ts.log ++ st.log }
        else
          match recalc st.hs st.mol with
          | none => .crash
          | some m' =>
            let ts' : TState := { ts with mol := m', log := ts.log ++ st.log, fixed := setUnion ts.fixed st.hs }
            if st.keepSssr && st.keepComp then
              match calcLabels m' ts.sssr with
              | none => .crash
              | some L' => stdTable fixTaut rest (ri + 1) { ts' with labels := L' }
            else .pause (ri + 1) ts'

/-! ## `standardize` after `fix_resonance` -/

/-- phases: 0 = double rules, 1 = double rules again (only if the first shot fixed something), 2 = single rules,
    3 = metal rules -/
def tableOfPhase : Nat → List StdRule
  | 0 => doubleRules
  | 1 => doubleRules
  | 2 => singleRules
  | _ => metalRules

structure SState extends TState where
  phase : Nat := 0
  /-- `f` of the first double-rules shot is non-empty -/
  firstShot : Bool := false
  deriving Repr, Inhabited

/-- run from `(phase, ri)`; the `fixed` field of the *table* state is reset per table (`l, f = …`), the total is `allFixed` -/
def standardizeFrom (fixTaut : Bool) : Nat → Nat → Nat → Bool → List Nat → TState → Outcome (Nat × Bool × List Nat × TState)
  | 0, _, _, _, _, _ => .crash
  | fuel+1, phase, ri, firstShot, allFixed, ts =>
    if phase ≥ 4 then .done (phase, firstShot, allFixed, ts)
    else if phase == 1 && !firstShot then standardizeFrom fixTaut fuel 2 0 firstShot allFixed ts
    else
      match stdTable fixTaut ((tableOfPhase phase).drop ri) ri { ts with fixed := [] } with
      | .crash => .crash
      | .pause next ts' =>
        .pause next (phase, (if phase == 0 then firstShot || !ts'.fixed.isEmpty else firstShot), setUnion allFixed ts'.fixed, ts')
      | .done ts' =>
        let fs := if phase == 0 then firstShot || !ts'.fixed.isEmpty else firstShot
        standardizeFrom fixTaut fuel (phase + 1) 0 fs (setUnion allFixed ts'.fixed) ts'

/-- `fixed.intersection(n for n, a in self.atoms() if a.implicit_hydrogens is None)` -/
def failedAtoms (m : Mol) (fixed : List Nat) : List Nat := fixed.filter fun n => (Valence.checkValence m).contains n

/-! ## hydrogens -/

inductive HErr | valenceError | crash
  deriving Repr, DecidableEq, Inhabited

/-- `to_add.extend([n] * a.implicit_hydrogens)`; `None` raises `TypeError` → `ValenceError` -/
def toAdd : List (Nat × Atom) → Except HErr (List Nat)
  | [] => .ok []
  | (n, a) :: rest =>
    match a.implH with
    | none => .error .valenceError
    | some h => match toAdd rest with
      | .error e => .error e
      | .ok tl => .ok (List.replicate h n ++ tl)

/-- `atoms[n]._implicit_hydrogens = 0` -/
def zeroH (m : Mol) (n : Nat) : Mol := updAtom m n fun a => { a with implH := some 0 }

def hydrogen : Atom := { z := 1, implH := some 0 }

/-- the `for n in to_add:` loop, `k` = the running number -/
def addHLoop : List Nat → Nat → Mol → Mol
  | [], _, m => m
  | n :: rest, k, m =>
    let m1 : Mol := { atoms := m.atoms ++ [(k, hydrogen)],
                      adj := (m.adj.map fun (x, row) => if x == n then (x, row ++ [(k, ({ order := 1 } : Bond))]) else (x, row))
                             ++ [(k, [(n, ({ order := 1 } : Bond))])] }
    addHLoop rest (k + 1) (zeroH m1 n)

/-- `max(atoms) + 1` (`max` of an empty dict raises, but then `to_add` is empty and it is not evaluated) -/
def nextNumber (m : Mol) : Nat := m.ids.foldl max 0 + 1

/-- `explicify_hydrogens()` (without `start_map`): new molecule and the number of added atoms -/
def explicify (m : Mol) : Except HErr (Mol × Nat) :=
  match toAdd m.atoms with
  | .error e => .error e
  | .ok [] => .ok (m, 0)
  | .ok l => .ok (addHLoop l (nextNumber m) m, l.length)

/-- `atom == H and (atom.isotope is None or atom.isotope == 1)` -/
def isPlainH (a : Atom) : Bool := a.z == 1 && (a.isotope == none || a.isotope == some 1)

/-- `explicit[m].append(n)` on a `defaultdict(list)` -/
def dlAppend : List (Nat × List Nat) → Nat → Nat → List (Nat × List Nat)
  | [], k, v => [(k, [v])]
  | (k', vs) :: tl, k, v => if k' == k then (k', vs ++ [v]) :: tl else (k', vs) :: dlAppend tl k v

/-- inner `for m, b in bonds[n].items()` of the collection loop for hydrogen `n` -/
def collectRow (m : Mol) (n : Nat) : List (Nat × Bond) → List (Nat × List Nat) → Except HErr (List (Nat × List Nat))
  | [], ex => .ok ex
  | (k, b) :: rest, ex =>
    if b.order == 1 then
      match m.atom? k with
      | none => .error .crash
      | some a => if a.z != 1 then collectRow m n rest (dlAppend ex k n) else collectRow m n rest ex
    else if b.order != 8 then .error .valenceError
    else collectRow m n rest ex

/-- the first loop of `implicify_hydrogens`: `explicit` -/
def collectExplicit (m : Mol) : List (Nat × Atom) → List (Nat × List Nat) → Except HErr (List (Nat × List Nat))
  | [], ex => .ok ex
  | (n, a) :: rest, ex =>
    if isPlainH a then
      match m.adj.lookup n with
      | none => .error .crash
      | some row =>
        if row.length > 1 then .error .valenceError
        else match collectRow m n row ex with
          | .error e => .error e
          | .ok ex' => collectExplicit m rest ex'
    else collectExplicit m rest ex

/-- `(bond.order, atoms[m].atomic_number)` for the bonds of `n` that are kept: `m not in hi and bond != 8`
    (aromatic bonds are *not* excluded here, as in the code) -/
def keptBonds (m : Mol) (row : List (Nat × Bond)) (hi : List Nat) : Option (List Valence.BE) :=
  (row.filter fun kb => !hi.contains kb.1 && kb.2.order != 8).mapM (Valence.nbrEntry m.atoms)

/-- `for s, d, h in rules: if s.issubset(...) and all(...) and h >= i:` → the first such `h` -/
def firstRuleGe (ed : List (Valence.BE × Nat)) (i : Nat) : List Valence.Rule → Option Nat
  | [] => none
  | r :: rs => if Valence.ruleMatches ed r && r.h ≥ i then some r.h else firstRuleGe ed i rs

/-- what the scan decides for atom `n` -/
inductive Scan
  | remove (hi : List Nat) (h : Nat)
  | keep
  | crash
  deriving Repr, DecidableEq, Inhabited

/-- `for i in range(len_h, 0, -1): …` for one heavy atom; `i` counts down from `hs.length` -/
def scan (t : Valence.Rules) (a : Atom) (m : Mol) (row : List (Nat × Bond)) (hs : List Nat) : Nat → Scan
  | 0 => .keep
  | i+1 =>
    let hi := hs.take (i + 1)
    match keptBonds m row hi with
    | none => .crash
    | some bs =>
      let es := (bs.map (·.1)).sum
      match Valence.valenceRules t a.charge a.radical es with
      | none => .keep                                        -- `except ValenceError: break`
      | some rules =>
        match firstRuleGe (bs.foldl Valence.dictIncr []) (i + 1) rules with
        | some h => .remove hi h
        | none => scan t a m row hs i

/-- the second loop: `to_remove`, `fixed` -/
def scanAll (m : Mol) : List (Nat × List Nat) → List Nat → List (Nat × Nat) → Option (List Nat × List (Nat × Nat))
  | [], rm, fx => some (rm, fx)
  | (n, hs) :: rest, rm, fx => do
    let a ← m.atom? n
    let row ← m.adj.lookup n
    let t ← Valence.tableOf a.z
    match scan t a m row hs hs.length with
    | .crash => none
    | .keep => scanAll m rest rm fx
    | .remove hi h => scanAll m rest (setUnion rm hi) (if fx.any (·.1 == n) then fx.map (fun p => if p.1 == n then (n, h) else p) else fx ++ [(n, h)])

/-- `del atoms[n]; for m in bonds.pop(n): del bonds[m][n]` for every `n` of `to_remove` -/
def removeAtoms (m : Mol) (rm : List Nat) : Mol :=
  { atoms := m.atoms.filter fun p => !rm.contains p.1,
    adj := (m.adj.filter fun p => !rm.contains p.1).map fun (n, row) => (n, row.filter fun kb => !rm.contains kb.1) }

/-- `for n, h in fixed.items(): atoms[n]._implicit_hydrogens = h` -/
def applyFixed : List (Nat × Nat) → Mol → Mol
  | [], m => m
  | (n, h) :: rest, m => applyFixed rest (updAtom m n fun a => { a with implH := some h })

/-- `implicify_hydrogens(logging=True)`: new molecule, number of removed atoms, `list(fixed)` -/
def implicify (m : Mol) : Except HErr (Mol × Nat × List Nat) :=
  match collectExplicit m m.atoms [] with
  | .error e => .error e
  | .ok ex =>
    match scanAll m ex [] [] with
    | none => .error .crash
    | some (rm, fx) => .ok (applyFixed fx (removeAtoms m rm), rm.length, fx.map (·.1))

/-! ## neutralisation bookkeeping (`AcidBase._neutralize`) -/

/-- `a._implicit_hydrogens += 1; a._charge += 1` (`None + 1` raises) -/
def protonate (m : Mol) (n : Nat) : Option Mol := do
  let a ← m.atom? n
  let h ← a.implH
  pure (updAtom m n fun a => { a with implH := some (h + 1), charge := a.charge + 1 })

/-- `a._implicit_hydrogens -= 1; a._charge -= 1`; a count of 0 would become −1 in Python: reported, never clipped -/
def deprotonate (m : Mol) (n : Nat) : Option Mol := do
  let a ← m.atom? n
  let h ← a.implH
  if h == 0 then none
  else pure (updAtom m n fun a => { a with implH := some (h - 1), charge := a.charge - 1 })

def foldOpt (f : Mol → Nat → Option Mol) : List Nat → Mol → Option Mol
  | [], m => some m
  | n :: ns, m => (f m n).bind (foldOpt f ns)

/-- the result for a given choice: every atom of `ds` loses a proton, every atom of `as` gains one -/
def neutralizeWith (m : Mol) (ds as : List Nat) : Option Mol := (foldOpt deprotonate ds m).bind (foldOpt protonate as)

/-- all donor atoms (`mapping[1]` of every match of the stripped acid rules) — and acceptors — of a molecule,
    as a set, in first-found order.  Uses the same matcher with nothing mutated in between. -/
def matchFirstAtoms (pats : List Pattern) (m : Mol) (L : Labels) (comps : List (List Nat)) : Option (List Nat) :=
  pats.foldlM (fun acc p =>
    match Iso.compileQuery (graphOfPattern p) with
    | some ([lq], cl) =>
      comps.foldlM (fun acc cand =>
        let e : Iso.Env := { lq := lq, cl := cl, oAtoms := m.ids, t := graphOfMol m, scope := fun n => cand.contains n,
                             atomOk := atomOk p m L, bondOk := bondOk p m L }
        match Iso.getMapping e with
        | none => none
        | some ds => (ds.mapM fun (d : Iso.Dict) => d.lookup 1).map fun xs => setUnion acc xs) acc
    | _ => none) []

/-- is `out` a result `_neutralize(keep_charge=True)` may yield first, for *some* iteration order of the Python sets?
    balanced: every donor −H⁺ and every acceptor +H⁺; more donors: all acceptors and `|acceptors|` of the donors;
    more acceptors: all donors and `|donors|` of the acceptors; no donors or no acceptors: `none` expected (no change). -/
def neutralizeCheck (m : Mol) (donors acceptors : List Nat) (changed : List Nat) (out : Option Mol) : Bool :=
  if donors.isEmpty || acceptors.isEmpty then out.isNone
  else
    let ds := changed.filter (donors.contains ·)
    let as := changed.filter fun x => acceptors.contains x && !donors.contains x
    let sizeOk :=
      if donors.length > acceptors.length then as.length == acceptors.length && ds.length == acceptors.length
      else if donors.length < acceptors.length then ds.length == donors.length && as.length == donors.length
      else ds.length == donors.length && as.length == acceptors.length
    sizeOk && changed.all (fun x => donors.contains x || acceptors.contains x) &&
      (match out with
       | none => false
       | some o => neutralizeWith m ds as == some o)

/-! ## observables -/

/-- `int(mol)` — net charge -/
def netCharge (m : Mol) : Int := (m.atoms.map (·.2.charge)).sum

/-- total hydrogens: implicit counts plus explicit hydrogen atoms; `none` if some count is `None` -/
def totalH (m : Mol) : Option Nat :=
  (Valence.implicitTotal m.atoms).map (· + (m.atoms.filter (·.2.z == 1)).length)

/-- the heavy-atom multiset as the list of `(id, Z, isotope)` of non-hydrogen atoms in dict order -/
def heavyAtoms (m : Mol) : List (Nat × Nat × Option Nat) :=
  (m.atoms.filter (·.2.z != 1)).map fun p => (p.1, p.2.z, p.2.isotope)

end ChythonModel.Model.Std
