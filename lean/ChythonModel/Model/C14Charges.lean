import ChythonModel.Model.Standardize
/-!
# C14 — `AcidBase.neutralize` (exact) and `Standardize.standardize_charges` (core Lean only)

## `AcidBase._neutralize(keep_charge)` — the first yielded molecule, exactly where the code is deterministic

* `keep_charge=False`: every donor loses a proton, every acceptor gains one (`elif donors or acceptors`);
* `keep_charge=True`, `len(donors) == len(acceptors)`: the same; no donors or no acceptors: nothing is yielded;
* `keep_charge=True`, unbalanced: the first `itertools.combinations` over a Python `set` — depends on CPython's set order, which
  is not modelled: `NeutOut.choice`, the real result is then *accepted* by `neutralizeCheck` (`Model/Standardize.lean`).

## `Standardize.standardize_charges(prepare_molecule=False)`

Statement by statement, from `seen = set()` to the `changed` list:

* the `fixed_rules` / `morgan_rules` loops over the *lazy* `q.get_mapping(self, automorphism_filter=False)` generator (the same
  resumed stack machine as in `__standardize`: `resume`; candidate tests see the charges the loop body has just written),
  the `len(match & seen) > 2` skip, the two "pyrrole-like" tests on `mapping[1]`, `mapping[2]`, the `_charge` writes, `changed`,
  `pairs` — `chargeBody`, `drainC`, `loopC`, `runChargeRule`, `matchPhase`;
* `for atom_1, atom_2, fix in pairs` with the freshly computed `atoms_order` — `applyPairs`;
* the ferrocene loop over `self.sssr` (`hybridization == 4` from the cached labels, live charges, `not_special_connectivity`
  = neighbours over bonds of order ≠ 8) — `ferroceneRing`, `ferroceneScan`; `min(ca, key=atoms_order.get)` — `argMin`,
  `ferroceneFix`.

Morgan ranks are **inputs** (like the SSSR): `atoms_order` is recomputed by the code after it has reset charges, at most twice per
call; the harness records every `atoms_order` the real call computes and hands them over in order (`orders`); C01 checks
`atoms_order` itself. If the model needs a ranking that the real call did not compute the answer is `needOrder` (a disagreement).
-/
namespace ChythonModel.Model.Std
open ChythonModel.Model ChythonModel.Gen.Rules

/-! ## neutralize, exact -/

inductive NeutOut
  | nothing                                  -- the generator yields nothing: `neutralize()` returns False
  | exact (o : Mol) (changed : List Nat)     -- `mol, donors | acceptors`
  | choice                                   -- unbalanced salt: first combination over a set
  deriving Repr, DecidableEq, Inhabited

/-- first result of `_neutralize(keep_charge)` given the donor / acceptor sets; `none` = crash (`None ± 1`) -/
def neutralizeExact (keepCharge : Bool) (m : Mol) (ds as : List Nat) : Option NeutOut :=
  if keepCharge then
    if ds.isEmpty || as.isEmpty then some .nothing
    else if ds.length == as.length then (neutralizeWith m ds as).map fun o => .exact o (setUnion ds as)
    else some .choice
  else if ds.isEmpty && as.isEmpty then some .nothing
  else (neutralizeWith m ds as).map fun o => .exact o (setUnion ds as)

/-- `_neutralize(keep_charge)` of a molecule: donors, acceptors, first result -/
def neutralizeModel (keepCharge : Bool) (m : Mol) (L : Labels) (comps : List (List Nat)) :
    Option (List Nat × List Nat × NeutOut) := do
  let ds ← matchFirstAtoms acidStripped m L comps
  let as ← matchFirstAtoms baseStripped m L comps
  let o ← neutralizeExact keepCharge m ds as
  pure (ds, as, o)

/-! ## standardize_charges -/

/-- the variables of `standardize_charges` that live across mappings -/
structure CState where
  mol : Mol
  seen : List Nat := []
  changed : List Nat := []                    -- a Python list: `append`, duplicates kept
  pairs : List (Nat × Nat × Bool) := []
  deriving Repr, DecidableEq, Inhabited

/-- `atoms[n]._charge = c` (`KeyError` = `none`) -/
def setCharge (m : Mol) (n : Nat) (c : Int) : Option Mol :=
  match m.atom? n with
  | none => none
  | some _ => some (updAtom m n fun a => { a with charge := c })

/-- the test that makes the loop `continue` for `atom_1` / `atom_2`:
    `if len(bonds[x]) == 2: if not atoms[x].implicit_hydrogens: continue` / `elif all(b == 4 for b in bonds[x].values()): continue` -/
def notPyrroleLike (m : Mol) (x : Nat) : Option Bool :=
  match m.adj.lookup x, m.atom? x with
  | some row, some a =>
    if row.length == 2 then some (a.implH == none || a.implH == some 0)
    else some (row.all fun kb => kb.2.order == 4)
  | _, _ => none

/-- the body of `for mapping in q.get_mapping(self, automorphism_filter=False)`, for a `fixed_rules` entry (`morgan = false`)
    or a `morgan_rules` entry (`morgan = true`) -/
def chargeBody (morgan fix : Bool) (st : CState) (mp : Iso.Dict) : Option CState :=
  let matched := toSet (mp.map (·.2))
  if (matched.filter (st.seen.contains ·)).length > 2 then some st
  else
    let st := { st with seen := setUnion st.seen matched }
    match mp.lookup 1, mp.lookup 2 with
    | some a1, some a2 =>
      match notPyrroleLike st.mol a1 with
      | none => none
      | some true => some st
      | some false =>
        match notPyrroleLike st.mol a2 with
        | none => none
        | some true => some st
        | some false =>
          if fix then
            match mp.lookup 3 with
            | none => none
            | some a3 =>
              match setCharge st.mol a3 0 with
              | none => none
              | some m1 =>
                if morgan then some { st with mol := m1, changed := st.changed ++ [a3], pairs := st.pairs ++ [(a1, a2, fix)] }
                else (setCharge m1 a2 1).map fun m2 => { st with mol := m2, changed := st.changed ++ [a3, a2] }
          else
            match setCharge st.mol a1 0 with
            | none => none
            | some m1 =>
              if morgan then some { st with mol := m1, pairs := st.pairs ++ [(a1, a2, fix)] }
              else (setCharge m1 a2 1).map fun m2 => { st with mol := m2, changed := st.changed ++ [a1, a2] }
    | _, _ => none

/-- `for mapping in get_mapping(components[0], scope=candidate): <body>` — resume the suspended generator on the *live*
    molecule, run the body, repeat (as `drain` for `__standardize`) -/
def drainC (body : CState → Iso.Dict → Option CState) (g : GenCtx) : Nat → CState → MState → Option CState
  | 0, _, _ => none
  | fuel+1, st, ms =>
    let e := envOf g st.mol
    match resume e (g.lq.length - 1) (Iso.machineFuel e) ms with
    | none => none
    | some none => some st
    | some (some (mp, ms')) =>
      match body st mp with
      | none => none
      | some st' => drainC body g fuel st' ms'

/-- `for candidate in other.connected_components: …` -/
def loopC (body : CState → Iso.Dict → Option CState) (p : Pattern) (lq : List Iso.Step) (cl : Iso.Closures) (L : Labels) :
    List (List Nat) → CState → Option CState
  | [], st => some st
  | cand :: rest, st =>
    let g : GenCtx := ⟨p, lq, cl, L, cand⟩
    let e := envOf g st.mol
    match lq with
    | [] => none
    | _ :: _ =>
      match drainC body g (Iso.machineFuel e) st ⟨(Iso.roots e).reverse.map (·, 0), [], [], []⟩ with
      | none => none
      | some st' => loopC body p lq cl L rest st'

/-- one `for q, fix in <table>` iteration (single-component patterns only; the translator checks the tables) -/
def runChargeRule (morgan : Bool) (r : ChargeRule) (L : Labels) (comps : List (List Nat)) (st : CState) : Option CState :=
  match Iso.compileQuery (graphOfPattern r.toPattern) with
  | some ([lq], cl) => loopC (chargeBody morgan r.fix) r.toPattern lq cl L comps st
  | _ => none

def runChargeTable (morgan : Bool) (L : Labels) (comps : List (List Nat)) : List ChargeRule → CState → Option CState
  | [], st => some st
  | r :: rest, st =>
    match runChargeRule morgan r L comps st with
    | none => none
    | some st' => runChargeTable morgan L comps rest st'

/-- both matching loops: `fixed_rules`, then `morgan_rules` (`seen` and `changed` carried over) -/
def matchPhase (m : Mol) (L : Labels) (comps : List (List Nat)) : Option CState :=
  (runChargeTable false L comps fixedRules { mol := m }).bind (runChargeTable true L comps morganRules)

/-- `for atom_1, atom_2, fix in pairs:` with `order = self.atoms_order` -/
def applyPairs (order : List (Nat × Nat)) : List (Nat × Nat × Bool) → Mol → List Nat → Option (Mol × List Nat)
  | [], m, ch => some (m, ch)
  | (a1, a2, fix) :: rest, m, ch =>
    match order.lookup a1, order.lookup a2 with
    | some o1, some o2 =>
      if o1 > o2 then
        match setCharge m a2 1 with
        | none => none
        | some m' => applyPairs order rest m' (if fix then ch ++ [a2] else ch ++ [a2, a1])
      else
        match setCharge m a1 1 with
        | none => none
        | some m' => applyPairs order rest m' (if fix then ch ++ [a1] else ch)
    | _, _ => none

/-- `len(nsc[n])`: neighbours over bonds that are not coordinate (order 8) -/
def nscDegree (m : Mol) (n : Nat) : Option Nat := (m.adj.lookup n).map fun row => (row.filter fun kb => kb.2.order != 8).length

/-- one `for r in self.sssr` iteration: `some (some (ch, ca))` when the ring is a cyclopentadienyl anion to be re-charged,
    `some none` = `continue`, `none` = crash -/
def ferroceneRing (m : Mol) (L : Labels) (r : List Nat) : Option (Option (Nat × List Nat)) := do
  if r.length != 5 then return none
  let hyb ← r.mapM fun n => (L.atoms.lookup n).map (·.hybridization)
  if !(hyb.all (· == 4)) then return none
  let chs ← r.mapM fun n => (m.atom? n).map fun a => (n, a.charge)
  match chs.filter (·.2 != 0) with
  | [(c, q)] =>
    if q != -1 then return none
    let flags ← r.mapM fun n => do
      let a ← m.atom? n
      let d ← nscDegree m n
      let row ← m.adj.lookup n
      pure (n, a.z == 6 && (d == 2 || (d == 3 && row.any fun kb => kb.2.order == 1)))
    let ca := (flags.filter (·.2)).map (·.1)
    if ca.length < 2 || !ca.contains c then return none
    return some (c, ca)
  | _ => return none

/-- the ferrocene loop: charges are reset while the rings are scanned -/
def ferroceneScan (L : Labels) : List (List Nat) → Mol → List Nat → List (List Nat) → Option (Mol × List Nat × List (List Nat))
  | [], m, ch, fcr => some (m, ch, fcr)
  | r :: rest, m, ch, fcr =>
    match ferroceneRing m L r with
    | none => none
    | some none => ferroceneScan L rest m ch fcr
    | some (some (c, ca)) =>
      match setCharge m c 0 with
      | none => none
      | some m' => ferroceneScan L rest m' (ch ++ [c]) (fcr ++ [ca])

/-- `min(ca, key=order.get)`: the first element with the smallest rank (`None` keys cannot be compared: crash) -/
def argMin (order : List (Nat × Nat)) : List Nat → Option Nat
  | [] => none
  | n :: rest =>
    match order.lookup n with
    | none => none
    | some k =>
      match rest with
      | [] => some n
      | _ :: _ =>
        match argMin order rest with
        | none => none
        | some b =>
          match order.lookup b with
          | none => none
          | some kb => if kb < k then some b else some n

/-- `for ca in fcr: n = min(ca, key=self.atoms_order.get); atoms[n]._charge = -1; changed.append(n)` -/
def ferroceneFix (order : List (Nat × Nat)) : List (List Nat) → Mol → List Nat → Option (Mol × List Nat)
  | [], m, ch => some (m, ch)
  | ca :: rest, m, ch =>
    match argMin order ca with
    | none => none
    | some n =>
      match setCharge m n (-1) with
      | none => none
      | some m' => ferroceneFix order rest m' (ch ++ [n])

inductive COut
  | done (m : Mol) (changed : List Nat)
  | needOrder                                -- the model needs an `atoms_order` the real call did not compute
  deriving Repr, DecidableEq, Inhabited

/-- `standardize_charges(prepare_molecule=False)` up to `if changed:`; `orders` = the `atoms_order` dicts the real call computed,
    in order; `none` = crash -/
def standardizeCharges (m : Mol) (L : Labels) (comps sssr : List (List Nat)) (orders : List (List (Nat × Nat))) : Option COut :=
  match matchPhase m L comps with
  | none => none
  | some st =>
    let afterPairs : Option (Option (Mol × List Nat × List (List (Nat × Nat)))) :=
      match st.pairs, orders with
      | [], _ => some (some (st.mol, st.changed, orders))
      | _ :: _, [] => some none
      | _ :: _, o :: os => (applyPairs o st.pairs st.mol st.changed).map fun (m', ch) => some (m', ch, os)
    match afterPairs with
    | none => none
    | some none => some .needOrder
    | some (some (m1, ch1, os)) =>
      match ferroceneScan L sssr m1 ch1 [] with
      | none => none
      | some (m2, ch2, fcr) =>
        match fcr, os with
        | [], _ => some (.done m2 ch2)
        | _ :: _, [] => some .needOrder
        | _ :: _, o :: _ => (ferroceneFix o fcr m2 ch2).map fun (m3, ch3) => .done m3 ch3

end ChythonModel.Model.Std
