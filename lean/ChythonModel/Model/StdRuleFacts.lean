import ChythonModel.Model.Standardize
/-!
# C14 — decidable facts about one rule-table entry (what the table theorems of Props/C14.lean quantify over)

Core Lean only. `patternValid` is the executable reading of "the rule's own pattern is a valence-valid drawing":
for every pattern atom whose explicit bond-order sum is pinned down by the pattern itself
(`D` is a single value and either `z` is `1` — only single bonds — or all `D` neighbours are pattern atoms joined by
bonds of one fixed order 1–3) the element's compiled valence table (C04 model over the regenerated periodic table) has,
under the key `(charge, radical, sum)`, a rule whose neighbour requirements can be met in that environment — for every
element the query atom admits.  Atoms that are not pinned down
(`A`, `M`, open `D`) do not restrict anything.
-/
namespace ChythonModel.Model.Std
open ChythonModel.Model ChythonModel.Gen.Rules

/-- Σ of the charge deltas of `atom_fix` -/
def chargeSum (r : StdRule) : Int := (r.atomFix.map (·.2.1)).sum

/-- the single order of a pattern bond, if it has exactly one and it is 1, 2 or 3 -/
def fixedOrder (b : Query.QBond) : Option Nat :=
  match b.orders with
  | [o] => if o == 1 || o == 2 || o == 3 then some o else none
  | _ => none

/-- the atomic numbers a query atom admits (`[]` for `A` / `M`: anything) -/
def elementsOf (q : Query.QAtom) : List Nat :=
  match q.kind with
  | .element z _ => [z]
  | .list zs => zs
  | _ => []

/-- what a pattern says about the bonds of one of its atoms, when it pins them down -/
inductive PinnedEnv
  /-- `D = d`, `z = 1`: `d` single bonds; `hetero` = the `x` value when it is a single number -/
  | allSingle (d : Nat) (hetero : Option Nat)
  /-- `D` = number of pattern neighbours, every pattern bond of one fixed order: `(order, admitted elements)` per neighbour -/
  | known (nbrs : List (Nat × List Nat))
  deriving Repr, DecidableEq

def PinnedEnv.sum : PinnedEnv → Nat
  | .allSingle d _ => d
  | .known nbrs => (nbrs.map (·.1)).sum

/-- the environment of pattern atom `n` when the pattern pins it down -/
def pinnedEnv (p : Pattern) (n : Nat) (q : Query.QAtom) : Option PinnedEnv :=
  match q.neighbors with
  | [d] =>
    if q.hybridization == [1] then
      some (.allSingle d (match q.heteroatoms with | [k] => some k | _ => none))
    else
      match p.adj.lookup n with
      | none => none
      | some row =>
        if row.length == d then
          (row.mapM fun (kb : Nat × Query.QBond) => do
            let o ← fixedOrder kb.2
            let qa ← p.atoms.lookup kb.1
            pure (o, elementsOf qa)).map .known
        else none
  | _ => none

def isHetero (z : Nat) : Bool := z != 1 && z != 6

/-- can the neighbour requirements `(order, Z) ↦ count` of one compiled valence rule be met in the pinned environment?
    An over-approximation (each requirement is checked on its own): more rules count as valid, the theorem gets stronger.
    For the all-single environment: every required neighbour is singly bonded, no requirement asks for more than `d`
    neighbours, hetero requirements fit into the `x` hetero neighbours and carbon / hydrogen requirements into the rest.
    `Proofs/C14Valid.lean: ruleMatches_ruleSat` proves that a rule which matches a real atom in such an environment is `ruleSat`. -/
def ruleSat (env : PinnedEnv) (r : Valence.Rule) : Bool :=
  match env with
  | .allSingle d hetero =>
    r.set.all (fun k => k.1 == 1) && r.dict.all (fun kc => decide (kc.2 ≤ d)) &&
    (match hetero with
     | none => true
     | some k => r.dict.all fun kc => if isHetero kc.1.2 then decide (kc.2 ≤ k) else decide (kc.2 ≤ d - k))
  | .known nbrs =>
    r.dict.all fun kc =>
      decide ((nbrs.filter fun oe => oe.1 == kc.1.1 && (oe.2.isEmpty || oe.2.contains kc.1.2)).length ≥ kc.2)

/-- some rule of `atom.valence_rules(sum)` can apply to the pinned pattern atom, for every admitted element -/
def atomValid (p : Pattern) (nq : Nat × Query.QAtom) : Bool :=
  match pinnedEnv p nq.1 nq.2 with
  | none => true
  | some env =>
    (elementsOf nq.2).all fun z =>
      match Valence.tableOf z with
      | some t =>
        (match Valence.valenceRules t nq.2.charge nq.2.radical env.sum with
         | some rules => rules.any (ruleSat env)
         | none => false)
      | none => false

def patternValid (p : Pattern) : Bool := p.atoms.all (atomValid p)

/-- the `x` value of a query atom when it is a single number -/
def pinnedHetero (q : Query.QAtom) : Option Nat := match q.heteroatoms with | [k] => some k | _ => none

/-- no compiled valence rule of element `z` can apply to an atom with the query's charge / radical state and `d` single bonds
    (`pinnedHetero q` of them to hetero atoms when the query says so) -/
def badFor (z : Nat) (q : Query.QAtom) (d : Nat) : Bool :=
  match Valence.tableOf z with
  | some t =>
    (match Valence.valenceRules t q.charge q.radical d with
     | some rules => rules.all fun r => !ruleSat (.allSingle d (pinnedHetero q)) r
     | none => true)
  | none => false

/-- the rule has a single-element pattern atom pinned to `d` single bonds for which no valence rule is satisfiable -/
def hasBadSingleAtom (r : StdRule) : Bool :=
  r.atoms.any fun nq =>
    match nq.2.neighbors, nq.2.kind with
    | [d], .element z _ => nq.2.hybridization == [1] && badFor z nq.2 d
    | _, _ => false

/-- the rule is invalid because of an atom whose environment is given by its pattern neighbours (multiple bonds) -/
def invalidByKnownEnv (r : StdRule) : Bool :=
  r.atoms.any fun nq =>
    match pinnedEnv r.toPattern nq.1 nq.2 with
    | some (.known _) => !atomValid r.toPattern nq
    | _ => false

/-- is pattern atom `n` an `AnyMetal` (the only query atoms without a charge test) -/
def isMetalAtom (p : Pattern) (n : Nat) : Bool :=
  match p.atoms.lookup n with
  | some q => q.kind == .metal
  | none => false

/-- an `atom_fix` entry that can never trip the `charge > 4` test on a matched atom: the pattern atom tests the charge
    (not a metal) and pattern charge + delta ≤ 4 -/
def entrySafe (p : Pattern) (e : Nat × Int × Option Bool) : Bool :=
  match p.atoms.lookup e.1 with
  | some q => q.kind != .metal && decide (q.charge + e.2.1 ≤ 4)
  | none => false

/-- every entry after the first is safe -/
def abortOnlyFirst (r : StdRule) : Bool := r.atomFix.tail.all (entrySafe r.toPattern)

/-- every `M` (any metal) atom of the pattern may be shared by several matches of the rule (it is listed in `any_atoms`):
    one metal centre carries several ligands, each of which is one match -/
def metalsShareable (r : StdRule) : Bool :=
  r.atoms.all fun nq => nq.2.kind != .metal || r.anyAtoms.contains nq.1

/-- every atom named by `atom_fix`, `bonds_fix`, `any_atoms` is a pattern atom -/
def namesInPattern (r : StdRule) : Bool :=
  let ids := r.atoms.map (·.1)
  r.atomFix.all (fun e => ids.contains e.1) && r.bondsFix.all (fun e => ids.contains e.1 && ids.contains e.2.1) &&
  r.anyAtoms.all (ids.contains ·)

def allStdRules : List StdRule := doubleRules ++ singleRules ++ metalRules

end ChythonModel.Model.Std
