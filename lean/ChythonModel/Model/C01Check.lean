import ChythonModel.Model.Morgan
import ChythonModel.Spec.Renumbering
/-!
# Checker for the relational stream of C01: "the second description is the first one renamed"

The harness produces second descriptions of a molecule (renumbered, atoms / adjacency rows / neighbour dicts re-inserted in
another order). `checkSame mapping a b` decides, from the two descriptions and the renaming, whether `b` is `a` in the sense
of `Spec/Renumbering.lean` (constitution: the attributes `Element.__hash__` reads incl. the ring label, bond orders).
Soundness is a theorem (`Props/C01.lean: check_same_sound`); completeness is observed (the driver must accept every pair the
harness generates).
-/
namespace ChythonModel.Model.C01Check
open ChythonModel.Model ChythonModel.Model.Morgan ChythonModel.Spec.Renumbering

/-- a total renaming extending the finite `mapping`: atoms outside it are shifted above every image -/
def extend (mapping : List (Nat × Nat)) : Nat → Nat := fun n =>
  match mapping.lookup n with
  | some v => v
  | none => n + ((mapping.map (·.2)).foldl max 0 + 1)

def nodupB (l : List Nat) : Bool :=
  match l with
  | [] => true
  | x :: tl => !tl.contains x && nodupB tl

def checkSame (mapping : List (Nat × Nat)) (a b : MolView) : Bool :=
  let π := extend mapping
  let b'' := a.bonds.map fun row => (π row.1, (b.bonds.lookup (π row.1)).getD [])
  nodupB (mapping.map (·.1)) && nodupB (mapping.map (·.2)) &&
  nodupB (keys a.atoms) && nodupB (keys a.bonds) &&
  b.atoms.isPerm (mapKeys π a.atoms) &&
  b''.isPerm b.bonds &&
  a.bonds.all fun row => ((b.bonds.lookup (π row.1)).getD []).isPerm (mapKeys π row.2)

end ChythonModel.Model.C01Check
