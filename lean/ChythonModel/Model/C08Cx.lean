import ChythonModel.Model.SmartsFull
import ChythonModel.Model.C15Radicals
/-!
# C08 — `smarts(data)` on the whole input string: white-space split and the CXSMARTS radical block

```
smr, *cx = data.split()
parsed = parser(smarts_tokenize(smr), False)
if cx and cx[0].startswith('|') and cx[0].endswith('|'):
    for x in findall(cx_radicals, cx[0]):
        for i in x[3:].split(','):
            parsed['atoms'][int(i)]['is_radical'] = True
```

`cx_radicals` is the same pattern `\^[1-7]:[0-9]+(?:,[0-9]+)*` as in `smiles()`; its scanner is property C15's model
`C15.findRadicals` (imported, not copied; leftmost non-overlapping matches, a comma is consumed only when a digit follows).
Everything behind the split is `smartsFull` (`Model/SmartsFull.lean`), which takes the indices: an index ≥ number of atoms is the
`IndexError` there, the empty split (`smr, *cx = []`) is a `ValueError`; both end as `IncorrectSmarts` in the wrapper.
Only the first token behind the SMARTS is looked at; no de-duplication (setting the flag twice is harmless).
Core Lean only.
-/
namespace ChythonModel.Model.Query

/-- `str.isspace()` per code point (what `str.split()` without argument splits on) -/
def pySpace (c : Nat) : Bool :=
  (9 ≤ c && c ≤ 13) || (28 ≤ c && c ≤ 32) || c == 0x85 || c == 0xa0 || c == 0x1680 || (0x2000 ≤ c && c ≤ 0x200a) ||
  c == 0x2028 || c == 0x2029 || c == 0x202f || c == 0x205f || c == 0x3000

/-- `data.split()`: maximal runs of non-space characters; `cur` = the run being read (reversed) -/
def pySplitAux : List Nat → List Nat → List (List Nat)
  | [], cur => if cur.isEmpty then [] else [cur.reverse]
  | c :: cs, cur =>
    if pySpace c then (if cur.isEmpty then pySplitAux cs [] else cur.reverse :: pySplitAux cs [])
    else pySplitAux cs (c :: cur)

def pySplit (s : List Nat) : List (List Nat) := pySplitAux s []

/-- the atom indices named by the CX token (`[]` when there is none or it is not of the form `|…|`) -/
def cxRadicals (cx : List (List Nat)) : List Nat :=
  match cx with
  | c :: _ =>
    if c.head? == some 124 && c.getLast? == some 124 then ChythonModel.Model.C15.findRadicals (c.length + 1) c else []
  | [] => []

/-- `smarts(data)` for a `str` argument: a query graph or the error it raises -/
def smartsText (data : List Nat) : Outcome :=
  match pySplit data with
  | [] => .err .incorrectSmarts            -- `smr, *cx = []`: ValueError, wrapped
  | smr :: cx => smartsFull smr (cxRadicals cx)

end ChythonModel.Model.Query
