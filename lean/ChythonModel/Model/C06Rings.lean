import ChythonModel.Model.Graph
/-!
# C06 — executable model of the exactly-modelled parts of `chython/algorithms/rings.py`
# and of the ring marks of `MoleculeContainer.calc_labels`

Every function mirrors the Python statement by statement. Python `dict` = insertion-ordered association
list; a `set` of ints = duplicate-free list (DESIGN §4). Where Python takes an arbitrary element of a set
(`atoms.pop()` in `_connected_components`) the model takes the first key in dict order; the harness therefore
compares components as a sorted list of sorted blocks. A Python exception is `none`.

Domain: adjacency dicts that are *closed* (every neighbour is a key) and duplicate free — `wfAdj`. The driver
answers `malformed` for anything else, so the `getD []` in `nbrsOf` (Python: `KeyError`) is never exercised by
a compared case and every theorem carries `wfAdj`/`Sym` as an explicit hypothesis.
-/
namespace ChythonModel.Model.C06
open ChythonModel.Model

/-- adjacency dict `n -> set(neighbours)`; keys in dict order -/
abbrev Adj := List (Nat × List Nat)

def keys (g : Adj) : List Nat := g.map (·.1)
def nbrsOf (g : Adj) (n : Nat) : List Nat := (g.lookup n).getD []

/-- `Rings.not_special_connectivity`: `{n: {m for m, b in ms.items() if b != 8}}` -/
def notSpecial (m : Mol) : Adj :=
  m.adj.map fun p => (p.1, (p.2.filter fun mb => mb.2.order != 8).map (·.1))

/-- `self._bonds` seen as `n -> keys of the neighbour dict` (what `_connected_components(self._bonds)` and
`_skin_graph(self._bonds)` iterate over) -/
def fullAdj (m : Mol) : Adj := m.adj.map fun p => (p.1, p.2.map (·.1))

/-- keys unique, neighbour lists duplicate free, no loops, every neighbour is a key -/
def wfAdj (g : Adj) : Bool :=
  (keys g).Nodup && g.all fun p => p.2.Nodup && p.2.all fun k => k != p.1 && (keys g).contains k

/-- symmetric: `m ∈ g[n] → n ∈ g[m]` -/
def symAdj (g : Adj) : Bool :=
  g.all fun p => p.2.all fun k => (nbrsOf g k).contains p.1

/-! ## `_connected_components` -/

/-- the inner `while queue:` loop. `none` = fuel exhausted (the model of "does not terminate"; excluded by
`bfs_fuel_suffices`). `for i in bonds[current]: if i not in seen: queue.append(i); seen.add(i)` — with a
duplicate-free neighbour set that is one `filter`. -/
def bfs (g : Adj) : Nat → List Nat → List Nat → Option (List Nat)
  | _, [], seen => some seen
  | 0, _ :: _, _ => none
  | fuel + 1, cur :: q, seen =>
    let new := (nbrsOf g cur).filter fun i => !seen.contains i
    bfs g fuel (q ++ new) (seen ++ new)

/-- the outer `while atoms:` loop; `atoms` = keys not yet in a component, `atoms.pop()` ↦ first in dict order -/
def componentsLoop (g : Adj) : Nat → List Nat → Option (List (List Nat))
  | _, [] => some []
  | 0, _ :: _ => none
  | fuel + 1, start :: rest =>
    match bfs g (keys g).length [start] [start] with
    | none => none
    | some seen =>
      match componentsLoop g fuel (rest.filter fun a => !seen.contains a) with
      | none => none
      | some cs => some (seen :: cs)

def connectedComponents (g : Adj) : Option (List (List Nat)) :=
  componentsLoop g (keys g).length (keys g)

/-! ## `_skin_graph` -/

/-- one pass of the `while True:` body: first key (dict order) whose set has ≤ 1 members is popped and
discarded from the sets of the members of its own set. `none` = `StopIteration` (loop ends). -/
def skinStep (g : Adj) : Option Adj :=
  match g.find? fun p => decide (p.2.length ≤ 1) with
  | none => none
  | some (n, popped) =>
    some ((g.filter fun p => p.1 != n).map fun p =>
      (p.1, if popped.contains p.1 then p.2.filter (· != n) else p.2))

def skinLoop : Nat → Adj → Option Adj
  | 0, g => match skinStep g with
    | none => some g
    | some _ => none
  | fuel + 1, g => match skinStep g with
    | none => some g
    | some g' => skinLoop fuel g'

/-- `bonds = {n: set(ms) for n, ms in bonds.items() if ms}` then the loop -/
def skinGraph (g : Adj) : Option Adj :=
  let g0 := g.filter fun p => !p.2.isEmpty
  skinLoop g0.length g0

/-! ## `Rings.rings_count` -/

def degreeSum (g : Adj) : Nat := (g.map (·.2.length)).sum

/-- `sum(len(x) for x in bonds.values()) // 2 - len(bonds) + len(_connected_components(bonds))` -/
def ringsCountAdj (g : Adj) : Option Int :=
  (connectedComponents g).map fun cs => ((degreeSum g / 2 : Nat) : Int) - (g.length : Int) + (cs.length : Int)

def ringsCount (m : Mol) : Option Int := ringsCountAdj (notSpecial m)

/-! ## `_canonic_ring`, `_ring_scissors`, `_ring_adjacency` (tuples as lists; slices written out) -/

def minOf : List Nat → Option Nat
  | [] => none
  | x :: xs => some (xs.foldl min x)

/-- `_canonic_ring(ring)`. `none` = the Python raises (`min(())` → ValueError, `ring[1]` on a 1-tuple → IndexError).
Every `getD · 0` below is in bounds by the guards before it (`2 ≤ length`, `0 < ndx < length - 1`): the default
is never taken. -/
def canonicRing (ring : List Nat) : Option (List Nat) :=
  match minOf ring with
  | none => none
  | some n =>
    let ndx := ring.idxOf n
    if ring.length < 2 then none
    else if ndx == 0 then
      -- ring[-1] < ring[1]  →  (n, *ring[:0:-1])  else ring
      if ring.getD (ring.length - 1) 0 < ring.getD 1 0 then some (n :: (ring.drop 1).reverse) else some ring
    else if ndx == ring.length - 1 then
      -- ring[0] > ring[-2]  →  ring[::-1]  else (n, *ring[:-1])
      if ring.getD 0 0 > ring.getD (ring.length - 2) 0 then some ring.reverse else some (n :: ring.dropLast)
    else if ring.getD (ndx + 1) 0 > ring.getD (ndx - 1) 0 then
      -- (*ring[ndx::-1], *ring[:ndx:-1])
      some ((ring.take (ndx + 1)).reverse ++ (ring.drop (ndx + 1)).reverse)
    else
      -- (*ring[ndx:], *ring[:ndx])
      some (ring.drop ndx ++ ring.take ndx)

/-- `_ring_scissors(ring, n, m)`; `none` = `ValueError` of `tuple.index` -/
def ringScissors (ring : List Nat) (n m : Nat) : Option (List Nat) :=
  if !ring.contains n || !ring.contains m then none
  else
    let ndx := ring.idxOf n
    let mdx := ring.idxOf m
    if ndx == 0 then
      if mdx == 1 then some (n :: (ring.drop 1).reverse) else some ring
    else if ndx == ring.length - 1 then
      if mdx == 0 then some ring.reverse else some (n :: ring.dropLast)
    else if ndx < mdx then some ((ring.take (ndx + 1)).reverse ++ (ring.drop (ndx + 1)).reverse)
    else some (ring.drop ndx ++ ring.take ndx)

/-- dict `d[k] = v` (replace in place or append) -/
def dictSet (d : List (Nat × List Nat)) (k : Nat) (v : List Nat) : List (Nat × List Nat) :=
  if d.any (·.1 == k) then d.map fun p => if p.1 == k then (k, v) else p else d ++ [(k, v)]

/-- `d[k].append(x)`; `none` = KeyError -/
def dictAppend (d : List (Nat × List Nat)) (k : Nat) (x : Nat) : Option (List (Nat × List Nat)) :=
  if d.any (·.1 == k) then some (d.map fun p => if p.1 == k then (k, p.2 ++ [x]) else p) else none

/-- `_ring_adjacency(ring)`; `none` = the Python raises (empty ring: IndexError; 1-ring: UnboundLocalError) -/
def ringAdjacency (ring : List Nat) : Option (List (Nat × List Nat)) :=
  match ring with
  | [] => none
  | [_] => none
  | r0 :: _ =>
    let last := ring.getD (ring.length - 1) 0
    let step (acc : Option (List (Nat × List Nat))) (nm : Nat × Nat) : Option (List (Nat × List Nat)) :=
      match acc with
      | none => none
      | some d => (dictAppend d nm.1 nm.2).map fun d' => dictSet d' nm.2 [nm.1]
    match (ring.zip (ring.drop 1)).foldl step (some [(r0, [last])]) with
    | none => none
    | some d => dictAppend d last r0

/-! ## `atoms_rings`, `atoms_rings_sizes`, ring marks of `calc_labels` -/

abbrev Ring := List Nat

/-- `rings[n].append(r)` on a `defaultdict(list)` -/
def ddAppend (d : List (Nat × List Ring)) (n : Nat) (r : Ring) : List (Nat × List Ring) :=
  match d with
  | [] => [(n, [r])]
  | (k, rs) :: tl => if k == n then (k, rs ++ [r]) :: tl else (k, rs) :: ddAppend tl n r

/-- `for r in self.sssr: for n in r: rings[n].append(r)` -/
def atomsRings (sssr : List Ring) : List (Nat × List Ring) :=
  sssr.foldl (fun d r => r.foldl (fun d n => ddAppend d n r) d) []

def dedup : List Nat → List Nat
  | [] => []
  | x :: xs => if xs.contains x then dedup xs else x :: dedup xs

/-- `{n: {len(r) for r in rs}}` — the size set is returned duplicate free (order: last occurrences) -/
def atomsRingsSizes (sssr : List Ring) : List (Nat × List Nat) :=
  (atomsRings sssr).map fun p => (p.1, dedup (p.2.map (·.length)))

structure AtomMark where
  n : Nat
  inRing : Bool
  ringSizes : List Nat
  bonds : List (Nat × Bool)      -- neighbour, bond._in_ring as assigned while visiting `n`
  deriving Repr, DecidableEq

/-- the ring part of `calc_labels`, given the ring list the implementation reports:
`anr and amr and not anr.isdisjoint(amr)`; `atom._in_ring = n in atoms_rings_sizes`;
`atom._ring_sizes = atoms_rings_sizes.get(n) or set()` -/
def ringMarks (m : Mol) (sssr : List Ring) : List AtomMark :=
  let ar := atomsRings sssr
  let ars := atomsRingsSizes sssr
  m.adj.map fun p =>
    let anr := (ar.lookup p.1).getD []
    { n := p.1
      inRing := ars.any (·.1 == p.1)
      ringSizes := (ars.lookup p.1).getD []
      bonds := p.2.map fun mb =>
        let amr := (ar.lookup mb.1).getD []
        (mb.1, anr.any fun r => amr.contains r) }

/-! ## `MoleculeContainer.aromatic_rings` -/

/-- `bonds[a][b] == 4`; `none` = KeyError -/
def bondIs4 (m : Mol) (a b : Nat) : Option Bool := (m.bond? a b).map fun bd => bd.order == 4

/-- `all(bonds[n][m] == 4 for n, m in pairs)` with Python's short circuit; `none` = KeyError before a `False` -/
def allBonds4 (m : Mol) : List (Nat × Nat) → Option Bool
  | [] => some true
  | ab :: rest =>
    match bondIs4 m ab.1 ab.2 with
    | none => none
    | some false => some false
    | some true => allBonds4 m rest

/-- the bond look-ups of `aromatic_rings` for one ring, in evaluation order:
`bonds[ring[0]][ring[-1]]` first, then `zip(ring, ring[1:])` -/
def ringBondPairs (ring : Ring) : List (Nat × Nat) :=
  match ring with
  | [] => []
  | r0 :: tl => (r0, (ring.getLast?).getD r0) :: ring.zip tl

/-- `bonds[ring[0]][ring[-1]] == 4 and all(...)`; `none` = IndexError (empty ring) / KeyError -/
def isAromaticRing (m : Mol) (ring : Ring) : Option Bool :=
  match ring with
  | [] => none
  | _ :: _ => allBonds4 m (ringBondPairs ring)

/-- `tuple(ring for ring in self.sssr if …)`; `none` = the generator raised -/
def aromaticRings (m : Mol) : List Ring → Option (List Ring)
  | [] => some []
  | r :: rs =>
    match isAromaticRing m r with
    | none => none
    | some b =>
      match aromaticRings m rs with
      | none => none
      | some out => some (if b then r :: out else out)

end ChythonModel.Model.C06
