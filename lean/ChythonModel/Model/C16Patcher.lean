import ChythonModel.Model.Valence
/-!
# C16 — template application (executable model, core Lean only)

Mirrors, statement by statement,

* `BaseReactor.__init__` (replacement checks, `_to_delete`), `BaseReactor._get_deleted`, `BaseReactor._patcher`
  without the stereo translation                                                    (chython/reactor/base.py)
* `Transformer.__call__`                                                            (chython/reactor/transformer.py)
* `fix_mapping_overlap`, the `reduce(or_, chosen)` / collision-remap part of `Reactor._single_stage`
                                                                                    (chython/reactor/reactor.py)
* `Graph.remap`, `Graph.union(remap=True)`                                          (chython/containers/graph.py)

Python → Lean conventions
* `dict` → insertion-ordered association list; `d[k] = v` is `dictSet` (replace in place or append);
  `d[k]` on a missing key is `Except.error (.keyError k)`, never a default.
* `set` of ints → list; only membership is ever observed. Where Python *iterates* over a set (`for x in to_delete`,
  `zip(intersection, count(..))`) the iteration order is a parameter of the model and the theorems quantify over it.
* `stack.pop()` takes the last element: the model keeps the stack reversed (head = top), so
  `stack.extend(l)` is `l.reverse ++ stack`.
* stereo labels and coordinates are outside this model: every atom/bond the patcher creates has `stereo := none`.
-/
namespace ChythonModel.Model.C16
open ChythonModel.Model

inductive PyErr where
  | keyError (n : Nat)
  | valueError (what : String)
  | typeError (what : String)
  | mappingError (what : String)   -- `chython.exceptions.MappingError` (a `ValueError` subclass)
  deriving Repr, DecidableEq

/-- `structure._bonds` as `_get_deleted` reads it: keys and neighbour keys, both in dict order -/
abbrev Adj := List (Nat × List Nat)

def keysOf (m : Mol) : Adj := m.adj.map fun p => (p.1, p.2.map (·.1))

/-! ## `_get_deleted` -/

theorem lookup_mem_keys {β} {g : List (Nat × β)} {k : Nat} {v : β} (h : g.lookup k = some v) :
    k ∈ g.map (·.1) := by
  induction g with
  | nil => simp [List.lookup] at h
  | cons p tl ih =>
    obtain ⟨k', v'⟩ := p
    simp only [List.lookup] at h
    split at h
    · next heq => simp at heq; simp [heq]
    · simp only [List.map_cons, List.mem_cons]; exact Or.inr (ih h)

theorem filter_len_le {α} (p q : α → Bool) (l : List α) (h : ∀ k, p k = true → q k = true) :
    (l.filter p).length ≤ (l.filter q).length := by
  induction l with
  | nil => simp
  | cons b tl ih =>
    simp only [List.filter_cons]
    cases hpb : p b <;> cases hqb : q b <;> simp <;> try omega
    have := h b hpb
    simp [hqb] at this

theorem filter_len_lt {α} (p q : α → Bool) (l : List α) (h : ∀ k, p k = true → q k = true) (a : α) (ha : a ∈ l)
    (hq : q a = true) (hp : p a = false) : (l.filter p).length < (l.filter q).length := by
  induction l with
  | nil => simp at ha
  | cons b tl ih =>
    have hle := filter_len_le p q tl h
    simp only [List.filter_cons]
    rcases List.mem_cons.1 ha with rfl | ha'
    · simp [hq, hp]; omega
    · have := ih ha'
      cases hpb : p b <;> cases hqb : q b <;> simp <;> try omega
      have := h b hpb
      simp [hqb] at this

theorem unseen_lt (l seen : List Nat) (a : Nat) (ha : a ∈ l) (hs : seen.contains a = false) :
    (l.filter fun k => !(a :: seen).contains k).length < (l.filter fun k => !seen.contains k).length := by
  apply filter_len_lt _ _ l _ a ha
  · simpa using hs
  · simp
  · intro k hk
    simp only [List.contains_cons, Bool.not_or, Bool.and_eq_true, Bool.not_eq_true'] at hk
    simpa using hk.2

/-- the inner `while stack:` loop of `_get_deleted` for one start atom.
Returns `(true, seen)` when the loop hit `break` (fragment attached to the remaining part → `kept.update(seen)`),
`(false, seen)` when the stack ran empty (`while … else:` → `delete.update(seen)`).
`stack` is reversed (head = top). Termination: every iteration either shrinks the stack or marks a new key of `g`. -/
def dfs (g : Adj) (toDel remain kept : List Nat) (seen stack : List Nat) : Except PyErr (Bool × List Nat) :=
  match stack with
  | [] => .ok (false, seen)
  | cur :: rest =>
    if remain.contains cur || kept.contains cur then .ok (true, seen)
    else if toDel.contains cur || seen.contains cur then dfs g toDel remain kept seen rest
    else
      match h : g.lookup cur with
      | none => .error (.keyError cur)       -- `bonds[current]`
      | some nb =>
        dfs g toDel remain kept (cur :: seen) ((nb.filter fun x => !(cur :: seen).contains x).reverse ++ rest)
termination_by (((g.map (·.1)).filter fun k => !seen.contains k).length, stack.length)
decreasing_by
  · apply Prod.Lex.right; simp
  · rename_i hns
    apply Prod.Lex.left
    apply unseen_lt _ _ _ (lookup_mem_keys h)
    simp only [Bool.or_eq_true, not_or, Bool.not_eq_true] at hns
    exact hns.2

/-- the two result sets of the outer loops -/
structure DelState where
  delete : List Nat := []
  kept : List Nat := []
  deriving Repr, DecidableEq

/-- body of `for n in bonds[x]:` -/
def visitNbr (g : Adj) (toDel remain : List Nat) (st : DelState) (n : Nat) : Except PyErr DelState :=
  if st.delete.contains n || st.kept.contains n || remain.contains n || toDel.contains n then .ok st
  else
    match g.lookup n with
    | none => .error (.keyError n)
    | some nb =>
      match dfs g toDel remain st.kept [n] ((nb.filter fun x => ![n].contains x).reverse) with
      | .error e => .error e
      | .ok (true, seen) => .ok { st with kept := seen ++ st.kept }
      | .ok (false, seen) => .ok { st with delete := seen ++ st.delete }

def visitNbrs (g : Adj) (toDel remain : List Nat) : List Nat → DelState → Except PyErr DelState
  | [], st => .ok st
  | n :: ns, st =>
    match visitNbr g toDel remain st n with
    | .error e => .error e
    | .ok st' => visitNbrs g toDel remain ns st'

/-- `for x in to_delete:` — `order` is the iteration order of the Python set (any order; see `Props.C16`) -/
def outerLoop (g : Adj) (toDel remain : List Nat) : (order : List Nat) → DelState → Except PyErr DelState
  | [], st => .ok st
  | x :: xs, st =>
    match g.lookup x with
    | none => .error (.keyError x)           -- `bonds[x]`
    | some nb =>
      match visitNbrs g toDel remain nb st with
      | .error e => .error e
      | .ok st' => outerLoop g toDel remain xs st'

/-- `{mapping[x] for x in self._to_delete}` -/
def mapAll (mapping : List (Nat × Nat)) : List Nat → Except PyErr (List Nat)
  | [] => .ok []
  | x :: xs =>
    match mapping.lookup x with
    | none => .error (.keyError x)
    | some v =>
      match mapAll mapping xs with
      | .error e => .error e
      | .ok vs => .ok (v :: vs)

/-- `set(mapping.values()).difference(to_delete)` -/
def remainOf (mapping : List (Nat × Nat)) (toDel : List Nat) : List Nat :=
  (mapping.map (·.2)).filter fun v => !toDel.contains v

/-- `BaseReactor._get_deleted(structure, mapping)`; `tplDelete` is `self._to_delete` in any iteration order. -/
def getDeleted (g : Adj) (tplDelete : List Nat) (mapping : List (Nat × Nat)) : Except PyErr (List Nat) :=
  if tplDelete.isEmpty then .ok []
  else
    match mapAll mapping tplDelete with
    | .error e => .error e
    | .ok toDel =>
      match outerLoop g toDel (remainOf mapping toDel) toDel {} with
      | .error e => .error e
      | .ok st => .ok (toDel ++ st.delete)

/-- executable test of "undirected": every listed neighbour lists the atom back -/
def symmB (g : Adj) : Bool :=
  g.all fun p => p.2.all fun b => match g.lookup b with
    | some nb => nb.contains p.1
    | none => false

/-- executable test of "closed": every listed neighbour is a key -/
def closedB (g : Adj) : Bool :=
  g.all fun p => p.2.all fun b => (g.lookup b).isSome

/-! ## templates -/

inductive RKind where
  | any          -- `AnyElement`
  | query        -- `QueryElement`
  | element      -- `Element` (replacement given as a molecule)
  | unsupported  -- `ListElement`, `AnyMetal`, … : rejected by `BaseReactor.__init__`
  deriving Repr, DecidableEq, Inhabited

/-- one replacement atom as `_patcher` reads it. `hs`: the `implicit_hydrogens` tuple of a query atom,
    or `[]`/`[h]` for `None`/`h` of an `Element`. -/
structure RAtom where
  kind : RKind
  z : Nat := 0
  isotope : Option Nat := none
  charge : Int := 0
  radical : Bool := false
  hs : List Nat := []
  deriving Repr, DecidableEq, Inhabited

structure Template where
  /-- `pattern.atoms()`: number and `masked` flag -/
  pattern : List (Nat × Bool)
  replIsQuery : Bool
  replAtoms : List (Nat × RAtom)
  /-- `replacement._bonds`: per atom the neighbour dict with the bond's order tuple (one entry for a plain `Bond`) -/
  replBonds : List (Nat × List (Nat × List Nat))
  deleteAtoms : Bool
  deriving Repr, DecidableEq, Inhabited

/-- the checks of `BaseReactor.__init__` on a `QueryContainer` replacement -/
def initCheckAtoms : List (Nat × RAtom) → Except PyErr Unit
  | [] => .ok ()
  | (_, a) :: tl =>
    if a.kind != .any && a.kind != .query then .error (.typeError "Unsupported query atom type")
    else if a.hs.length > 1 then .error (.valueError "Query element in patch has more than one implicit hydrogen clause")
    else initCheckAtoms tl

def initCheckBonds (t : Template) : Except PyErr Unit :=
  if (t.replBonds.any fun r => r.2.any fun mb => mb.2.length > 1) then .error (.valueError "Variable bond in replacement")
  else .ok ()

/-- `self._to_delete = {n for n, a in pattern.atoms() if not a.masked} - set(replacement) if delete_atoms else ()` -/
def toDeleteOf (t : Template) : List Nat :=
  if t.deleteAtoms then
    ((t.pattern.filter fun p => !p.2).map (·.1)).filter fun n => !(t.replAtoms.map (·.1)).contains n
  else []

/-- `BaseReactor.__init__`: `.ok _to_delete` or the exception it raises -/
def templateInit (t : Template) : Except PyErr (List Nat) :=
  if t.replIsQuery then
    match initCheckAtoms t.replAtoms with
    | .error e => .error e
    | .ok _ =>
      match initCheckBonds t with
      | .error e => .error e
      | .ok _ => .ok (toDeleteOf t)
  else .ok (toDeleteOf t)

/-! ## `_patcher` -/

/-- `d[k] = v` on an insertion-ordered dict -/
def dictSet {β : Type} : List (Nat × β) → Nat → β → List (Nat × β)
  | [], k, v => [(k, v)]
  | (k', v') :: tl, k, v => if k' == k then (k, v) :: tl else (k', v') :: dictSet tl k v

structure PState where
  mapping : List (Nat × Nat)
  maxAtom : Nat
  atoms : List (Nat × Atom)
  bonds : List (Nat × List (Nat × Bond))
  deriving Repr, DecidableEq, Inhabited

/-- `if m := mapping.get(n)` — a missing key *and* the number 0 are both falsy -/
def mget (mp : List (Nat × Nat)) (n : Nat) : Option Nat :=
  match mp.lookup n with
  | some m => if m == 0 then none else some m
  | none => none

/-- `natoms[m] = a; nbonds[m] = {}` -/
def placeAtom (st : PState) (m : Nat) (a : Atom) : PState :=
  { st with atoms := dictSet st.atoms m a, bonds := dictSet st.bonds m [] }

/-- body of `for n, ra in self._replacement.atoms():` -/
def replAtomStep (s : Mol) (st : PState) (n : Nat) (ra : RAtom) : Except PyErr PState :=
  match ra.kind with
  | .any =>
    match mget st.mapping n with
    | none => .error (.valueError "AnyElement doesn't match to pattern")
    | some m =>
      match s.atoms.lookup m with
      | none => .error (.keyError m)
      | some sa =>  -- `sa.copy()` keeps element and isotope; charge / radical from the patch; hydrogens reset
        .ok (placeAtom st m { z := sa.z, isotope := sa.isotope, charge := ra.charge, radical := ra.radical,
                              implH := none, stereo := none })
  | _ =>
    let a : Atom := { z := ra.z, isotope := ra.isotope, charge := ra.charge, radical := ra.radical,
                      implH := none, stereo := none }
    match mget st.mapping n with
    | none =>      -- new atom: number `max_atom + 1`, hydrogens from the patch when it gives them
      let m := st.maxAtom + 1
      .ok (placeAtom { st with mapping := dictSet st.mapping n m, maxAtom := m } m { a with implH := ra.hs.head? })
    | some m =>    -- existing atom
      match s.atoms.lookup m with
      | none => .error (.keyError m)
      | some _ => .ok (placeAtom st m a)

def replAtomsLoop (s : Mol) : List (Nat × RAtom) → PState → Except PyErr PState
  | [], st => .ok st
  | (n, ra) :: tl, st =>
    match replAtomStep s st n ra with
    | .error e => .error e
    | .ok st' => replAtomsLoop s tl st'

abbrev Bonds := List (Nat × List (Nat × Bond))

/-- `if n in nbonds[m]: nbonds[n][m] = nbonds[m][n]  else: nbonds[n][m] = fresh` -/
def linkStep (bonds : Bonds) (n m : Nat) (fresh : Bond) : Except PyErr Bonds :=
  match bonds.lookup m with
  | none => .error (.keyError m)
  | some rowm =>
    let v := match rowm.lookup n with
      | some b => b
      | none => fresh
    match bonds.lookup n with
    | none => .error (.keyError n)
    | some rown => .ok (dictSet bonds n (dictSet rown m v))

/-- `for m, rb in bs.items():` of the replacement-bond loop; `n` already mapped -/
def replRowLoop (mapping : List (Nat × Nat)) (n : Nat) : List (Nat × List Nat) → Bonds → Except PyErr Bonds
  | [], b => .ok b
  | (m, ord) :: tl, b =>
    match mapping.lookup m with
    | none => .error (.keyError m)
    | some m' =>
      match linkStep b n m' { order := ord.headD 0, stereo := none } with
      | .error e => .error e
      | .ok b' => replRowLoop mapping n tl b'

/-- `for n, bs in self._replacement._bonds.items():` -/
def replBondsLoop (mapping : List (Nat × Nat)) : List (Nat × List (Nat × List Nat)) → Bonds → Except PyErr Bonds
  | [], b => .ok b
  | (n, bs) :: tl, b =>
    match mapping.lookup n with
    | none => .error (.keyError n)
    | some n' =>
      match replRowLoop mapping n' bs b with
      | .error e => .error e
      | .ok b' => replBondsLoop mapping tl b'

/-- `for n, sa in satoms.items():  # add unmatched or masked atoms` -/
def remainderAtoms (patched deleted : List Nat) : List (Nat × Atom) → List (Nat × Atom) × Bonds → List (Nat × Atom) × Bonds
  | [], acc => acc
  | (n, sa) :: tl, (atoms, bonds) =>
    if !patched.contains n && !deleted.contains n then
      remainderAtoms patched deleted tl (dictSet atoms n { sa with stereo := none }, dictSet bonds n [])
    else remainderAtoms patched deleted tl (atoms, bonds)

/-- `for m, b in bs.items():` of the structure-bond loop -/
def structRowLoop (patched deleted : List Nat) (n : Nat) : List (Nat × Bond) → Bonds → Except PyErr Bonds
  | [], b => .ok b
  | (m, sb) :: tl, b =>
    if deleted.contains m || (patched.contains n && patched.contains m) then structRowLoop patched deleted n tl b
    else
      match linkStep b n m { order := sb.order, stereo := none } with
      | .error e => .error e
      | .ok b' => structRowLoop patched deleted n tl b'

/-- `for n, bs in sbonds.items():` -/
def structBondsLoop (patched deleted : List Nat) : List (Nat × List (Nat × Bond)) → Bonds → Except PyErr Bonds
  | [], b => .ok b
  | (n, bs) :: tl, b =>
    if deleted.contains n then structBondsLoop patched deleted tl b
    else
      match structRowLoop patched deleted n bs b with
      | .error e => .error e
      | .ok b' => structBondsLoop patched deleted tl b'

/-- `self._atoms[n]._implicit_hydrogens = h` (own copy, so that this model does not depend on C04's helper names) -/
def setH (m : Mol) (n : Nat) (h : Option Nat) : Mol :=
  { m with atoms := m.atoms.map fun p => if p.1 == n then (p.1, { p.2 with implH := h }) else p }

/-- `for n, a in new.atoms(): if a.implicit_hydrogens is None: new.calc_implicit(n)` -/
def calcLoop : List Nat → Mol → Except PyErr Mol
  | [], m => .ok m
  | n :: ns, m =>
    match m.atoms.lookup n with
    | none => .error (.keyError n)
    | some a =>
      if a.implH.isSome then calcLoop ns m
      else
        match Valence.calcImplicitMol m n with
        | none => .error (.keyError n)
        | some h => calcLoop ns (setH m n h)

/-- `max(satoms)` -/
def maxKey : List Nat → Except PyErr Nat
  | [] => .error (.valueError "max() arg is an empty sequence")
  | a :: tl => .ok (tl.foldl max a)

structure Patched where
  deleted : List Nat
  mapping : List (Nat × Nat)
  patchedIds : List Nat
  mol : Mol
  deriving Repr, DecidableEq, Inhabited

/-- `BaseReactor._patcher(structure, mapping)` up to and including the hydrogen loop (no stereo, no `fix_rings`).
`tplDelete` = `self._to_delete` (see `templateInit`). -/
def patcher (s : Mol) (t : Template) (tplDelete : List Nat) (mapping : List (Nat × Nat)) : Except PyErr Patched :=
  match getDeleted (keysOf s) tplDelete mapping with
  | .error e => .error e
  | .ok deleted =>
    match maxKey s.ids with
    | .error e => .error e
    | .ok mx =>
      match replAtomsLoop s t.replAtoms ⟨mapping, mx, [], []⟩ with
      | .error e => .error e
      | .ok st1 =>
        match replBondsLoop st1.mapping t.replBonds st1.bonds with
        | .error e => .error e
        | .ok b2 =>
          let patched := st1.atoms.map (·.1)
          let (atoms3, b3) := remainderAtoms patched deleted s.atoms (st1.atoms, b2)
          match structBondsLoop patched deleted s.adj b3 with
          | .error e => .error e
          | .ok b4 =>
            match calcLoop (atoms3.map (·.1)) ⟨atoms3, b4⟩ with
            | .error e => .error e
            | .ok m => .ok ⟨deleted, st1.mapping, patched, m⟩

/-- `Transformer.__call__`: one `_patcher` result per mapping yielded by the matcher (the matcher is C07's model;
here the mappings are data). A raising `_patcher` aborts the generator at that point. -/
def transformerCall (s : Mol) (t : Template) (tplDelete : List Nat) :
    List (List (Nat × Nat)) → Except PyErr (List Patched)
  | [] => .ok []
  | mp :: tl =>
    match patcher s t tplDelete mp with
    | .error e => .error e
    | .ok p =>
      match transformerCall s t tplDelete tl with
      | .error e => .error e
      | .ok ps => .ok (p :: ps)

/-! ## `Graph.remap`, `Graph.union(remap=True)`, `fix_mapping_overlap`, collision remap of `_single_stage` -/

/-- `mg(n, n)` -/
def mgD (mp : List (Nat × Nat)) (n : Nat) : Nat := (mp.lookup n).getD n

/-- dict comprehension `{f(k): v for k, v in items}`: a repeated key keeps its first position and the last value -/
def dictOfList {β : Type} : List (Nat × β) → List (Nat × β)
  | l => l.foldl (fun acc p => dictSet acc p.1 p.2) []

/-- `Graph.remap(mapping)`; `ValueError('mapping overlap')` when values repeat or hit an unmapped atom -/
def remap (m : Mol) (mp : List (Nat × Nat)) : Except PyErr Mol :=
  let mpd := dictOfList mp
  let vals := mpd.map (·.2)
  let unmapped := m.ids.filter fun n => !(mpd.map (·.1)).contains n
  if vals.eraseDups.length != mpd.length || unmapped.any vals.contains then .error (.valueError "mapping overlap")
  else
    .ok ⟨dictOfList (m.atoms.map fun p => (mgD mpd p.1, p.2)),
         dictOfList (m.adj.map fun p => (mgD mpd p.1, dictOfList (p.2.map fun q => (mgD mpd q.1, q.2))))⟩

/-- `count(start)` zipped with the iteration order of a set -/
def zipCount : List Nat → Nat → List (Nat × Nat)
  | [], _ => []
  | x :: xs, c => (x, c) :: zipCount xs (c + 1)

def maxOf (l : List Nat) : Nat := l.foldl max 0

/-- `d.update(other)` -/
def dictUpdate {β : Type} (d other : List (Nat × β)) : List (Nat × β) :=
  other.foldl (fun acc p => dictSet acc p.1 p.2) d

/-- `a | b` = `a.union(b, remap=True)`: colliding → *all* atoms of `b` renumbered from `max(a) + 1` in `b`'s order -/
def union (a b : Mol) : Except PyErr Mol :=
  if a.ids.any b.ids.contains then
    match maxKey a.ids with
    | .error e => .error e
    | .ok mx =>
      match remap b (zipCount b.ids (mx + 1)) with
      | .error e => .error e
      | .ok b' => .ok ⟨dictUpdate a.atoms b'.atoms, dictUpdate a.adj b'.adj⟩
  else .ok ⟨dictUpdate a.atoms b.atoms, dictUpdate a.adj b.adj⟩

/-- `a.union(b)` = `a.union(b, remap=False)`: `MappingError('mapping of graphs is not disjoint')` when a number occurs in
both operands, otherwise the plain dict merge (same as the collision-free branch of `union`) -/
def unionStrict (a b : Mol) : Except PyErr Mol :=
  if a.ids.any b.ids.contains then .error (.mappingError "mapping of graphs is not disjoint")
  else .ok ⟨dictUpdate a.atoms b.atoms, dictUpdate a.adj b.adj⟩

/-- `Graph.union(other, remap=flag)` -/
def unionR (remapFlag : Bool) (a b : Mol) : Except PyErr Mol :=
  if remapFlag then union a b else unionStrict a b

/-- `reduce(or_, chosen)` -/
def unionAll : List Mol → Except PyErr Mol
  | [] => .error (.typeError "reduce() of empty iterable with no initial value")
  | m :: ms => ms.foldl (fun acc x => match acc with
      | .error e => .error e
      | .ok u => union u x) (.ok m)

/-- `fix_mapping_overlap(structures)`. `orders[i]` is the iteration order of `set(structure).intersection(checked_atoms)`
for the i-th structure (a permutation of that intersection; the harness passes the order CPython used).
Result: the renumbered structures. -/
def fixOverlapLoop : List Mol → List (List Nat) → (checked : List Nat) → Except PyErr (List Mol)
  | [], _, _ => .ok []
  | s :: ss, orders, checked =>
    let inter := s.ids.filter checked.contains
    let order := orders.headD []
    if inter.isEmpty then
      match fixOverlapLoop ss orders.tail (checked ++ s.ids) with
      | .error e => .error e
      | .ok r => .ok (s :: r)
    else if !(order.all inter.contains && inter.all order.contains && decide order.Nodup) then
      .error (.valueError "harness: order is not a permutation of the intersection")
    else
      match remap s (zipCount order (max (maxOf checked) (maxOf s.ids) + 1)) with
      | .error e => .error e
      | .ok s' =>
        match fixOverlapLoop ss orders.tail (checked ++ s'.ids) with
        | .error e => .error e
        | .ok r => .ok (s' :: r)

def fixMappingOverlap (structures : List Mol) (orders : List (List Nat)) : Except PyErr (List Mol) :=
  match structures with
  | [s] => .ok [s]
  | _ => fixOverlapLoop structures orders []

/-- the collision remap of `_single_stage`:
`collision = set(new) & ignored; new.remap(dict(zip(collision, count(max(max_ignored_number, max(new)) + 1))))`;
`order` = iteration order of `collision`. -/
def collisionRemap (new : Mol) (ignored : List Nat) (order : List Nat) : Except PyErr Mol :=
  let collision := new.ids.filter ignored.contains
  if collision.isEmpty then .ok new
  else if !(order.all collision.contains && collision.all order.contains && decide order.Nodup) then
    .error (.valueError "harness: order is not a permutation of the collision set")
  else remap new (zipCount order (max (maxOf ignored) (maxOf new.ids) + 1))

/-- one match of `Reactor._single_stage` up to (not including) `split()`:
`united_chosen = reduce(or_, chosen)`, `new = _patcher(united_chosen, mapping)` (`mapping` = the per-pattern matches merged
by `dict.update`), then the collision remap against the numbers of the ignored molecules. -/
def singleStage (t : Template) (tplDelete : List Nat) (chosen : List Mol) (mapping : List (Nat × Nat))
    (ignored order : List Nat) : Except PyErr Mol :=
  match unionAll chosen with
  | .error e => .error e
  | .ok u =>
    match patcher u t tplDelete mapping with
    | .error e => .error e
    | .ok p => collisionRemap p.mol ignored order

end ChythonModel.Model.C16
