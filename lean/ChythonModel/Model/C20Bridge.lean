import ChythonModel.Model.Graph
import ChythonModel.Model.Stereo
import ChythonModel.Gen.C20Tables
import ChythonModel.Gen.PeriodicTable
/-!
# C20 — executable model of `chython/utils/rdkit.py` (core Lean only)

Mirrors `to_rdkit_molecule` → `toRd` and `from_rdkit_molecule` → `fromRd`, statement by statement, as maps between

* `CMol`: the chython side (`Graph.Mol` = `_atoms`/`_bonds` in dict order, plus `parsed_mapping` and `xy` per atom), and
* `RMol`: the *fields of an RDKit molecule that the bridge writes or reads* (atom records in index order, bond records in
  bond-index order, first conformer).  RDKit itself is **not** modelled: `toRd` yields what the code hands to
  `SanitizeMol`/`AssignStereochemistry`; `fromRd` consumes whatever RDKit holds.

The literal tables (bond-type maps, the enum members behind `_chiral_cw/_chiral_ccw/_cis/_trans`, `_inorganic`) come from
`Gen/C20Tables.lean`, regenerated from /repo on every run.  Sign translation is the C12 model (`Model/Stereo.lean`):
`translateTetra`, `translateCisTrans`.  The stereo environment (`stereogenic_tetrahedrons`, `_stereo_cis_trans_centers`,
`stereogenic_cis_trans`) is computed by `stereoEnvOf` below, mirroring `chython/algorithms/stereo.py`.

Python exceptions are `Except BErr`; no branch is defaulted.
-/
namespace ChythonModel.Model.C20
open ChythonModel.Gen ChythonModel.Gen.C20 ChythonModel.Model ChythonModel.Model.Stereo

inductive BErr
  | py (e : PyErr)            -- KeyError / ValueError / StopIteration raised by chython code
  | argument                  -- Boost.Python.ArgumentError: `None` handed to an RDKit setter
  | runtime                   -- RDKit invariant violation (`SetStereoAtoms` precondition)
  | mapping                   -- chython MappingError (`add_bond` loop / duplicate)
  | atomNotFound              -- chython AtomNotFound
  deriving Repr, DecidableEq

def BErr.name : BErr → String
  | .py e => e.name | .argument => "ArgumentError" | .runtime => "RuntimeError"
  | .mapping => "MappingError" | .atomNotFound => "AtomNotFound"

def liftPy {α} : Except PyErr α → Except BErr α
  | .ok a => .ok a
  | .error e => .error (.py e)

/-! ## records -/

/-- the atom fields the bridge sets (`to`) or reads (`from`) -/
structure RAtom where
  z : Nat
  explicitHs : Nat := 0         -- `GetNumExplicitHs`
  implicitHs : Nat := 0         -- `GetNumImplicitHs`: computed by RDKit, never set by the bridge
  charge : Int := 0
  isotope : Nat := 0            -- 0 = unset
  radicalE : Nat := 0           -- `GetNumRadicalElectrons`
  mapNum : Nat := 0
  tag : RdChiral := .CHI_UNSPECIFIED
  deriving Repr, DecidableEq, Inhabited

structure RBond where
  bgn : Nat
  end_ : Nat
  type : RdBondType
  stereo : RdStereo := .STEREONONE
  satoms : Option (Nat × Nat) := none
  deriving Repr, DecidableEq, Inhabited

/-- `pos`: x, y of conformer 0 in the harness' exact unit (1/16), `none` = no conformer -/
structure RMol where
  atoms : List RAtom
  bonds : List RBond
  pos : Option (List (Int × Int)) := none
  deriving Repr, DecidableEq, Inhabited

/-- chython molecule with the two per-atom attributes `Graph.Atom` lacks (aligned with `mol.atoms`) -/
structure CMol where
  mol : Mol
  pmap : List Nat
  xy : List (Int × Int)
  deriving Repr, DecidableEq, Inhabited

/-- the cached stereo dictionaries the bridge consults -/
structure StereoEnv where
  stet : List (Nat × List Nat)              -- `stereogenic_tetrahedrons`
  centers : List (Nat × (Nat × Nat))        -- `_stereo_cis_trans_centers`
  sct : List ((Nat × Nat) × Ends)           -- `stereogenic_cis_trans`
  deriving Repr, DecidableEq, Inhabited

/-- `atom.GetNeighbors()`: the other ends of the atom's bonds in bond order (RDKit keeps out-edges in insertion order) -/
def rNbrs (bonds : List RBond) (i : Nat) : List Nat :=
  bonds.filterMap fun b => if b.bgn = i then some b.end_ else if b.end_ = i then some b.bgn else none

/-- `self._atoms[x] == H` (`H = 1`: atomic number only, any isotope) -/
def isHOf (m : Mol) : Nat → Bool := fun x =>
  match m.atom? x with
  | some a => a.z == 1
  | none => false

/-! ## the stereo environment (`chython/algorithms/stereo.py`) -/

def rowOf (z : Nat) : Option ElemRow := periodicTable.find? (·.z == z)
def formsSingle (z : Nat) : Bool := match rowOf z with | some r => r.single | none => false
def formsDouble (z : Nat) : Bool := match rowOf z with | some r => r.double | none => false

def zOf (m : Mol) (n : Nat) : Nat := match m.atom? n with | some a => a.z | none => 0

/-- `MoleculeStereo.tetrahedrons`: neutral non-radical carbons with single bonds only (at most four) -/
def tetrahedrons (m : Mol) : List Nat :=
  m.atoms.filterMap fun (n, a) =>
    if a.z == 6 && a.charge == 0 && !a.radical then
      let env := m.nbrs n
      if env.all (·.2.order == 1) then
        if (env.map (·.2.order)).sum > 4 then none else some n
      else none
    else none

/-- `stereogenic_tetrahedrons` -/
def stereogenicTetrahedrons (m : Mol) : List (Nat × List Nat) :=
  (tetrahedrons m).filterMap fun n =>
    let nb := (m.nbrs n).map (·.1)
    if nb.any (fun x => !formsSingle (zOf m x)) then none
    else
      let env := nb.filter (fun x => !isHOf m x)
      if env.length == 3 || env.length == 4 then some (n, env) else none

/-- double-bond adjacency of `cumulenes` (`adj`): for atoms forming double bonds, their double-bonded partners that do too.
Keys with an empty set never influence the result (they are neither terminals nor reachable), so only members are kept. -/
def dblAdj (m : Mol) : List (Nat × List Nat) :=
  m.atoms.filterMap fun (n, a) =>
    if formsDouble a.z then
      some (n, (m.nbrs n).filterMap fun (k, b) => if b.order == 2 && formsDouble (zOf m k) then some k else none)
    else none

def adjGet (adj : List (Nat × List Nat)) (n : Nat) : List Nat := (adj.lookup n).getD []
def adjSet (adj : List (Nat × List Nat)) (n : Nat) (v : List Nat) : List (Nat × List Nat) :=
  adj.map fun (k, x) => if k == n then (k, v) else (k, x)

/-- one walk of the inner `while m not in terminals` loop; returns (paths to add, new terminals, new adj).
`set.pop()` is only ever applied to a one-element set here (a terminal's set, or a chain atom's set after discarding the
atom we came from while it has at most two bonds), so no commitment to CPython's set order is needed; an empty set is the
`KeyError` of `set.pop()`. -/
def walkChain (m : Mol) : Nat → List Nat → Nat → Nat → List Nat → List (Nat × List Nat) →
    Except PyErr (List (List Nat) × List Nat × List (Nat × List Nat))
  | 0, _, _, _, _, _ => .error .stopIteration     -- fuel exhausted: never happens for fuel = number of atoms + 1
  | fuel+1, path, n, k, terminals, adj =>
    if terminals.contains k then
      -- `else` of the while: terminals.remove(m); adj[m].pop(); cumulenes.append(tuple(path))
      match adjGet adj k with
      | [] => .error .keyError
      | _ :: rest => .ok ([path], terminals.erase k, adjSet adj k rest)
    else if (m.nbrs k).length > 2 then
      .ok ((path.zip (path.drop 1)).map (fun (a, b) => [a, b]), terminals, adj)
    else
      let adjK := (adjGet adj k).erase n
      match adjK with
      | [] => .error .keyError
      | k' :: rest => walkChain m fuel (path ++ [k']) k k' terminals (adjSet adj k rest)

/-- `MoleculeStereo.cumulenes` -/
def cumulenesLoop (m : Mol) : Nat → List Nat → List (Nat × List Nat) → Except PyErr (List (List Nat))
  | 0, _, _ => .ok []
  | fuel+1, terminals, adj =>
    match terminals with
    | [] => .ok []
    | n :: ts =>
      match adjGet adj n with
      | [] => .error .keyError
      | k :: rest => do
        let adj1 := adjSet adj n rest
        let (paths, ts', adj') ← walkChain m (m.atoms.length + 1) [n, k] n k ts adj1
        let more ← cumulenesLoop m fuel ts' adj'
        pure (paths ++ more)

def cumulenes (m : Mol) : Except PyErr (List (List Nat)) :=
  let adj := dblAdj m
  let terminals := adj.filterMap fun (x, y) => if y.length == 1 then some x else none
  cumulenesLoop m (m.atoms.length + 1) terminals adj

/-- one entry of `stereogenic_cumulenes`: the chain (`first … last`, the pair in the middle) and its environment -/
structure Cumulene where
  first : Nat
  last : Nat
  mid : Nat × Nat           -- `(path[i - 1], path[i])`, `i = len(path) // 2`
  len : Nat
  env : Ends
  deriving Repr, DecidableEq

/-- `stereogenic_cumulenes`: path ↦ (first neighbour at each end, second neighbour or `None`) -/
def stereogenicCumulenes (m : Mol) : Except PyErr (List Cumulene) := do
  let cs ← cumulenes m
  pure <| cs.filterMap fun path =>
    let i := path.length / 2
    match path.head?, path.getLast?, path[1]?, path[path.length - 2]?, path[i - 1]?, path[i]? with
    | some p0, some pl, some n1, some m1, some c0, some c1 =>
      let nf := m.nbrs p0
      let nl := m.nbrs pl
      let bad (nbs : List (Nat × Bond)) (skip : Nat) : Bool :=
        nbs.any fun (x, b) => x != skip && (b.order == 3 || (!formsSingle (zOf m x) && b.order != 8))
      if bad nf n1 then none
      else if bad nl m1 then none
      else
        let pick (nbs : List (Nat × Bond)) (skip : Nat) : List Nat :=
          nbs.filterMap fun (x, b) => if x != skip && !isHOf m x && b.order != 8 then some x else none
        let nn := pick nf n1
        let mn := pick nl m1
        match nn, mn with
        | a :: _, b :: _ =>
          some ⟨p0, pl, (c0, c1), path.length,
                ⟨a, b, if nn.length == 2 then nn[1]? else none, if mn.length == 2 then mn[1]? else none⟩⟩
        | _, _ => none
    | _, _, _, _, _, _ => none

/-- insert-or-overwrite keeping the first insertion position (Python `dict[k] = v`) -/
def dictSet {κ ν} [BEq κ] (d : List (κ × ν)) (k : κ) (v : ν) : List (κ × ν) :=
  if d.any (·.1 == k) then d.map (fun (k', v') => if k' == k then (k', v) else (k', v')) else d ++ [(k, v)]

/-- the three dictionaries the bridge reads -/
def stereoEnvOf (m : Mol) : Except PyErr StereoEnv := do
  let sc ← stereogenicCumulenes m
  let even := sc.filter (fun c => c.len % 2 == 0)
  let sct := even.foldl (fun d c => dictSet d (c.first, c.last) c.env) []
  let centers := even.foldl (fun d c => dictSet (dictSet d c.first c.mid) c.last c.mid) []
  pure ⟨stereogenicTetrahedrons m, centers, sct⟩

/-! ## `to_rdkit_molecule` -/

/-- the atom loop body: `Atom(a.atomic_number)`, `SetNumExplicitHs(a.implicit_hydrogens)`, guarded setters -/
def toAtom (keep : Bool) (n : Nat) (a : Atom) : Except BErr RAtom :=
  match a.implH with
  | none => .error .argument                         -- `SetNumExplicitHs(None)`
  | some h =>
    .ok { z := a.z, explicitHs := h,
          mapNum := if keep then n else 0,
          charge := if a.charge != 0 then a.charge else 0,
          isotope := match a.isotope with
            | some i => if i != 0 then i else 0
            | none => 0,
          radicalE := if a.radical then 1 else 0 }

/-- `_bond_map[b.order]` -/
def bondTypeOf (order : Nat) : Except BErr RdBondType := liftPy (getKey bondMap order)

/-- `_rdkit_bond_map[b.GetBondType()]` -/
def bondOrderOf (t : RdBondType) : Except BErr Nat := liftPy (getKey rdkitBondMap t)

/-- `mapping[n]`: index of atom `n` in `AddAtom` order -/
def idxOf (ids : List Nat) (n : Nat) : Except BErr Nat :=
  match index? ids n with
  | some i => .ok i
  | none => .error (.py .keyError)

/-- direction rule of the bond loop: `if data.atom(n).atomic_symbol not in _inorganic: n, m = m, n` -/
def orient (m : Mol) (n k : Nat) : Nat × Nat :=
  if inorganicZ.contains (zOf m n) then (n, k) else (k, n)

def toBond (m : Mol) (ids : List Nat) (nkb : Nat × Nat × Bond) : Except BErr RBond := do
  let (n, k, b) := nkb
  let (n', k') := orient m n k
  let t ← bondTypeOf b.order
  let i ← idxOf ids n'
  let j ← idxOf ids k'
  pure { bgn := i, end_ := j, type := t }

/-- the chiral tag the code sets for label `s` -/
def tagOfSign (s : Bool) : RdChiral := if s then chiralCcw else chiralCw

/-- `inverted[x.GetIdx()] for x in ra.GetNeighbors()` -/
def nbrNumbers (ids : List Nat) (bonds : List RBond) (i : Nat) : Except BErr (List Nat) :=
  (rNbrs bonds i).mapM fun j =>
    match ids[j]? with
    | some n => .ok n
    | none => .error (.py .keyError)

/-- tetrahedron loop body for atom `n` at index `i`: `none` = tag left untouched -/
def toTag (m : Mol) (env : StereoEnv) (ids : List Nat) (bonds : List RBond) (i n : Nat) (a : Atom) :
    Except BErr (Option RdChiral) :=
  match a.stereo with
  | none => .ok none
  | some _ =>
    match env.stet.lookup n with
    | none => .ok none                                -- "allenes are not supported"
    | some order => do
      let nb ← nbrNumbers ids bonds i
      let s ← liftPy (translateTetra order nb (isHOf m) a.stereo none)
      pure (some (tagOfSign s))

def setTags (m : Mol) (env : StereoEnv) (ids : List Nat) (bonds : List RBond) :
    Nat → List (Nat × Atom) → List RAtom → Except BErr (List RAtom)
  | _, [], _ => .ok []
  | _, _ :: _, [] => .error (.py .keyError)
  | i, (n, a) :: rest, ra :: ras => do
    let t ← toTag m env ids bonds i n a
    let tl ← setTags m env ids bonds (i + 1) rest ras
    pure ((match t with | some tg => { ra with tag := tg } | none => ra) :: tl)

def bondedR (bonds : List RBond) (i j : Nat) : Bool :=
  bonds.any fun b => (b.bgn == i && b.end_ == j) || (b.bgn == j && b.end_ == i)

/-- the stereo the code sets for label `s` -/
def stereoOfSign (s : Bool) : RdStereo := if s then stereoCis else stereoTrans

/-- cis-trans loop body for one chython bond `(n, k, b)`; `none` = bond untouched; otherwise
`(mapping[n], mapping[k], stereo, (mapping[n1], mapping[m1]), mapping[nm[0]])`. -/
def toBondStereo (env : StereoEnv) (ids : List Nat) (nkb : Nat × Nat × Bond) :
    Except BErr (Option (Nat × Nat × RdStereo × (Nat × Nat) × Nat)) := do
  let (n, k, b) := nkb
  match b.stereo with
  | none => pure none
  | some s =>
    match env.centers.lookup n with
    | none => pure none
    | some (c0, c1) =>
      if !(n == c0 || n == c1) || !(k == c0 || k == c1) then pure none      -- "check for simple cis-trans"
      else do
        let e ← liftPy (getKey env.sct (c0, c1))
        let i ← idxOf ids n
        let j ← idxOf ids k
        let s0 ← idxOf ids e.n0
        let s1 ← idxOf ids e.n1
        let i0 ← idxOf ids c0
        pure (some (i, j, stereoOfSign s, (s0, s1), i0))

/-- `rb = GetBondBetweenAtoms(i, j)`; `if rb.GetBeginAtomIdx() != mapping[nm[0]]: n1, m1 = m1, n1` (since repo commit
a2868f9; before it the pair was passed as is and RDKit raised for reversed bonds, see known_findings/C20.json);
`SetStereoAtoms(bgnIdx, endIdx)` has the RDKit precondition "bgnIdx is bonded to the begin atom, endIdx to the end atom". -/
def applyStereo (bonds : List RBond) (i j : Nat) (st : RdStereo) (sa : Nat × Nat) (i0 : Nat) : Except BErr (List RBond) :=
  match bonds.find? (fun b => (b.bgn == i && b.end_ == j) || (b.bgn == j && b.end_ == i)) with
  | none => .error .argument                           -- `GetBondBetweenAtoms` gave `None`; unreachable: the bond was just added
  | some rb =>
    let sa' := if rb.bgn != i0 then (sa.2, sa.1) else sa
    if bondedR bonds rb.bgn sa'.1 && bondedR bonds rb.end_ sa'.2 then
      .ok (bonds.map fun b => if b.bgn == rb.bgn && b.end_ == rb.end_ then { b with stereo := st, satoms := some sa' } else b)
    else .error .runtime

def setBondStereo (env : StereoEnv) (ids : List Nat) :
    List (Nat × Nat × Bond) → List RBond → Except BErr (List RBond)
  | [], bonds => .ok bonds
  | nkb :: rest, bonds => do
    match ← toBondStereo env ids nkb with
    | none => setBondStereo env ids rest bonds
    | some (i, j, st, sa, i0) => do
      let bonds' ← applyStereo bonds i j st sa i0
      setBondStereo env ids rest bonds'

/-- `to_rdkit_molecule(data, keep_mapping=keep)` up to (not including) `SanitizeMol` -/
def toRdWith (c : CMol) (env : StereoEnv) (keep : Bool) : Except BErr RMol := do
  let m := c.mol
  let ids := m.ids
  let atoms0 ← m.atoms.mapM fun (n, a) => toAtom keep n a
  let cb := m.bonds
  let bonds0 ← cb.mapM (toBond m ids)
  let atoms1 ← setTags m env ids bonds0 0 m.atoms atoms0
  let bonds1 ← setBondStereo env ids cb bonds0
  pure { atoms := atoms1, bonds := bonds1, pos := some c.xy }

def toRd (c : CMol) (keep : Bool) : Except BErr RMol := do
  let env ← liftPy (stereoEnvOf c.mol)
  toRdWith c env keep

/-! ## `from_rdkit_molecule` -/

/-- `Element.from_symbol(ra.GetSymbol())(isotope or None, charge=…, is_radical=…, parsed_mapping=…, implicit_hydrogens=…)`.
Element lookup fails for a dummy atom; the isotope and charge setters validate. Returns the atom and `parsed_mapping`. -/
def fromAtom (a : RAtom) : Except BErr (Atom × Nat) :=
  match rowOf a.z with
  | none => .error (.py .valueError)                  -- `Element with symbol "*" not found`
  | some row =>
    if a.isotope != 0 && !(row.dist.any (·.1 == a.isotope)) then .error (.py .valueError)
    else if a.charge > 4 || a.charge < -4 then .error (.py .valueError)
    else
      .ok ({ z := a.z, isotope := if a.isotope != 0 then some a.isotope else none, charge := a.charge,
             radical := a.radicalE != 0, implH := some (a.explicitHs + a.implicitHs), stereo := none }, a.mapNum)

/-- `Graph.add_bond` on the adjacency dict -/
def addBond (adj : List (Nat × List (Nat × Bond))) (n k : Nat) (b : Bond) :
    Except BErr (List (Nat × List (Nat × Bond))) :=
  if n = k then .error .mapping
  else match adj.lookup n, adj.lookup k with
    | some _, some kn =>
      if kn.any (·.1 == n) then .error .mapping
      else .ok (adj.map fun (x, nb) => (x, if x = n then nb ++ [(k, b)] else if x = k then nb ++ [(n, b)] else nb))
    | _, _ => .error .atomNotFound

/-- the bond loop: builds the adjacency and collects `cis_trans_stereo` -/
def fromBonds : List RBond → List (Nat × List (Nat × Bond)) → List (Nat × Nat × Nat × Nat × Bool) →
    Except BErr (List (Nat × List (Nat × Bond)) × List (Nat × Nat × Nat × Nat × Bool))
  | [], adj, ct => .ok (adj, ct)
  | b :: rest, adj, ct => do
    let n := b.bgn + 1
    let k := b.end_ + 1
    let o ← bondOrderOf b.type
    let adj' ← addBond adj n k { order := o }
    if b.stereo == stereoCis || b.stereo == stereoTrans then
      match b.satoms with
      | none => .error (.py .valueError)              -- `nn, nm = ()` cannot unpack
      | some (x, y) => fromBonds rest adj' (ct ++ [(n, k, x + 1, y + 1, b.stereo == stereoCis)])
    else fromBonds rest adj' ct

def setAtomStereo (m : Mol) (n : Nat) (s : Bool) : Mol :=
  { m with atoms := m.atoms.map fun (k, a) => if k == n then (k, { a with stereo := some s }) else (k, a) }

def setBondLabel (m : Mol) (n k : Nat) (s : Bool) : Mol :=
  { m with adj := m.adj.map fun (x, nb) =>
      if x == n then (x, nb.map fun (y, b) => if y == k then (y, { b with stereo := some s }) else (y, b))
      else if x == k then (x, nb.map fun (y, b) => if y == n then (y, { b with stereo := some s }) else (y, b))
      else (x, nb) }

/-- "move stereo labels as is", tetrahedron part: `KeyError` is swallowed, anything else propagates -/
def moveTetra (env : StereoEnv) (isH : Nat → Bool) : List (Nat × List Nat × Bool) → Mol → Except BErr Mol
  | [], m => .ok m
  | (n, nb, s) :: rest, m =>
    match env.stet.lookup n with
    | none => moveTetra env isH rest m
    | some order =>
      match translateTetra order nb isH none (some s) with
      | .ok v => moveTetra env isH rest (setAtomStereo m n v)
      | .error .keyError => moveTetra env isH rest m
      | .error e => .error (.py e)

def moveCisTrans (env : StereoEnv) (isH : Nat → Bool) : List (Nat × Nat × Nat × Nat × Bool) → Mol → Except BErr Mol
  | [], m => .ok m
  | (n, k, nn, nk, s) :: rest, m =>
    match translateCisTrans env.sct isH n k nn nk none (some s) with
    | .ok v => moveCisTrans env isH rest (setBondLabel m n k v)
    | .error .keyError => moveCisTrans env isH rest m
    | .error e => .error (.py e)

/-- the graph part of `from_rdkit_molecule` (atoms, bonds, coordinates) and the collected stereo requests.
`nbrs i` = `[x.GetIdx() for x in atom_i.GetNeighbors()]` as RDKit reports it. -/
def fromGraph (r : RMol) (nbrs : List (List Nat)) :
    Except BErr (CMol × List (Nat × List Nat × Bool) × List (Nat × Nat × Nat × Nat × Bool)) := do
  let as ← r.atoms.mapM fromAtom
  let n := as.length
  let ids := (List.range n).map (· + 1)
  let atoms := ids.zip (as.map (·.1))
  let adj0 : List (Nat × List (Nat × Bond)) := ids.map (·, [])
  let tet := ((List.range n).zip (r.atoms.zip nbrs)).filterMap fun (i, a, nb) =>
    if a.tag == chiralCw || a.tag == chiralCcw then some (i + 1, nb.map (· + 1), a.tag == chiralCcw) else none
  let (adj, ct) ← fromBonds r.bonds adj0 []
  let xy := match r.pos with
    | some p => (List.range n).map fun i => p[i]?.getD (0, 0)   -- zip(mol.atoms(), positions): one position per atom
    | none => List.replicate n (0, 0)
  pure (⟨⟨atoms, adj⟩, as.map (·.2), xy⟩, tet, ct)

/-- `from_rdkit_molecule(data)` up to (not including) `fix_structure` / `fix_stereo`, with the stereo dictionaries given -/
def fromRdWith (r : RMol) (nbrs : List (List Nat)) (env : StereoEnv) : Except BErr CMol := do
  let (c, tet, ct) ← fromGraph r nbrs
  let isH := isHOf c.mol
  let m1 ← moveTetra env isH tet c.mol
  let m2 ← moveCisTrans env isH ct m1
  pure { c with mol := m2 }

def fromRd (r : RMol) (nbrs : List (List Nat)) : Except BErr CMol := do
  let (c, _, _) ← fromGraph r nbrs
  let env ← liftPy (stereoEnvOf c.mol)
  fromRdWith r nbrs env

end ChythonModel.Model.C20
