import ChythonModel.Model.C02RoundTrip
import ChythonModel.Model.C03Front
/-!
# C02 — re-reading the model's text with the reader model of C03 and judging it under the written atom order
(no canonicaliser involved; imported by the driver only)
-/
namespace ChythonModel.Model.C02RT
open ChythonModel.Model ChythonModel.Model.SmilesWriter


def strOf (s : Str) : String := String.ofList (s.map Char.ofNat)

def showC03Err : C03.Err → String
  | .lib c _ => "lib:" ++ c
  | .crash c => "crash:" ++ c

def bondOrderOut (out : C03.MolOut) (a b : Nat) : Option Nat :=
  match C03.lookupNat a out.adj with
  | some l => C03.lookupNat b l
  | none => none

/-- compare atom `i` of the re-read molecule with atom `order[i]` of the original; returns the list of differences -/
def judge (m : Mol) (order : List Nat) (opts : Opts) (out : C03.MolOut) : List String :=
  if out.atoms.length != order.length || order.length != m.atoms.length then ["atom-count"]
  else
    let pairs := out.atoms.zip order
    let atomDiffs := pairs.flatMap fun (ra, n) =>
      match m.atom? n with
      | none => ["missing-atom"]
      | some a =>
        let (_, z, iso, ch, rad, h) := ra
        (if z != a.z then [s!"element@{n}"] else []) ++
        (if iso != (match a.isotope with | some 0 => none | x => x) then [s!"isotope@{n}"] else []) ++
        (if opts.charges && ch != a.charge then [s!"charge@{n}"] else []) ++
        (if opts.cx && rad != a.radical then [s!"radical@{n}"] else []) ++
        (match h with | some k => if k != a.implH.getD 0 then [s!"hcount@{n}"] else [] | none => [])
    let bondDiffs := pairs.flatMap fun (ra, n) => pairs.flatMap fun (rb, k) =>
      if n < k then
        let want := (m.bond? n k).map (·.order)
        let got := bondOrderOut out ra.1 rb.1
        if opts.bonds then (if want != got then [s!"bond@{n}-{k}"] else [])
        else (if want.isSome != got.isSome then [s!"bond@{n}-{k}"] else [])
      else []
    atomDiffs ++ bondDiffs

/-! ## stereo: the marks of the re-read record, interpreted with the reader rules of C12, against the stored labels -/

/-- text-order neighbours of the atom at position `i`, as original atom numbers -/
def envAt (r : C03.MolRec) (order : List Nat) (i : Nat) : Option (List Nat) :=
  (C03.orderGet r.order i).mapM fun o => o.bind fun j => order[j]?

def posOfAtom (order : List Nat) (n : Nat) : Option Nat :=
  let i := order.findIdx (· == n)
  if i < order.length then some i else none

/-- tetrahedral and allene labels: `postprocess_molecule` + `add_atom_stereo` on the re-read record -/
def stereoAtomDiffs (m : Mol) (order : List Nat) (se : SEnv) (r : C03.MolRec) : List String :=
  order.zipIdx.flatMap fun (n, i) =>
    match m.atom? n with
    | none => []
    | some a =>
      match a.stereo, C03.lookupNat i r.stereoAtoms with
      | none, none => []
      | none, some _ => if (se.tetra.lookup n).isSome || (se.allTerm.lookup n).isSome then [s!"stereo-extra@{n}"] else []
      | some _, none => [s!"stereo-lost@{n}"]
      | some s, some mark =>
        match se.allTerm.lookup n with
        | some (t1, t2) =>
          match se.allenes.lookup n, (posOfAtom order t1).bind (envAt r order), (posOfAtom order t2).bind (envAt r order) with
          | some e, some o1, some o2 =>
            match Stereo.readerAlleneSign e o1 o2 (isHAtom m) mark with
            | .ok s' => if s' == s then [] else [s!"allene@{n}"]
            | .error _ => [s!"allene-error@{n}"]
          | _, _, _ => [s!"allene-env@{n}"]
        | none =>
          match se.tetra.lookup n, envAt r order i with
          | some ord, some ev =>
            match Stereo.readerTetraSign ord ev (isHAtom m) (r.starts.contains i) (a.implH.getD 0) mark with
            | .ok s' => if s' == s then [] else [s!"tetrahedron@{n}"]
            | .error _ => [s!"tetrahedron-error@{n}"]
          | _, _ => [s!"tetrahedron-env@{n}"]

/-- the cis/trans loop of `postprocess_molecule`: `(n, m, n1, n2, s1 == s2)` per double-bond system, positions → atoms -/
def ctTuples (order : List Nat) (se : SEnv) :
    C03.SBonds → C03.SBonds → List Nat → List (Nat × Nat × Nat × Nat × Bool)
  | [], _, _ => []
  | (i, ns) :: tl, all, seen =>
    if seen.contains i then ctTuples order se tl all seen
    else
      match order[i]? with
      | none => ctTuples order se tl all seen
      | some n =>
        match se.ctcp.lookup n with
        | none => ctTuples order se tl all seen
        | some mAtom =>
          match posOfAtom order mAtom with
          | none => ctTuples order se tl all seen
          | some j =>
            match C03.lookupNat j all, ns.getLast? with
            | some ms, some (i1, s1) =>
              match ms.getLast?, order[i1]? with
              | some (i2, s2), some n1 =>
                match order[i2]? with
                | some n2 => (n, mAtom, n1, n2, s1 == s2) :: ctTuples order se tl all (j :: seen)
                | none => ctTuples order se tl all (j :: seen)
              | _, _ => ctTuples order se tl all (j :: seen)
            | _, _ => ctTuples order se tl all seen

def stereoBondDiffs (m : Mol) (order : List Nat) (se : SEnv) (r : C03.MolRec) : List String :=
  let tuples := ctTuples order se r.stereoBonds r.stereoBonds []
  -- every labelled double-bond system of the original must be re-read with the same label
  let labelled := se.sct.filterMap fun (p : (Nat × Nat) × Stereo.Ends) =>
    match se.ctc.lookup p.1.1 with
    | some (ci, cj) => match (m.bond? ci cj).bind (·.stereo) with
      | some s => some (p.1, s)
      | none => none
    | none => none
  labelled.flatMap fun (term, s) =>
    match tuples.find? (fun t => (t.1 == term.1 && t.2.1 == term.2) || (t.1 == term.2 && t.2.1 == term.1)) with
    | none => [s!"cis-trans-lost@{term.1}-{term.2}"]
    | some (n, mA, n1, n2, mark) =>
      match Stereo.translateCisTrans se.sct (isHAtom m) n mA n1 n2 none (some mark) with
      | .ok s' => if s' == s then [] else [s!"cis-trans@{term.1}-{term.2}"]
      | .error _ => [s!"cis-trans-error@{term.1}-{term.2}"]

def roundTrip (m : Mol) (env : Env) (opts : Opts) : String :=
  match write m env opts with
  | .error e => "err " ++ e.name
  | .ok (text, order) =>
    match C03.smiles text with
    | .error e => "reader " ++ showC03Err e ++ " " ++ strOf text
    | .ok (.rxn _ _ _) => "reader reaction " ++ strOf text
    | .ok (.mol rec out) =>
      let sd := if opts.stereo && hasStereo m then
          stereoAtomDiffs m order (sEnvOf env) rec ++ stereoBondDiffs m order (sEnvOf env) rec else []
      match judge m order opts out ++ sd with
      | [] => "ok iso " ++ strOf text
      | ds => "ok DIFF " ++ ",".intercalate (ds.take 6) ++ " " ++ strOf text

end ChythonModel.Model.C02RT
