import ChythonModel.Gen.C03Tables
/-!
# C03 — model of `chython/files/daylight/tokenize.py` (`_tokenize`, `_atom_parse`, `smiles_tokenize`)

Characters are code points (`Nat`), strings are `List Nat`.  The state machine `_tokenize` is transcribed branch by
branch in source order; `token_type` is a `Nat` with `noneTy` standing for Python's `None`; the pending `token`
is a small sum type with Python truthiness.  Every `raise` is an `Err.lib` with the class of the exception; every
Python operation that *could* raise something else (pop from an empty list, dict lookup, `''.join(None)`, …) is
modelled as `Err.crash` — `Props/C03.lean` proves that no input reaches one of those.

Domain note: the correspondence alphabet is ASCII (`str.split()` whitespace is modelled for ASCII).
-/
namespace ChythonModel.Model.C03
open ChythonModel.Gen.C03

abbrev Str := List Nat

inductive Err
  | lib (cls : String) (msg : String)
  | crash (cls : String)
  deriving Repr, DecidableEq, Inhabited

def Err.isCrash : Err → Bool
  | .crash _ => true
  | .lib _ _ => false

def smilesErr (m : String) : Err := .lib "IncorrectSmiles" m
def smartsErr (m : String) : Err := .lib "IncorrectSmarts" m
def valueErr (m : String) : Err := .lib "ValueError" m

/-- value slot of a raw token `(type, value)` -/
inductive Val
  | none
  | str (s : Str)
  | int (n : Nat)
  | bool (b : Bool)
  | ints (l : List Nat)
  | chars (l : Str)
  | qbond (orders : List Nat) (inRing : Bool)
  deriving Repr, DecidableEq, Inhabited

structure RTok where
  ty : Nat
  val : Val
  deriving Repr, DecidableEq, Inhabited

/-- the pending `token` variable of `_tokenize` -/
inductive Pend
  | none
  | sym (c : Nat)          -- 'C' or 'B'
  | chars (l : Str)        -- list of characters (inside [...] or after %)
  | ints (l : List Nat)    -- bond list under construction
  | tru                    -- True: "!" seen after ";"
  deriving Repr, DecidableEq, Inhabited

def Pend.truthy : Pend → Bool
  | .none => false
  | .sym _ => true
  | .chars l => !l.isEmpty
  | .ints l => !l.isEmpty
  | .tru => true

def Pend.toVal : Pend → Val
  | .none => .none
  | .sym c => .str [c]
  | .chars l => .chars l
  | .ints l => .ints l
  | .tru => .bool true

/-- `None` as a token type -/
def noneTy : Nat := 100

structure TState where
  ttype : Nat := noneTy
  token : Pend := .none
  toks : List RTok := []      -- reversed: head = last appended
  deriving Repr, Inhabited

def TState.push (st : TState) (t : RTok) : TState := { st with toks := t :: st.toks }

/-- `if token: tokens.append((token_type, token))` -/
def TState.flush (st : TState) : TState :=
  if st.token.truthy then st.push ⟨st.ttype, st.token.toVal⟩ else st

def lookupNat {β} (k : Nat) : List (Nat × β) → Option β
  | [] => none
  | (a, b) :: tl => if a == k then some b else lookupNat k tl

/-- `s in '0123456789'` (regenerated class) -/
def isDigit (c : Nat) : Bool := digitChars.contains c

/-- `[0-9]` of the CXSMILES regexes -/
def isDigit09 (c : Nat) : Bool := 48 ≤ c && c ≤ 57

def digitsToNat (s : Str) : Nat := s.foldl (fun acc c => acc * 10 + (c - 48)) 0

def insertSorted (x : Nat) : List Nat → List Nat
  | [] => [x]
  | y :: tl => if x < y then x :: y :: tl else if x == y then y :: tl else y :: insertSorted x tl

/-- `tuple(sorted(set(order)))` -/
def sortDedup (l : List Nat) : List Nat := l.foldr insertSorted []

def validOrder (n : Nat) : Bool := n == 1 || n == 4 || n == 2 || n == 3 || n == 8

/-- `QueryBond(order, in_ring)` -/
def mkQueryBond (v : Val) (inRing : Bool) : Except Err Val :=
  match v with
  | .int n => if validOrder n then .ok (.qbond [n] inRing) else .error (valueErr "order should be from [1, 2, 3, 4, 8]")
  | .ints l => if l.all validOrder then .ok (.qbond (sortDedup l) inRing)
               else .error (valueErr "order should be from [1, 2, 3, 4, 8]")
  | _ => .error (.crash "TypeError")

/-- `token = None` after `if token: tokens.append(...)` (a falsy token is left as it is) -/
def TState.clearTok (st : TState) : Pend := if st.token.truthy then .none else st.token

/-- flush a pending token, append `t`, set the token type -/
def TState.emit (st : TState) (t : RTok) (ty : Nat) : TState :=
  { (st.flush.push t) with token := st.clearTok, ttype := ty }

/-- branch `if token_type == 12:` (after `;`) -/
def stepRing (st : TState) (s : Nat) : Except Err TState :=
  if s == 33 then                                           -- '!'
    if st.token.truthy then .error (smartsErr "Invalid ring bond token")
    else .ok { st with token := .tru }
  else if s == 64 then                                      -- '@'
    match st.toks with
    | [] => .error (smartsErr "Invalid ring bond token")
    | t :: rest =>
      if t.ty != 1 && t.ty != 10 then .error (smartsErr "Invalid ring bond token")
      else match mkQueryBond t.val (!st.token.truthy) with
        | .ok q => .ok { ttype := noneTy, token := .none, toks := ⟨12, q⟩ :: rest }
        | .error e => .error e
  else .error (smartsErr "Invalid ring bond token")

/-- branch `elif s == '[':` -/
def stepOpen (st : TState) : Except Err TState :=
  let tt := st.ttype
  if tt == 5 then .error (smilesErr "[..[")
  else if tt == 10 || tt == 11 then .error (smartsErr "Query bond invalid")
  else if tt == 7 then .error (smilesErr "invalid closure")
  else .ok { st.flush with token := .chars [], ttype := 5 }

/-- branch `elif s == ']':` -/
def stepClose (st : TState) : Except Err TState :=
  if st.ttype != 5 then .error (smilesErr "]..]")
  else if !st.token.truthy then .error (smilesErr "empty [] brackets")
  else match st.token with
    | .chars l => .ok { (st.push ⟨5, .str l⟩) with token := .none, ttype := 0 }
    | _ => .error (.crash "TypeError")

/-- branch `elif token_type == 5:` -/
def stepInside (st : TState) (s : Nat) : Except Err TState :=
  match st.token with
  | .chars l => .ok { st with token := .chars (l ++ [s]) }
  | _ => .error (.crash "AttributeError")

/-- branch `elif s.isnumeric():` -/
def stepDigit (st : TState) (s : Nat) : Except Err TState :=
  let tt := st.ttype
  if tt == 10 || tt == 11 then .error (smartsErr "Query bond invalid")
  else if tt == 2 then .error (smilesErr "(1 case invalid")
  else if tt == 7 then
    if !st.token.truthy && s == 48 then .error (smilesErr "number starts with 0")
    else match st.token with
      | .chars l =>
        let l' := l ++ [s]
        if l'.length == 2 then .ok { (st.push ⟨6, .int (digitsToNat l')⟩) with token := .none, ttype := 6 }
        else .ok { st with token := .chars l' }
      | _ => .error (.crash "AttributeError")
  else
    if s == 48 then .error (smilesErr "number starts with 0")
    else .ok (st.emit ⟨6, .int (s - 48)⟩ 6)

/-- branch `elif s == '%':` -/
def stepPercent (st : TState) : Except Err TState :=
  let tt := st.ttype
  if tt == 10 || tt == 11 then .error (smartsErr "Query bond invalid")
  else if tt == 2 then .error (smilesErr "(%10 case invalid")
  else .ok { st.flush with ttype := 7, token := .chars [] }

/-- branch `elif s in '=#:-~':` -/
def stepBond (st : TState) (s : Nat) : Except Err TState :=
  let tt := st.ttype
  if tt == 10 then
    match st.token, lookupNat s replaceDict with
    | .ints l, some o => .ok { ttype := noneTy, token := .none, toks := ⟨10, .ints (l ++ [o])⟩ :: st.toks }
    | _, none => .error (.crash "KeyError")
    | _, _ => .error (.crash "AttributeError")
  else if tt == 11 then
    match lookupNat s notDict with
    | none => .error (smartsErr "Query bond invalid")
    | some l => .ok { (st.push ⟨10, .ints l⟩) with ttype := noneTy }
  else
    match lookupNat s replaceDict with
    | none => .error (.crash "KeyError")
    | some o => .ok (st.emit ⟨1, .int o⟩ 1)

/-- branch `elif s == ';':` -/
def stepSemi (st : TState) : Except Err TState :=
  if st.ttype != noneTy && st.ttype != 1 then .error (smartsErr "Ring bond token invalid")
  else .ok { st with ttype := 12 }

/-- branch `elif s == ',':` -/
def stepComma (st : TState) : Except Err TState :=
  if st.ttype != 1 then .error (smartsErr "Query bond invalid")
  else match st.toks with
    | [] => .error (.crash "IndexError")
    | t :: rest =>
      match t.val with
      | .int n => .ok { ttype := 10, token := .ints [n], toks := rest }
      | _ => .error (.crash "ModelShape")

/-- branch `elif s == '!':` -/
def stepBang (st : TState) : Except Err TState :=
  let tt := st.ttype
  if !(tt == 0 || tt == 2 || tt == 3 || tt == 6 || tt == 8) then .error (smartsErr "Query bond invalid")
  else .ok { st.flush with token := st.clearTok, ttype := 11 }

/-- branch `elif token_type == 0:` (second letter of Cl / Br) -/
def stepSecond (st : TState) (s : Nat) : Except Err TState :=
  if s == 108 then                                          -- 'l'
    if st.token == .sym 67 then .ok { (st.push ⟨0, .str [67, 108]⟩) with token := .none }
    else .error (smilesErr "invalid element Bl")
  else if s == 114 then                                     -- 'r'
    if st.token == .sym 66 then .ok { (st.push ⟨0, .str [66, 114]⟩) with token := .none }
    else .error (smilesErr "invalid smiles for Cr")
  else .error (smilesErr "invalid smiles")

/-- one iteration of `for s in smiles:` — the `if/elif` chain in source order -/
def step (st : TState) (s : Nat) : Except Err TState :=
  if st.ttype == 12 then stepRing st s
  else if s == 91 then stepOpen st                            -- '['
  else if s == 93 then stepClose st                           -- ']'
  else if st.ttype == 5 then stepInside st s
  else if isDigit s then stepDigit st s
  else if st.ttype == 7 then .error (smilesErr "expected closure number")
  else if s == 37 then stepPercent st                         -- '%'
  else if bondChars.contains s then stepBond st s
  else if st.ttype == 10 || st.ttype == 11 then .error (smartsErr "query bond invalid")
  else if slashChars.contains s then .ok (st.emit ⟨9, .bool (s == 47)⟩ 9)
  else if s == 46 then .ok (st.emit ⟨4, .none⟩ 4)             -- '.'
  else if s == 59 then stepSemi st                            -- ';'
  else if s == 44 then stepComma st                           -- ','
  else if s == 33 then stepBang st                            -- '!'
  else if s == 40 then                                        -- '('
    if st.ttype == 2 then .error (smilesErr "((") else .ok (st.emit ⟨2, .none⟩ 2)
  else if s == 41 then                                        -- ')'
    if st.ttype == 2 then .error (smilesErr "()") else .ok (st.emit ⟨3, .none⟩ 3)
  else if organicChars.contains s then .ok (st.emit ⟨0, .str [s]⟩ 0)
  else if aromaticChars.contains s then .ok (st.emit ⟨8, .str [s - 32]⟩ 8)
  else if clBrChars.contains s then .ok { st.flush with ttype := 0, token := .sym s }
  else if st.ttype == 0 then stepSecond st s
  else .error (smilesErr "invalid smiles")

/-- the `for` loop -/
def run : TState → Str → Except Err TState
  | st, [] => .ok st
  | st, c :: cs => match step st c with
    | .ok st' => run st' cs
    | .error e => .error e

/-- the code after the loop -/
def finish (st : TState) : Except Err (List RTok) :=
  let tt := st.ttype
  if tt == 5 then .error (smilesErr "atom description has not finished")
  else if tt == 7 then
    if st.token.truthy then
      match st.token with
      | .chars (c :: _) => .ok (st.push ⟨6, .int (c - 48)⟩).toks.reverse
      | _ => .error (.crash "TypeError")
    else .error (smilesErr "invalid %closure")
  else if tt == 11 || (tt == 12 && !st.token.truthy) then .error (smartsErr "Query bond invalid")
  else .ok st.flush.toks.reverse

/-- `_tokenize(smiles)` -/
def tokenizeRaw (s : Str) : Except Err (List RTok) :=
  match run {} s with
  | .ok st => finish st
  | .error e => .error e

/-! ## `_atom_parse` -/

def inRanges (c : Nat) (r : List (Nat × Nat)) : Bool := r.any fun p => p.1 ≤ c && c ≤ p.2

/-- consume at most `k` leading characters of the class -/
def takeClass (r : List (Nat × Nat)) : Nat → Str → Str × Str
  | 0, s => ([], s)
  | _, [] => ([], [])
  | k+1, c :: cs => if inRanges c r then let (a, b) := takeClass r k cs; (c :: a, b) else ([], c :: cs)

/-- the items of one group, greedy -/
def matchItems : List (List (Nat × Nat) × Nat × Nat) → Str → Option (Str × Str)
  | [], s => some ([], s)
  | (r, lo, hi) :: tl, s =>
    let (a, rest) := takeClass r hi s
    if a.length < lo then none
    else match matchItems tl rest with
      | some (b, rest') => some (a ++ b, rest')
      | none => none

/-- `atom_re.fullmatch`: captures of the groups, `none` for a group that did not take part -/
def matchGroups : List (Bool × List (List (Nat × Nat) × Nat × Nat)) → Str → Option (List (Option Str))
  | [], s => if s.isEmpty then some [] else none
  | (opt, items) :: tl, s =>
    match matchItems items s with
    | some (cap, rest) => (matchGroups tl rest).map (some cap :: ·)
    | none => if opt then (matchGroups tl s).map (none :: ·) else none

/-- the dict handed to `Element(**atom)`; `bracket = false` is the one-key dict `{'element': …}` -/
structure AtomTok where
  element : Str
  bracket : Bool := false
  isotope : Option Nat := none
  mapping : Option Nat := none
  charge : Int := 0
  hyd : Option Nat := none
  stereo : Option Bool := none
  radical : Bool := false
  deriving Repr, DecidableEq, Inhabited

def lookupStr {β} (k : Str) : List (Str × β) → Option β
  | [] => none
  | (a, b) :: tl => if a == k then some b else lookupStr k tl

/-- `str.capitalize()` on ASCII letters -/
def capitalize : Str → Str
  | [] => []
  | c :: cs => (if 97 ≤ c && c ≤ 122 then c - 32 else c) :: cs.map fun d => if 65 ≤ d && d ≤ 90 then d + 32 else d

def atomParse (token : Str) : Except Err (Nat × AtomTok) :=
  match matchGroups atomRe token with
  | none => .error (smilesErr "atom token invalid")
  | some [isotope, some element, stereo, hydrogen, charge, mapping] =>
    let iso := isotope.map digitsToNat
    let st := stereo.map (· == [64])
    let h : Nat := match hydrogen with
      | some cap => if cap.length > 1 then digitsToNat (cap.drop 1) else 1
      | none => 0
    let ch : Except Err Int := match charge with
      | some cap => match lookupStr cap chargeDict with
        | some v => .ok v
        | none => .error (smilesErr "charge token invalid")
      | none => .ok 0
    match ch with
    | .error e => .error e
    | .ok chv =>
      let mp := mapping.map fun cap => digitsToNat (cap.drop 1)
      let arom := aromaticBracket.contains element
      .ok (if arom then 8 else 0,
           { element := if arom then capitalize element else element, bracket := true, isotope := iso, mapping := mp,
             charge := chv, hyd := some h, stereo := st })
  | some _ => .error (.crash "ValueError-unpack")

/-! ## `smiles_tokenize` -/

inductive Tok
  | atom (ty : Nat) (a : AtomTok)     -- 0 aliphatic / 8 aromatic
  | bond (o : Nat)                    -- 1
  | lpar                              -- 2
  | rpar                              -- 3
  | dot                               -- 4
  | cyc (n : Nat)                     -- 6
  | dir (up : Bool)                   -- 9
  | other (ty : Nat) (v : Val)        -- any (type, value) pair of another shape (proved unreachable)
  deriving Repr, DecidableEq, Inhabited

def convTok (t : RTok) : Except Err Tok :=
  if t.ty == 0 || t.ty == 8 then
    match t.val with
    | .str s => .ok (.atom t.ty { element := s })
    | v => .ok (.other t.ty v)
  else if t.ty == 5 then
    match t.val with
    | .str s => (atomParse s).map fun p => Tok.atom p.1 p.2
    | _ => .error (.crash "AttributeError")
  else if t.ty == 10 || t.ty == 12 then .error (smilesErr "SMARTS detected")
  else match t.ty, t.val with
    | 1, .int o => .ok (.bond o)
    | 2, _ => .ok .lpar
    | 3, _ => .ok .rpar
    | 4, _ => .ok .dot
    | 6, .int n => .ok (.cyc n)
    | 9, .bool b => .ok (.dir b)
    | ty, v => .ok (.other ty v)

def convToks : List RTok → Except Err (List Tok)
  | [] => .ok []
  | t :: tl => match convTok t with
    | .error e => .error e
    | .ok x => match convToks tl with
      | .error e => .error e
      | .ok xs => .ok (x :: xs)

/-- `smiles_tokenize(smi)` -/
def smilesTokenize (s : Str) : Except Err (List Tok) :=
  match tokenizeRaw s with
  | .error e => .error e
  | .ok raw => convToks raw

end ChythonModel.Model.C03
