import ChythonModel.Model.Valence
/-!
# The loop body of `Standardize.__standardize` for ONE rule, and its hydrogen recount (C04)

```python
hs = set(); seen = set()
for mapping in pattern.get_mapping(self, automorphism_filter=False):
    match = set(mapping.values())
    if not match.isdisjoint(seen): continue
    if any_atoms: seen.update(match - {mapping[n] for n in any_atoms})
    else:         seen.update(match)
    for n, (ch, ir) in atom_fix.items():
        n = mapping[n]; hs.add(n); a = atoms[n]
        a._charge += ch
        if a.charge > 4: a._charge -= ch; log.append(...); break
        if ir is not None: a._is_radical = ir
    else:
        for n, m, bo in bonds_fix:
            n = mapping[n]; m = mapping[m]; hs.add(n); hs.add(m)
            if m in bonds[n]: b = bonds[n][m]; ...; b._order = bo
            else: bonds[n][m] = bonds[m][n] = Bond(bo)
        log.append(...)
if not hs: continue
self.flush_cache(...); self.calc_labels()
for n in hs: self.calc_implicit(n)
```

The substructure matcher is *not* part of this model: the mappings the real (lazy) generator yielded while the loop mutated the
molecule are recorded by the harness and given to `stdRule` as a list, so the model covers everything between a yielded mapping
and the hydrogen marks the rule leaves. `none` = the Python code raises `KeyError` (a mapping that does not name a pattern atom
of the rule, a mapped atom that is not in the molecule).

Python `set` = list without commitment to an order: `seen` / `hs` are only tested for membership, and the recount loop over
`hs` is independent of the order (`Props.C04.standardize_recount_order_irrelevant`).
-/
namespace ChythonModel.Model.C04Standardize
open ChythonModel.Model ChythonModel.Model.Valence

/-- what the loop body reads of a rule tuple `(pattern, atom_fix, bonds_fix, any_atoms, is_tautomer)`:
    `atom_fix` items in dict order `(pattern atom, charge delta, is_radical | None)`, `bonds_fix` triples, `any_atoms` -/
structure RuleFix where
  atomFix : List (Nat × Int × Option Bool)
  bondsFix : List (Nat × Nat × Nat)
  anyAtoms : List Nat
  deriving Repr, DecidableEq

/-- locals of the loop: the molecule being rewritten, `seen`, `hs` -/
structure St where
  mol : Mol
  seen : List Nat
  hs : List Nat
  deriving Repr, DecidableEq

/-- `a._charge += ch; if ir is not None: a._is_radical = ir` on the atom stored under `n` -/
def fixAtomEntry (n : Nat) (ch : Int) (ir : Option Bool) (p : Nat × Atom) : Nat × Atom :=
  if p.1 == n then (p.1, { p.2 with charge := p.2.charge + ch, radical := ir.getD p.2.radical }) else p

/-- the `atom_fix` loop; the flag says the loop was left through `break` (charge would exceed 4: the addition is taken
    back, the radical state is not written, the atom is already in `hs`) -/
def atomFixLoop (mp : List (Nat × Nat)) : List (Nat × Int × Option Bool) → Mol → List Nat → Option (Mol × List Nat × Bool)
  | [], m, hs => some (m, hs, false)
  | (pn, ch, ir) :: tl, m, hs =>
    match mp.lookup pn with
    | none => none
    | some n =>
      match m.atoms.lookup n with
      | none => none
      | some a =>
        if a.charge + ch > 4 then some (m, n :: hs, true)
        else atomFixLoop mp tl { m with atoms := m.atoms.map (fixAtomEntry n ch ir) } (n :: hs)

/-- `b._order = bo` seen from one neighbour dict (the `Bond` object is shared by both directions) -/
def setOrderRow (k bo : Nat) (row : List (Nat × Bond)) : List (Nat × Bond) :=
  row.map fun kb => if kb.1 == k then (kb.1, { kb.2 with order := bo }) else kb

/-- rewrite the rows of `n` and `k` of the adjacency -/
def mapRows (n k : Nat) (fn fk : List (Nat × Bond) → List (Nat × Bond)) (adj : List (Nat × List (Nat × Bond))) :
    List (Nat × List (Nat × Bond)) :=
  adj.map fun p => if p.1 == n then (p.1, fn p.2) else if p.1 == k then (p.1, fk p.2) else p

/-- the `bonds_fix` loop: existing bond → order rewritten (also to / from the coordinate order 8); otherwise a new bond is
    appended to both neighbour dicts -/
def bondsFixLoop (mp : List (Nat × Nat)) : List (Nat × Nat × Nat) → Mol → List Nat → Option (Mol × List Nat)
  | [], m, hs => some (m, hs)
  | (pn, pm, bo) :: tl, m, hs =>
    match mp.lookup pn, mp.lookup pm with
    | some n, some k =>
      match m.adj.lookup n with
      | none => none
      | some row =>
        if row.any (·.1 == k) then
          bondsFixLoop mp tl { m with adj := mapRows n k (setOrderRow k bo) (setOrderRow n bo) m.adj } (k :: n :: hs)
        else
          match m.adj.lookup k with
          | none => none
          | some _ =>
            bondsFixLoop mp tl { m with adj := mapRows n k (· ++ [(k, ⟨bo, none⟩)]) (· ++ [(n, ⟨bo, none⟩)]) m.adj } (k :: n :: hs)
    | _, _ => none

/-- one iteration of `for mapping in pattern.get_mapping(...)` -/
def processMapping (fx : RuleFix) (st : St) (mp : List (Nat × Nat)) : Option St :=
  let matched := mp.map (·.2)
  if matched.any (st.seen.contains ·) then some st
  else
    match fx.anyAtoms.mapM (mp.lookup ·) with
    | none => none
    | some anyIds =>
      let seen' := st.seen ++ matched.filter (fun x => !anyIds.contains x)
      match atomFixLoop mp fx.atomFix st.mol st.hs with
      | none => none
      | some (m1, hs1, true) => some ⟨m1, seen', hs1⟩
      | some (m1, hs1, false) =>
        match bondsFixLoop mp fx.bondsFix m1 hs1 with
        | none => none
        | some (m2, hs2) => some ⟨m2, seen', hs2⟩

/-- all iterations, over the mappings the generator yielded -/
def applyMappings (fx : RuleFix) : List (List (Nat × Nat)) → St → Option St
  | [], st => some st
  | mp :: tl, st => match processMapping fx st mp with
    | none => none
    | some st' => applyMappings fx tl st'

/-- one rule of `__standardize` given the yielded mappings: rewrite, then `for n in hs: self.calc_implicit(n)`
    (nothing at all when `hs` is empty) -/
def stdRule (fx : RuleFix) (maps : List (List (Nat × Nat))) (m : Mol) : Option Mol :=
  match applyMappings fx maps ⟨m, [], []⟩ with
  | none => none
  | some st => if st.hs.isEmpty then some st.mol else fixLoop st.hs st.mol

/-- the rule part of one `standardize()` call: the rules whose matcher yielded something, in the order they ran (double rules,
    second shot, single rules, metal-organic rules), each with its yielded mappings -/
def stdRules : List (RuleFix × List (List (Nat × Nat))) → Mol → Option Mol
  | [], m => some m
  | (fx, maps) :: tl, m => match stdRule fx maps m with
    | none => none
    | some m' => stdRules tl m'

end ChythonModel.Model.C04Standardize
