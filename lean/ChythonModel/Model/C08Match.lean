import ChythonModel.Model.SmartsFull
import ChythonModel.Model.Iso
import ChythonModel.Model.IsoCheck
/-!
# C08 — a whole SMARTS pattern against a molecule: `smarts(text).get_mapping(mol, automorphism_filter=False, _cython=False)`

The public observation point of the property for patterns of any size (branches, ring closures, query bonds on the closures).
Nothing about the search is re-modelled here: the matcher is property C07's executable model `Iso.isoGetMapping`
(`_compile_query`, the stack machine `_get_mapping`, `Isomorphism._get_mapping`), which is parametric in the two comparisons it
makes; this file supplies them from C08's own models

* `s_atom == o_atom`  ↦ `pyEq (query atom) (labelled molecule atom)`           (`Model/QueryEq.lean`, labels by `mAtomOf`)
* `s_bond == o_bond`  ↦ `bondEq (query bond) ⟨order, bond.in_ring⟩`            (ring mark by `bondInRing` over the given SSSR)

and the two graphs the matcher walks:

* the query container as `smarts()` builds it: `_atoms` in numbering order, `_bonds[n]` in the order `add_bond` inserted the
  neighbours (= order of `QGraph.bonds`);
* the molecule: `_atoms` / `_bonds` dict orders as they come over the wire.

`QueryIsomorphism.get_mapping` afterwards filters by stereo marks of the query; that part is not modelled: `hasStereo` tells the
driver to refuse such patterns. `connected_components` of the molecule is an input (checked with C07's `checkComponents`).
Core Lean only.
-/
namespace ChythonModel.Model.Query
open ChythonModel.Model

/-- `QueryContainer._atoms` keys and `_bonds` neighbour keys, in dict order -/
def qIsoGraph (g : QGraph) : Iso.Graph :=
  { atoms := g.atoms.map (·.1),
    adj := g.atoms.map fun (n, _) =>
      (n, g.bonds.filterMap fun (a, b, _) => if a == n then some b else if b == n then some a else none) }

/-- `MoleculeContainer._atoms` keys and `_bonds` neighbour keys, in dict order -/
def molIsoGraph (m : Mol) : Iso.Graph :=
  { atoms := m.ids, adj := m.adj.map fun (n, l) => (n, l.map (·.1)) }

/-- the query atom object numbered `u` -/
def qAtomAt (g : QGraph) (u : Nat) : Option QAtom := g.atoms.lookup u

/-- the one `QueryBond` object shared by `_bonds[u][v]` and `_bonds[v][u]` -/
def qBondAt (g : QGraph) (u v : Nat) : Option QBond :=
  (g.bonds.find? fun (a, b, _) => (a == u && b == v) || (a == v && b == u)).map (·.2.2)

/-- the molecule bond `x–y` as `QueryBond.__eq__` sees it: order and the `in_ring` label -/
def mBondAt (m : Mol) (sssr : List (List Nat)) (x y : Nat) : Option MBond :=
  (m.bond? x y).map fun b => ⟨b.order, bondInRing sssr x y⟩

/-- `query._atoms[u] == mol._atoms[x]` -/
def atomOkOf (g : QGraph) (m : Mol) (sssr : List (List Nat)) (u x : Nat) : Bool :=
  match qAtomAt g u, mAtomOf m sssr x with
  | some q, some a => pyEq q a
  | _, _ => false

/-- `query._bonds[u][v] == mol._bonds[x][y]` -/
def bondOkOf (g : QGraph) (m : Mol) (sssr : List (List Nat)) (u v x y : Nat) : Bool :=
  match qBondAt g u v, mBondAt m sssr x y with
  | some q, some b => bondEq q b
  | _, _ => false

/-- the inputs of one `query.get_mapping(mol, automorphism_filter=False, _cython=False)` call -/
def matchProblem (g : QGraph) (m : Mol) (sssr : List (List Nat)) (tComps : List (List Nat)) : Iso.Problem :=
  { q := qIsoGraph g, t := molIsoGraph m, tComps := tComps, scope := none, autoFilter := false,
    atomOk := atomOkOf g m sssr, bondOk := bondOkOf g m sssr }

/-- all mappings in yield order, each a dict `query atom number ↦ molecule atom number`; `none` = the call raises -/
def patternMapping (g : QGraph) (m : Mol) (sssr : List (List Nat)) (tComps : List (List Nat)) : Option (List Iso.Dict) :=
  Iso.isoGetMapping (matchProblem g m sssr tComps)

/-- a stereo mark on a query atom or bond (then `QueryIsomorphism.get_mapping` filters the mappings further: not modelled) -/
def hasStereo (g : QGraph) : Bool :=
  g.atoms.any (fun (_, a) => a.stereo.isSome) || g.bonds.any (fun (_, _, b) => b.stereo.isSome)

/-- `mapping[k] for k in query._atoms` -/
def imagesInQueryOrder (g : QGraph) (d : Iso.Dict) : List Nat :=
  g.atoms.filterMap fun (n, _) => d.lookup n

end ChythonModel.Model.Query
