/-!
# C12 — executable model of `MoleculeStereo.fix_stereo` (core Lean only)

Mirrors, statement by statement, `/repo/chython/algorithms/stereo.py: fix_stereo`:

* the collection pass: every label is taken off; a label is queued for restoration only when it sits on an atom of
  `stereogenic_tetrahedrons` / `stereogenic_allenes`, or on the double bond (`b == 2`) both of whose atoms map to the same
  terminal pair in `_stereo_cis_trans_terminals`                                                → `collectAtoms`, `collectBonds`
* `flush_stereo_cache()`                                                                        → `cache := none`
* the restore rounds: read `chiral_tetrahedrons / chiral_allenes / chiral_cis_trans` (cached, computed from the labels
  present at that moment), put back every queued label whose unit is in them, stop when the queue is empty or a round
  restored nothing, flush the stereo caches after every round that restored something           → `fixLoop`

The dependence of the three `chiral_*` sets on the labels already present (`_chiral_morgan`, `__chiral_centers`) is an
oracle `ch : List Label → SUnit → Bool`; the driver instantiates it with the sets the real code reports for exactly the
label sets the model asks about.
-/
namespace ChythonModel.Model.StereoFix

inductive Kind
  | tetra | allene | cisTrans
  deriving Repr, DecidableEq, BEq

/-- a stereo unit: tetrahedron / allene centre `a` (`b = 0`), or cis-trans terminal pair `(a, b)` -/
structure SUnit where
  kind : Kind
  a : Nat
  b : Nat
  deriving Repr, DecidableEq, BEq

abbrev Label := SUnit × Bool

/-- one item of `self.atoms()`: number, label, `n in stereogenic_tetrahedrons`, `n in stereogenic_allenes` -/
structure AtomIn where
  n : Nat
  stereo : Option Bool
  tetra : Bool
  allene : Bool
  deriving Repr

/-- one item of `self.bonds()`: ends, order, label, `_stereo_cis_trans_terminals.get(n)`, `.get(m)` -/
structure BondIn where
  n : Nat
  m : Nat
  order : Nat
  stereo : Option Bool
  tn : Option (Nat × Nat)
  tm : Option (Nat × Nat)
  deriving Repr

/-- first loop: `(atoms_stereo, allenes_stereo)`; the `elif` order is kept (tetrahedron first) -/
def collectAtoms : List AtomIn → List Label × List Label
  | [] => ([], [])
  | x :: xs =>
    let (t, al) := collectAtoms xs
    match x.stereo with
    | none => (t, al)
    | some s =>
      if x.tetra then ((⟨.tetra, x.n, 0⟩, s) :: t, al)
      else if x.allene then (t, (⟨.allene, x.n, 0⟩, s) :: al)
      else (t, al)

/-- second loop: `b == 2 and (ta := terminals.get(n)) and terminals.get(m) == ta` -/
def collectBonds : List BondIn → List Label
  | [] => []
  | x :: xs =>
    let rest := collectBonds xs
    match x.stereo with
    | none => rest
    | some s =>
      match x.tn with
      | none => rest
      | some ta =>
        if x.order = 2 ∧ x.tm = some ta then (⟨.cisTrans, ta.1, ta.2⟩, s) :: rest else rest

/-- the queue in the order the restore round walks it: atoms, allenes, double bonds -/
def collect (atoms : List AtomIn) (bonds : List BondIn) : List Label :=
  let (t, al) := collectAtoms atoms
  t ++ al ++ collectBonds bonds

/-- labels on the molecule, label set the cached `chiral_*` sets were computed from (`none` = no cache), oracle queries made -/
structure Out where
  labels : List Label
  cache : Option (List Label)
  asked : List (List Label)
  deriving Repr

/-- `while old_stereo:` … ; `fuel` bounds the number of rounds (`pending.length + 1` always suffices, `fixLoop_fuel`) -/
def fixLoop (ch : List Label → SUnit → Bool) : Nat → List Label → List Label → List (List Label) → Out
  | 0, restored, _, asked => ⟨restored, none, asked⟩
  | fuel + 1, restored, pending, asked =>
    if pending = [] then ⟨restored, none, asked⟩                     -- `while old_stereo` is false: caches were flushed
    else
      let c := ch restored                                            -- chiral_* computed (and cached) from the present labels
      let ok := pending.filter fun l => c l.1
      let rest := pending.filter fun l => !c l.1
      if rest.length = pending.length then
        ⟨restored ++ ok, some restored, asked ++ [restored]⟩          -- `break`: nothing restored, cache stays
      else
        fixLoop ch fuel (restored ++ ok) rest (asked ++ [restored])   -- `flush_stereo_cache()`, next round

def fixStereo (ch : List Label → SUnit → Bool) (atoms : List AtomIn) (bonds : List BondIn) : Out :=
  let pending := collect atoms bonds
  fixLoop ch (pending.length + 1) [] pending []

/-- oracle given as a finite table (driver): label set ↦ units reported chiral -/
def tableOracle (tab : List (List Label × List SUnit)) : List Label → SUnit → Bool :=
  fun r u => match tab.lookup r with
    | some us => us.contains u
    | none => false

end ChythonModel.Model.StereoFix
