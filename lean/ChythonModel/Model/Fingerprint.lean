import ChythonModel.Py.Hash
import ChythonModel.Model.Graph
import ChythonModel.Gen.C17Cache
/-!
# C17 — executable model of `chython/algorithms/fingerprints/{linear,morgan,__init__}.py`

Statement-by-statement transcription (core Lean only). Python objects:

* `tuple` of ints → `List Nat` (atom paths) / `List Int` (label tuples, hashes);
* `set` → duplicate-free `List` (`toSet`, `setAdd`), no commitment to CPython's iteration order;
* `dict`/`defaultdict(list)` → insertion-ordered association list (`dictAppend`);
* `hash(tuple_of_ints)` → a parameter `H : List Int → Int`; the driver instantiates it with the exact
  CPython function `Py.pyHashTuple`, the theorems quantify over every `H`;
* `raise` → `Except Err`: `KeyError` (subscript of a missing dict key), `ValueError` (`log2(length ≤ 0)`),
  `AssertionError` (`_morgan_hash_dict` radius asserts); `Err.fuel` is the model's own "loop bound exhausted"
  outcome, proved unreachable (`Props.C17.chains_total`).
-/
namespace ChythonModel.Model.Fingerprint
open ChythonModel.Py ChythonModel.Model

abbrev Path := List Nat
abbrev TupleHash := List Int → Int

inductive Err where
  | keyError | valueError | assertionError | fuel
  deriving Repr, DecidableEq, Inhabited

def Err.render : Err → String
  | .keyError => "err:KeyError" | .valueError => "err:ValueError"
  | .assertionError => "err:AssertionError" | .fuel => "err:fuel"

/-! ## Python primitives -/

/-- Python `a > b` on tuples of ints: lexicographic, a proper prefix is smaller. -/
def tupleGt {α : Type} [LT α] [DecidableRel (α := α) (· < ·)] : List α → List α → Bool
  | [], _ => false
  | _ :: _, [] => true
  | a :: as, b :: bs => if b < a then true else if a < b then false else tupleGt as bs

/-- `set(iterable)`: drop repeated members. -/
def toSet {α : Type} [DecidableEq α] : List α → List α
  | [] => []
  | a :: l => let s := toSet l; if a ∈ s then s else a :: s

/-- `s.add(a)`. -/
def setAdd {α : Type} [DecidableEq α] (s : List α) (a : α) : List α := if a ∈ s then s else s ++ [a]

/-- `d[k].append(v)` on a `defaultdict(list)`. -/
def dictAppend {κ ν : Type} [DecidableEq κ] : List (κ × List ν) → κ → ν → List (κ × List ν)
  | [], k, v => [(k, [v])]
  | (k', vs) :: tl, k, v => if k' = k then (k', vs ++ [v]) :: tl else (k', vs) :: dictAppend tl k v

/-- `d[k]` → `KeyError` when absent. -/
def getItem {ν : Type} (d : List (Nat × ν)) (k : Nat) : Except Err ν :=
  match d.lookup k with
  | some v => pure v
  | none => throw .keyError

/-- `h & mask` for a Python int `h` of either sign and `mask ≥ 0` (two's-complement semantics):
    only the bits of `h` below the width of `mask` matter. -/
def pyAndMask (h : Int) (mask : Nat) : Nat := (h % (2 ^ (mask.log2 + 1) : Int)).toNat &&& mask

/-! ## `Fingerprints._atom_identifiers` -/

/-- `hash((atom.isotope or 0, atom.atomic_number, atom.charge, atom.is_radical))` -/
def atomIdent (H : TupleHash) (a : Atom) : Int :=
  H [((a.isotope.getD 0 : Nat) : Int), (a.z : Int), a.charge, if a.radical then 1 else 0]

def atomIdentifiers (H : TupleHash) (m : Mol) : List (Nat × Int) :=
  m.atoms.map fun na => (na.1, atomIdent H na.2)

/-! ## `LinearFingerprint._chains` -/

/-- `[now + (x,) for x in bonds[now[-1]] if x not in now]`; `bonds[now[-1]]` raises `KeyError` for a missing key -/
def extend (m : Mol) (now : Path) : Except Err (List Path) :=
  match now.getLast? with
  | none => throw .keyError   -- `now[-1]` of an empty tuple (IndexError); queue members are never empty
  | some last => do
    let ms ← getItem m.adj last
    pure (((ms.map (·.1)).filter fun x => !now.contains x).map fun x => now ++ [x])

/-- `frag if frag > rev else rev` with `rev = frag[::-1]` -/
def canon (frag : Path) : Path := if tupleGt frag frag.reverse then frag else frag.reverse

/-- the `while queue:` loop of `_chains`; `fuel` bounds the number of `popleft`s. -/
def chainsLoop (m : Mol) (lo hi : Int) : Nat → List Path → List Path → Except Err (List Path)
  | 0, _, _ => throw .fuel
  | _ + 1, [], arr => pure arr
  | f + 1, now :: queue, arr =>
    match extend m now with
    | .error e => .error e
    | .ok [] => chainsLoop m lo hi f queue arr
    | .ok (v0 :: vs) =>
      let var := v0 :: vs
      let queue' := if (v0.length : Int) < hi then queue ++ var else queue
      let arr' := if (v0.length : Int) ≥ lo then var.foldl (fun a frag => setAdd a (canon frag)) arr else arr
      chainsLoop m lo hi f queue' arr'

def maxDeg (m : Mol) : Nat := (m.adj.map (·.2.length)).foldl max 0

/-- a number of `popleft`s that always suffices on a well-formed graph (`Props.C17.chains_total`) -/
def chainsFuel (m : Mol) (hi : Int) : Nat := 1 + m.atoms.length * (maxDeg m + 1) ^ (hi.toNat)

def chains (m : Mol) (lo hi : Int) : Except Err (List Path) :=
  let singles := m.ids.map fun x => [x]
  if lo = 1 then
    if hi = 1 then pure singles
    else chainsLoop m lo hi (chainsFuel m hi) singles singles
  else chainsLoop m lo hi (chainsFuel m hi) singles []

/-! ## `LinearFingerprint._fragments` -/

/-- `var.append(int(bonds[x][y])); var.append(atoms[y])` along `zip(frag, frag[1:])` -/
def labelsFrom (ident : List (Nat × Int)) (m : Mol) (x : Nat) : Path → Except Err (List Int)
  | [] => pure []
  | y :: rest => do
    let ms ← getItem m.adj x
    let b ← getItem ms y
    let a ← getItem ident y
    let tl ← labelsFrom ident m y rest
    pure ((b.order : Int) :: a :: tl)

def labels (ident : List (Nat × Int)) (m : Mol) : Path → Except Err (List Int)
  | [] => throw .keyError   -- `frag[0]` of an empty tuple (IndexError); chains never yields one
  | x :: rest => do
    let a ← getItem ident x
    let tl ← labelsFrom ident m x rest
    pure (a :: tl)

abbrev FragDict := List (List Int × List Path)

def fragStep (ident : List (Nat × Int)) (m : Mol) (out : FragDict) (frag : Path) : Except Err FragDict := do
  let var ← labels ident m frag
  let rev := var.reverse
  if tupleGt var rev then pure (dictAppend out var frag) else pure (dictAppend out rev frag.reverse)

def fragments (H : TupleHash) (m : Mol) (lo hi : Int) : Except Err FragDict := do
  let cs ← chains m lo hi
  cs.foldlM (fragStep (atomIdentifiers H m) m) []

/-! ## `linear_hash_set`, `linear_bit_set` -/

/-- `min(len(count), number_bit_pairs)` after `if not number_bit_pairs: number_bit_pairs = 999_999_999`,
    as the length of the `range(...)` (empty for a negative bound) -/
def capCount (n : Nat) (nbp : Int) : Nat :=
  (min (n : Int) (if nbp = 0 then 999999999 else nbp)).toNat

def hashesOfDict (H : TupleHash) (nbp : Int) (d : FragDict) : List Int :=
  toSet (d.flatMap fun kv => (List.range (capCount kv.2.length nbp)).map fun (cnt : Nat) => H (kv.1 ++ [(cnt : Int)]))

def linearHashSet (H : TupleHash) (m : Mol) (lo hi nbp : Int) : Except Err (List Int) := do
  let d ← fragments H m lo hi
  pure (hashesOfDict H nbp d)

/-- `for _ in range(1, number_active_bits): tpl >>= log; active_bits.add(tpl & mask)` -/
def shiftLoop (log mask : Nat) : Nat → Int → List Nat
  | 0, _ => []
  | k + 1, tpl => let tpl' := tpl >>> log; pyAndMask tpl' mask :: shiftLoop log mask k tpl'

/-- `int(math.log2(length))` for `1 ≤ length < 2^64`. `math.log2` of a Python int goes through a C double: the exact
    `⌊log₂ length⌋ = Nat.log2 length`, except that just below a large power of two the float logarithm rounds *up* to the
    integer `k`; where that happens is measured on every run (`Gen.C17.log2RoundsUpFrom`, first at `2^49 − 1`).
    `Props.C17.log2_trunc_exact_below` states the exact domain on which this is `Nat.log2`. -/
def pyLog2Trunc (n : Nat) : Nat :=
  match Gen.C17.log2RoundsUpFrom.find? (fun kt => decide (kt.2 ≤ n) && decide (n < 2 ^ kt.1)) with
  | some kt => kt.1
  | none => n.log2

/-- the bits one hash switches on -/
def bitsOfHash (length : Nat) (nab : Int) (tpl : Int) : List Nat :=
  let mask := length - 1
  let log := pyLog2Trunc length
  pyAndMask tpl mask ::
    (if nab = 2 then [pyAndMask (tpl >>> log) mask]
     else if nab > 2 then shiftLoop log mask (nab - 1).toNat tpl
     else [])

def activeBits (length : Nat) (nab : Int) (hashes : List Int) : List Nat :=
  toSet (hashes.flatMap (bitsOfHash length nab))

def linearBitSet (H : TupleHash) (m : Mol) (lo hi length nab nbp : Int) : Except Err (List Nat) := do
  if length ≤ 0 then throw .valueError   -- math.log2 domain error
  let hashes ← linearHashSet H m lo hi nbp
  pure (activeBits length.toNat nab hashes)

/-! ## `MorganFingerprint` -/

/-- Python order of `(int, int)` tuples -/
def pairLe (a b : Int × Int) : Bool := a.1 < b.1 || (a.1 == b.1 && a.2 ≤ b.2)

def flattenPairs : List (Int × Int) → List Int
  | [] => []
  | (a, b) :: tl => a :: b :: flattenPairs tl

/-- `(int(b), identifiers[ngb]) for ngb, b in bonds[idx].items()` -/
def nbrPairs (ident : List (Nat × Int)) : List (Nat × Bond) → Except Err (List (Int × Int))
  | [] => pure []
  | (ngb, b) :: tl => do
    let i ← getItem ident ngb
    let rest ← nbrPairs ident tl
    pure (((b.order : Int), i) :: rest)

/-- one dict comprehension of `_morgan_hash_dict` over `identifiers.items()` (second argument),
    looking neighbours up in the full `identifiers` (first argument) -/
def morganStepOver (H : TupleHash) (m : Mol) (ident : List (Nat × Int)) :
    List (Nat × Int) → Except Err (List (Nat × Int))
  | [] => pure []
  | (idx, tpl) :: tl => do
    let ms ← getItem m.adj idx
    let ps ← nbrPairs ident ms
    let rest ← morganStepOver H m ident tl
    pure ((idx, H (tpl :: flattenPairs (ps.mergeSort pairLe))) :: rest)

def morganStep (H : TupleHash) (m : Mol) (ident : List (Nat × Int)) : Except Err (List (Nat × Int)) :=
  morganStepOver H m ident ident

/-- `for _ in range(1, max_radius): identifiers = {...}; out.append(identifiers)` -/
def morganIter (H : TupleHash) (m : Mol) : Nat → List (Nat × Int) → Except Err (List (List (Nat × Int)))
  | 0, _ => pure []
  | k + 1, ident => do
    let nxt ← morganStep H m ident
    let rest ← morganIter H m k nxt
    pure (nxt :: rest)

/-- `l[-k:]` for a Python int `k` (note `l[-0:]` is the whole list) -/
def sliceLast {α : Type} (l : List α) (k : Int) : List α :=
  if k > 0 then l.drop (l.length - k.toNat) else l.drop (-k).toNat

def morganHashDict (H : TupleHash) (m : Mol) (lo hi : Int) : Except Err (List (List (Nat × Int))) := do
  if lo < 1 then throw .assertionError
  if hi < lo then throw .assertionError
  let ident := atomIdentifiers H m
  let rest ← morganIter H m (hi - 1).toNat ident
  pure (sliceLast (ident :: rest) (hi - lo + 1))

def morganHashSet (H : TupleHash) (m : Mol) (lo hi : Int) : Except Err (List Int) := do
  let ds ← morganHashDict H m lo hi
  pure (toSet (ds.flatMap fun d => d.map (·.2)))

def morganBitSet (H : TupleHash) (m : Mol) (lo hi length nab : Int) : Except Err (List Nat) := do
  if length ≤ 0 then throw .valueError
  let hashes ← morganHashSet H m lo hi
  pure (activeBits length.toNat nab hashes)

end ChythonModel.Model.Fingerprint
