import ChythonModel.Model.C11Mol3000
/-!
# C11 — RDF: `RDFWrite.write` / `ERDFWrite.write` (after the `$RDFILE/$DATM` header), `RDFRead._read_block`,
`read_metadata`, `read_structure` dispatch, `parse_rxn_v2000`, `parse_rxn_v3000`, iteration and index.

`postprocess_parsed_reaction` (mapping repair across molecules) and `create_reaction` are outside the model.
-/
namespace ChythonModel.Model.C11

/-! ## metadata -/

/-- how `read_metadata` removes the `$DATUM` marker from a value line.
`RDFRead.read_metadata` removes the prefix `$DATUM` if present (since the `fix:` commit e53cd93; before it was
`line.lstrip("$DATUM")`, a character-set strip — `datumStripOld`, kept for the Findings witness). -/
def datumStrip (line : Str) : Str := removePrefix (sL "$DATUM") line
def datumStripOld (line : Str) : Str := lstripSet (sL "$DATUM") line

def rdfMetaLoop (dstrip : Str → Str) : List Str → Str → List (Str × List Str) → List (Str × List Str)
  | [], _, d => d
  | line :: rest, mkey, d =>
    if startsWith line (sL "$DTYPE") then
      let k := strip (line.drop 7)
      rdfMetaLoop dstrip rest k (if k.isEmpty then dictAppend d unparsedKey (strip line) else d)
    else if !mkey.isEmpty then
      let v := strip (dstrip line)
      rdfMetaLoop dstrip rest mkey (if v.isEmpty then d else dictAppend d mkey v)
    else rdfMetaLoop dstrip rest mkey (dictAppend d unparsedKey (strip line))

/-- `RDFRead.read_metadata` on the lines after `m_start` (`mkey = None` and `''` are both falsy: `[]`) -/
def rdfReadMetaWith (dstrip : Str → Str) (lines : List Str) : List (Str × Str) :=
  (rdfMetaLoop dstrip lines [] []).map fun kv => (kv.1, joinWith ['\n'] kv.2)

def rdfReadMeta (lines : List Str) : List (Str × Str) := rdfReadMetaWith datumStrip lines

/-- `$DTYPE {k}\n$DATUM {v}\n` -/
def rdfMetaChunk (kv : Str × Str) : Str := sL "$DTYPE " ++ kv.1 ++ sL "\n$DATUM " ++ kv.2 ++ sL "\n"

/-! ## writers -/

structure WRxn where
  name : Str
  reactants : List WMol
  products : List WMol
  reagents : List WMol
  deriving DecidableEq, Repr, Inhabited

def flatMapM (f : α → R (List β)) : List α → R (List β)
  | [] => pure []
  | a :: as => do let x ← f a; let y ← flatMapM f as; pure (x ++ y)

/-- `RDFWrite.write(molecule)` -/
def rdfWriteMol (mapping : Bool) (g : WMol) (md : List (Str × Str)) : R Str := do
  let ml ← writeMol2000 mapping g
  pure (sL "$MFMT\n" ++ ml.flatten ++ (md.map rdfMetaChunk).flatten)

/-- `RDFWrite.write(reaction)` -/
def rdfWriteRxn (mapping : Bool) (r : WRxn) (md : List (Str × Str)) : R Str := do
  let head := sL "$RFMT\n$RXN\n" ++ r.name ++ sL "\n\n\n" ++ fmtD 3 r.reactants.length ++ fmtD 3 r.products.length ++
    (if !r.reagents.isEmpty then fmtD 3 r.reagents.length ++ sL "\n" else sL "\n")
  let ms ← flatMapM (fun g => do let ml ← writeMol2000 mapping g; pure (sL "$MOL\n" :: ml))
              (r.reactants ++ r.products ++ r.reagents)
  pure (head ++ ms.flatten ++ (md.map rdfMetaChunk).flatten)

/-- `ERDFWrite.write(molecule)` -/
def erdfWriteMol (mapping : Bool) (g : WMol) (md : List (Str × Str)) : R Str := do
  let ml ← writeMol3000 mapping g
  pure (sL "$MFMT\n" ++ (v3Header g.name ++ ml ++ [sL "M  END\n"]).flatten ++ (md.map rdfMetaChunk).flatten)

/-- `ERDFWrite.write(reaction)` -/
def erdfWriteRxn (mapping : Bool) (r : WRxn) (md : List (Str × Str)) : R Str := do
  let head := sL "$RFMT\n$RXN V3000\n" ++ r.name ++ sL "\n\n\nM  V30 COUNTS " ++ natDigits r.reactants.length ++ sL " " ++
    natDigits r.products.length ++
    (if !r.reagents.isEmpty then sL " " ++ natDigits r.reagents.length ++ sL "\nM  V30 BEGIN REACTANT\n"
     else sL "\nM  V30 BEGIN REACTANT\n")
  let rs ← flatMapM (writeMol3000 mapping) r.reactants
  let ps ← flatMapM (writeMol3000 mapping) r.products
  let gs ← flatMapM (writeMol3000 mapping) r.reagents
  pure (head ++ rs.flatten ++ sL "M  V30 END REACTANT\nM  V30 BEGIN PRODUCT\n" ++ ps.flatten ++ sL "M  V30 END PRODUCT\n" ++
        (if !r.reagents.isEmpty then sL "M  V30 BEGIN AGENT\n" ++ gs.flatten ++ sL "M  V30 END AGENT\n" else []) ++
        sL "M  END\n" ++ (md.map rdfMetaChunk).flatten)

/-! ## reader: blocks -/

structure RBlock where
  buf : List Str
  mStart : Nat          -- 0 = `None` (both falsy in the code)
  deriving DecidableEq, Repr, Inhabited

def isFmt (line : Str) : Bool := startsWith line (sL "$RFMT") || startsWith line (sL "$MFMT")

/-- the loop of `RDFRead._read_block`; `drop` = still searching for the first record -/
def rdfBlockGo (bufSize : Nat) : Nat → Bool → List Str → Nat → List Str → R (RBlock × List Str)
  | _, _, buf, ms, [] => pure (⟨buf, ms⟩, [])
  | n, drop, buf, ms, line :: rest =>
    if drop then
      if startsWith line (sL "$RXN") then rdfBlockGo bufSize (n + 1) false (buf ++ [line]) ms rest
      else if isFmt line then rdfBlockGo bufSize (n + 1) false buf ms rest
      else rdfBlockGo bufSize (n + 1) true buf ms rest
    else if n == bufSize then throw .bufferOverflow
    else if ms == 0 && startsWith line (sL "$DTYPE") then rdfBlockGo bufSize (n + 1) false (buf ++ [line]) buf.length rest
    else if isFmt line then pure (⟨buf, ms⟩, rest)
    else rdfBlockGo bufSize (n + 1) false (buf ++ [line]) ms rest

/-- `_read_block(current=False)` with `self._tell = tell` -/
def rdfReadBlock (bufSize : Nat) (tell : Nat) (file : List Str) : R (RBlock × List Str) := do
  let (b, rest) ← rdfBlockGo bufSize 0 (tell == 0) [] 0 file
  if b.buf.isEmpty then throw .eof else pure (b, rest)

def rdfBlockMeta (b : RBlock) : List Str := if b.mStart == 0 then [] else b.buf.drop b.mStart

/-! ## `parse_rxn_v2000` / `parse_rxn_v3000` -/

structure PRxn (μ : Type) where
  title : Option Str
  reactants : List μ
  products : List μ
  reagents : List μ
  deriving DecidableEq, Repr, Inhabited

/-- `next(n for n, x in enumerate(data[from:], num) if x.startswith(p))` -/
def findFrom (p : Str) (data : List Str) (from_ : Nat) (num : Nat) : Option Nat :=
  ((data.drop from_).findIdx? (fun x => startsWith x p)).map (· + num)

/-- the molecule loop shared by both dialects. `next start` finds the next molecule start;
`parse` parses from there. Counts are `Int` (they come from `int()` and are decremented). -/
def rxnLoop (next : Nat → Option Nat) (parse : Nat → R μ) :
    Nat → Nat → List μ → Int → Int → Int → R (List μ × Int × Int × Int)
  | 0, _, ms, rc, pc, gc => pure (ms, rc, pc, gc)
  | k + 1, start, ms, rc, pc, gc =>
    match next start with
    | none => throw .invalidV2000
    | some s =>
      match parse s with
      | .ok m => rxnLoop next parse k s (ms ++ [m]) rc pc gc
      | .error e =>
        if e.isValueError then
          let lm : Int := ms.length
          if lm < rc then rxnLoop next parse k s ms (rc - 1) (pc - 1) (gc - 1)
          else if lm < pc then rxnLoop next parse k s ms rc (pc - 1) (gc - 1)
          else rxnLoop next parse k s ms rc pc (gc - 1)
        else throw e

def mkRxn (title : Option Str) (ms : List μ) (rc pc : Int) : PRxn μ :=
  { title, reactants := pySlice ms 0 rc, products := pySlice ms rc pc, reagents := pySlice ms pc (ms.length : Int) }

def parseRxn2000 (data : List Str) : R (PRxn PMol) := do
  let line ← lineAt data 4
  let rc ← intE (slice line 0 3)
  let pc := (← intE (slice line 3 6)) + rc
  let tail := rstrip (line.drop 6)
  let gc := (← if tail.isEmpty then pure 0 else intE tail) + pc
  if gc == 0 then throw .emptyReaction
  let l1 ← lineAt data 1
  let t := strip l1
  let title := if t.isEmpty then none else some t
  -- `start` is kept as `start + 1 ≥ 0` (it starts at −1): `data[start + 6:]` numbered from `start + 7`
  let (ms, rc, pc, _) ← rxnLoop (fun s1 => findFrom (sL "$MOL") data (s1 + 5) (s1 + 6 + 1))
      (fun s1 => parseMol2000 (data.drop (s1 - 1))) gc.toNat 0 [] rc pc gc
  pure (mkRxn title ms rc pc)

def parseRxn3000 (data : List Str) : R (PRxn P3Mol) := do
  let l4 ← lineAt data 4
  let tmp := wsSplit (l4.drop 13)
  let t0 ← match tmp[0]? with | some x => pure x | none => throw .indexError
  let rc ← intE t0
  let t1 ← match tmp[1]? with | some x => pure x | none => throw .indexError
  let pc := (← intE t1) + rc
  let gc := (← if tmp.length == 3 then intE (tmp.getD 2 []) else pure 0) + pc
  if gc == 0 then throw .emptyReaction
  let l1 ← lineAt data 1
  let t := strip l1
  let title := if t.isEmpty then none else some t
  let (ms, rc, pc, _) ← rxnLoop (fun s => findFrom (sL "M  V30 BEGIN CTAB") data (s + 5) (s + 5))
      (fun s => parseMol3000 (data.drop s) false) gc.toNat 1 [] rc pc gc
  pure (mkRxn title ms rc pc)

/-! ## `RDFRead.read_structure` (modelled part) -/

inductive RRec where
  | mol (m : AnyMol) (mapping : List Int) (md : List (Str × Str))
  | rxn2 (r : PRxn PMol) (md : List (Str × Str))
  | rxn3 (r : PRxn P3Mol) (md : List (Str × Str))
  deriving DecidableEq, Repr, Inhabited

def rdfReadStructure (b : RBlock) : R RRec := do
  let data := b.buf
  let md := rdfReadMeta (rdfBlockMeta b)
  let l0 ← lineAt data 0
  if startsWith l0 (sL "$RXN") then do
    let l4 ← lineAt data 4
    if startsWith l4 (sL "M  V30 COUNTS") then do
      let r ← parseRxn3000 data
      pure (.rxn3 r md)
    else do
      let r ← parseRxn2000 data
      pure (.rxn2 r md)
  else do
    let l4 ← lineAt data 4
    let mol ← if startsWith l4 (sL "M  V30 BEGIN CTAB") then AnyMol.v3 <$> parseMol3000 data else AnyMol.v2 <$> parseMol2000 data
    let mapping ← postprocessMapping mol.maps
    pure (.mol mol mapping md)

/-- `MDLRead.__iter__` for RDF: `tell` is incremented by every successfully read block -/
def rdfIterate (rs : RBlock → R ρ) (bufSize : Nat) : Nat → Nat → List Str → List ρ × Option Err
  | 0, _, _ => ([], none)
  | fuel + 1, tell, file =>
    match rdfReadBlock bufSize tell file with
    | .error .eof => ([], none)
    | .error e => ([], some e)
    | .ok (b, rest) =>
      match rs b with
      | .ok r => let (out, e) := rdfIterate rs bufSize fuel (tell + 1) rest; (r :: out, e)
      | .error .eof => ([], none)
      | .error e => if e.isSkipped then rdfIterate rs bufSize fuel (tell + 1) rest else ([], some e)

/-! ## index: `grep -bE '^\$[RM]FMT'`, `shifts[0] = 0`, `seek(i)` sets `_tell = i` -/

/-- line indices stored by `reset_index` (position of each `$RFMT/$MFMT` line; the first forced to 0) -/
def rdfIndexStartsOld (file : List Str) : List Nat :=
  match (List.range file.length).filter (fun i => isFmt (file.getD i [])) with
  | [] => []
  | _ :: t => 0 :: t

/-- after the `fix:` commit the stored position is the line *after* each `$RFMT/$MFMT` line (the first stays 0),
which is where `_read_block` expects to start when `_tell > 0` -/
def rdfIndexStarts (file : List Str) : List Nat :=
  match (List.range file.length).filter (fun i => isFmt (file.getD i [])) with
  | [] => []
  | _ :: t => 0 :: t.map (· + 1)

def rdfGetItemWith (starts : List Str → List Nat) (rs : RBlock → R ρ) (bufSize : Nat) (file : List Str) (i : Nat) : R ρ :=
  match (starts file)[i]? with
  | none => throw .indexError
  | some s => do
    let (b, _) ← rdfReadBlock bufSize i (file.drop s)
    rs b

def rdfGetItem (rs : RBlock → R ρ) (bufSize : Nat) (file : List Str) (i : Nat) : R ρ :=
  rdfGetItemWith rdfIndexStarts rs bufSize file i

end ChythonModel.Model.C11
