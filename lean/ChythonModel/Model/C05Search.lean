import ChythonModel.Model.C05Kekule
/-!
# C05 — `_kekule_component`: the backtracking bond-assignment search of chython/algorithms/aromatics/kekule.py,
as an exact functional model (core Lean only)

The Python function is a generator driven by an explicit stack of *levels* (`stack: List[List[(atom, prev, bond, depth)]]`).
Every iteration pops the last entry of the top level, appends `(atom, prev, bond)` to `path`, and then either

* completes (`len(path) == size`): the path goes through the pyridine-over-pyrrole buffer, the top level is deleted
  and `path` is cut back to the depth stored in the last entry of the level below;
* dies (`del stack[-1]` + the same cut);
* grows the top level (entries appended / the closing entry inserted at position 0 / ring closures written straight
  into `path` and their pending entries removed);
* forks: the alternative levels are copies of the top level with other bond orders, pushed above it; the entry
  left on top of the level below carries `len(path)` so that the cut restores the path of the fork.

Because a level is only touched while it is the top one, and the depth stored on top of the level below is always
the length of the path at the fork, the explicit stack is exactly the continuation of a depth-first recursion:
`explore level path` = "run until this level completes or dies", a fork = explore the alternatives (last pushed
first) with the same path. That recursion is what is written here; same traversal order, same choice points, same
exceptions (`IndexError` of `pop` on an empty level, `ValueError` of `list.remove` / of unpacking three fork
neighbours, `KeyError` of `rings[atom]`, `RuntimeError` of `next(iter(()))` inside a generator).

* `plan` is the whole `elif atom != start:` body as a pure decision: what is inserted at position 0, which closures
  are written, which alternative continuations are opened (in exploration order).
* `explore` is defined by **well-founded recursion** on (atoms not yet on the path, pending entries whose atom is
  already on the path, length of the level): there is no fuel, termination is part of the definition being accepted.
* `feed` / `bufferise` is the `buffer_size` logic (a causal transducer on the sequence of complete paths).
* `hashed_path` is always the set of first components of `path` (it is recomputed so after every cut and extended
  with the first component of every appended entry), so it is modelled as that function of `path`.
* `double_bonded` / `pyrroles` are sets of which only membership, emptiness and — for `double_bonded` —
  `next(iter(...))` are observed; they arrive as duplicate-free lists in the set's iteration order.
* `limit` caps the number of complete paths collected (the Python generator is lazy; `kekule()` takes one).
-/
namespace ChythonModel.Model.C05S
open ChythonModel.Model ChythonModel.Model.C05

/-- stack entry `(current atom, previous atom, bond, path depth for cutting)` -/
structure Entry where
  atom : Nat
  prev : Nat
  bond : Nat
  tag : Option Nat
  deriving Repr, DecidableEq, Inhabited

/-- path entry `(atom, prev_atom, bond)` -/
abbrev PEntry := Nat × Nat × Nat
abbrev Path := List PEntry
/-- one level of the stack, in Python list order (`pop()` takes the last element) -/
abbrev Level := List Entry

structure Ctx where
  rings : Adj          -- the component: `dict[int, list[int]]` in insertion order
  db : List Nat        -- `double_bonded` (after the possible `add(start)`)
  pyr : List Nat       -- `pyrroles`
  start : Nat
  size : Nat           -- `sum(len(x) for x in rings.values()) // 2`
  deriving Repr, Inhabited

/-- `x in hashed_path` -/
def hashedIn (path : Path) (x : Nat) : Bool := path.any (·.1 == x)

inductive Plan where
  | crash (e : String)
  | dead
  /-- `ins0`: `stack[-1].insert(0, …)`; `clos`: closures appended to `path` as `(c, atom, 1)` whose pending entry
      `(atom, c, 1, None)` is removed from the level; `branches`: entries appended to (a copy of) the level, one list
      per continuation, in exploration order -/
  | go (ins0 : Option Entry) (clos : List Nat) (branches : List (List Entry))
  deriving Repr, Inhabited

def mk (a p b : Nat) : Entry := ⟨a, p, b, none⟩
def mkT (a p b t : Nat) : Entry := ⟨a, p, b, some t⟩

/-- `for next_atom in rings[atom]:` … the three buckets -/
def hasLoop (c : Ctx) (prev : Nat) (nbrs : List Nat) : Bool :=
  c.start != prev && nbrs.contains c.start && c.start != 0      -- `if loop:` is a truth test of the atom number
def closuresOf (c : Ctx) (prev : Nat) (hashed : Nat → Bool) (nbrs : List Nat) : List Nat :=
  nbrs.filter fun x => x != prev && x != c.start && hashed x
def forStackOf (c : Ctx) (prev : Nat) (hashed : Nat → Bool) (nbrs : List Nat) : List Nat :=
  nbrs.filter fun x => x != prev && x != c.start && !hashed x

/-- the `if loop:` block: `none` = the level is deleted; otherwise the entry inserted at position 0 and the value of
    `bond` afterwards -/
def loopStage (c : Ctx) (atom bond : Nat) (loop : Bool) (fs : List Nat) : Option (Option Entry × Nat) :=
  if loop then
    if bond == 2 then
      if !c.db.isEmpty then some (some (mk c.start atom 1), bond) else none
    else if !c.db.isEmpty then
      if !fs.isEmpty || c.db.contains atom || c.pyr.contains atom then some (some (mk c.start atom 1), bond) else none
    else some (some (mk c.start atom 2), 2)
  else some (none, bond)

/-- the chain after the `if loop:` block -/
def growStage (c : Ctx) (atom bond len : Nat) (ins0 : Option Entry) (closures fs : List Nat) : Plan :=
  if bond == 2 || c.db.contains atom then
    .go ins0 closures [fs.map fun x => mk x atom 1]
  else
    match fs with
    | [x] =>
      if c.db.contains x then
        if c.pyr.contains atom then .go ins0 [] [[mk x atom 1]] else .dead
      else if c.pyr.contains atom then .go ins0 [] [[mk x atom 2], [mkT x atom 1 len]]
      else .go ins0 (closures.take 1) [[mk x atom 2]]
    | [] => if !closures.isEmpty && !c.pyr.contains atom then .dead else .go ins0 [] [[]]
    | [x1, x2] =>
      if c.db.contains x1 then
        if c.db.contains x2 then
          if c.pyr.contains atom then .go ins0 [] [[mk x1 atom 1, mk x2 atom 1]] else .dead
        else if c.pyr.contains atom then .go ins0 [] [[mk x1 atom 1, mk x2 atom 2], [mk x1 atom 1, mkT x2 atom 1 len]]
        else .go ins0 [] [[mk x1 atom 1, mk x2 atom 2]]
      else if c.db.contains x2 then
        if c.pyr.contains atom then .go ins0 [] [[mk x2 atom 1, mk x1 atom 2], [mk x1 atom 1, mkT x2 atom 1 len]]
        else .go ins0 [] [[mk x2 atom 1, mk x1 atom 2]]
      else if c.pyr.contains atom then
        .go ins0 [] [[mk x1 atom 1, mk x2 atom 2], [mk x2 atom 1, mkT x1 atom 2 len], [mk x1 atom 1, mkT x2 atom 1 len]]
      else .go ins0 [] [[mk x2 atom 1, mk x1 atom 2], [mk x1 atom 1, mkT x2 atom 2 len]]
    | _ => .crash "ValueError"      -- `next_atom1, next_atom2 = for_stack`

/-- the body of `elif atom != start:`; `len` = `len(path)` (current entry included) -/
def plan (c : Ctx) (atom prev bond : Nat) (hashed : Nat → Bool) (len : Nat) : Plan :=
  match c.rings.lookup atom with
  | none => .crash "KeyError"
  | some nbrs =>
    match loopStage c atom bond (hasLoop c prev nbrs) (forStackOf c prev hashed nbrs) with
    | none => .dead
    | some (ins0, bond') =>
      growStage c atom bond' len ins0 (closuresOf c prev hashed nbrs) (forStackOf c prev hashed nbrs)

/-- `for c in clos: stack[-1].remove((atom, c, 1, None))`; `none` = `ValueError` -/
def removeAll (atom : Nat) : Level → List Nat → Option Level
  | l, [] => some l
  | l, x :: xs => if l.contains (mk atom x 1) then removeAll atom (l.erase (mk atom x 1)) xs else none

/-- complete paths found so far (in order) and the exception that ended the generator, if any -/
structure Res where
  found : List Path
  crash : Option String
  deriving Repr, DecidableEq, Inhabited

/-- run the continuations one after the other until one crashes or `limit` complete paths are collected -/
def seqBranches {β : Type} : List β → (β → Nat → Res) → Nat → Res
  | [], _, _ => ⟨[], none⟩
  | b :: rest, f, limit =>
    let r := f b limit
    if r.crash.isSome || limit ≤ r.found.length then r
    else
      let r2 := seqBranches rest f (limit - r.found.length)
      ⟨r.found ++ r2.found, r2.crash⟩

/-- atoms of the component that are not on the path -/
def unvisited (c : Ctx) (path : Path) : Nat := c.rings.countP fun p => !hashedIn path p.1
/-- pending entries whose atom is already on the path (the closing entries `(start, …)` excepted) -/
def stale (c : Ctx) (path : Path) (level : Level) : Nat := level.countP fun e => hashedIn path e.atom && e.atom != c.start

def insert0 (ins0 : Option Entry) (l : Level) : Level := match ins0 with | some e => e :: l | none => l

/-! ### what `plan` promises (used by the termination proof and by `Proofs/C05Search.lean`) -/

theorem mem_closuresOf {c : Ctx} {prev : Nat} {hashed : Nat → Bool} {nbrs : List Nat} {x : Nat}
    (h : x ∈ closuresOf c prev hashed nbrs) : x ∈ nbrs ∧ x ≠ prev ∧ x ≠ c.start ∧ hashed x = true := by
  simp only [closuresOf, List.mem_filter, Bool.and_eq_true, bne_iff_ne, ne_eq] at h
  exact ⟨h.1, h.2.1.1, h.2.1.2, h.2.2⟩

theorem mem_forStackOf {c : Ctx} {prev : Nat} {hashed : Nat → Bool} {nbrs : List Nat} {x : Nat}
    (h : x ∈ forStackOf c prev hashed nbrs) : x ∈ nbrs ∧ x ≠ prev ∧ x ≠ c.start ∧ hashed x = false := by
  simp only [forStackOf, List.mem_filter, Bool.and_eq_true, bne_iff_ne, ne_eq, Bool.not_eq_true'] at h
  exact ⟨h.1, h.2.1.1, h.2.1.2, h.2.2⟩

/-- an entry pushed for a forward neighbour -/
def Fwd (atom : Nat) (fs : List Nat) (e : Entry) : Prop :=
  e.atom ∈ fs ∧ e.prev = atom ∧ (e.bond = 1 ∨ e.bond = 2)

theorem fwd_mk {atom x b : Nat} {fs : List Nat} (hx : x ∈ fs) (hb : b = 1 ∨ b = 2) : Fwd atom fs (mk x atom b) :=
  ⟨hx, rfl, hb⟩
theorem fwd_mkT {atom x b t : Nat} {fs : List Nat} (hx : x ∈ fs) (hb : b = 1 ∨ b = 2) : Fwd atom fs (mkT x atom b t) :=
  ⟨hx, rfl, hb⟩

theorem loopStage_spec {c : Ctx} {atom bond : Nat} {loop : Bool} {fs : List Nat} {ins0 : Option Entry} {bond' : Nat}
    (h : loopStage c atom bond loop fs = some (ins0, bond')) :
    (∀ e0, ins0 = some e0 → loop = true ∧ e0.atom = c.start ∧ e0.prev = atom ∧ (e0.bond = 1 ∨ e0.bond = 2) ∧ e0.tag = none) := by
  unfold loopStage at h
  intro e0 he
  subst he
  split at h
  · rename_i hl
    refine ⟨hl, ?_⟩
    repeat' split at h
    all_goals first
      | (simp only [Option.some.injEq, Prod.mk.injEq] at h; obtain ⟨h1, -⟩ := h; subst h1; simp [mk])
      | simp at h
  · simp at h

theorem growStage_spec {c : Ctx} {atom bond len : Nat} {ins0 i0 : Option Entry} {closures fs clos : List Nat}
    {branches : List (List Entry)} (h : growStage c atom bond len ins0 closures fs = .go i0 clos branches) :
    i0 = ins0 ∧ (∀ x ∈ clos, x ∈ closures) ∧ ∀ b ∈ branches, ∀ e ∈ b, Fwd atom fs e := by
  unfold growStage at h
  split at h
  · injection h with h1 h2 h3
    subst h1 h2 h3
    refine ⟨rfl, fun _ hx => hx, ?_⟩
    intro b hb e he
    simp only [List.mem_singleton] at hb
    subst hb
    obtain ⟨x, hx, rfl⟩ := List.mem_map.1 he
    exact fwd_mk hx (Or.inl rfl)
  · split at h
    · -- [x]
      repeat' split at h
      all_goals first
        | (injection h with h1 h2 h3
           subst h1 h2 h3
           refine ⟨rfl, ?_, ?_⟩
           · intro x hx; first | exact (List.mem_of_mem_take hx) | (simp at hx)
           · intro b hb e he
             simp only [List.mem_cons, List.not_mem_nil, or_false] at hb
             rcases hb with rfl | rfl <;> simp only [List.mem_cons, List.not_mem_nil, or_false] at he <;>
               (try rcases he with rfl | rfl) <;> (try subst he) <;>
               first | exact fwd_mk (by simp) (by simp) | exact fwd_mkT (by simp) (by simp))
        | (exact Plan.noConfusion h)
    · -- []
      split at h
      · exact Plan.noConfusion h
      · injection h with h1 h2 h3
        subst h1 h2 h3
        refine ⟨rfl, by simp, ?_⟩
        intro b hb e he
        simp only [List.mem_singleton] at hb
        subst hb
        simp at he
    · -- [x1, x2]
      repeat' split at h
      all_goals first
        | (injection h with h1 h2 h3
           subst h1 h2 h3
           refine ⟨rfl, by simp, ?_⟩
           intro b hb e he
           simp only [List.mem_cons, List.not_mem_nil, or_false] at hb
           rcases hb with rfl | rfl | rfl <;> simp only [List.mem_cons, List.not_mem_nil, or_false] at he <;>
             rcases he with rfl | rfl <;>
             first | exact fwd_mk (by simp) (by simp) | exact fwd_mkT (by simp) (by simp))
        | (exact Plan.noConfusion h)
    · exact Plan.noConfusion h

/-- everything a `go` plan contains, in terms of the neighbour list of the atom -/
theorem plan_spec {c : Ctx} {atom prev bond len : Nat} {hashed : Nat → Bool} {ins0 : Option Entry} {clos : List Nat}
    {branches : List (List Entry)} (h : plan c atom prev bond hashed len = .go ins0 clos branches) :
    ∃ nbrs, c.rings.lookup atom = some nbrs ∧
      (∀ e0, ins0 = some e0 → c.start ∈ nbrs ∧ c.start ≠ prev ∧ e0.atom = c.start ∧ e0.prev = atom ∧
        (e0.bond = 1 ∨ e0.bond = 2) ∧ e0.tag = none) ∧
      (∀ x ∈ clos, x ∈ nbrs ∧ x ≠ prev ∧ x ≠ c.start ∧ hashed x = true) ∧
      (∀ b ∈ branches, ∀ e ∈ b, e.atom ∈ nbrs ∧ e.atom ≠ prev ∧ e.atom ≠ c.start ∧ hashed e.atom = false ∧
        e.prev = atom ∧ (e.bond = 1 ∨ e.bond = 2)) := by
  unfold plan at h
  split at h
  · exact Plan.noConfusion h
  · rename_i nbrs hn
    refine ⟨nbrs, hn, ?_⟩
    split at h
    · exact Plan.noConfusion h
    · rename_i i0 bond' hls
      obtain ⟨rfl, hc, hb⟩ := growStage_spec h
      refine ⟨?_, ?_, ?_⟩
      · intro e0 he
        obtain ⟨hl, h1, h2, h3, h4⟩ := loopStage_spec hls e0 he
        simp only [hasLoop, Bool.and_eq_true, bne_iff_ne, ne_eq, List.contains_iff_mem] at hl
        exact ⟨hl.1.2, hl.1.1, h1, h2, h3, h4⟩
      · intro x hx
        exact mem_closuresOf (hc x hx)
      · intro b hbb e he
        obtain ⟨h1, h2, h3⟩ := hb b hbb e he
        obtain ⟨g1, g2, g3, g4⟩ := mem_forStackOf h1
        exact ⟨g1, g2, g3, g4, h2, h3⟩

/-! ### the measure -/

theorem hashedIn_append (p q : Path) (x : Nat) : hashedIn (p ++ q) x = (hashedIn p x || hashedIn q x) := by
  simp [hashedIn]

theorem countP_lt_of_mem {α : Type} {p q : α → Bool} :
    ∀ {l : List α}, (∀ x ∈ l, p x = true → q x = true) → ∀ {a : α}, a ∈ l → q a = true → p a = false →
      l.countP p < l.countP q := by
  intro l
  induction l with
  | nil => intro _ a ha; simp at ha
  | cons y ys ih =>
    intro hpq a ha hq hp
    have hle : ys.countP p ≤ ys.countP q :=
      List.countP_mono_left fun x hx => hpq x (List.mem_cons_of_mem _ hx)
    rcases List.mem_cons.1 ha with rfl | ha'
    · simp only [List.countP_cons, hq, hp]
      simp only [if_true, Bool.false_eq_true, if_false]
      omega
    · have := ih (fun x hx => hpq x (List.mem_cons_of_mem _ hx)) ha' hq hp
      have h1 := hpq y (List.mem_cons_self)
      simp only [List.countP_cons]
      cases hpy : p y <;> cases hqy : q y
      · simp; omega
      · simp; omega
      · rw [h1 hpy] at hqy; exact Bool.noConfusion hqy
      · simp; omega

theorem lookup_mem {α : Type} : ∀ {l : List (Nat × α)} {k : Nat} {v : α}, l.lookup k = some v → (k, v) ∈ l := by
  intro l
  induction l with
  | nil => intro k v h; simp at h
  | cons p ps ih =>
    intro k v h
    obtain ⟨pk, pv⟩ := p
    by_cases hk : k = pk
    · subst hk
      simp only [List.lookup_cons_self, Option.some.injEq] at h
      subst h
      exact List.mem_cons_self
    · have hne : (k == pk) = false := by simpa using hk
      rw [List.lookup_cons, hne] at h
      exact List.mem_cons_of_mem _ (ih h)

theorem unvisited_mono {c : Ctx} {p p' : Path} (h : ∀ x, hashedIn p x = true → hashedIn p' x = true) :
    unvisited c p' ≤ unvisited c p := by
  unfold unvisited
  apply List.countP_mono_left
  intro x _ hx
  cases hp : hashedIn p x.1
  · rfl
  · rw [h _ hp] at hx; exact hx

theorem unvisited_lt {c : Ctx} {p p' : Path} (h : ∀ x, hashedIn p x = true → hashedIn p' x = true) {a : Nat}
    {v : List Nat} (hk : c.rings.lookup a = some v) (h0 : hashedIn p a = false) (h1 : hashedIn p' a = true) :
    unvisited c p' < unvisited c p := by
  unfold unvisited
  refine countP_lt_of_mem ?_ (lookup_mem hk) (by simp [h0]) (by simp [h1])
  intro x _ hx
  cases hp : hashedIn p x.1
  · rfl
  · rw [h _ hp] at hx; exact hx

theorem stale_congr {c : Ctx} {p p' : Path} (l : Level)
    (h : ∀ e ∈ l, e.atom ≠ c.start → hashedIn p' e.atom = hashedIn p e.atom) : stale c p' l = stale c p l := by
  unfold stale
  apply List.countP_congr
  intro e he
  by_cases hs : e.atom = c.start
  · simp [hs]
  · simp [h e he hs]

theorem stale_append (c : Ctx) (p : Path) (l l' : Level) : stale c p (l ++ l') = stale c p l + stale c p l' := by
  simp [stale]

theorem stale_fresh {c : Ctx} {p : Path} {l : Level} (h : ∀ e ∈ l, hashedIn p e.atom = false) : stale c p l = 0 := by
  unfold stale
  rw [List.countP_eq_zero]
  intro e he
  simp [h e he]

theorem stale_removeAll {c : Ctx} {p : Path} {atom : Nat} :
    ∀ {xs : List Nat} {l base : Level}, removeAll atom l xs = some base → stale c p base ≤ stale c p l := by
  intro xs
  induction xs with
  | nil => intro l base h; simp only [removeAll, Option.some.injEq] at h; subst h; exact Nat.le_refl _
  | cons x xs ih =>
    intro l base h
    simp only [removeAll] at h
    split at h
    · have h1 := ih h
      have h2 : stale c p (l.erase (mk atom x 1)) ≤ stale c p l := by
        unfold stale
        exact List.Sublist.countP_le (List.erase_sublist)
      omega
    · simp at h

theorem stale_insert0 {c : Ctx} {p : Path} {ins0 : Option Entry} {l : Level}
    (h : ∀ e0, ins0 = some e0 → e0.atom = c.start) : stale c p (insert0 ins0 l) = stale c p l := by
  cases ins0 with
  | none => rfl
  | some e0 => simp [insert0, stale, List.countP_cons, h e0 rfl]

theorem level_split {level : Level} {e : Entry} (h : level.getLast? = some e) : level = level.dropLast ++ [e] := by
  obtain ⟨ys, rfl⟩ := List.getLast?_eq_some_iff.1 h
  simp

/-- lexicographic order on the measure, unfolded -/
theorem lex3 {a1 a b1 b c1 c : Nat} (h : a1 < a ∨ (a1 = a ∧ (b1 < b ∨ (b1 = b ∧ c1 < c)))) :
    Prod.Lex (· < ·) (Prod.Lex (· < ·) (· < ·)) (a1, b1, c1) (a, b, c) := by
  rcases h with h | ⟨rfl, h | ⟨rfl, h⟩⟩
  · exact Prod.Lex.left _ _ h
  · exact Prod.Lex.right _ (Prod.Lex.left _ _ h)
  · exact Prod.Lex.right _ (Prod.Lex.right _ h)

/-- the closing entry `(start, …)` was popped: nothing is planned, the level just lost an entry -/
theorem measure_start {c : Ctx} {level : Level} {path : Path} {e : Entry} (hl : level.getLast? = some e)
    (hs : e.atom = c.start) :
    let path1 := path ++ [(e.atom, e.prev, e.bond)]
    unvisited c path1 ≤ unvisited c path ∧ stale c path1 level.dropLast ≤ stale c path level ∧
      level.dropLast.length < level.length := by
  intro path1
  refine ⟨unvisited_mono fun x hx => by simp [path1, hashedIn_append, hx], ?_, ?_⟩
  · have h1 : stale c path1 level.dropLast = stale c path level.dropLast := by
      apply stale_congr
      intro e' _ hne
      simp only [path1, hashedIn_append, hashedIn, List.any_cons, List.any_nil, Bool.or_false]
      have : (e.atom == e'.atom) = false := by
        simp only [beq_eq_false_iff_ne, ne_eq]; intro h; exact hne (h ▸ hs)
      simp [this]
    rw [h1]
    unfold stale
    exact List.Sublist.countP_le (List.dropLast_sublist level)
  · have := level_split hl
    rw [List.length_dropLast]
    have : level.length ≠ 0 := by
      intro h0
      rw [List.length_eq_zero_iff] at h0
      simp [h0] at hl
    omega

/-- every continuation a plan opens is smaller in the measure -/
theorem measure_branch {c : Ctx} {level : Level} {path : Path} {e : Entry} (hl : level.getLast? = some e)
    (hs : e.atom ≠ c.start) {ins0 : Option Entry} {clos : List Nat} {branches : List (List Entry)}
    (hp : plan c e.atom e.prev e.bond (hashedIn (path ++ [(e.atom, e.prev, e.bond)]))
            (path ++ [(e.atom, e.prev, e.bond)]).length = .go ins0 clos branches)
    {base : Level} (hr : removeAll e.atom (insert0 ins0 level.dropLast) clos = some base)
    {b : List Entry} (hb : b ∈ branches) :
    let path2 := (path ++ [(e.atom, e.prev, e.bond)]) ++ clos.map fun x => (x, e.atom, 1)
    unvisited c path2 < unvisited c path ∨
      (unvisited c path2 = unvisited c path ∧ stale c path2 (base ++ b) < stale c path level) := by
  intro path2
  obtain ⟨nbrs, hn, hins, hclos, hbr⟩ := plan_spec hp
  have hmono : ∀ x, hashedIn path x = true → hashedIn path2 x = true := by
    intro x hx; simp [path2, hashedIn_append, hx]
  have hself : hashedIn path2 e.atom = true := by
    simp [path2, hashedIn_append, hashedIn]
  cases h0 : hashedIn path e.atom
  · exact Or.inl (unvisited_lt hmono hn h0 hself)
  · right
    -- the atom was on the path already: the set of visited atoms is unchanged
    have hsame : ∀ x, hashedIn path2 x = hashedIn path x := by
      intro x
      cases hx : hashedIn path x
      · simp only [path2, hashedIn_append, hx, Bool.false_or]
        have h1 : hashedIn [(e.atom, e.prev, e.bond)] x = false := by
          simp only [hashedIn, List.any_cons, List.any_nil, Bool.or_false, beq_eq_false_iff_ne, ne_eq]
          intro h; rw [← h, h0] at hx; exact Bool.noConfusion hx
        rw [h1, Bool.false_or]
        simp only [hashedIn, List.any_map, List.any_eq_false, Function.comp, beq_iff_eq]
        intro y hy hyx
        have := (hclos y hy).2.2.2
        simp only [hashedIn_append, hashedIn, List.any_cons, List.any_nil, Bool.or_false] at this
        subst hyx
        have hx' : hashedIn path y = false := hx
        simp only [List.any_append, List.any_cons, List.any_nil, Bool.or_false] at this
        change (hashedIn path y || (e.atom == y)) = true at this
        rw [hx'] at this
        simp only [Bool.false_or, beq_iff_eq] at this
        rw [← this, h0] at hx
        exact Bool.noConfusion hx
      · exact hmono x hx
    have hu : unvisited c path2 = unvisited c path := by
      unfold unvisited
      apply List.countP_congr
      intro x _
      simp [hsame]
    refine ⟨hu, ?_⟩
    have h1 : stale c path2 (base ++ b) = stale c path (base ++ b) := stale_congr _ fun e' _ _ => hsame _
    have h2 : stale c path b = 0 := by
      apply stale_fresh
      intro e' he'
      have := (hbr b hb e' he').2.2.2.1
      cases hx : hashedIn path e'.atom
      · rfl
      · have h3 := hmono e'.atom hx
        simp only [hashedIn_append, Bool.or_eq_false_iff] at this
        rw [this.1] at hx
        exact Bool.noConfusion hx
    have h3 : stale c path base ≤ stale c path level.dropLast := by
      have := stale_removeAll (c := c) (p := path) hr
      rw [stale_insert0 fun e0 he0 => (hins e0 he0).2.2.1] at this
      exact this
    have h4 : stale c path level = stale c path level.dropLast + 1 := by
      conv => lhs; rw [level_split hl]
      rw [stale_append]
      simp [stale, h0, hs]
    rw [h1, stale_append, h2]
    omega

/-! ### the search -/

/-- process the top level until it completes or dies (`while stack:` restricted to one level and what is pushed
    above it) -/
def explore (c : Ctx) (level : Level) (path : Path) (limit : Nat) : Res :=
  match hl : level.getLast? with
  | none => ⟨[], some "IndexError"⟩                 -- `stack[-1].pop()` on an empty list
  | some e =>
    if (path ++ [(e.atom, e.prev, e.bond)]).length == c.size then ⟨[path ++ [(e.atom, e.prev, e.bond)]], none⟩
    else if hs : e.atom = c.start then explore c level.dropLast (path ++ [(e.atom, e.prev, e.bond)]) limit
    else
      match hp : plan c e.atom e.prev e.bond (hashedIn (path ++ [(e.atom, e.prev, e.bond)]))
                  (path ++ [(e.atom, e.prev, e.bond)]).length with
      | .crash s => ⟨[], some s⟩
      | .dead => ⟨[], none⟩
      | .go ins0 clos branches =>
        match hr : removeAll e.atom (insert0 ins0 level.dropLast) clos with
        | none => ⟨[], some "ValueError"⟩           -- `stack[-1].remove(...)`: no such pending entry
        | some base =>
          seqBranches branches.attach
            (fun b lim => explore c (base ++ b.1)
              ((path ++ [(e.atom, e.prev, e.bond)]) ++ clos.map fun x => (x, e.atom, 1)) lim) limit
termination_by (unvisited c path, stale c path level, level.length)
decreasing_by
  · obtain ⟨h1, h2, h3⟩ := measure_start (c := c) (path := path) hl hs
    apply lex3
    omega
  · have := measure_branch (c := c) (path := path) hl hs hp hr b.2
    apply lex3
    omega

/-! ### the domain `__prepare_rings` hands over -/

/-- decidable form of "the component is a symmetric simple graph with unique keys, every atom has two or three ring
    neighbours, atom numbers ≥ 1" (`Proofs/C05SearchSound.lean: GraphOK`); the driver reports it for every request -/
def graphOKb (rings : Adj) : Bool :=
  decide (rings.map (·.1)).Nodup &&
  rings.all (fun p => decide p.2.Nodup && !p.2.contains p.1 && (decide (2 ≤ p.2.length) && decide (p.2.length ≤ 3)) &&
    p.2.all fun w => (rings.get w).contains p.1) &&
  !rings.any (·.1 == 0)

/-! ### start selection -/

/-- the code before the `while` loop: the start atom, `double_bonded` as the loop sees it, and the initial levels in
    exploration order (the last element of `stack` first). `error` = the exception type. -/
def initial (rings : Adj) (db pyr : List Nat) : Except String (Ctx × List Level) :=
  let size := (rings.map (·.2.length)).sum / 2
  match db with
  | s :: _ =>                                           -- `start = next(iter(double_bonded))`
    match rings.lookup s with
    | none => .error "KeyError"
    | some [] => .error "RuntimeError"                  -- `next(iter(()))`: StopIteration inside a generator
    | some (f :: _) => .ok (⟨rings, db, pyr, s, size⟩, [[⟨f, s, 1, some 0⟩]])
  | [] =>
    match rings.find? fun p => p.2.length == 2 && !pyr.contains p.1 with
    | some (s, ms) => .ok (⟨rings, [], pyr, s, size⟩, (ms.map fun x => [⟨x, s, 1, some 0⟩]).reverse)
    | none =>
      match rings.find? fun p => p.2.length == 2 with
      | some (s, ms) => .ok (⟨rings, [], pyr, s, size⟩, (ms.map fun x => [⟨x, s, 1, some 0⟩]).reverse)
      | none =>
        match rings with
        | [] => .error "RuntimeError"
        | (s, ms) :: _ => .ok (⟨rings, [s], pyr, s, size⟩, (ms.map fun x => [⟨x, s, 2, some 0⟩]).reverse)

/-- the complete paths in the order the loop reaches `len(path) == size` -/
def searchRaw (rings : Adj) (db pyr : List Nat) (limit : Nat) : Res :=
  match initial rings db pyr with
  | .error e => ⟨[], some e⟩
  | .ok (c, levels) => seqBranches levels (fun l lim => explore c l [] lim) limit

/-! ### the pyridine-over-pyrrole buffer -/

/-- `g[n]`: sum of the bond orders of the path entries at atom `n` -/
def total (path : Path) (n : Nat) : Nat :=
  (path.map fun e => (if e.1 == n then e.2.2 else 0) + (if e.2.1 == n then e.2.2 else 0)).sum

/-- `sum(b == 2 and n in pyrroles for n, b in g.items()) >= 2` -/
def pyrrolePairs (pyr : List Nat) (path : Path) : Bool := 2 ≤ (pyr.filter fun n => total path n == 2).length

structure Buf where
  size : Nat                -- `buffer_size`
  held : List Path          -- `buffer`
  deriving Repr, DecidableEq, Inhabited

/-- what one complete path does to the buffer, and what is yielded at that moment -/
def feed (pyr : List Nat) (b : Buf) (p : Path) : Buf × List Path :=
  if !pyr.isEmpty && b.size != 0 then
    if pyrrolePairs pyr p then
      if b.held.length == b.size then (⟨0, []⟩, b.held ++ [p])
      else (⟨b.size, b.held ++ [p]⟩, [])
    else (⟨0, []⟩, p :: b.held)
  else (b, [p])

def feedAll (pyr : List Nat) : Buf → List Path → Buf × List Path
  | b, [] => (b, [])
  | b, p :: ps =>
    let (b1, y1) := feed pyr b p
    let (b2, y2) := feedAll pyr b1 ps
    (b2, y1 ++ y2)

inductive Status where
  | done                    -- generator exhausted
  | raised                  -- `raise InvalidAromaticRing('kekule form not found …')`
  | crashed (e : String)    -- any other exception
  | more                    -- `limit` complete paths collected, the generator was not run further
  deriving Repr, DecidableEq, Inhabited

/-- `_kekule_component(rings, double_bonded, pyrroles, buffer_size)`: the sequence of yielded paths and how the
    generator ended (observed up to `limit` complete paths) -/
def kekuleComponent (rings : Adj) (db pyr : List Nat) (bufferSize limit : Nat) : List Path × Status :=
  let r := searchRaw rings db pyr limit
  let (b, ys) := feedAll pyr ⟨bufferSize, []⟩ r.found
  match r.crash with
  | some e => (ys, .crashed e)
  | none =>
    if limit ≤ r.found.length then (ys, .more)
    else if r.found.isEmpty then (ys, .raised)
    else (ys ++ b.held, .done)

end ChythonModel.Model.C05S
