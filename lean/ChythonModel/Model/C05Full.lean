import ChythonModel.Model.C05Rules
import ChythonModel.Model.C05Search
/-!
# C05 — `MoleculeContainer.kekule()` as the composition of the modelled pieces

`kekule()` = `__fix_rings` (`fixRings`, given the mappings the matcher yielded) → `__prepare_rings` (`prepareRings`,
given `self.sssr`) → split of the skeleton into components (breadth first from a start atom; the start atoms come
from `set.pop()` and the first element of `double_bonded & component` from set iteration: both are observed and
arrive as inputs, and are *checked* here: every component handed in must be the breadth-first component of its first
key, the components must partition the skeleton, the sets must be the restrictions of the prepared sets) →
`_kekule_component` per component (`kekuleComponent`), first yield of each (`next(lazy_product(...))`) → the
assignment loop `bonds[n][m]._order = b` → `calc_implicit` of every atom of the paths (C04's model).
Returns the value `kekule()` returns and the molecule it leaves behind.
-/
namespace ChythonModel.Model.C05F
open ChythonModel.Model ChythonModel.Model.C05 ChythonModel.Model.C05S

/-- one recorded call of `_kekule_component` -/
structure Comp where
  rings : Adj
  db : List Nat        -- iteration order of `double_bonded & component.keys()`
  pyr : List Nat
  deriving Repr, Inhabited

/-- the component loop of `__kekule_full` for one start atom (`fuel` ≥ number of atoms; the queue empties earlier) -/
def bfs (rings : Adj) : Nat → List Nat → List Nat → List Nat
  | 0, _, comp => comp
  | _, [], comp => comp
  | fuel + 1, cur :: queue, comp =>
    let new := (rings.get cur).foldl (fun acc n => if comp.contains n || acc.contains n then acc else acc ++ [n]) []
    bfs rings fuel (queue ++ new) (comp ++ new)

def sameSet (a b : List Nat) : Bool := a.all b.contains && b.all a.contains

/-- is the list of recorded calls what `__kekule_full` must have produced from the prepared skeleton? -/
def compsOk (p : Prep) (cs : List Comp) : Bool :=
  let keys := cs.flatMap fun c => c.rings.keys
  sameSet keys p.rings.keys && decide keys.Nodup &&
  cs.all fun c =>
    match c.rings with
    | [] => false
    | (s, _) :: _ =>
      c.rings.keys == bfs p.rings (p.rings.length + 1) [s] [s] &&
      c.rings.all (fun kv => p.rings.lookup kv.1 == some kv.2) &&
      decide c.db.Nodup && sameSet c.db (p.dbl.filter c.rings.hasKey) &&
      decide c.pyr.Nodup && sameSet c.pyr (p.pyrroles.filter c.rings.hasKey)

inductive Outcome where
  | ok (ret : Bool) (m : Mol)
  | invalid                 -- `InvalidAromaticRing`
  | crash (e : String)
  | badInput                -- the recorded components do not belong to this molecule
  deriving Repr, Inhabited

/-- first item of every component generator, in order -/
def firstYields (buf : Nat) : List Comp → Except Outcome (List Path)
  | [] => .ok []
  | c :: cs =>
    match kekuleComponent c.rings c.db c.pyr buf (buf + 2) with
    | (y :: _, _) => (firstYields buf cs).map (y :: ·)
    | ([], .crashed e) => .error (.crash e)
    | ([], _) => .error .invalid

/-- `for n, m, b in kekule: bonds[n][m]._order = b` -/
def applyPath (m : Mol) (p : Path) : Mol := p.foldl (fun m x => setOrder m x.1 x.2.1 x.2.2) m

def atomsOf (p : Path) : List Nat := (p.flatMap fun x => [x.1, x.2.1]).eraseDups

def kekuleFull (rules : List FixRule) (m : Mol) (maps : List (List (List (Nat × Nat)))) (sssr : List (List Nat))
    (buf : Nat) (cs : List Comp) : Outcome :=
  match fixRings rules m maps with
  | none => .crash "KeyError"
  | some fs =>
    let fixed := !fs.seen.isEmpty
    match prepareRings fs.mol sssr with
    | none => .invalid
    | some p =>
      let m1 := p.singles.foldl (fun m ab => setOrder m ab.1 ab.2 1) fs.mol
      if !compsOk p cs then .badInput
      else
        match firstYields buf cs with
        | .error o => o
        | .ok ys =>
          let path := ys.flatten
          if path.isEmpty then .ok fixed m1
          else
            match Valence.fixLoop (atomsOf path) (applyPath m1 path) with
            | none => .crash "calc_implicit"
            | some m2 => .ok true m2

end ChythonModel.Model.C05F
