import ChythonModel.Model.C20Bridge
/-!
# C20 — executable model of the conformer transfer of `chython/utils/rdkit.py` (core Lean only)

`to_rdkit_molecule`:

    conf = Conformer()
    for n, a in data.atoms(): conf.SetAtomPosition(mapping[n], (a.x, a.y, 0))
    conf.Set3D(False); mol.AddConformer(conf, assignId=True)
    if hasattr(data, '_conformers'):
        for c in data._conformers:
            conf = Conformer()
            for n, xyz in c.items(): conf.SetAtomPosition(mapping[n], xyz)
            mol.AddConformer(conf, assignId=True)                                   → `toConformers`

`from_rdkit_molecule`:

    if cs := data.GetConformers():
        for (_, atom), (x, y, _) in zip(mol.atoms(), cs[0].GetPositions()): atom.xy = (x, y)
        conformers = [{n: tuple(v) for n, v in enumerate(c.GetPositions(), 1)} for c in cs if c.Is3D()]
        if conformers: mol._conformers = conformers                                 → `fromConformers`

RDKit facts used (exercised by the `conformers` correspondence stream on every run, not proved): a fresh `Conformer()` has no
positions and is 3-D; `SetAtomPosition(i, v)` grows the conformer to `i + 1` positions when `i` is beyond its end, new positions
being the origin; `AddConformer` has the precondition "as many positions as the molecule has atoms" (`RuntimeError` otherwise).
Coordinates travel in the harness' exact unit (1/16).
-/
namespace ChythonModel.Model.C20
open ChythonModel.Model ChythonModel.Model.Stereo

abbrev P3 := Int × Int × Int

def origin : P3 := (0, 0, 0)

/-- an RDKit conformer: the `Is3D()` flag and the positions in atom-index order -/
structure RConf where
  is3D : Bool
  pos : List P3
  deriving Repr, DecidableEq, Inhabited

/-- `conf.SetAtomPosition(i, v)` -/
def setPos (ps : List P3) (i : Nat) (v : P3) : List P3 :=
  (if i < ps.length then ps else ps ++ List.replicate (i + 1 - ps.length) origin).set i v

/-- `for n, xyz in c.items(): conf.SetAtomPosition(mapping[n], xyz)` — `mapping[n]` raises `KeyError` for an unknown atom -/
def fillConf (ids : List Nat) : List (Nat × P3) → List P3 → Except BErr (List P3)
  | [], ps => .ok ps
  | (n, v) :: rest, ps =>
    match idxOf ids n with
    | .ok i => fillConf ids rest (setPos ps i v)
    | .error e => .error e

/-- `mol.AddConformer(conf, assignId=True)` on a molecule of `n` atoms -/
def addConf (n : Nat) (cs : List RConf) (c : RConf) : Except BErr (List RConf) :=
  if c.pos.length = n then .ok (cs ++ [c]) else .error .runtime

/-- the loop over `data._conformers` -/
def addConformers (ids : List Nat) : List (List (Nat × P3)) → List RConf → Except BErr (List RConf)
  | [], cs => .ok cs
  | d :: rest, cs =>
    match fillConf ids d [] with
    | .error e => .error e
    | .ok ps =>
      match addConf ids.length cs ⟨true, ps⟩ with
      | .error e => .error e
      | .ok cs' => addConformers ids rest cs'

/-- the conformers `to_rdkit_molecule` attaches: `ids` = atom numbers in `_atoms` order (`mapping[ids[i]] = i`), `xy` = the atoms'
coordinates in the same order, `confs` = `data._conformers` (`none` = attribute not set), each a dict in ITS OWN order -/
def toConformers (ids : List Nat) (xy : List (Int × Int)) (confs : Option (List (List (Nat × P3)))) :
    Except BErr (List RConf) :=
  match fillConf ids ((ids.zip xy).map fun (n, x, y) => (n, (x, y, 0))) [] with
  | .error e => .error e
  | .ok p0 =>
    match addConf ids.length [] ⟨false, p0⟩ with
    | .error e => .error e
    | .ok cs0 =>
      match confs with
      | none => .ok cs0
      | some l => addConformers ids l cs0

/-- `{n: tuple(v) for n, v in enumerate(c.GetPositions(), 1)}` -/
def keyed (ps : List P3) : List (Nat × P3) := (List.range' 1 ps.length).zip ps

/-- what `from_rdkit_molecule` takes from the conformers of a molecule of `n` atoms: the atoms' `xy` (`none` = left at the
default, there is no conformer) and `_conformers` (`none` = attribute not set) -/
def fromConformers (n : Nat) (cs : List RConf) : Option (List (Int × Int)) × Option (List (List (Nat × P3))) :=
  match cs with
  | [] => (none, none)
  | c0 :: _ =>
    let xy := (List.range n).map fun i => match c0.pos[i]? with
      | some (x, y, _) => (x, y)
      | none => (0, 0)                                  -- `zip` stops: the atom keeps its default coordinates
    let l := (cs.filter (·.is3D)).map fun c => keyed c.pos
    (some xy, if l.isEmpty then none else some l)

end ChythonModel.Model.C20
